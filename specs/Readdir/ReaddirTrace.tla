---------------------------- MODULE ReaddirTrace ----------------------------
(***************************************************************************)
(* Step validation of recorded directory listings (harness/vf_readdir.go)  *)
(* against ReaddirOps (C26).                                                *)
(*                                                                         *)
(* Lines:  reset  the directory of this history: per entry name length,     *)
(*                kind, whether the name contains ".." or a backslash       *)
(*         ids    fileid tokens LOOKUP / GETATTR report for every entry     *)
(*         list   a client starts listing at cookie 0                       *)
(*         call   one READDIR / READDIRPLUS call and its decoded reply      *)
(*         end    the client stopped (eof, error status, no progress, ...)   *)
(* Ghost state per listing: the set of entries received so far and the      *)
(* cookie the next call must continue from; per history: the fileid first   *)
(* reported for each entry.                                                 *)
(*                                                                         *)
(* Ideal level (verdict): ReaddirOps!ReplyBad on every reply, every entry   *)
(* is a name of the directory, none twice, fileids agree with LOOKUP and    *)
(* GETATTR and with earlier listings, eof only when all entries were        *)
(* returned, every listing ends with eof (or a justified TOOSMALL).         *)
(* Impl level (drift): number of entries and eof equal the code's paging    *)
(* rule (or the repaired one), the encoded size equals the XDR size of the  *)
(* decoded content.                                                         *)
(* The order in which the server lists the entries is not assumed.          *)
(***************************************************************************)
EXTENDS ReaddirOps, TLC, Json, IOUtils

CONSTANTS KnownDeviations,  \* subset of the Dev_ names below
          ImplLevel         \* "code" | "sized": the paging rule drift is measured against

TraceLog == ndJsonDeserialize(IOEnv.VF_TRACE)
N == Len(TraceLog)

VARIABLES l,      \* next line
          dir,    \* sequence of entry records of the current history
          listed, \* name lengths of the entries this server lists (backend order, without F18c names)
          fid,    \* index -> fileid token first seen in a listing (0 = not yet)
          idl,    \* index -> token from LOOKUP (0 = unknown)
          idg,    \* index -> token from GETATTR (0 = unknown)
          acc,    \* indices received in the current listing
          nextck, \* cookie the next call must carry
          open,   \* a listing is in progress
          lastst, \* status of the last call of the listing
          bad, dev, drift, stats
vars == <<l, dir, listed, fid, idl, idg, acc, nextck, open, lastst, bad, dev, drift, stats>>

Cur == TraceLog[l]
Known(d) == d \in KnownDeviations
Tag(S) == {[l |-> l, why |-> w] : w \in S}
Rng(s) == {s[i] : i \in DOMAIN s}
Idx == DOMAIN dir
SetMax(S) == CHOOSE x \in S : \A y \in S : y <= x

Init == /\ l = 1 /\ dir = << >> /\ listed = << >> /\ fid = << >> /\ idl = << >> /\ idg = << >>
        /\ acc = {} /\ nextck = 0 /\ open = FALSE /\ lastst = "none"
        /\ bad = {} /\ dev = {} /\ drift = {}
        /\ stats = [hist |-> 0, listings |-> 0, calls |-> 0, eof |-> 0, entries |-> 0, overflow |-> 0,
                    toosmall |-> 0, maxdir |-> 0, plus |-> 0, multi |-> 0, devsteps |-> 0]

StepReset ==
  /\ Cur.ev = "reset"
  /\ dir' = Cur.dir
  /\ listed' = LET keep == SelectSeq(Cur.dir, LAMBDA e : ~e.odd) IN [i \in DOMAIN keep |-> keep[i].len]
  /\ fid' = [i \in DOMAIN Cur.dir |-> 0] /\ idl' = [i \in DOMAIN Cur.dir |-> 0] /\ idg' = [i \in DOMAIN Cur.dir |-> 0]
  /\ acc' = {} /\ nextck' = 0 /\ open' = FALSE /\ lastst' = "none"
  /\ UNCHANGED <<bad, dev, drift>>
  /\ stats' = [stats EXCEPT !.hist = @ + 1, !.maxdir = Max2(@, Len(Cur.dir))]

\* LOOKUP / GETATTR fileids; compared with what listings reported before and will report later
StepIds ==
  /\ Cur.ev = "ids"
  /\ idl' = [i \in Idx |-> Cur.fl[i]] /\ idg' = [i \in Idx |-> Cur.fg[i]]
  /\ bad' = bad \cup Tag(IF \E i \in Idx : fid[i] # 0 /\ ((Cur.fl[i] # 0 /\ Cur.fl[i] # fid[i]) \/ (Cur.fg[i] # 0 /\ Cur.fg[i] # fid[i]))
                         THEN {"fileid of a listed entry differs from the fileid LOOKUP/GETATTR report for it"} ELSE {})
  /\ UNCHANGED <<dir, listed, fid, acc, nextck, open, lastst, dev, drift, stats>>

StepList ==
  /\ Cur.ev = "list"
  /\ acc' = {} /\ nextck' = 0 /\ open' = TRUE /\ lastst' = "none"
  /\ bad' = bad \cup Tag(IF open THEN {"previous listing has no end line"} ELSE {})
  /\ UNCHANGED <<dir, listed, fid, idl, idg, dev, drift>>
  /\ stats' = [stats EXCEPT !.listings = @ + 1]

-----------------------------------------------------------------------------
Ents == Cur.ents
NE == Len(Ents)
Got == {Ents[j].i : j \in 1..NE} \ {0}
Remaining == Idx \ acc                         \* entries not yet received in this listing
\* names this server never lists (finding F18c)
OddIdx == {i \in Idx : dir[i].odd}

\* the next entry: the first one returned, else (nothing returned) the longest one that remains,
\* which makes TOOSMALL acceptable whenever some remaining entry does not fit
RemainingL == Remaining \ (IF Known("Dev_ReaddirOmitsDotDotNames") THEN OddIdx ELSE {})
RemP == IF NE > 0 THEN <<Ents[1].len>>
        ELSE IF RemainingL = {} THEN << >>
        ELSE <<SetMax({dir[i].len : i \in RemainingL})>>
R == [st |-> Cur.st, n |-> NE, eof |-> Cur.eof, size |-> Cur.size]
LastSize == IF NE = 0 THEN 0 ELSE EntryWire(Cur.proc, Ents[NE].len, Ents[NE].ha, Ents[NE].fh)
WireSize == Base(Cur.attrs) + (IF NE = 0 THEN 0 ELSE
              LET RECURSIVE S(_)
                  S(j) == IF j = 0 THEN 0 ELSE EntryWire(Cur.proc, Ents[j].len, Ents[j].ha, Ents[j].fh) + S(j - 1)
              IN S(NE))

\* over-long replies: a listed deviation explains the step, else it is a violation
Over == "encoded resok is larger than the count/maxcount the client gave"
RB == ReplyBad(Cur.proc, RemP, Cur.count, R)
OD == {d \in OverflowDev(Cur.proc, RemP, Cur.count, R, LastSize) : Known(d)}
\* (an early eof is judged by EofBad below, which knows which entries are missing)
ReplyVerdict == (IF OD # {} THEN RB \ {Over} ELSE RB) \ {"eof reported although entries remain"}

EntryBad ==
     (IF \E j \in 1..NE : Ents[j].i = 0 THEN {"entry whose name is not a name of the directory"} ELSE {})
  \cup (IF \E j \in 1..NE : Ents[j].i # 0 /\ Ents[j].len # dir[Ents[j].i].len THEN {"entry name length differs from the directory's name"} ELSE {})
  \cup (IF (\E j \in 1..NE : Ents[j].i \in acc)
           \/ Cardinality(Got) # Cardinality({j \in 1..NE : Ents[j].i # 0})
        THEN {"entry returned twice in one listing"} ELSE {})
  \cup (IF \E j \in 1..NE : LET i == Ents[j].i IN
             i # 0 /\ (\/ (fid[i] # 0 /\ fid[i] # Ents[j].fid)
                       \/ (idl[i] # 0 /\ idl[i] # Ents[j].fid)
                       \/ (idg[i] # 0 /\ idg[i] # Ents[j].fid))
        THEN {"fileid of a listed entry differs from the fileid LOOKUP/GETATTR report for it"} ELSE {})
  \cup (IF Cardinality({Ents[j].ck : j \in 1..NE}) # NE THEN {"two entries of one reply carry the same cookie"} ELSE {})

\* eof: everything must have been received; names with ".." / backslash are the listed finding
Missing == Idx \ (acc \cup Got)
EofBad == IF ~(Cur.st = "OK" /\ Cur.eof) \/ Missing = {} THEN {}
          ELSE IF Known("Dev_ReaddirOmitsDotDotNames") /\ Missing \subseteq OddIdx THEN {}
          ELSE {"eof reported before every entry of the directory was returned (entries lost)"}
EofDev == IF Cur.st = "OK" /\ Cur.eof /\ Missing # {} /\ Known("Dev_ReaddirOmitsDotDotNames") /\ Missing \subseteq OddIdx
          THEN {"Dev_ReaddirOmitsDotDotNames"} ELSE {}

\* impl level: the code's own rule on the names it lists (backend order, cookie = index)
ImplDrift ==
  IF Cur.st # "OK" \/ Cur.ck > Len(listed) THEN {}
  ELSE LET m == LevelReply(ImplLevel, Cur.proc, Drop(listed, Cur.ck), Cur.count) IN
       (IF m.st = "OK" /\ (m.n # NE \/ m.eof # Cur.eof) THEN {"number of entries / eof differ from the modelled paging rule"} ELSE {})
       \cup (IF Cur.size # WireSize \/ Cur.trail # 0 THEN {"encoded size differs from the XDR size of the decoded reply"} ELSE {})

StepCall ==
  /\ Cur.ev = "call"
  /\ bad' = bad \cup Tag(ReplyVerdict \cup EntryBad \cup EofBad
                         \cup (IF ~open THEN {"call outside a listing"} ELSE {})
                         \cup (IF Cur.ck # nextck THEN {"call does not continue at the last returned cookie"} ELSE {}))
  \* only the first step each deviation explains is kept (the set is part of every state); the
  \* number of steps is in stats
  /\ dev' = dev \cup {[l |-> l, name |-> d] : d \in {x \in (IF Over \in RB THEN OD ELSE {}) \cup EofDev :
                                                          ~\E e \in dev : e.name = x}}
  /\ drift' = drift \cup Tag(ImplDrift)
  /\ acc' = acc \cup Got
  /\ fid' = LET got == Got IN
             IF \A i \in got : fid[i] # 0 THEN fid
             ELSE [i \in Idx |-> IF fid[i] = 0 /\ i \in got
                                 THEN (CHOOSE f \in {Ents[j].fid : j \in {k \in 1..NE : Ents[k].i = i}} : TRUE) ELSE fid[i]]
  /\ nextck' = IF NE > 0 THEN Ents[NE].ck ELSE nextck
  /\ lastst' = Cur.st
  /\ UNCHANGED <<dir, listed, idl, idg, open>>
  /\ stats' = [stats EXCEPT !.calls = @ + 1, !.entries = @ + NE,
                            !.eof = @ + (IF Cur.st = "OK" /\ Cur.eof THEN 1 ELSE 0),
                            !.overflow = @ + (IF Over \in RB THEN 1 ELSE 0),
                            !.devsteps = @ + (IF (Over \in RB /\ OD # {}) \/ EofDev # {} THEN 1 ELSE 0),
                            !.toosmall = @ + (IF Cur.st = "TOOSMALL" THEN 1 ELSE 0),
                            !.plus = @ + (IF Cur.proc = "READDIRPLUS" THEN 1 ELSE 0)]

\* a listing ends with eof; a justified TOOSMALL (judged at the call) also ends it
StepEnd ==
  /\ Cur.ev = "end"
  /\ open' = FALSE
  /\ bad' = bad \cup Tag(IF Cur.why = "eof" \/ (Cur.why = "status" /\ lastst = "TOOSMALL") THEN {}
                         ELSE IF Cur.why \in {"status", "noprogress"} THEN {}     \* already reported at the call
                         ELSE {"listing did not reach eof (the client followed the cookies for more calls than the directory has entries)"})
  /\ UNCHANGED <<dir, listed, fid, idl, idg, acc, nextck, lastst, dev, drift>>
  /\ stats' = [stats EXCEPT !.multi = @ + (IF Cur.calls >= 3 THEN 1 ELSE 0)]

Consume == /\ l <= N
           /\ l' = l + 1
           /\ (StepReset \/ StepIds \/ StepList \/ StepCall \/ StepEnd)

Finish == /\ l = N + 1
          /\ l' = N + 2
          /\ JsonSerialize(IOEnv.VF_RESULT,
                [n |-> N, consumed |-> l - 1, bad |-> bad, dev |-> dev, drift |-> drift, stats |-> stats])
          /\ UNCHANGED <<dir, listed, fid, idl, idg, acc, nextck, open, lastst, bad, dev, drift, stats>>

Next == Consume \/ Finish
Spec == Init /\ [][Next]_vars
=============================================================================

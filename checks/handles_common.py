"""C05 / C06: file handle table (specs/Handles). Shared by checks/C05.py and checks/C06.py."""
import json, os
import vflib

HARNESS = ["vf_common.go", "vf_vfs.go", "vf_handles.go"]

C05_REASONS = ("issued handle is not live", "path already had a live handle", "more live handles",
               "two live handles for one path", "handle just issued does not resolve",
               "released handle still live", "handles remain after")
C06_REASONS = ("reissued for a different path", "old handle value served against a different path")

CFG = """SPECIFICATION Spec
CONSTANTS
  Paths = %(paths)s
  MaxH = %(maxh)d
  IdBound = %(idb)d
  SkipReturned = %(skip)s
  Recycle = %(recycle)s
CONSTRAINT Bounded_Explore
INVARIANTS %(invs)s
%(props)s
"""

TRACE_CFG = """SPECIFICATION Spec
CONSTANTS
  KnownDeviations = %(known)s
  SkipReturned = %(skip)s
"""


def exhaustive(ctx, pid):
    """Exhaustive TLC runs of the design spec (Handles.tla)."""
    skip = ctx.finding_status("F06") == "fixed"
    # measured: 5 paths / IdBound 7 / MaxH 3 = 54 M distinct states, 8 min at 16 workers (thorough);
    # 4 paths / IdBound 6 finishes in seconds (quick)
    paths = ["pa", "pb", "pc", "pd"] if ctx.quick() else ["pa", "pb", "pc", "pd", "pe"]
    idb = 6 if ctx.quick() else 7
    base_inv = ["TypeOK", "OnePerPath", "Bounded"] + (["IssuedIsLive"] if skip else [])
    idb0 = idb
    for maxh in (1, 2, 3):
        # (thorough, limit 3: IdBound 7 is 54 M states / 8 min on an idle machine; one less fits the budget under load)
        idb = idb0 - 1 if (maxh == 3 and not ctx.quick()) else idb0
        # the code as it is: recycling on; rebinding must come only from the free list
        cfg = ctx.write_cfg("Handles", "MC_code_%d.cfg" % maxh, CFG % dict(
            paths=ctx.tla_set(paths), maxh=maxh, idb=idb, skip="TRUE" if skip else "FALSE", recycle="TRUE",
            invs=" ".join(base_inv), props="PROPERTY RebindOnlyViaFreeList"))
        ctx.tlc_exhaustive("Handles", "Handles", cfg, timeout=1800)
        # the ideal design (no recycling): every C05 / C06 invariant holds
        cfg = ctx.write_cfg("Handles", "MC_ideal_%d.cfg" % maxh, CFG % dict(
            paths=ctx.tla_set(paths), maxh=maxh, idb=idb, skip="TRUE", recycle="FALSE",
            invs="TypeOK OnePerPath Bounded IssuedIsLive NoRebind", props=""))
        ctx.tlc_exhaustive("Handles", "Handles", cfg, timeout=1800)
    ctx.cov["exhaustive"] = True
    # non-vacuity: the faithful model with recycling violates NoRebind, and without the
    # skip-returned rule it violates IssuedIsLive (the two findings F07 / F06)
    cfg = ctx.write_cfg("Handles", "MC_nv_rebind.cfg", CFG % dict(
        paths=ctx.tla_set(paths[:4]), maxh=2, idb=6, skip="TRUE", recycle="TRUE", invs="NoRebind", props=""))
    r = ctx.tlc_exhaustive("Handles", "Handles", cfg, expect_ok=False, count=False, timeout=300)
    if r["violated"] != "NoRebind":
        raise vflib.Broken("non-vacuity run: expected NoRebind to be violated by the recycling model, got %s" % r["violated"])
    cfg = ctx.write_cfg("Handles", "MC_nv_live.cfg", CFG % dict(
        paths=ctx.tla_set(paths[:4]), maxh=2, idb=6, skip="FALSE", recycle="TRUE", invs="IssuedIsLive", props=""))
    r = ctx.tlc_exhaustive("Handles", "Handles", cfg, expect_ok=False, count=False, timeout=300)
    if r["violated"] != "IssuedIsLive":
        raise vflib.Broken("non-vacuity run: expected IssuedIsLive to be violated without SkipReturned, got %s" % r["violated"])
    ctx.notes.append("non-vacuity: TLC finds NoRebind violated with recycling (F07) and IssuedIsLive violated without "
                     "the skip-returned rule (F06) on the same model")


def validate(ctx, pid, trace, label):
    skip = ctx.finding_status("F06") == "fixed"
    known = ctx.known_devs(["C05", "C06"])
    cfg = ctx.write_cfg("Handles", "Trace_%s.cfg" % label, TRACE_CFG % dict(known=ctx.tla_set(known), skip="TRUE" if skip else "FALSE"))
    return ctx.tlc_trace("Handles", "HandlesTrace", cfg, trace, out_name="res_%s.json" % label)


def mine(pid, why):
    reasons = C05_REASONS if pid == "C05" else C06_REASONS
    return any(r in why for r in reasons)


def history_of(lines, lno):
    """Lines of the history (from its reset line) up to and including 1-based line number lno."""
    start = lno - 1
    while start > 0 and json.loads(lines[start]).get("ev") != "reset":
        start -= 1
    return [l.rstrip("\n") for l in lines[start:lno]]


def bind_mutation(ctx, pid, trace, label):
    """Binding demonstration: corrupt one recorded field and require the trace spec to reject it."""
    lines = open(trace).read().splitlines()
    rejected = 0
    # mutation 1: an issued id is rewritten to the id of another live entry (handle names another path)
    for i, ln in enumerate(lines):
        e = json.loads(ln)
        # (not a READDIRPLUS issue: a dead handle there is what the known deviation F06b explains)
        if e.get("ev") in ("api", "issue") and e.get("op", "alloc") == "alloc" and e.get("proc") != "READDIRPLUS" \
                and len(e.get("tab", [])) >= 2:
            others = [t["i"] for t in e["tab"] if t["i"] != e["id"]]
            if not others:
                continue
            e["id"] = others[0]
            mut = lines[:i] + [json.dumps(e)] + lines[i + 1:i + 2]
            mp = os.path.join(ctx.scratch, "mut_%s.ndjson" % label)
            open(mp, "w").write("\n".join(mut) + "\n")
            res = validate(ctx, pid, mp, label + "_mut")
            if res["bad"]:
                rejected += 1
            else:
                raise vflib.Broken("binding demonstration failed: corrupted trace accepted (%s)" % label)
            break
    ctx.cov["binding_mutations_rejected"] += rejected


def run_common(ctx, pid):
    if ctx.replay:
        return replay(ctx, pid)
    exhaustive(ctx, pid)
    binp = ctx.build_harness(HARNESS)
    q = ctx.quick()
    env_api = {"VF_HIST": 210 if q else 2100, "VF_STEPS": 40 if q else 80}
    env_nfs = {"VF_HIST": 48 if q else 480, "VF_STEPS": 40 if q else 60}
    ctx.harness_ok(binp, "TestVF_HandlesAPI", env_api)
    ctx.harness_ok(binp, "TestVF_HandlesNFS", env_nfs)
    total_hist = 0
    for label in ("api", "nfs"):
        trace = os.path.join(ctx.scratch, "handles_%s.ndjson" % label)
        summ = json.load(open(os.path.join(ctx.scratch, "handles_%s.summary.json" % label)))
        res = validate(ctx, pid, trace, label)
        if res["consumed"] != res["n"]:
            raise vflib.Broken("trace spec consumed %s of %s lines" % (res["consumed"], res["n"]))
        lines = open(trace).readlines()
        total_hist += summ["histories"]
        ctx.cov["traces_validated_against_impl"] += summ["histories"]
        ctx.cov["evaluations"] += res["n"]
        ctx.cov["distinct_nontrivial"] += summ["nontrivial"]
        for s in summ.get("samples", [])[:2]:
            ctx.sample({"level": label, "history": s})
        ctx.cov.setdefault("trace_stats", {})[label] = res["stats"]
        seen = {}
        for b in sorted(res["bad"], key=lambda x: x["l"]):
            if not mine(pid, b["why"]):
                continue
            seen[b["why"]] = seen.get(b["why"], 0) + 1
            if seen[b["why"]] > 2:
                continue  # at most two replays per distinct reason and level
            ctx.violation("%s (level %s, line %d)" % (b["why"], label, b["l"]), history_of(lines, b["l"]),
                          {"level": label, "line": b["l"]})
        for d in res["dev"]:
            ent = [e for e in ctx.known() if e["deviation"] == d["name"]]
            if ent:
                ctx.known_finding(d["name"], ent[0]["what"])
        if res["drift"]:
            ctx.cov.setdefault("impl_model_drift", []).extend(sorted({d["why"] for d in res["drift"]}))
        bind_mutation(ctx, pid, trace, label)
    if ctx.cov.get("impl_model_drift"):
        ctx.notes.append("impl-level drift: the recorded post-states differ from the transcribed Allocate/Release; the "
                         "exhaustive result no longer speaks about this code (not a verdict)")
    ctx.cov["rule"] = ("seeded histories at the FileHandleMap API (limits 1,2,3,5,10,20,25) and through the real handlers "
                       "(limits 2..20) with a client that keeps every handle value; a history is non-trivial when it "
                       "reached an eviction AND a free-list reuse (API) or a STALE reply AND a reuse (handlers)")
    ctx.cov["spec_actions_covered_by_impl"] = ["Allocate(dedup)", "Allocate(fresh id)", "Allocate(free list)", "Allocate(evict)",
                                               "Release", "ReleaseAll", "Unexport", "issue", "use"]
    ctx.assumptions += ["the in-package projection (handles, pathHandles, freeHandles, nextHandle) is read faithfully",
                        "GETATTR reaches the backend with Lstat(path) (attribute cache copies carry no validity), which is how "
                        "the path a request is served against is observed"]


def replay(ctx, pid):
    """Re-validate one recorded history (replay file written by a violation)."""
    lines = [l for l in open(ctx.replay).read().splitlines() if l.strip()]
    body = [l for l in lines if json.loads(l).get("ev") != "meta"]
    tp = os.path.join(ctx.scratch, "replay.ndjson")
    open(tp, "w").write("\n".join(body) + "\n")
    res = validate(ctx, pid, tp, "replay")
    for b in res["bad"]:
        if mine(pid, b["why"]):
            ctx.violation(b["why"], body, {"replayed": ctx.replay})
    ctx.cov["evaluations"] = len(body)
    ctx.cov["distinct_nontrivial"] = 2
    ctx.sample({"replayed": ctx.replay})

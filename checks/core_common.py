"""Core request path (specs/Core): shared by C01, C02, C03, C04, C07, C08, C11, C22, C23, C25.

One harness (harness/vf_core*.go) records sequential NFSv3 histories through the real handlers
over the vfs backend; CoreTrace.tla checks every recorded step against the ideal semantics of
CoreOps.tla and tags each failure with the property it violates."""
import json, os
import vflib

HARNESS = ["vf_common.go", "vf_vfs.go", "vf_core.go", "vf_core2.go"]

TRACE_CFG = """SPECIFICATION Spec
CONSTANTS KnownDeviations = %s
"""

ALL_CORE_PROPS = ["C01", "C02", "C03", "C04", "C07", "C08", "C11", "C22", "C23", "C25", "C26"]


def validate(ctx, trace, label):
    known = ctx.known_devs(ALL_CORE_PROPS)
    cfg = ctx.write_cfg("Core", "Trace_%s.cfg" % label, TRACE_CFG % ctx.tla_set(known))
    res = ctx.tlc_trace("Core", "CoreTrace", cfg, trace, out_name="res_%s.json" % label, timeout=1500)
    if res["consumed"] != res["n"]:
        raise vflib.Broken("trace spec consumed %s of %s lines" % (res["consumed"], res["n"]))
    return res


def history_of(lines, lno, maxlines=400):
    start = lno - 1
    while start > 0 and '"ev":"reset"' not in lines[start]:
        start -= 1
    hist = [l.rstrip("\n") for l in lines[start:lno]]
    return hist


def report(ctx, pid, res, trace, label, props=None):
    """Turn bad / dev entries of one validation into violations / known findings of this property."""
    props = props or [pid]
    lines = open(trace).readlines()
    seen = {}
    for b in sorted(res["bad"], key=lambda x: x["l"]):
        if b["prop"] not in props:
            continue
        seen[b["why"]] = seen.get(b["why"], 0) + 1
        if seen[b["why"]] > 2:
            continue
        hist = history_of(lines, b["l"])
        # keep the reset line and the tail so that the replay is small but self-contained
        ctx.violation("%s (profile %s, line %d)" % (b["why"], label, b["l"]), hist, {"profile": label, "line": b["l"]})
    for d in res["dev"]:
        if d["prop"] not in props:
            continue
        ent = [e for e in ctx.known() if e["deviation"] == d["name"]]
        if ent:
            ctx.known_finding(d["name"], ent[0]["what"])
    others = sorted({b["prop"] for b in res["bad"] if b["prop"] not in props})
    if others:
        ctx.notes.append("the same trace also contains failing steps of other properties (%s); they are reported by "
                         "their own checks" % ", ".join(others))


def mutate_and_reject(ctx, trace, label, mutator, what):
    """Binding demonstration: corrupt one recorded line; the trace spec must reject it."""
    lines = open(trace).read().splitlines()
    for i, ln in enumerate(lines):
        if '"ev":"reset"' in ln:
            continue
        e = json.loads(ln)
        m = mutator(e)
        if m is None:
            continue
        start = i
        while start > 0 and '"ev":"reset"' not in lines[start]:
            start -= 1
        mp = os.path.join(ctx.scratch, "mut_%s.ndjson" % label)
        open(mp, "w").write("\n".join(lines[start:i] + [json.dumps(m)]) + "\n")
        res = validate(ctx, mp, label + "_mut")
        if not res["bad"]:
            raise vflib.Broken("binding demonstration failed (%s): corrupted trace accepted" % what)
        ctx.cov["binding_mutations_rejected"] += 1
        return
    raise vflib.Broken("binding demonstration (%s): no line to corrupt" % what)


def mut_lose_data(e):
    """A successful WRITE whose bytes are not in the logged tree."""
    if e.get("proc") == "WRITE" and e.get("ok") and e.get("offc") == "small" and len(e.get("data", [])) > 0:
        for n in e["tree"]:
            if n["p"] == e["h"] and n["k"] == "F" and n["d"]:
                n["d"][e["off"]] = (n["d"][e["off"]] + 1) % 256
                return e
    return None


def mut_flip_status(e):
    """A failed mutation reported as success."""
    if e.get("proc") in ("MKDIR", "REMOVE", "RMDIR") and not e.get("ok"):
        e["ok"] = True
        e["st"] = "OK"
        return e
    return None


def mut_wrong_type(e):
    if e.get("proc") == "GETATTR" and e.get("ok"):
        for a in e["attrs"]:
            if a["full"]:
                a["type"] = "LNK" if a["type"] != "LNK" else "REG"
                return e
    return None


def run_profile(ctx, binp, profile, hist, steps, extra_env=None):
    env = {"VF_PROFILE": profile, "VF_HIST": hist, "VF_STEPS": steps}
    if extra_env:
        env.update(extra_env)
    ctx.harness_ok(binp, "TestVF_Core", env, timeout=1200)
    trace = os.path.join(ctx.scratch, "core_%s.ndjson" % profile)
    summ = json.load(open(os.path.join(ctx.scratch, "core_%s.summary.json" % profile)))
    res = validate(ctx, trace, profile)
    ctx.cov["traces_validated_against_impl"] += summ["histories"]
    ctx.cov["evaluations"] += res["stats"]["req"]
    ctx.cov["distinct_nontrivial"] += summ["nontrivial"]
    ctx.cov.setdefault("trace_stats", {})[profile] = res["stats"]
    for s in summ.get("samples", [])[:1]:
        ctx.sample({"profile": profile, "history": s})
    # one recorded request verbatim (without the bulky tree) as a sample
    with open(trace) as f:
        for i, ln in enumerate(f):
            if i == 3:
                e = json.loads(ln)
                e.pop("calls", None)
                ctx.sample({"profile": profile, "recorded_line": e})
                break
    return trace, res, summ


def replay(ctx, pid, props=None):
    lines = [l for l in open(ctx.replay).read().splitlines() if l.strip()]
    body = [l for l in lines if '"ev": "meta"' not in l[:20] and '"ev":"meta"' not in l[:20]]
    tp = os.path.join(ctx.scratch, "replay.ndjson")
    open(tp, "w").write("\n".join(body) + "\n")
    res = validate(ctx, tp, "replay")
    for b in res["bad"]:
        if b["prop"] in (props or [pid]):
            ctx.violation(b["why"], body, {"replayed": ctx.replay})
    ctx.cov["evaluations"] = len(body)
    ctx.cov["distinct_nontrivial"] = 2
    ctx.sample({"replayed": ctx.replay})

"""Core request path (specs/Core): shared by C01, C02, C03, C04, C07, C08, C11, C22, C23, C25.

One harness (harness/vf_core*.go) records sequential NFSv3 histories through the real handlers
over the vfs backend; CoreTrace.tla checks every recorded step against the ideal semantics of
CoreOps.tla and tags each failure with the property it violates."""
import json, os
import vflib

HARNESS = ["vf_common.go", "vf_vfs.go", "vf_core.go", "vf_core2.go", "vf_core3.go"]

TRACE_CFG = """SPECIFICATION Spec
CONSTANTS KnownDeviations = %s
"""

ALL_CORE_PROPS = ["C01", "C02", "C03", "C04", "C07", "C08", "C11", "C22", "C23", "C25", "C26"]


def validate(ctx, trace, label):
    known = ctx.known_devs(ALL_CORE_PROPS)
    cfg = ctx.write_cfg("Core", "Trace_%s.cfg" % label, TRACE_CFG % ctx.tla_set(known))
    res = ctx.tlc_trace("Core", "CoreTrace", cfg, trace, out_name="res_%s.json" % label, timeout=1500)
    if res["consumed"] != res["n"]:
        raise vflib.Broken("trace spec consumed %s of %s lines" % (res["consumed"], res["n"]))
    return res


def history_of(lines, lno, maxlines=400):
    start = lno - 1
    while start > 0 and '"ev":"reset"' not in lines[start]:
        start -= 1
    hist = [l.rstrip("\n") for l in lines[start:lno]]
    return hist


def report(ctx, pid, res, trace, label, props=None):
    """Turn bad / dev entries of one validation into violations / known findings of this property."""
    props = props or [pid]
    lines = open(trace).readlines() if any(b["prop"] in props for b in res["bad"]) else []
    seen = {}
    for b in sorted(res["bad"], key=lambda x: x["l"]):
        if b["prop"] not in props:
            continue
        seen[b["why"]] = seen.get(b["why"], 0) + 1
        if seen[b["why"]] > 2:
            continue
        hist = history_of(lines, b["l"])
        # keep the reset line and the tail so that the replay is small but self-contained
        ctx.violation("%s (profile %s, line %d)" % (b["why"], label, b["l"]), hist, {"profile": label, "line": b["l"]})
    for d in res["dev"]:
        if d["prop"] not in props:
            continue
        ent = [e for e in ctx.known() if e["deviation"] == d["name"]]
        if ent:
            ctx.known_finding(d["name"], ent[0]["what"])
    others = sorted({b["prop"] for b in res["bad"] if b["prop"] not in props})
    if others:
        ctx.notes.append("the same trace also contains failing steps of other properties (%s); they are reported by "
                         "their own checks" % ", ".join(others))


def mutate_and_reject(ctx, trace, label, mutator, what):
    """Binding demonstration: corrupt one recorded line; the trace spec must reject it.
    mutator may be a list (first applicable wins). Skipped when the run already found violations
    (the demonstration is about the unchanged tree; it must never mask a verdict)."""
    if ctx.violations:
        ctx.notes.append("binding demonstration skipped: the run found violations")
        return
    if isinstance(mutator, (list, tuple)):
        last = None
        for m in mutator:
            try:
                return mutate_and_reject(ctx, trace, label, m, what)
            except vflib.Broken as e:
                last = e
                if "no line to corrupt" not in str(e):
                    raise
        raise last
    lines = open(trace).read().splitlines()
    if mutator is None:
        return mutate_crash(ctx, lines, label, what)
    for i, ln in enumerate(lines):
        if '"ev":"reset"' in ln:
            continue
        e = json.loads(ln)
        if e.get("ev") != "req":
            continue
        if "ro" in label and not json.loads(lines[[k for k in range(i, -1, -1) if '"ev":"reset"' in lines[k] or '"ev":"cfg"' in lines[k]][0]])["cfg"].get("ro"):
            continue
        m = mutator(e)
        if m is None:
            continue
        start = i
        while start > 0 and '"ev":"reset"' not in lines[start]:
            start -= 1
        mp = os.path.join(ctx.scratch, "mut_%s.ndjson" % label)
        open(mp, "w").write("\n".join(lines[start:i] + [json.dumps(m)]) + "\n")
        res = validate(ctx, mp, label + "_mut")
        if not res["bad"]:
            raise vflib.Broken("binding demonstration failed (%s): corrupted trace accepted" % what)
        ctx.cov["binding_mutations_rejected"] += 1
        return
    raise vflib.Broken("binding demonstration (%s): no line to corrupt" % what)


def mutate_crash(ctx, lines, label, what):
    """Corrupt the durable copy logged at a crash line for a file with acknowledged data."""
    for i, ln in enumerate(lines):
        if '"ev":"crash"' in ln:
            e = json.loads(ln)
            start = i
            while start > 0 and '"ev":"reset"' not in lines[start]:
                start -= 1
            acked = any(json.loads(x).get("proc") == "WRITE" and json.loads(x).get("ok") for x in lines[start + 1:i])
            if not acked:
                continue
            for dnode in e["dur"]:
                if dnode["d"]:
                    dnode["d"] = [(b + 1) % 256 for b in dnode["d"]]
            mp = os.path.join(ctx.scratch, "mut_%s.ndjson" % label)
            open(mp, "w").write("\n".join(lines[start:i] + [json.dumps(e)]) + "\n")
            res = validate(ctx, mp, label + "_mut")
            if not res["bad"]:
                raise vflib.Broken("binding demonstration failed (%s): corrupted trace accepted" % what)
            ctx.cov["binding_mutations_rejected"] += 1
            return
    raise vflib.Broken("binding demonstration (%s): no crash line with acknowledged data" % what)


def mut_lose_data(e):
    """A successful WRITE whose bytes are not in the logged tree."""
    if e.get("proc") == "WRITE" and e.get("ok") and e.get("offc") == "small" and len(e.get("data", [])) > 0:
        for n in e["tree"]:
            if n["p"] == e["h"] and n["k"] == "F" and n["d"]:
                n["d"][e["off"]] = (n["d"][e["off"]] + 1) % 256
                return e
    return None


def mut_flip_status(e):
    """A failed mutation reported as success."""
    if e.get("proc") in ("MKDIR", "REMOVE", "RMDIR") and not e.get("ok"):
        e["ok"] = True
        e["st"] = "OK"
        return e
    return None


def mut_wrong_type(e):
    if e.get("proc") == "GETATTR" and e.get("ok"):
        for a in e["attrs"]:
            if a["full"]:
                a["type"] = "LNK" if a["type"] != "LNK" else "REG"
                return e
    return None


CHUNK = 64


def run_profile(ctx, binp, profile, hist, steps, extra_env=None):
    """Run the driver for one profile and validate the recorded histories. Large runs are split
    into chunks of CHUNK histories (own seed each) so that one TLC trace validation stays small;
    returns (list of (trace, res), merged stats)."""
    chunks = max(1, (hist + CHUNK - 1) // CHUNK)
    out = []
    for ci in range(chunks):
        n = min(CHUNK, hist - ci * CHUNK)
        env = {"VF_PROFILE": profile, "VF_HIST": n, "VF_STEPS": steps, "VERIF_SEED": ctx.seed + 7919 * ci}
        if extra_env:
            env.update(extra_env)
        test = "TestVF_Core" if profile in ("ns", "data") else "TestVF_Core2"
        if profile in ("own", "ro", "names"):
            env["VF_CALLS"] = "1"
        ctx.harness_ok(binp, test, env, timeout=1200)
        trace = os.path.join(ctx.scratch, "core_%s.ndjson" % profile)
        if chunks > 1:
            t2 = os.path.join(ctx.scratch, "core_%s_%d.ndjson" % (profile, ci))
            os.rename(trace, t2)
            trace = t2
        summ = json.load(open(os.path.join(ctx.scratch, "core_%s.summary.json" % profile)))
        res = validate(ctx, trace, "%s_%d" % (profile, ci) if chunks > 1 else profile)
        ctx.cov["traces_validated_against_impl"] += summ["histories"]
        ctx.cov["evaluations"] += res["stats"]["req"]
        ctx.cov["distinct_nontrivial"] += summ["nontrivial"]
        st = ctx.cov.setdefault("trace_stats", {}).setdefault(profile, {})
        for k, v in res["stats"].items():
            st[k] = st.get(k, 0) + v
        if ci == 0:
            for s in summ.get("samples", [])[:1]:
                ctx.sample({"profile": profile, "history": s})
            with open(trace) as f:
                for i, ln in enumerate(f):
                    if i == 3:
                        e = json.loads(ln)
                        e.pop("calls", None)
                        ctx.sample({"profile": profile, "recorded_line": e})
                        break
        out.append((trace, res))
        if chunks > 1 and ci > 0 and not res["bad"]:
            os.unlink(trace)      # keep scratch small; chunk 0 is kept for the binding demonstration
    return out


def report_all(ctx, pid, runs, label, props=None):
    for trace, res in runs:
        report(ctx, pid, res, trace, label, props)


def replay(ctx, pid, props=None):
    lines = [l for l in open(ctx.replay).read().splitlines() if l.strip()]
    body = [l for l in lines if '"ev": "meta"' not in l[:20] and '"ev":"meta"' not in l[:20]]
    tp = os.path.join(ctx.scratch, "replay.ndjson")
    open(tp, "w").write("\n".join(body) + "\n")
    res = validate(ctx, tp, "replay")
    for b in res["bad"]:
        if b["prop"] in (props or [pid]):
            ctx.violation(b["why"], body, {"replayed": ctx.replay})
    ctx.cov["evaluations"] = len(body)
    ctx.cov["distinct_nontrivial"] = 2
    ctx.sample({"replayed": ctx.replay})


def mut_fbig(e):
    if e.get("proc") == "WRITE" and e.get("st") == "FBIG":
        e["st"], e["ok"] = "OK", True
        return e
    return None


def mut_owner(e):
    if e.get("proc") in ("CREATE", "MKDIR", "SYMLINK") and e.get("ok"):
        for n in e["tree"]:
            if n["p"] == e["h"] + [e["name"]]:
                n["uid"] = 4242
                return e
    return None


def mut_romut(e):
    if e.get("rocheck") and e.get("mut") == 0 and e.get("proc") in ("GETATTR", "READ", "LOOKUP"):
        e["mut"] = 1
        return e
    return None

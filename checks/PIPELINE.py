"""PIPELINE: the end-to-end specification (specs/Pipeline) bound to the real server. Not one of the 30 listed
properties (there is no registry entry): run by hand or by the coordinator as `bin/check PIPELINE`; writes
evidence/PIPELINE.json.

exhaustive TLC runs of Pipeline.tla on small instances (safety invariants and action properties per slice, liveness under
fairness, one non-vacuity run per seeded design error)
-> seeded sequential and concurrent histories against a REAL server (Server.Listen, record marking, loopback TCP from
   127.0.0.1 / .2 / .3 / ::1, privileged and unprivileged ports), harness/vf_pipeline.go, virtual clock in rate_limiter.go
-> every recorded step validated by TLC against the stage rules (PipelineTrace.tla); each failure names the listed
   property it composes (C08, C09, C14, C15, C16, C17, C18/C19, C20) or is marked "beyond"
-> binding demonstration: a corrupted reply field, a dropped hc.admit hook event and a wrong backend version must be rejected."""
import json, os, sys, threading, copy
sys.path.insert(0, os.path.dirname(os.path.abspath(__file__)))
import vflib

LEVEL = "model_checking"
HARNESS = ["vf_common.go", "vf_vfs.go", "vf_clock.go", "vf_pipeline.go"]
CLOCK = ["rate_limiter.go"]

SAFETY = ("INVARIANTS TypeOK OneReplyInOrder UndecodedUnanswered RunsOnce FormMatchesGate RefusedNoBackend AuthGatesBackend "
          "ReadOnlyNeverModified ReadOnlyRefused OneVersionPerCall NoStragglers Accounting GlobalCharge LockMatches\n"
          "PROPERTIES MutationsJustified RepliesAppendOnly AnsweredIsFinal")
LIVENESS = "INVARIANTS TypeOK\nPROPERTIES Answered UpdateReturns StopReturns"

MC_CFG = """SPECIFICATION %(spec)s
CONSTANTS
  Conns = %(conns)s
  Calls = %(calls)s
  MaxConn = %(maxconn)d
  Classes = %(classes)s
  Flavors = %(flavors)s
  Addrs = %(addrs)s
  LowPorts = %(low)s
  Pol0 <- %(pol0)s
  NewPolicies <- %(newpol)s
  Upds = %(upds)s
  B <- %(b)s
  OB = 1
  QCap = 1
  Workers = 1
  MaxTicks = %(ticks)d
  WithTimeout = %(timeout)s
  WithStop = %(stop)s
  WithReap = %(reap)s
  WithPoolStop = %(poolstop)s
  Bug = "%(bug)s"
%(tail)s
"""


def S(xs):
    return "{" + ", ".join('"%s"' % x if isinstance(x, str) else str(x) for x in xs) + "}"


def mc(ctx, name, **kw):
    d = dict(spec="Spec", conns="{1}", calls="{1, 2}", maxconn=1, classes=S(["GET", "MUT"]), flavors=S(["SYS"]), addrs=S(["a", "b"]),
             low="{TRUE}", pol0="POpenRL", newpol="NPStrict", upds="{1}", b="BTiny", ticks=0, timeout="FALSE", stop="FALSE", reap="FALSE",
             poolstop="FALSE", bug="none", tail=SAFETY)
    d.update(kw)
    return ctx.write_cfg("Pipeline", name, MC_CFG % d)


def slices(ctx, errors):
    """Exhaustive safety runs; in a thread next to the harness. Measured (distinct states, this machine under load, 4 workers):
    gates 1.3e5 / 11 s; lifecycle 5.4e4 / 4 s (thorough, with the address that is not on the list: 1.9e5 / 14 s);
    thorough: two 2.5e5 / 18 s, three 1.6e5 / 8 s, oplimit 2.0e5 / 9 s, both 3.1e6 / 110 s."""
    try:
        q = ctx.quick()
        W = dict(workers=4 if q else 12, deadlock=False, heap="4g")
        allgates = S(["NULL", "MUT", "MNT", "BADPROC", "GARBAGE"])
        # every gate on one connection: allow-list, port, flavor, limiter, drain, dispatch, read-only, per-operation limiter
        ctx.tlc_exhaustive("Pipeline", "MCPipeline", mc(ctx, "MC_gates.cfg", classes=allgates, flavors=S(["SYS", "BAD"]), low="{TRUE, FALSE}"),
                           timeout=600, **W)
        # two connections, MaxConnections 1, one call: accept, reject, reap, Stop, timeout, tick
        ctx.tlc_exhaustive("Pipeline", "MCPipeline", mc(ctx, "MC_lifecycle.cfg", conns="{1, 2}", calls="{1}", classes=S(["GET"]), ticks=1,
                                                        addrs=S(["a"]) if q else S(["a", "b"]), timeout="TRUE", stop="TRUE", reap="TRUE"),
                           timeout=600, **W)
        if not q:
            ctx.tlc_exhaustive("Pipeline", "MCPipeline", mc(ctx, "MC_two.cfg", conns="{1, 2}", classes=S(["GET", "MUT"])), timeout=900, **W)
            ctx.tlc_exhaustive("Pipeline", "MCPipeline", mc(ctx, "MC_three.cfg", calls="{1, 2, 3}", classes=S(["GET", "MUT", "MNT"]),
                                                            b="BSmall", newpol="NPTwo"), timeout=1500, **W)
            ctx.tlc_exhaustive("Pipeline", "MCPipeline", mc(ctx, "MC_oplimit.cfg", calls="{1, 2, 3}", classes=S(["BIGREAD", "BIGWRITE", "READDIR"]),
                                                            addrs=S(["a"]), b="BSmall", newpol="NPReadOnly", ticks=1), timeout=1500, **W)
            # two connections, MaxConnections 2, two calls, every dispatch outcome and both credential classes (measured 6.6e6 / 200 s)
            ctx.tlc_exhaustive("Pipeline", "MCPipeline", mc(ctx, "MC_wide.cfg", conns="{1, 2}", maxconn=2, classes=S(["GET", "MUT", "BADPROC", "GARBAGE"]),
                                                            flavors=S(["SYS", "BAD"])), timeout=2400, **W)
        ctx.cov["exhaustive"] = True
    except BaseException as e:   # re-raised in the main thread
        errors.append(e)


def live_and_nonvacuity(ctx, errors):
    """Liveness under fairness and the non-vacuity runs; a second thread. Measured: liveness 2.8e4 / 8-12 s (thorough: two
    connections 7.8e4 / 17 s), each non-vacuity run 3-6 s."""
    try:
        q = ctx.quick()
        W = dict(workers=3 if q else 6, deadlock=False, heap="4g")
        # liveness under fairness: every decoded call is answered or its connection closed; the update and Stop return
        ctx.tlc_exhaustive("Pipeline", "MCPipeline", mc(ctx, "MC_live.cfg", spec="FairSpec", addrs=S(["a"]), stop="TRUE", poolstop="TRUE",
                                                        tail=LIVENESS), timeout=600, **W)
        if not q:
            ctx.tlc_exhaustive("Pipeline", "MCPipeline", mc(ctx, "MC_live2.cfg", spec="FairSpec", conns="{1, 2}", calls="{1, 2}", classes=S(["GET"]),
                                                            addrs=S(["a"]), stop="TRUE", timeout="TRUE", tail=LIVENESS), timeout=1500, **W)
            ctx.tlc_exhaustive("Pipeline", "MCPipeline", mc(ctx, "MC_both.cfg", conns="{1, 2}", classes=S(["GET", "GARBAGE"]), addrs=S(["a"]),
                                                            ticks=1, timeout="TRUE", stop="TRUE", reap="TRUE", poolstop="TRUE"), timeout=1500, **W)
            # two connections, MaxConnections 2, three calls (measured 3.7e6 / 110 s)
            ctx.tlc_exhaustive("Pipeline", "MCPipeline", mc(ctx, "MC_wide3.cfg", conns="{1, 2}", calls="{1, 2, 3}", maxconn=2, classes=S(["GET", "MUT"]),
                                                            addrs=S(["a"])), timeout=2400, **W)
        # non-vacuity: TLC finds each seeded design error (quick: two of the four, chosen by the seed; thorough: all)
        nv = [("RLNoContinue", dict(), ("OneReplyInOrder", "FormMatchesGate", "RefusedNoBackend", "RunsOnce")),
              ("AuthBeforeAdmit", dict(), ("OneVersionPerCall", "AuthGatesBackend")),
              ("ROGuardLate", dict(calls="{1}", classes=S(["BIGWRITE"]), pol0="PReadOnly", newpol="NPNone", upds="{}", addrs=S(["a"])),
               ("ReadOnlyNeverModified", "ReadOnlyRefused", "MutationsJustified")),
              ("UnregTwice", dict(calls="{1}", classes=S(["GET"]), ticks=1, reap="TRUE", addrs=S(["a"]), newpol="NPNone", upds="{}"),
               ("Accounting", "TypeOK"))]
        if q:
            nv = nv[:2] if ctx.seed % 2 else nv[2:]
        for name, kw, expect in nv:
            r = ctx.tlc_exhaustive("Pipeline", "MCPipeline", mc(ctx, "MC_nv_%s.cfg" % name, bug=name, **kw), expect_ok=False, count=False,
                                   timeout=600, **W)
            if r["violated"] not in expect:
                raise vflib.Broken("non-vacuity run %s: expected one of %s to be violated, got %s\n%s" % (name, expect, r["violated"], r["out"][-1500:]))
        ctx.notes.append("non-vacuity: TLC finds the end-to-end properties violated by each seeded design error: " + ", ".join(n for n, _, _ in nv))
    except BaseException as e:
        errors.append(e)


TRACE_CFG = """INIT TInit
NEXT TNext
CONSTANTS
  KnownDeviations = %s
"""


def run_trace(ctx, trace, label):
    cfg = ctx.write_cfg("Pipeline", "Trace_%s.cfg" % label, TRACE_CFG % ctx.tla_set(ctx.known_devs(["PIPELINE"])))
    return ctx.tlc_trace("Pipeline", "PipelineTrace", cfg, trace, out_name="res_%s.json" % label, heap="4g", timeout=900)


def histories(lines):
    out, cur, start = [], [], 1
    for i, ln in enumerate(lines, 1):
        if json.loads(ln).get("ev") == "reset" and cur:
            out.append((start, cur))
            cur, start = [], i
        cur.append(ln)
    if cur:
        out.append((start, cur))
    return out


def history_at(hists, lno):
    for start, ls in hists:
        if start <= lno < start + len(ls):
            return start, ls
    return None, []


def mutants(ctx, hists):
    """Binding demonstration: three corrupted copies of recorded histories, each must be rejected for the stated reason."""
    want = [("field", "[C09] a request the admitted policy lets in was answered MSG_DENIED"),
            ("drop", "[C16/binding] a reply other than the limiter's MSG_DENIED although HandleCall was never entered"),
            ("version", "[C16] a backend call of the request ran under another policy version than the one it was admitted under")]
    out = []
    for kind, why in want:
        done = None
        for _, h in hists[ctx.seed % 3:] + hists:
            ev = [json.loads(x) for x in h]
            for i, e in enumerate(ev):
                if e["ev"] != "call" or e["hooks"] != ["hc.admit", "hc.release.done"] or e["bcalls"]["n"] == 0 or e["rep"]["kind"] != "accepted" \
                        or e["rep"]["status"] != 0 or e["nrep"] != 1:
                    continue
                m = copy.deepcopy(ev)
                if kind == "field":
                    m[i]["rep"] = dict(m[i]["rep"], kind="denied", accept=-1, status=-1)     # the recorded reply form is wrong
                elif kind == "drop":
                    m[i]["hooks"], m[i]["admv"] = ["hc.release.done"], -1                    # the hc.admit event is dropped
                else:
                    m[i]["bcalls"] = dict(m[i]["bcalls"], vers=[m[i]["admv"] + 1])           # the backend ran under another version
                m[0] = dict(m[0], hist=900001 + len(out), kind="mutant:" + kind)
                done = (m, why)
                break
            if done:
                break
        if not done:
            raise vflib.Broken("binding demonstration: no recorded history offers an admitted call with backend calls")
        out.append(done)
    return out


def nontrivial(rows):
    """distinct (mode, procedure, credential class, port class, reply form) of the calls that a refusing gate decided or that
    overlapped a policy update; measured from the recorded trace"""
    seen, mode = set(), "seq"
    for r in rows:
        if r["ev"] == "reset":
            mode = r["mode"]
        if r["ev"] != "call":
            continue
        rep = r["rep"]
        refused = rep["kind"] != "accepted" or rep["accept"] != 0 or rep["status"] in (30, 10008, 10006)
        if refused or mode == "conc":
            seen.add((mode, r["kind"], r["flav"], r["low"], rep["kind"], rep["accept"], rep["status"], tuple(r["hooks"])))
    return len(seen)


def run(ctx):
    if ctx.replay:
        return replay(ctx)
    errors = []
    ctx._spec_copy("Pipeline")       # before the thread starts: both sides write .cfg files into the scratch copy
    ths = [] if os.environ.get("PIPELINE_SKIP_MC") else [threading.Thread(target=f, args=(ctx, errors)) for f in (slices, live_and_nonvacuity)]
    for th in ths:
        th.start()
    try:
        binp = ctx.build_harness(HARNESS, clock_files=CLOCK)
        rc, out = ctx.run_harness(binp, "TestVF_Pipeline", {}, timeout=900)
        if "VF-HOOKS-ABSENT" in out:
            raise vflib.Broken("the vhook call sites (hc.*, cm.*, cl.start, up.*) are not compiled into the tree under test (%s)" % vflib.REPO)
        if rc != 0 or "no tests to run" in out:
            raise vflib.Broken("harness driver TestVF_Pipeline failed (rc=%d):\n%s" % (rc, out[-6000:]))
        p = os.path.join(ctx.scratch, "pipeline.ndjson")
        summ = json.load(open(os.path.join(ctx.scratch, "pipeline.summary.json")))
        lines = [l for l in open(p).read().splitlines() if l.strip()]
        n_real = len(lines)
        hists = histories(lines)
        muts = mutants(ctx, hists)
        for m, _ in muts:
            lines += [json.dumps(e, separators=(",", ":")) for e in m]
        trace = os.path.join(ctx.scratch, "pipeline_all.ndjson")
        open(trace, "w").write("\n".join(lines) + "\n")
        res = run_trace(ctx, trace, "all")
        if res["consumed"] != res["n"]:
            raise vflib.Broken("trace validation consumed %s of %s lines" % (res["consumed"], res["n"]))
    finally:
        for th in ths:
            th.join()
    if errors:
        raise errors[0]
    all_h = histories(lines)
    seen, mut_bad = {}, {}
    for b in sorted(res["bad"], key=lambda x: x["l"]):
        if b["hist"] >= 900000:
            mut_bad.setdefault(b["hist"], set()).add(b["why"])
            continue
        why = b["why"]
        seen[why] = seen.get(why, 0) + 1
        if seen[why] > 2:
            continue
        start, hl = history_at(all_h, b["l"])
        ctx.violation("%s (history %s kind %s, line %d of it: %s)" % (why, b["hist"], json.loads(hl[0]).get("kind"), b["l"] - start + 1,
                                                                    lines[b["l"] - 1][:400]),
                      hl, {"history": json.loads(hl[0]), "line": b["l"] - start + 1})
    for d in res["dev"]:
        if d["hist"] < 900000:
            ctx.known_finding(d["name"])
    real_drift = sorted({d["why"] for d in res["drift"] if d["hist"] < 900000})
    if real_drift:
        ctx.cov["impl_model_drift"] = real_drift
        ctx.notes.append("impl-level differences (not a verdict): " + "; ".join(real_drift))
    if not ctx.violations:
        for k, (m, why) in enumerate(muts):
            if why not in mut_bad.get(900001 + k, set()):
                raise vflib.Broken("binding demonstration failed: the corrupted history %s was not rejected with %r (got %s)"
                                   % (m[0]["kind"], why, sorted(mut_bad.get(900001 + k, []))))
            ctx.cov["binding_mutations_rejected"] += 1
    rows = [json.loads(x) for x in lines[:n_real]]
    st = res["stats"]
    ctx.cov["traces_validated_against_impl"] = len(hists)
    ctx.cov["evaluations"] = sum(1 for r in rows if r["ev"] == "call")
    ctx.cov["distinct_nontrivial"] = nontrivial(rows)
    ctx.cov["trace_stats"] = st      # counted by the trace spec; includes the three corrupted copies of the binding demonstration
    ctx.cov["histories_per_kind"] = summ["per_kind"]
    gate_action = {"gate_decode": "ReadCall(undecodable)", "gate_unserved": "AcceptCheck(refuse)/Register(reject)", "gate_gone": "LoopExit",
                   "gate_rl": "RateLimit(refuse)", "gate_drain": "Admit(refuse)", "gate_auth": "Auth(refuse)", "gate_prog": "Dispatch(PROG_UNAVAIL)",
                   "gate_vers": "Dispatch(PROG_MISMATCH)", "gate_proc": "Dispatch(PROC_UNAVAIL)", "gate_ro": "Guard(read-only)",
                   "gate_oplimit": "Guard(per-operation limiter)", "gate_handler": "BackendOp/WriteReply", "accepted": "Register(accept)",
                   "rejected": "Register(reject)", "turned_away": "AcceptCheck(refuse)", "update": "UpdBegin..UpdRelease", "tick": "Tick",
                   "poolstop": "PoolStop", "inline": "Submit(inline)", "worker": "Submit(queued)/WorkerTake", "stop": "StopBegin..StopReturn",
                   "idle": "Reap", "close": "ClientClose/LoopExit"}
    ctx.cov["spec_actions_covered_by_impl"] = sorted(a for k, a in gate_action.items() if st.get(k, 0) > 0)
    missing = sorted(a for k, a in gate_action.items() if st.get(k, 0) == 0)
    if missing:
        ctx.notes.append("stage outcomes no history of this seed exercised: " + ", ".join(missing))
    for s in summ.get("sample", [])[:3]:
        ctx.sample(s)
    ctx.cov["rule"] = ("seeded histories against a real server over loopback TCP with record marking: gates (18 random steps over 2-3 connections from "
                       "4 addresses / privileged and unprivileged ports, every class of call and credential, 1-2 policy updates, a rejected update), "
                       "limits (bucket sizes 2-4 / 3-6 / 5-9, a clock tick, a limiter replaced by an update), oplimit (each per-operation bucket "
                       "driven past its burst), accept (allow-list at connection level, MaxConnections, then per request), lifecycle (undecodable "
                       "record in a pipelined burst, idle reaping or Stop), poolstop (HandleCall inline), conc (2-3 clients and an updater running "
                       "freely with seeded backend delays). evaluations = recorded calls; a call is non-trivial when a refusing gate decided it or "
                       "it ran in a concurrent history; distinct = distinct (mode, procedure, credential class, port class, reply form, hook events)")
    ctx.assumptions += ["the vhook call sites hc.admit / hc.jukebox / hc.release fire on the goroutine that does the work they announce "
                        "(backend calls are attributed to the request whose hc.release(done) fired on the same goroutine)",
                        "rate_limiter.go is compiled against the virtual clock (textual rewrite of time.Now / time.Since at check time); between "
                        "ticks no bucket refills, a tick (one hour) refills every bucket",
                        "allow-lists are literal addresses (membership = equality; CIDR and IPv4-mapped forms are C09's own check)",
                        "the machine lets a client bind 127.0.0.2, 127.0.0.3, ::1 and privileged source ports (the driver runs as root)",
                        "in concurrent histories a policy version counts as possibly in force from the invocation of the update that installs "
                        "it to the response of the next update; bucket decisions there are checked by bounds (possible / certain charges)"]


def replay(ctx):
    lines = [l for l in open(ctx.replay).read().splitlines() if l.strip()]
    body = [l for l in lines if json.loads(l).get("ev") != "meta"]
    tp = os.path.join(ctx.scratch, "replay.ndjson")
    open(tp, "w").write("\n".join(body) + "\n")
    res = run_trace(ctx, tp, "replay")
    for b in res["bad"]:
        ctx.violation(b["why"], body, {"replayed": ctx.replay, "line": b["l"]})
    ctx.cov["evaluations"] = len(body)
    ctx.cov["distinct_nontrivial"] = 2   # a replay re-validates one recorded history (schema minimum)
    ctx.sample({"replayed": ctx.replay})

"""Proof obligations of specs/WorkerPool/WorkerPoolInd.tla (inductive invariant of the repaired worker pool, C20).
Format: see checks/PROOFS.py.

Every obligation (the proofs too) carries TYPEFIX: one conjunct of WorkerPool!TypeOK, `sz \\in [1..2 -> 1..MaxW]`, cannot be
typed by Apalache's Snowcat together with Init's `sz \\in {<<s \\div 10, s % 10>> : s \\in Sizes}` (a tuple is never a function
for Snowcat, and it types every definition of an instantiated module, used or not).  The scratch copy of WorkerPool.tla gets
the conjunct in an equivalent, typable form; WorkerPool.tla itself is untouched and TypeOK is not used by the proof
(WorkerPoolInd restates it as TypeOKInd)."""

F = "WorkerPool"
IND = "WorkerPoolInd.tla"
SPEC = "WorkerPool.tla"
CONSTS = ("NT = 4, MaxW = 6, every sz = <<a, b>> with a, b >= 1 and a + b <= 6, StrictTimer symbolic, "
          "FixDrain = FixClose = FixExcl = EnvStop = EnvResize = TRUE")

TYPEFIX = (SPEC, "/\\ sz \\in [1..2 -> 1..MaxW] /\\ sz[1] + sz[2] <= MaxW",
           "/\\ DOMAIN sz = 1..2 /\\ (\\A g \\in 1..2 : sz[g] \\in 1..MaxW) /\\ sz[1] + sz[2] <= MaxW")

INIT = ["--cinit=ConstInit", "--init=Init", "--next=NextInd", "--inv=IndInv", "--length=0"]
STEP = ["--cinit=ConstInit", "--init=IndInit", "--next=NextInd", "--inv=IndInv", "--length=1"]


QUICK_WRONG = ("enqueue-no-capacity-guard",)     # the other wrong variants run with --tier thorough


def wrong(name, edits, claim):
    return dict(name=F + "/wrong-" + name, family=F, tool="apalache", module=IND, args=STEP, timeout=900, cores=1, est=90,
                edits=[TYPEFIX] + edits, expect="rejected", claim=claim + " [same run as WorkerPool/step; " + CONSTS + "]",
                tier="quick" if name in QUICK_WRONG else "thorough")


OBLIGATIONS = [
    dict(name=F + "/init", family=F, tool="apalache", module=IND, args=INIT, timeout=600, edits=[TYPEFIX], expect="proved", est=50,
         claim="Init => IndInv (IndInv contains Bounded, AtMostOnce, NoFakeResult, NotRunIsTrue, NoPanic literally, TypeOK and "
               "QueueSane restated, StopGate, NoLostTask, ResolvedInd (Resolved with ENABLED written out) and the strengthening); " + CONSTS),
    dict(name=F + "/step", family=F, tool="apalache", module=IND, args=STEP, timeout=900, edits=[TYPEFIX], expect="proved", est=100,
         claim="IndInv /\\ Next => IndInv' for one step of every action of WorkerPool.tla from an arbitrary state satisfying "
               "IndInv (so the listed invariants hold in behaviours of any length); " + CONSTS),
    wrong("enqueue-no-capacity-guard",
          [(SPEC, "/\\ sub[k] = \"sending\" /\\ ~closed[sq[k]] /\\ Len(q[sq[k]]) < Cap(sq[k])",
            "/\\ sub[k] = \"sending\" /\\ ~closed[sq[k]]")],
          "Enqueue without the guard Len(q) < Cap: the queue bound of TypeOK must be refuted"),
    wrong("stopclose-without-closeMu",
          [(SPEC, "/\\ stp[c] = \"cancelled\" /\\ NoSending", "/\\ stp[c] = \"cancelled\"")],
          "StopClose without NoSending (Stop closes the queue without closeMu): the stop gate must be refuted"),
    wrong("no-resizeMu-in-stop",
          [(IND, "FixExcl <- TRUE", "FixExcl <- FALSE")],
          "FixExcl = FALSE (Stop does not take resizeMu, finding F12c): the mutual exclusion of Stop and Resize must be refuted"),
    wrong("take-keeps-head",
          [(SPEC, "/\\ q' = [q EXCEPT ![w[i].sel] = Tail(@)]", "/\\ q' = q")],
          "WorkerTake leaves the task in the queue: 'a task is in one place' (and with it AtMostOnce) must be refuted"),
    wrong("stop-does-not-drain",
          [(IND, "FixDrain <- TRUE", "FixDrain <- FALSE")],
          "FixDrain = FALSE (Stop returns without draining the queue it closed, finding F12): 'a Stop that has returned left "
          "its queue empty', on which ResolvedInd rests, must be refuted"),
]

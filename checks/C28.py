"""C28: every documented way of starting a server speaks record-marked ONC RPC (specs/Startup)."""
import json, os
import vflib

LEVEL = "model_checking"
HARNESS = ["vf_common.go", "vf_vfs.go", "vf_startup.go"]
DEV = "Dev_ExportNoRecordMarking"

CFG = """SPECIFICATION Spec
CONSTANTS
  Paths = {"Export", "ListenRM", "ListenRaw", "SWP"}
  Xids = %(xids)s
  Frags = {1, 2}
  Auths = {"NONE", "SYS"}
  FixExport = %(fix)s
  FullRead = %(full)s
  SegSizes = {1, 3}
INVARIANTS %(invs)s
PROPERTY %(props)s
"""

TRACE_CFG = """SPECIFICATION Spec
CONSTANTS
  KnownDeviations = %(known)s
  FixExport = %(fix)s
"""


def exhaustive(ctx):
    fixed = ctx.finding_status("F20") == "fixed"
    xids = "{0, 5, 999999999}" if ctx.quick() else "{0, 1, 5, 1000000000, 999999999}"
    # the code as it is: every server that frames with record marking serves the session; a raw
    # server never produces anything a record-marking client accepts (so F20 is a total failure)
    cfg = ctx.write_cfg("Startup", "MC_code.cfg", CFG % dict(
        xids=xids, fix="TRUE" if fixed else "FALSE", full="TRUE",
        invs="TypeOK RawNeverAnswers RmStreamFramed ServesRM" + (" Serves" if fixed else ""),
        props="CompletesRM" + (" Completes" if fixed else "")))
    ctx.tlc_exhaustive("Startup", "Startup", cfg, workers=2, timeout=300, heap="2g")
    if not fixed:
        # the repaired design: C28 as stated
        cfg = ctx.write_cfg("Startup", "MC_ideal.cfg", CFG % dict(
            xids=xids, fix="TRUE", full="TRUE", invs="TypeOK RawNeverAnswers RmStreamFramed ServesRM Serves", props="Completes CompletesRM"))
        ctx.tlc_exhaustive("Startup", "Startup", cfg, workers=2, timeout=300, heap="2g")
    ctx.cov["exhaustive"] = True
    # non-vacuity: with Export's framing as in the pinned code TLC finds the session failing
    cfg = ctx.write_cfg("Startup", "MC_nv.cfg", CFG % dict(xids=xids, fix="FALSE", full="TRUE", invs="Serves", props="CompletesRM"))
    r = ctx.tlc_exhaustive("Startup", "Startup", cfg, expect_ok=False, count=False, workers=2, timeout=300, heap="2g")
    if r["violated"] != "Serves":
        raise vflib.Broken("non-vacuity run: expected Serves to be violated with FixExport=FALSE, got %s" % r["violated"])
    # non-vacuity 2: a fragment reader that takes what a single Read returns loses a record that arrives in several TCP segments
    cfg = ctx.write_cfg("Startup", "MC_nv_seg.cfg", CFG % dict(xids="{5}", fix="TRUE", full="FALSE", invs="ServesRM", props="CompletesRM"))
    r = ctx.tlc_exhaustive("Startup", "Startup", cfg, expect_ok=False, count=False, workers=2, timeout=300, heap="2g")
    if r["violated"] != "ServesRM":
        raise vflib.Broken("non-vacuity run: expected ServesRM to be violated with FullRead=FALSE, got %s" % r["violated"])
    ctx.notes.append("non-vacuity: with Export's ServerOptions as in the pinned code (FixExport=FALSE) TLC finds invariant Serves violated "
                     "(ClientSend -> ServeRaw closes -> ClientGiveUp); with a single-Read fragment reader (FullRead=FALSE) and a call delivered in "
                     "several TCP segments it finds ServesRM violated")


def validate(ctx, trace, label):
    fixed = ctx.finding_status("F20") == "fixed"
    cfg = ctx.write_cfg("Startup", "Trace_%s.cfg" % label, TRACE_CFG % dict(
        known=ctx.tla_set(ctx.known_devs(["C28"])), fix="TRUE" if fixed else "FALSE"))
    return ctx.tlc_trace("Startup", "StartupTrace", cfg, trace, out_name="res_%s.json" % label)


def history_of(lines, lno):
    start = lno - 1
    while start > 0 and json.loads(lines[start]).get("ev") != "reset":
        start -= 1
    return [l.rstrip("\n") for l in lines[start:lno]]


def bind_mutation(ctx, lines):
    """Binding demonstration: corrupt one recorded field of an answered call on a documented path
    (other than Export, which the known deviation may explain) and require the trace spec to reject
    every corrupted line. All mutants go into one file (one JVM start)."""
    muts = [("xid_ok", lambda e: e["r"].__setitem__("xid_ok", False)),
            ("outcome", lambda e: e.__setitem__("outcome", "closed")),
            ("astat", lambda e: e["r"].__setitem__("astat", 1)),
            ("framed", lambda e: e["r"].__setitem__("framed", False))]
    out, expect = [], []
    path, start, k = None, 0, 0
    for i, ln in enumerate(lines):
        e = json.loads(ln)
        if e.get("ev") == "reset":
            path, start = e["path"], i
        if k < len(muts) and e.get("ev") == "call" and path in ("ListenRM", "SWP") and e["outcome"] == "reply" and e["r"]["astat"] == 0:
            m = json.loads(ln)
            muts[k][1](m)
            out += lines[start:i] + [json.dumps(m)]
            expect.append((len(out), muts[k][0]))
            k += 1
    if k < len(muts):
        raise vflib.Broken("binding demonstration could not be performed (no answered call on ListenRM/SWP recorded)")
    mp = os.path.join(ctx.scratch, "mut.ndjson")
    open(mp, "w").write("\n".join(out) + "\n")
    res = validate(ctx, mp, "mut")
    badl = {b["l"] for b in res["bad"]}
    for lno, name in expect:
        if lno not in badl:
            raise vflib.Broken("binding demonstration failed: trace with corrupted %s accepted" % name)
    ctx.cov["binding_mutations_rejected"] += len(expect)


def run(ctx):
    if ctx.replay:
        return replay(ctx)
    exhaustive(ctx)
    binp = ctx.build_harness(HARNESS)
    ctx.harness_ok(binp, "TestVF_Startup", {}, timeout=420)
    trace = os.path.join(ctx.scratch, "startup.ndjson")
    summ = json.load(open(os.path.join(ctx.scratch, "startup.summary.json")))
    res = validate(ctx, trace, "main")
    if res["consumed"] != res["n"]:
        raise vflib.Broken("trace spec consumed %s of %s lines" % (res["consumed"], res["n"]))
    lines = open(trace).read().splitlines()
    paths_run = {}
    for ln in lines:
        e = json.loads(ln)
        if e.get("ev") == "reset":
            paths_run.setdefault(e["path"], [0, 0])
            paths_run[e["path"]][0 if e["started"] else 1] += 1
    for need in ("Export", "ListenRM"):
        if paths_run.get(need, [0, 0])[0] == 0 and not any(json.loads(l).get("path") == need for l in lines):
            raise vflib.Broken("start-up path %s was not exercised" % need)
    if summ["skipped"]:
        ctx.notes.append("start-up paths skipped (not a verdict): " + "; ".join(sorted(set(summ["skipped"]))))
    ctx.cov["paths"] = {k: {"started": v[0], "not_started": v[1]} for k, v in sorted(paths_run.items())}
    ctx.cov["traces_validated_against_impl"] = summ["histories"]
    ctx.cov["evaluations"] = res["n"]
    ctx.cov["distinct_nontrivial"] = summ["nontrivial"]
    ctx.cov["trace_stats"] = res["stats"]
    for s in summ.get("samples", [])[:4]:
        ctx.sample(s)
    seen = {}
    for b in sorted(res["bad"], key=lambda x: x["l"]):
        h = history_of(lines, b["l"])
        p = json.loads(h[0]).get("path")
        key = b["why"]
        seen[key] = seen.get(key, 0) + 1
        if seen[key] > 2:
            continue
        ctx.violation("%s (path %s, line %d)" % (b["why"], p, b["l"]), h, {"path": p, "line": b["l"]})
    for d in res["dev"]:
        ent = [e for e in ctx.known() if e["deviation"] == d["name"]]
        if ent:
            ctx.known_finding(d["name"], ent[0]["what"])
    if res["drift"]:
        ctx.cov["impl_model_drift"] = sorted({d["why"] for d in res["drift"]})
        ctx.notes.append("impl-level drift: framing flag / raw probe / call outcome differ from FramingOf(path); the exhaustive "
                         "result no longer speaks about this code (not a verdict)")
    bind_mutation(ctx, lines)
    ctx.cov["rule"] = ("one history per started server: path x {port 0, explicit free port} x {debug, read-only} with the client "
                       "variation (xid 0 / small / bit 31; one fragment / two fragments / header and body in separate segments; AUTH_NONE / AUTH_SYS) rotated "
                       "over them, and every started server additionally gets a session whose fragments arrive in several TCP segments "
                       "(body split in two, or the whole stream dribbled 5 bytes at a time); non-trivial = the session reached an OK GETATTR of the mounted handle")
    ctx.cov["spec_actions_covered_by_impl"] = ["Start(Export)", "Start(ListenRM)", "Start(ListenRaw)"] + \
        (["Start(SWP)"] if paths_run.get("SWP", [0, 0])[0] else []) + ["Connect", "ClientSend", "ServeRM", "ServeRaw", "ClientRecv", "ClientGiveUp"]
    ctx.assumptions += ["the client in harness/vf_startup.go is a conformant ONC RPC/TCP client (RFC 1831 section 10 framing, AUTH_NONE/AUTH_SYS)",
                        "loopback TCP; StartWithPortmapper is exercised only when port 111 can be bound (otherwise skipped and noted)",
                        "the raw probe (un-framed NULL) identifies a server that speaks header-less RPC"]


def replay(ctx):
    lines = [l for l in open(ctx.replay).read().splitlines() if l.strip()]
    body = [l for l in lines if json.loads(l).get("ev") != "meta"]
    tp = os.path.join(ctx.scratch, "replay.ndjson")
    open(tp, "w").write("\n".join(body) + "\n")
    res = validate(ctx, tp, "replay")
    for b in res["bad"]:
        ctx.violation(b["why"], body, {"replayed": ctx.replay})
    for d in res["dev"]:
        ctx.known_finding(d["name"])
    ctx.cov["evaluations"] = len(body)
    ctx.cov["distinct_nontrivial"] = 1
    ctx.sample({"replayed": ctx.replay})

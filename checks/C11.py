import os, sys
sys.path.insert(0, os.path.dirname(os.path.abspath(__file__)))
import core_common as cc, core_specs

LEVEL = "model_checking"
PID = "C11"


def run(ctx):
    if ctx.replay:
        return cc.replay(ctx, PID)
    core_specs.ownership(ctx)
    binp = ctx.build_harness(cc.HARNESS)
    q = ctx.quick()
    runs = cc.run_profile(ctx, binp, "own", 32 if q else 320, 30 if q else 40)
    cc.report_all(ctx, PID, runs, "own")
    trace, res = runs[0]
    cc.mutate_and_reject(ctx, trace, "own", cc.mut_owner, "new object owned by another identity")
    ctx.cov["rule"] = "seeded CREATE/MKDIR/SYMLINK/SETATTR histories with callers uid in {0,7,1000,65534} x gid in {0,100,1000,65534}, squash none/root/all/default, every subset of sattr3 uid/gid; the backend's recorded owner of every object and every chown/lchown call are logged"

"""METRICS: the metrics / health subsystem (metrics.go, metrics_api.go and the call sites that feed it), an extension
of the specification's coverage.  Not one of the 30 listed properties (no registry entry, no known_findings entry):
run by hand or by the coordinator as `bin/check METRICS`; writes evidence/METRICS.json (git-ignored).

exhaustive TLC runs of specs/Metrics/Metrics.tla on small instances (threads running the collector's calls, one action per
atomic instruction / critical section; counter accounting, bounded rings, connection accounting, hit rates, snapshot
bounds, IsHealthy; one non-vacuity run per as-coded weakness and per seeded design error)
-> seeded histories against the REAL collector, operations, handlers and accept loop (harness/vf_metrics.go): the
   collector's API, AbsfsNFS.Lookup / GetAttr / ReadDir with the cache entries' status, NFS procedures through HandleCall,
   connections over loopback TCP, a concurrent phase compared at quiescence with the tally of what was issued; time in
   rate_limiter.go, cache.go, metrics.go, metrics_api.go is the virtual clock
-> every recorded step validated by TLC against the call's action (MetricsTrace.tla, SV: the line before is the pre-state)
-> the same writers and readers under the race detector
-> binding demonstration: five corrupted copies of recorded histories must each be rejected for the stated reason.

Defects of the pinned tree are modelled as named deviations, each guarded by its exact condition; an observed one prints
`NOTE: metrics deviation <name>: <what>` and the check stays exit 0 (see specs/Metrics/FINDINGS.md).  METRICS_STRICT=1
switches every tolerated deviation off (they are then reported as violations)."""
import json, os, re, subprocess, sys, threading, copy, time
sys.path.insert(0, os.path.dirname(os.path.abspath(__file__)))
import vflib

LEVEL = "model_checking"
HARNESS = ["vf_common.go", "vf_vfs.go", "vf_clock.go", "vf_metrics.go"]
CLOCK = ["rate_limiter.go", "cache.go", "metrics.go", "metrics_api.go"]

DEVIATIONS = {
    "OperationsNotRecorded": "NFS procedures served through the real handlers leave TotalOperations, the per-type counters, the result ring "
                             "behind IsHealthy, the latency statistics and the error classification untouched: RecordOperationStart has no caller "
                             "in the tree (IsHealthy() is constantly true)",
    "ConnectionsNotRecorded": "connections accepted, rejected at MaxConnections and closed by the real accept loop leave ActiveConnections / "
                              "TotalConnections / RejectedConnections at 0: RecordConnection, RecordConnectionClosed, RecordRejectedConnection "
                              "have no caller in the tree",
    "RateLimitNotInErrorCount": "RecordRateLimitExceeded (every limiter refusal of the server) counts in RateLimitExceeded but not in ErrorCount, "
                                "RecordError(\"RATELIMIT\") counts in both: ErrorCount falls below the sum of its categories",
    "StaleHitRate": "a hit-rate field is computed from the counters outside the mutex that stores it: a slower updater overwrites a newer "
                    "value and at quiescence CacheHitRate is not hits / (hits + misses) (directed schedule: 1 hit, 1 miss, rate 1.0)",
    "SnapshotNotACut": "a GetMetrics() snapshot taken while operations run showed more typed operations than TotalOperations "
                       "(the counters are plain loads of atomically updated fields)",
    "SnapshotDataRace": "the race detector reports GetMetrics() (metrics.go, the struct copy `metricsCopy := m.metrics`) racing with the "
                        "atomic adds of the counter recorders (RecordTimeout, RecordError, RecordRateLimitExceeded, ...)",
}
TRACE_DEVS = ["OperationsNotRecorded", "ConnectionsNotRecorded", "RateLimitNotInErrorCount", "StaleHitRate", "SnapshotNotACut"]

INV = ("TypeOK OpAccounting TotalsAgree ErrAccounting EveryFailureCounted TimeoutAccounting WindowAccounting LatencyOK ConnAccounting "
       "ActiveBound ActiveQuiescent RatesGenuineInv HitMissMeaning SnapBounded SnapConn HealthFn")

MC_CFG = """SPECIFICATION Spec
CONSTANTS
  Cap = %(cap)d
  P95Min = %(p95min)d
  LatLimit = 5
  Th = %(th)s
  OpTypes = %(optypes)s
  Outcomes <- %(outcomes)s
  LatVals = %(latvals)s
  Conns = %(conns)s
  MaxConn = %(maxconn)d
  CacheSet = %(caches)s
  ToTypes = %(totypes)s
  ErrCats = %(errcats)s
  Kinds = %(kinds)s
  Budget = %(budget)d
  ReadOnly = %(ro)s
  AtomicRate = %(atomic)s
  RLInErr = %(rlinerr)s
  Bug = "%(bug)s"
INVARIANTS %(inv)s
PROPERTIES Monotone
"""

ALLKINDS = ["op", "health", "snap", "conn", "rl", "recerr", "timeout", "cache"]


def S(xs):
    return "{" + ", ".join('"%s"' % x if isinstance(x, str) else str(x) for x in xs) + "}"


def mc(ctx, name, **kw):
    d = dict(cap=2, p95min=2, th="{1, 2}", optypes=S(["READ", "SETATTR"]), outcomes="OutBasic", latvals="{1, 9}", conns="{1, 2}", maxconn=1,
             caches=S(["attr"]), totypes=S(["READ"]), errcats=S(["AUTH"]), kinds=S(["op"]), budget=3, ro="FALSE", atomic="FALSE",
             rlinerr="FALSE", bug="none", inv=INV)
    d.update(kw)
    return ctx.write_cfg("Metrics", name, MC_CFG % d)


def slices(ctx, errors):
    """Exhaustive safety runs (a thread next to the harness).  Measured distinct states (2 workers, machine under heavy load:
    about 1e3 states/s, 10 s of JVM start per run; unloaded the quick runs take 2-4 s each):
    all2 6.5e3 / 26 s, snap 4.6e2 / 12 s; thorough: ops3 1.5e5 / 40 s, conn 7.7e3 / 26 s, all3, cache4, classes."""
    try:
        q = ctx.quick()
        W = dict(workers=2 if q else 4, deadlock=False, heap="3g")
        # every kind of call, two threads, two calls in total: all pairwise interleavings of the critical sections
        ctx.tlc_exhaustive("Metrics", "MetricsMC", mc(ctx, "MC_all2.cfg", kinds=S(ALLKINDS), budget=2, caches=S(["attr", "neg"]),
                                                      errcats=S(["AUTH", "OTHER"]), totypes=S(["READ", "COMMIT"])), timeout=600, **W)
        if not q:
            # operations next to GetMetrics: the snapshot's bounds (three calls)
            ctx.tlc_exhaustive("Metrics", "MetricsMC", mc(ctx, "MC_snap.cfg", kinds=S(["op", "snap"]), optypes=S(["READ"]), outcomes="OutOk",
                                                          latvals="{1}"), timeout=600, **W)
            # operations (ok / failed, fast / slow, typed / untyped) next to IsHealthy, three calls, rings of capacity 2
            ctx.tlc_exhaustive("Metrics", "MetricsMC", mc(ctx, "MC_ops3.cfg", kinds=S(["op", "health", "snap"]), optypes=S(["READ", "LOOKUP", "SETATTR"])),
                               timeout=1200, **W)
            # three connections, MaxConnections 2, accept / reject / close next to GetMetrics
            ctx.tlc_exhaustive("Metrics", "MetricsMC", mc(ctx, "MC_conn.cfg", kinds=S(["conn", "snap"]), conns="{1, 2, 3}", maxconn=2, budget=4),
                               timeout=1200, **W)
            # hit / miss of two caches with the repaired (atomic) rate update: the rate is consistent at quiescence
            ctx.tlc_exhaustive("Metrics", "MetricsMC", mc(ctx, "MC_cache.cfg", kinds=S(["cache"]), caches=S(["attr", "neg"]), atomic="TRUE", budget=4,
                                                          inv=INV + " RatesQuiescent"), timeout=1200, **W)
            # every error class, read-only policy, RecordError, limiter refusals counted in ErrorCount (repaired): totals agree
            ctx.tlc_exhaustive("Metrics", "MetricsMC", mc(ctx, "MC_classes.cfg", th="{1}", kinds=S(["op", "rl", "recerr", "timeout"]), outcomes="OutClasses",
                                                          optypes=S(["WRITE", "LOOKUP"]), ro="TRUE", rlinerr="TRUE", errcats=S(["AUTH", "RATELIMIT", "IO"]),
                                                          totypes=S(["READ", "HANDLE", "GETATTR"]), latvals="{1}", inv=INV + " ErrTotalsAgree"),
                               timeout=1200, **W)
            # every kind of call, three calls in total
            ctx.tlc_exhaustive("Metrics", "MetricsMC", mc(ctx, "MC_all3.cfg", kinds=S(ALLKINDS), budget=3, latvals="{9}",
                                                          optypes=S(["READ", "SETATTR"])), timeout=2400, **W)
        ctx.cov["exhaustive"] = True
    except BaseException as e:   # re-raised in the main thread
        errors.append(e)


NV = [
    # name, overrides, invariants that may be reported
    ("rate_as_coded", dict(kinds=S(["cache"]), budget=2, inv=INV + " RatesQuiescent"), ("RatesQuiescent",)),
    ("ratelimit_as_coded", dict(kinds=S(["rl", "op"]), budget=2, inv=INV + " ErrTotalsAgree"), ("ErrTotalsAgree",)),
    ("snapshot_as_coded", dict(kinds=S(["op", "snap"]), optypes=S(["READ"]), outcomes="OutOk", latvals="{1}", budget=2, inv=INV + " SnapIsCut"), ("SnapIsCut",)),
    ("SkipTyped", dict(kinds=S(["op"]), optypes=S(["READ", "LOOKUP"]), budget=2, bug="SkipTyped"), ("OpAccounting", "TotalsAgree")),
    ("SkipResult", dict(kinds=S(["op"]), budget=2, bug="SkipResult"), ("WindowAccounting",)),
    ("UnboundedWindow", dict(kinds=S(["op"]), budget=3, bug="UnboundedWindow"), ("LatencyOK",)),
    ("TwoCategories", dict(kinds=S(["op"]), outcomes="OutTwo", budget=2, bug="TwoCategories"), ("ErrAccounting", "EveryFailureCounted")),
    ("UnregFirst", dict(kinds=S(["conn"]), conns="{1, 2, 3}", maxconn=1, budget=3, bug="UnregFirst"), ("ActiveBound", "TypeOK", "ConnAccounting")),
    ("ForgottenDecrement", dict(kinds=S(["conn"]), maxconn=2, budget=3, bug="ForgottenDecrement"), ("ConnAccounting", "ActiveQuiescent", "ActiveBound")),
    ("NegSwapped", dict(kinds=S(["cache"]), caches=S(["neg"]), atomic="TRUE", budget=2, bug="NegSwapped"), ("HitMissMeaning",)),
    ("HealthIgnoresLatency", dict(kinds=S(["op", "health"]), optypes=S(["READ"]), outcomes="OutOk", latvals="{9}", budget=3, bug="HealthIgnoresLatency"), ("HealthFn",)),
]


def nonvacuity(ctx, errors):
    """TLC finds each as-coded weakness and each seeded design error (quick: the three as-coded ones are spread over the seeds
    together with one of the eight seeded errors; thorough: all eleven)."""
    try:
        q = ctx.quick()
        W = dict(workers=2, deadlock=False, heap="2g")
        todo = NV
        if q:
            k = ctx.seed % 3
            todo = [NV[k], NV[3 + (ctx.seed % 8)]]
        done = []
        for name, kw, expect in todo:
            if name in done:
                continue
            r = ctx.tlc_exhaustive("Metrics", "MetricsMC", mc(ctx, "MC_nv_%s.cfg" % name, **kw), expect_ok=False, count=False, timeout=600, **W)
            if r["violated"] not in expect:
                raise vflib.Broken("non-vacuity run %s: expected one of %s to be violated, got %s\n%s" % (name, expect, r["violated"], r["out"][-1500:]))
            done.append(name)
        ctx.notes.append("non-vacuity: TLC finds the stated invariant violated by: " + ", ".join(done))
    except BaseException as e:
        errors.append(e)


def build(ctx, race=False, name="vf.test"):
    """vflib.build_harness with one difference: the clock rewrite removes the last use of package time from metrics_api.go,
    so every rewritten file gets a line that keeps the import used."""
    ov = {"Replace": {}}
    for f in HARNESS:
        src = os.path.join(vflib.VERIF, "harness", f)
        if not os.path.exists(src):
            raise vflib.Broken("harness file missing: " + src)
        ov["Replace"][os.path.join(vflib.REPO, "zz_" + f[:-3] + "_test.go")] = src
    for cf in CLOCK:
        src = open(os.path.join(vflib.REPO, cf)).read()
        out = src.replace("time.Now()", "vfNow()")
        out = re.sub(r"time\.Since\(([^()]*)\)", r"vfNow().Sub(\1)", out)
        if out == src:
            raise vflib.Broken("clock rewrite found nothing to rewrite in " + cf)
        out += "\nvar _ = time.Second // keeps package time imported after the clock rewrite\n"
        dst = os.path.join(ctx.scratch, "clk_" + cf)
        open(dst, "w").write(out)
        ov["Replace"][os.path.join(vflib.REPO, cf)] = dst
    ovp = os.path.join(ctx.scratch, "overlay-%s.json" % name)
    json.dump(ov, open(ovp, "w"))
    binp = os.path.join(ctx.scratch, name)
    cmd = ["go", "test", "-c", "-tags", "verif", "-vet=off", "-overlay", ovp, "-o", binp] + (["-race"] if race else []) + ["."]
    t = time.time()
    r = subprocess.run(cmd, cwd=vflib.REPO, env=dict(os.environ, **vflib.GOENV), stdout=subprocess.PIPE, stderr=subprocess.STDOUT, text=True)
    if r.returncode != 0:
        raise vflib.Broken("harness build failed (a refactoring of /repo that renames what the harness reaches into breaks the check, "
                           "it is not a verdict):\n" + r.stdout[-4000:])
    ctx.log("harness built in %.1fs%s" % (time.time() - t, " (race)" if race else ""))
    return binp


RACE_FRAME = re.compile(r"^\s+(\S+)\(\)\s*$")


def race_phase(ctx, out, errors):
    """The writers of every counter next to GetMetrics / IsHealthy readers under the race detector.  A report whose two sides are
    GetMetrics (the struct copy) and an atomic add is the known snapshot race; any other report is returned as a violation."""
    try:
        binp = build(ctx, race=True, name="vf-race.test")
        rc, txt = ctx.run_harness(binp, "TestVF_MetricsRace", {"GORACE": "halt_on_error=0"}, timeout=300)
        if "VFMET-RACE-DONE" not in txt:
            raise vflib.Broken("harness driver TestVF_MetricsRace failed (rc=%d):\n%s" % (rc, txt[-4000:]))
        reports = []
        for blk in txt.split("WARNING: DATA RACE")[1:]:
            blk = blk.split("==================")[0]
            sides, cur = [], None
            for ln in blk.splitlines():
                if re.match(r"^(Read|Write|Previous read|Previous write|Atomic|Previous atomic)", ln.strip(), re.I) and " by " in ln:
                    cur = {"kind": ln.strip().split(" at ")[0], "frames": []}
                    sides.append(cur)
                elif ln.startswith("Goroutine "):
                    cur = None
                elif cur is not None:
                    m = RACE_FRAME.match(ln)
                    if m:
                        cur["frames"].append(m.group(1))
            reports.append(sides)
        out["reports"] = reports
        out["text"] = txt
    except BaseException as e:
        errors.append(e)


def classify_race(sides):
    """'snapshot' when one side is the struct copy in MetricsCollector.GetMetrics and the other an atomic add; else the frames."""
    def top(s):
        return [f for f in s["frames"] if "TestVF_" not in f and "testing." not in f][:3]
    if len(sides) >= 2:
        a, b = sides[0], sides[1]
        for x, y in ((a, b), (b, a)):
            if any(f.endswith("(*MetricsCollector).GetMetrics") for f in x["frames"][:2]) and any(f.startswith("sync/atomic.Add") for f in y["frames"][:2]):
                return "snapshot", top(y)
    return "other", [top(s) for s in sides]


TRACE_CFG = """SPECIFICATION Spec
CONSTANTS
  Cap = 1000
  P95Min = 20
  LatLimit = 5000
  KnownDeviations = %s
"""


def tolerated():
    return [] if os.environ.get("METRICS_STRICT") else TRACE_DEVS


def run_trace(ctx, trace, label):
    cfg = ctx.write_cfg("Metrics", "Trace_%s.cfg" % label, TRACE_CFG % ctx.tla_set(tolerated()))
    return ctx.tlc_trace("Metrics", "MetricsTrace", cfg, trace, out_name="res_%s.json" % label, heap="4g", timeout=900)


def histories(lines):
    out, cur, start = [], [], 1
    for i, ln in enumerate(lines, 1):
        if json.loads(ln).get("ev") == "reset" and cur:
            out.append((start, cur))
            cur, start = [], i
        cur.append(ln)
    if cur:
        out.append((start, cur))
    return out


def history_at(hists, lno):
    for start, ls in hists:
        if start <= lno < start + len(ls):
            return start, ls
    return None, []


G_OP = "operation counters (TotalOperations / per-type) differ from the call's effect"
G_CACHE = "cache hit / miss counters differ from the call's effect"
G_ERR = "error counters (ErrorCount / categories) differ from the call's effect"
G_HEALTH = "IsHealthy is not the documented function of the window and the P95 values"
G_CONN = "at quiescence the connection counters are not opened - closed of what was issued"


def mutants(ctx, hists):
    """Binding demonstration: five corrupted copies of recorded histories (one counter of one recorded line changed); each must be
    rejected for the stated reason."""
    plan = [("total", lambda e: e["ev"] == "step" and e["lvl"] == "api" and e["call"] == "op", G_OP),
            ("misses", lambda e: e["ev"] == "step" and e["lvl"] == "ops" and e["call"] == "lookup", G_CACHE),
            ("auth", lambda e: e["ev"] == "step" and e["lvl"] == "srv" and e["call"] == "nfs" and e["denied"], G_ERR),
            ("healthy", lambda e: e["ev"] == "step" and e["lvl"] == "api" and e["call"] == "op", G_HEALTH),
            ("active", lambda e: e["ev"] == "step" and e["lvl"] == "conc" and e["call"] == "quiesce" and "directed" not in e, G_CONN)]
    out = []
    for kind, pick, why in plan:
        done = None
        for _, h in hists[ctx.seed % max(1, len(hists)):] + hists:
            ev = [json.loads(x) for x in h]
            idx = [i for i, e in enumerate(ev) if pick(e)]
            if not idx:
                continue
            i = idx[ctx.seed % len(idx)]
            m = copy.deepcopy(ev)
            if kind == "total":
                m[i]["m"]["total"] += 1
            elif kind == "misses":
                m[i]["g"]["misses"]["attr"] += 1
            elif kind == "auth":
                m[i]["m"]["cat"]["AUTH"] -= 1
            elif kind == "healthy":
                m[i]["healthy"] = not m[i]["healthy"]
            else:
                m[i]["m"]["active"] += 1
            for e in m:
                e["hist"] = 900001 + len(out)
            m[0]["kind"] = "mutant:" + kind
            done = (m, why)
            break
        if not done:
            raise vflib.Broken("binding demonstration: no recorded history offers a line for the corruption '%s'" % kind)
        out.append(done)
    return out


ACTIONS = {"api.op": "OpStart+OpDone (OpCallK)", "api.opstart": "OpStart", "api.opdone": "OpDone", "api.conn": "ConnOpen", "api.close": "ConnClose",
           "api.reject": "ConnReject", "api.rl": "RecRateLimit", "api.recerr": "RecError", "api.timeout": "RecTimeout", "api.cache": "CacheRec (CacheAdd)",
           "api.tls": "IncTls / TlsCert", "api.lat": "LatPush (LatPushK)", "ops.lookup": "CacheRec via Lookup", "ops.getattr": "CacheRec via GetAttr",
           "ops.readdir": "CacheRec via ReadDir", "ops.readdirplus": "CacheRec via ReadDirPlus", "ops.timeout": "RecTimeout via *WithContext",
           "srv.nfs": "HandleCall: RecError(AUTH) / RecRateLimit / OpCall", "srv.mnt": "MNT: RecRateLimit", "srv.tcp.open": "accept loop: ConnOpen / ConnReject",
           "srv.tcp.close": "accept loop: ConnClose", "srv.tcp.null": "connection loop: RecRateLimit", "conc.quiesce": "all actions, concurrent, at quiescence"}


def run(ctx):
    if ctx.replay:
        return replay(ctx)
    errors, race = [], {}
    ctx._spec_copy("Metrics")       # before the threads start: all sides write .cfg files into the scratch copy
    ths = [] if os.environ.get("METRICS_SKIP_MC") else [threading.Thread(target=f, args=(ctx, errors)) for f in (slices, nonvacuity)]
    if not os.environ.get("METRICS_SKIP_RACE"):
        ths.append(threading.Thread(target=race_phase, args=(ctx, race, errors)))
    for th in ths:
        th.start()
    try:
        binp = build(ctx)
        rc, out = ctx.run_harness(binp, "TestVF_Metrics", {}, timeout=900)
        if "VF-HOOKS-ABSENT" in out:
            raise vflib.Broken("the vhook call sites cm.accept / cm.reject / cm.unreg are not compiled into the tree under test (%s)" % vflib.REPO)
        if rc != 0 or "no tests to run" in out:
            raise vflib.Broken("harness driver TestVF_Metrics failed (rc=%d):\n%s" % (rc, out[-6000:]))
        summ = json.load(open(os.path.join(ctx.scratch, "metrics.summary.json")))
        lines = [l for l in open(os.path.join(ctx.scratch, "metrics.ndjson")).read().splitlines() if l.strip()]
        n_real = len(lines)
        hists = histories(lines)
        muts = mutants(ctx, hists)
        for m, _ in muts:
            lines += [json.dumps(e, separators=(",", ":")) for e in m]
        trace = os.path.join(ctx.scratch, "metrics_all.ndjson")
        open(trace, "w").write("\n".join(lines) + "\n")
        res = run_trace(ctx, trace, "all")
        if res["consumed"] != res["n"]:
            raise vflib.Broken("trace validation consumed %s of %s lines" % (res["consumed"], res["n"]))
    finally:
        for th in ths:
            th.join()
    if errors:
        raise errors[0]
    all_h = histories(lines)
    seen, mut_bad, devs = {}, {}, {}
    for b in sorted(res["bad"], key=lambda x: x["l"]):
        if b["hist"] >= 900000:
            mut_bad.setdefault(b["hist"], set()).add(b["why"])
            continue
        why = b["why"]
        seen[why] = seen.get(why, 0) + 1
        if seen[why] > 2:
            continue
        start, hl = history_at(all_h, b["l"])
        e = json.loads(lines[b["l"] - 1])
        ctx.violation("%s (history %s kind %s, line %d of it: %s)" % (why, b["hist"], json.loads(hl[0]).get("kind"), b["l"] - start + 1,
                                                                    json.dumps({k: v for k, v in e.items() if k not in ("g",)})[:600]),
                      hl, {"history": {k: v for k, v in json.loads(hl[0]).items() if k not in ("m", "g")}, "line": b["l"] - start + 1})
    for d in res["dev"]:
        if d["hist"] < 900000:
            devs[d["name"]] = devs.get(d["name"], 0) + 1
    # the race detector's reports
    if race:
        known, other = [], []
        for sides in race.get("reports", []):
            k, frames = classify_race(sides)
            (known if k == "snapshot" else other).append(frames)
        if known:
            if os.environ.get("METRICS_STRICT"):
                ctx.violation("data race: GetMetrics() copies the metrics struct with plain loads while %s updates a field of it with an atomic add"
                              % ", ".join(sorted({f[1] if len(f) > 1 else f[0] for f in known if f})),
                              [json.dumps({"ev": "race", "frames": f}) for f in known[:6]], {"reports": len(known)})
            else:
                devs["SnapshotDataRace"] = len(known)
        for fr in other[:3]:
            ctx.violation("data race reported by the race detector in the metrics subsystem: %s" % json.dumps(fr)[:500],
                          [json.dumps({"ev": "race", "frames": fr})], {"reports": len(other)})
        ctx.cov["race_reports"] = {"snapshot_vs_atomic_add": len(known), "other": len(other)}
    for name in sorted(devs):
        print("NOTE: metrics deviation %s: %s [%d observation(s)]" % (name, DEVIATIONS[name], devs[name]))
        ctx.notes.append("deviation observed: %s (%d)" % (name, devs[name]))
    ctx.cov["deviations_observed"] = devs
    if not ctx.violations:
        for k, (m, why) in enumerate(muts):
            if why not in mut_bad.get(900001 + k, set()):
                raise vflib.Broken("binding demonstration failed: the corrupted history %s was not rejected with %r (got %s)"
                                   % (m[0]["kind"], why, sorted(mut_bad.get(900001 + k, []))))
            ctx.cov["binding_mutations_rejected"] += 1
    st = res["stats"]
    ctx.cov["traces_validated_against_impl"] = len(hists)
    ctx.cov["evaluations"] = summ["steps"]
    ctx.cov["distinct_nontrivial"] = summ["distinct"]
    ctx.cov["trace_stats"] = st          # counted by the trace spec; includes the five corrupted copies of the binding demonstration
    ctx.cov["histories_per_kind"] = summ["per_kind"]
    ctx.cov["calls"] = summ["calls"]
    ctx.cov["spec_actions_covered_by_impl"] = sorted(a for k, a in ACTIONS.items() if summ["calls"].get(k, 0) > 0)
    missing = sorted(k for k in ACTIONS if summ["calls"].get(k, 0) == 0)
    if missing:
        ctx.notes.append("calls no history of this seed made: " + ", ".join(missing))
    for k in summ["distinct_keys"][:: max(1, len(summ["distinct_keys"]) // 4)][:4]:
        ctx.sample(k)
    ctx.cov["rule"] = ("seeded histories against the real collector / operations / handlers / accept loop: api (60 random calls of the collector's API: "
                       "operations of 16 type strings with 11 kinds of error, batches of 2..1001 that wrap the three rings, operations in flight "
                       "completed out of order, connections, rejections, limiter refusals, RecordError with 7 category strings, timeouts with 10 type "
                       "strings, cache hit / miss, TLS counters, clock ticks; with and without a read-only policy), health (error rate around one half, "
                       "P95 around 5 s, recovery through the rings), ops (70 random Lookup / GetAttr / ReadDir / ReadDirPlus / expired-context calls / "
                       "backend changes / clock ticks with the cache entries' status read before the call), srv (60 random NFS procedures through "
                       "HandleCall incl. stale handles, refused credentials and limiter refusals), tcp (connections through Server.Listen up to and "
                       "past MaxConnections, NULL calls past the per-connection bucket), conc (3-5 goroutines x 110 calls next to a GetMetrics "
                       "sampler, compared at quiescence), the directed stale-rate schedule.  evaluations = recorded steps; distinct = distinct "
                       "(level, call, arguments class, outcome class)")
    ctx.assumptions += ["rate_limiter.go, cache.go, metrics.go and metrics_api.go are compiled against the virtual clock (textual rewrite of time.Now / "
                        "time.Since at check time): latencies are exactly the clock advance between start and completion, caches expire only on ticks",
                        "the three predicates isStaleFileHandle / isAuthError / isResourceError are taken from their documentation: the harness passes "
                        "errors whose traits are known by construction (ENOENT and 'file handle' texts are stale, os.ErrPermission / EACCES auth, "
                        "ENOSPC / 'too many' / 'quota' resource)",
                        "documented wiring: every NFS procedure that reaches its handler is one operation of the type named like the procedure; an "
                        "accepted / rejected / closed connection is one RecordConnection / RecordRejectedConnection / RecordConnectionClosed",
                        "cache probes made by handlers and by mutating operations are not predicted (only their consistency is checked); they are "
                        "predicted exactly for Lookup, GetAttr, ReadDir, ReadDirPlus",
                        "a GetMetrics snapshot taken while writers run is only required to be monotone per field and within the bounds the locks give "
                        "(the code reads the atomically updated counters with plain loads)"]


def replay(ctx):
    lines = [l for l in open(ctx.replay).read().splitlines() if l.strip()]
    body = [l for l in lines if json.loads(l).get("ev") not in ("meta", "race")]
    if not body:
        raise vflib.Broken("the replay file holds a race detector report, not a history: re-run `bin/check METRICS`")
    tp = os.path.join(ctx.scratch, "replay.ndjson")
    open(tp, "w").write("\n".join(body) + "\n")
    res = run_trace(ctx, tp, "replay")
    seen = {}
    for b in sorted(res["bad"], key=lambda x: x["l"]):
        seen[b["why"]] = seen.get(b["why"], 0) + 1
        if seen[b["why"]] <= 1:
            ctx.violation(b["why"], body, {"replayed": ctx.replay, "line": b["l"]})
    ctx.cov["evaluations"] = len(body)
    ctx.cov["distinct_nontrivial"] = 2   # a replay re-validates one recorded history (schema minimum)
    ctx.sample({"replayed": ctx.replay})

"""Proof obligations of specs/RateLimiter/RateLimiterInd.tla (TLAPS; RateLimiter.tla and RateLimiterOps.tla are used unchanged).
Format: see checks/PROOFS.py.  What is proved, the strengthenings and the assumptions: header of RateLimiterInd.tla.

Constants: ALL universally quantified (any connection / operation-type sets, any natural-number rates, bursts, cleanup
intervals, quotas, any Horizon - the clock is unbounded in the proof), both AllowRequest orders.  Assumed: Horizon, OpHorizon
natural numbers; ConfigsOK (every element of Configs has natural-number fields - immediate from the definition, but no TLAPS
back end supports set constructors with several bound variables); TLC evaluates both ASSUMEs on a small model.

Wrong variants: a textual edit of RateLimiterOps.tla / RateLimiterInd.tla and the lemma (`only`) that must then be unprovable;
tlapm is run on that lemma alone (--toolbox), with all back ends and their default timeouts."""
F = "RateLimiter"
M = "RateLimiterInd.tla"
OPS = "RateLimiterOps.tla"
ALLC = "all constants universally quantified (TLAPS)"


def wrong(name, only, edits, claim, tier="quick"):
    return dict(name=F + "/wrong-" + name, family=F, tool="tlapm", module=M, only=only, timeout=400, cores=1, est=30, edits=edits,
                expect="rejected", claim=claim, tier=tier)


OBLIGATIONS = [
    dict(name=F + "/tlapm", family=F, tool="tlapm", module=M, args=["--stretch", "8"], timeout=1500, cores=6, threads=8, est=760, edits=[], expect="proved",
         claim="Init => IndInv4, IndInv4 /\\ [Next]_vars => IndInv4', IndInv4 => TypeOK /\\ FHBounded /\\ AbsentIsFull /\\ BurstPlusRate /\\ "
               "CleanupInvisible /\\ (FixOrder => RefusedIsFree) /\\ FaithIsGlobal /\\ FixedGlobalIsRef /\\ ((FixOrder \\/ F11 known) => NoCollateral) - every invariant TLC checks for RateLimiter -, with the per-call lemmas (a denial "
               "consumes nothing, per-key independence); " + ALLC),
    dict(name=F + "/tlc-assumes", family=F, tool="tlc", module=M, args=["-config", "RateLimiterIndMC.cfg"], timeout=300, cores=1, est=30,
         edits=[], expect="proved",
         claim="TLC evaluates ASSUME ConfigsOK / ConstAssm (the facts TLAPS cannot derive) and checks IndInv4 on every reachable state of "
               "a small model (2 connections, 1 operation type, all three modes, both orders)"),
    wrong("peek-without-cap", "AllowChar",
          [(OPS, "Peek(b, now, r4, B) == Min(b.tok + (now - b.last) * r4, 16 * B)", "Peek(b, now, r4, B) == b.tok + (now - b.last) * r4")],
          "TokenBucket.Tokens() without the cap at burst: 'tokens never exceed the burst' (AllowChar) must become unprovable"),
    wrong("cleanup-removes-nonfull", "IpCleanupChar",
          [(OPS, "IpIdle(s, c, now) == {i \\in DOMAIN s.ip : Peek(s.ip[i], now, c.ipR4, c.ipB) >= 16 * c.ipB}",
            "IpIdle(s, c, now) == {i \\in DOMAIN s.ip : Peek(s.ip[i], now, c.ipR4, c.ipB) >= 16 * c.ipB - 16}")],
          "per-IP cleanup that also drops a bucket one token short of full: 'cleanup changes no view' (IpCleanupChar) must become unprovable",
          tier="thorough"),
    wrong("typeok-as-listed", "AllowChar",
          [(M, "BucketOK(b, B, t) == b.tok \\in 0..(16 * B) /\\ b.last \\in 0..t", "BucketOK(b, B, t) == b.tok \\in 0..(16 * B)")],
          "strengthening S1 dropped (no `last <= now`, as TypeOK has it for per-connection / per-operation buckets): a refill can be "
          "negative, AllowChar must become unprovable - the listed TypeOK is not inductive", tier="thorough"),
    wrong("twin-untyped", "PairOfInv",
          [(M, "  /\\ StateOK(s, c, now, closed) /\\ StateOK(n, c, now, closed)\n", "  /\\ StateOK(s, c, now, closed)\n")],
          "strengthening S4 dropped (nothing known about the twin's buckets): the invariant no longer yields the hypotheses of the "
          "relational lemmas (PairOfInv must become unprovable)", tier="thorough"),
]

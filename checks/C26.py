"""C26: directory listings page completely and respect the client's size limit (specs/Readdir)."""
import json, os, sys
sys.path.insert(0, os.path.dirname(os.path.abspath(__file__)))
import vflib
import limits_common as lc

LEVEL = "model_checking"
PID = "C26"
HARNESS = ["vf_common.go", "vf_vfs.go", "vf_readdir.go"]

CFG = """SPECIFICATION Spec
CONSTANTS
  Lens = %(lens)s
  MaxEntries = %(n)d
  Levels = %(levels)s
  Procs = {"READDIR", "READDIRPLUS"}
INVARIANTS %(invs)s
"""

TRACE_CFG = """SPECIFICATION Spec
CONSTANTS
  KnownDeviations = %(known)s
  ImplLevel = "%(level)s"
"""

LISTING = "TypeOK Complete NoDuplicates EofOnlyAtEnd Progress TooSmallOnlyWhenNothingFits VerdictAgrees"


def impl_level(ctx):
    """The paging rule the code is expected to follow: pinned, or proposed/F18.patch once F18 is fixed."""
    return "sized" if ctx.finding_status("F18") == "fixed" else "code"


def exhaustive(ctx):
    level = impl_level(ctx)
    # One run covers the server as it is (pinned rule or the repaired one) and the ideal rule: the level is chosen in
    # Init. Listing is complete and progresses at every level; every reply of the server's rule that the property
    # rejects is exactly one of the named deviations (Classified); the ideal rule also satisfies Fits.
    # measured: quick 3 entries x {1,5,255}, 2 levels: ~10 k distinct / 190 k generated, 7-10 s at 4 workers (idle machine);
    # thorough 4 entries x {1,5,68,255}, 3 levels: 209 k distinct / 4.9 M generated, 60 s at 8 workers.
    # (name lengths 1 and 4 pad to the same XDR size, hence 1 / 5 / 68 / 255; 68 is where a READDIRPLUS entry reaches
    # the code's 200-byte margin)
    if ctx.quick():
        n, lens, levels = 3, "{1, 5, 255}", [level, "ideal"]
    else:
        n, lens, levels = 4, "{1, 5, 68, 255}", ["code", "sized", "ideal"]
    w = dict(workers=4 if ctx.quick() else 8, heap="3g", deadlock=False, timeout=1500)
    cfg = ctx.write_cfg("Readdir", "MC_levels.cfg", CFG % dict(lens=lens, n=n, levels=ctx.tla_set(levels),
                        invs=LISTING + " Classified OnlyTooSmallMissing FitsIdeal"))
    ctx.tlc_exhaustive("Readdir", "Readdir", cfg, **w)
    ctx.cov["exhaustive"] = True
    # non-vacuity: the pinned rule violates Fits (long names / small counts)
    cfg = ctx.write_cfg("Readdir", "MC_nv.cfg", CFG % dict(lens="{1, 255}", n=2, levels='{"code"}', invs="Fits"))
    r = ctx.tlc_exhaustive("Readdir", "Readdir", cfg, expect_ok=False, count=False, workers=2, heap="2g", deadlock=False, timeout=600)
    if r["violated"] != "Fits":
        raise vflib.Broken("non-vacuity run: the code's paging rule should violate Fits, got %s" % r["violated"])
    ctx.notes.append("non-vacuity: with the pinned rule (limit tested before the append, count-100 / maxcount-200, floors 128/256) "
                     "TLC finds a reply larger than count; with the ideal rule no invariant fails")


def validate(ctx, trace, label):
    known = ctx.known_devs([PID])
    cfg = ctx.write_cfg("Readdir", "Trace_%s.cfg" % label, TRACE_CFG % dict(known=ctx.tla_set(known), level=impl_level(ctx)))
    res = ctx.tlc_trace("Readdir", "ReaddirTrace", cfg, trace, out_name="res_%s.json" % label, timeout=1500)
    if res["consumed"] != res["n"]:
        raise vflib.Broken("trace spec consumed %s of %s lines" % (res["consumed"], res["n"]))
    return res


def mut_drop_entry(e):
    """A listed entry disappears from a multi-entry reply (lost entry)."""
    if e.get("ev") == "call" and e.get("st") == "OK" and len(e.get("ents", [])) >= 2 and e.get("eof"):
        e["ents"] = e["ents"][1:]
        return e
    return None


def mut_size(e):
    """A fitting reply is recorded 4096 bytes longer than the count."""
    if e.get("ev") == "call" and e.get("st") == "OK" and e["size"] <= e["count"] and len(e.get("ents", [])) >= 1 and e["count"] > 1000:
        e["size"] = e["count"] + 4096
        return e
    return None


def mut_dup(e):
    """The same entry twice in one reply."""
    if e.get("ev") == "call" and e.get("st") == "OK" and len(e.get("ents", [])) >= 2:
        e["ents"][1] = dict(e["ents"][0])
        return e
    return None


def run(ctx):
    if ctx.replay:
        body, tp = lc.replay_body(ctx)
        res = validate(ctx, tp, "replay")
        for b in res["bad"]:
            ctx.violation(b["why"], body, {"replayed": ctx.replay})
        ctx.cov["evaluations"] = len(body)
        ctx.cov["distinct_nontrivial"] = 2
        ctx.sample({"replayed": ctx.replay})
        return
    exhaustive(ctx)
    binp = ctx.build_harness(HARNESS)
    q = ctx.quick()
    ctx.harness_ok(binp, "TestVF_Readdir", {"VF_HIST": 21 if q else 60, "VF_LISTINGS": 30 if q else 90}, timeout=1200)
    trace = os.path.join(ctx.scratch, "readdir.ndjson")
    summ = json.load(open(os.path.join(ctx.scratch, "readdir.summary.json")))
    res = validate(ctx, trace, "readdir")
    lc.report(ctx, res, trace, "readdir")
    st = res["stats"]
    ctx.cov["traces_validated_against_impl"] = st["listings"]
    ctx.cov["evaluations"] = st["calls"]
    ctx.cov["distinct_nontrivial"] = st["multi"]
    ctx.cov["trace_stats"] = st
    for s in summ.get("samples", [])[:2]:
        ctx.sample({"history": s})
    with open(trace) as f:
        for i, ln in enumerate(f):
            if '"ev":"call"' in ln and '"ents":[{' in ln:
                e = json.loads(ln)
                e["ents"] = e["ents"][:2]
                ctx.sample({"recorded_call": e})
                break
    if st["eof"] == 0 or st["multi"] == 0 or st["plus"] == 0:
        raise vflib.Broken("no listing reached eof over several calls: the driver did not exercise paging")
    # every listed finding must have been reproduced by its directed scenario
    for e in ctx.known():
        if e["deviation"] not in {d["name"] for d in res["dev"]} and not ctx.violations:
            raise vflib.Broken("directed reproducer of %s (%s) did not show the deviation; if the defect is repaired, "
                               "mark the finding fixed" % (e["id"], e["deviation"]))
    lc.mutate(ctx, trace, "readdir", [(mut_drop_entry, "an entry dropped from a reply"), (mut_size, "an over-long reply"),
                                      (mut_dup, "a duplicated entry")], validate)
    if ctx.cov.get("impl_model_drift"):
        ctx.notes.append("impl-level drift: recorded entry counts / eof / sizes differ from the modelled paging rule (%s); the exhaustive "
                         "result no longer speaks about this code (not a verdict)" % impl_level(ctx))
    ctx.cov["rule"] = ("seeded directories over the vfs backend (0..40 entries quick, ..300 thorough; name lengths 1..255 in five profiles; "
                       "files, directories, symlinks; dir cache on/off, attribute cache default/2 entries/1 ns, listing of the export root "
                       "or a subdirectory) listed to eof with READDIR and READDIRPLUS through the real handlers for counts 0..2^32-1: a "
                       "fixed list, every k-entry reply size +-1 and +margin, and listings that change count and procedure per call; "
                       "non-trivial = a listing that reached eof in at least 3 calls")
    ctx.cov["spec_actions_covered_by_impl"] = ["Call(READDIR)", "Call(READDIRPLUS)", "eof", "overflow(Dev)", "ids"]
    ctx.assumptions += ["the directory does not change while it is listed (the backend is only read)",
                        "the reply is decoded by the harness's RFC 1813 schema decoder; the encoded resok length is the reply body minus the status word",
                        "counts above 2^30-1 are logged as 2^30-1 (every reply is far smaller)",
                        "TOOSMALL is accepted whenever some entry not yet returned does not fit as this server encodes it (attributes and 8-byte handle present)"]

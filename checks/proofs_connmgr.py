"""Proof obligations for specs/ConnMgr (property C17): ConnMgrInd.tla, Apalache.

IndInv = TypeOKInd /\\ Listed /\\ Strengthening, where Listed is the conjunction of the nine state invariants C17 lists
(TypeOK CountMatches CountedOnce GoneUncounted RefusedUncounted Bounded ServedAreCounted AfterStop AfterClose) exactly as
written in ConnMgr.tla: "IndInv => each listed invariant" is syntactic and has no run of its own.  The two action
properties (NoReapMidCall, NothingAfterStop) are checked as one-step action invariants in the same run as the step.

Constants: Max, IdleT any natural number; Exported any boolean; Slow, Denied any subset of Conns (all symbolic, decided
by z3); Conns = 1..3, Stops = {1, 2}, Nfs = {1, 2} fixed (TLC's exhaustive models never have all three at once:
3 connections only with one Stop and no Close, 2 Stops only with 1-2 connections, 2 Close calls only with 1 connection;
by hand also Conns = 1..4: proved); Mutant = "none".

The stated invariants are NOT inductive by themselves.  Strengthening conjuncts and the counterexample to induction
(CTI; an arbitrary, in general unreachable, state satisfying the remaining conjuncts, and one step) that each one
excludes - found by dropping the conjunct and running the step obligation:
  S1 ActiveAreLive   conn 2 is "taken", held by the accept goroutine, and already in active; AclReject -> "rejected" and
                     still counted: RefusedUncounted' fails
  S2 HeldIsTaken     accHas = {3} but conn 3 is "serving" and counted; AclReject(3) -> "rejected" and counted:
                     RefusedUncounted' fails
  S3 GhostExact      conn 1 is "taken" with regN = 1 (CountedOnce holds: regN <= 1, unregN <= regN); Register(1) -> regN = 2:
                     CountedOnce' fails
  S4 GorIffLive      conn 2 is "serving" and in active with gor = FALSE, Stop 1 "waiting": Quiesced holds, StopReturn ->
                     Stopped with active # {}: AfterStop' fails
  S5 BusyIsServing   conn 2 is busy in phase "none" (no goroutine), a Stop has returned, Unexport 2 "stopping";
                     NfsStopped -> "stopped"/unexport with a request executing: QuietAfterDrain' (S8) fails
  S6 StopCancelled   Stop 1 "returned" while ctxDone = FALSE; Listen -> accept and cleanup goroutines alive: AfterStop' fails
  S7 BusyIsFresh     needed by the action property only: conn busy with age > IdleT, ReapPick collects it:
                     NoReapMidCallAct fails (the state part stays inductive without S7)
  S8 QuietAfterDrain Close 2 "returned" while conn 1 still executes a request; ServeEnd -> handles, caches: AfterClose' fails
  S9 ReleasedStays   Close 1 "released" with handles = TRUE; NfsClear -> "returned" with handles: AfterClose' fails
  S10 ClosedAfterStop not needed for the listed invariants (proves: Exported and Close/Unexport past "stopping" => Stopped)
The variants "S7 dropped" and "all of S1-S10 dropped" are re-run below on every `bin/check PROOFS`; S1-S6, S8, S9 dropped one at a
time were run by hand with the same invocation (each: rejected, with the CTI above), and left out to keep the CPU cost down.
"""

STEP = ["--cinit=ConstInit", "--init=IndInit", "--next=Next", "--inv=IndInv,NoReapMidCallAct,NothingAfterStopAct", "--length=1"]
SYM = "Max, IdleT \\in Nat, Exported, Slow, Denied symbolic; Conns = 1..3, Stops = {1,2}, Nfs = {1,2}, Mutant = none"


QUICK_WRONG = ("wrong-limit-off-by-one",)     # the other wrong variants run with --tier thorough


def ob(name, args, expect, claim, edits=(), timeout=600):
    return dict(name="ConnMgr/" + name, family="ConnMgr", tool="apalache", module="ConnMgrInd.tla", args=args, timeout=timeout,
                edits=list(edits), expect=expect, claim=claim, cores=1, est=40 if name == "init" else 80,
                tier="thorough" if expect == "rejected" and name not in QUICK_WRONG else "quick")


OBLIGATIONS = [
    ob("init", ["--cinit=ConstInit", "--init=Init", "--next=Next", "--inv=IndInv", "--length=0"], "proved",
       "Init => IndInv (the nine listed state invariants of C17 and the strengthening S1-S10) [" + SYM + "]"),
    ob("step", STEP, "proved",
       "IndInv /\\ Next => IndInv' and the action properties NoReapMidCall, NothingAfterStop hold on every step from any state "
       "satisfying IndInv: with init, every listed safety property of ConnMgr holds in all reachable states, behaviours of any length [" + SYM + "]"),
    # ---- wrong variants: same invocation as `step`, each must yield a counterexample to induction
    ob("wrong-limit-off-by-one", STEP, "rejected",
       "registerConnection's limit test count >= Max weakened to count > Max: Bounded' (count <= Max) is refuted [" + SYM + "]",
       edits=[("ConnMgr.tla", "count >= Max", "count > Max")]),
    ob("wrong-unregister-no-recheck", STEP, "rejected",
       "unregisterConnection without the re-check `c in active` under connMutex (double uncount): refuted, a second uncount gives unregN' = 2 > regN (the bound in TypeOKInd, CountedOnce') and count' # Cardinality(active') [" + SYM + "]",
       edits=[("ConnMgr.tla", "ELSE IF c \\in active", "ELSE IF TRUE")]),
    ob("wrong-stop-no-wait", STEP, "rejected",
       "Stop returning without wg.Wait (guard Quiesced removed from StopReturn): AfterStop' is refuted [" + SYM + "]",
       edits=[("ConnMgr.tla", "/\\ Quiesced \\/ Mutant = \"StopNoWait\"", "/\\ TRUE")]),
    ob("wrong-listed-alone", STEP, "rejected",
       "the listed invariants with the type invariant but without the strengthening S1-S10 are not inductive (a counterexample "
       "to induction exists): the strengthening is necessary [" + SYM + "]",
       edits=[("ConnMgrInd.tla", "IndInv == TypeOKInd /\\ Listed /\\ Strengthening", "IndInv == TypeOKInd /\\ Listed")]),
    ob("wrong-drop-S7-busyfresh", STEP, "rejected",
       "IndInv without S7 (an executing request was stamped and has run for at most IdleT): the action property NoReapMidCall is "
       "refuted (ReapPick collects a busy connection) [" + SYM + "]",
       edits=[("ConnMgrInd.tla", "  /\\ BusyIsFresh\n", "")]),
]

"""C14: every reply is a well-formed RFC 1813 / RFC 1831 reply (specs/ReplyShape)."""
import json, os, sys
sys.path.insert(0, os.path.dirname(os.path.abspath(__file__)))
import vflib
import wire_common as wc

LEVEL = "model_checking"
HARNESS = ["vf_common.go", "vf_vfs.go", "vf_wire.go", "vf_replyshape.go"]
DEVS = {"F09": "Dev_GarbageArgsAsNfsstat", "F09b": "Dev_DrainBareStatus", "F09c": "Dev_DelayStatusNotNfsstat3"}

MC_CFG = """SPECIFICATION Spec
CONSTANTS
  FixGarbage = %(g)s
  FixDrain = %(d)s
  FixDelay = %(y)s
  AllowedDevs = %(allowed)s
INVARIANTS Conforms DevsWhereExpected
"""

TRACE_CFG = """SPECIFICATION Spec
CONSTANTS
  KnownDeviations = %(known)s
"""


def tf(b):
    return "TRUE" if b else "FALSE"


def exhaustive(ctx):
    """Design spec: the transcribed HandleCall / handler reply construction against the property; dumps the schema."""
    schema = os.path.join(ctx.scratch, "replyshape_schema.json")
    env = {"VF_SCHEMA": schema}
    kw = dict(workers=wc.WORKERS, deadlock=False, heap="2g", env=env, timeout=300)
    fixed = {f: ctx.finding_status(f) == "fixed" for f in DEVS}
    known = ctx.known_devs(["C14"])
    # the code as it is (repaired where a finding is fixed), the listed deviations allowed: must conform
    cfg = ctx.write_cfg("ReplyShape", "MC_code.cfg", MC_CFG % dict(g=tf(fixed["F09"]), d=tf(fixed["F09b"]), y=tf(fixed["F09c"]),
                                                                   allowed=ctx.tla_set(known)))
    ctx.tlc_exhaustive("ReplyShape", "ReplyShape", cfg, **kw)
    if not os.path.exists(schema):
        raise vflib.Broken("ReplyShape did not dump the schema")
    # the repaired design: conforms with no deviation allowed
    cfg = ctx.write_cfg("ReplyShape", "MC_fixed.cfg", MC_CFG % dict(g="TRUE", d="TRUE", y="TRUE", allowed="{}"))
    ctx.tlc_exhaustive("ReplyShape", "ReplyShape", cfg, **kw)
    ctx.cov["exhaustive"] = True
    # non-vacuity: the pinned construction with no deviation allowed violates the property
    cfg = ctx.write_cfg("ReplyShape", "MC_nv.cfg", MC_CFG % dict(g="FALSE", d="FALSE", y="FALSE", allowed="{}"))
    r = ctx.tlc_exhaustive("ReplyShape", "ReplyShape", cfg, expect_ok=False, count=False, **kw)
    if r["violated"] != "Conforms":
        raise vflib.Broken("non-vacuity run: expected Conforms to be violated by the pinned reply construction, got %s\n%s"
                           % (r["violated"], r["out"][-1500:]))
    ctx.notes.append("non-vacuity: with no deviation allowed TLC finds Conforms violated by the transcribed reply construction "
                     "(bare JUKEBOX during drain / GARBAGE_ARGS as nfsstat3 / status 10013)")
    return schema


def validate(ctx, trace, label):
    cfg = ctx.write_cfg("ReplyShape", "Trace_%s.cfg" % label, TRACE_CFG % dict(known=ctx.tla_set(ctx.known_devs(["C14"]))))
    return ctx.tlc_trace("ReplyShape", "ReplyShapeTrace", cfg, trace, out_name="res_%s.json" % label, heap="4g")


def bind(ctx, lines):
    rows = [json.loads(l) for l in lines]
    muts = []

    def first(pred, what, change):
        for e in rows:
            if e.get("ev") == "call" and e["answered"] and e["wl"] and pred(e):
                muts.append((what, change(dict(e))))
                return

    okres = lambda e: e["rpc"] == "accepted" and e["accept"] == 0 and e["state"] == "normal" and e["args"] == "good" and e["go"]["ok"]
    first(lambda e: okres(e) and len(e["words"]) > 3, "XID", lambda e: dict(e, xid_ok=False))
    first(lambda e: okres(e) and len(e["words"]) > 3 and e["words"][0] == 0, "trailing word", lambda e: dict(e, words=e["words"] + [0]))
    first(lambda e: okres(e) and len(e["words"]) > 3 and e["words"][0] == 0, "missing word", lambda e: dict(e, words=e["words"][:-1]))
    first(lambda e: okres(e) and len(e["words"]) >= 2 and e["words"][0] == 70 and e["prog"] == 100003, "status outside nfsstat3",
          lambda e: dict(e, words=[4] + e["words"][1:]))
    first(lambda e: e["rpc"] == "accepted" and e["accept"] == 1, "results after PROG_UNAVAIL", lambda e: dict(e, words=[0]))
    if len(muts) < 5:
        raise vflib.Broken("binding demonstration: trace lacks a line of a kind to corrupt (%d of 5)" % len(muts))
    wc.expect_rejected(ctx, lambda p, lab: validate(ctx, p, lab), muts)


def run(ctx):
    if ctx.replay:
        return replay(ctx)
    schema = exhaustive(ctx)
    binp = ctx.build_harness(HARNESS)
    q = ctx.quick()
    ctx.harness_ok(binp, "TestVF_ReplyShape", {"VF_SCHEMA": schema, "VF_ROUNDS": 1 if q else 6, "VF_FAULT_DEPTH": 2 if q else 5}, timeout=900)
    trace = os.path.join(ctx.scratch, "replyshape.ndjson")
    summ = json.load(open(os.path.join(ctx.scratch, "replyshape.summary.json")))
    if summ["schema_diff"]:
        raise vflib.Broken("the harness's built-in RFC 1813 schema (vf_common.go) differs from the one dumped from specs/ReplyShape: %s"
                           % ", ".join(summ["schema_diff"]))
    res = validate(ctx, trace, "rs")
    if res["consumed"] != res["n"]:
        raise vflib.Broken("trace spec consumed %s of %s lines" % (res["consumed"], res["n"]))
    lines = open(trace).readlines()
    if res["harness"]:
        h = sorted(res["harness"], key=lambda x: x["l"])[0]
        raise vflib.Broken("the Go XDR interpreter and the specification disagree about the structure of a reply (harness defect): "
                           + lines[h["l"] - 1][:600])
    wc.report(ctx, res, lines, context=wc.history_of_single)
    ctx.cov["traces_validated_against_impl"] = res["stats"]["calls"]
    ctx.cov["evaluations"] = res["stats"]["calls"]
    ctx.cov["distinct_nontrivial"] = summ["distinct_proc_status"]
    ctx.cov["trace_stats"] = res["stats"]
    ctx.cov["calls_by_state_and_argument_class"] = summ["by_state_class"]
    ctx.cov["deviation_counts"] = {d: sum(1 for x in res["dev"] if x["name"] == d) for d in sorted({x["name"] for x in res["dev"]})}
    for s in summ.get("samples", [])[:3]:
        ctx.sample({k: s[k] for k in ("state", "prog", "vers", "proc", "args", "note", "rpc", "accept", "words") if k in s})
    bind(ctx, lines)
    ctx.cov["rule"] = ("every NFSv3 procedure and every MOUNT v1/v3 procedure with several well-formed argument sets, the primary set cut at "
                       "every 4-byte boundary, random / huge-length / all-ones garbage, unknown programs, versions and procedures and refused "
                       "credentials, in the conditions normal, read-only, rate limited (buckets emptied before each call) and policy drain "
                       "(a gated request held in the backend while UpdatePolicyOptions waits) and faulty backend (for every procedure the k-th "
                       "backend operation of the request fails with *os.PathError / *os.LinkError wrapping each of 33 errnos; symlink loops, "
                       "rename into own subtree / onto a non-empty directory on the plain backend), through HandleCall and over TCP with record "
                       "marking; distinct_nontrivial = distinct (procedure, status) pairs that reached the wire")
    ctx.cov["spec_actions_covered_by_impl"] = ["Answer(normal)", "Answer(readonly)", "Answer(ratelimited)", "Answer(drain)", "Answer(faulty)",
                                               "PROG_UNAVAIL", "PROG_MISMATCH", "PROC_UNAVAIL", "GARBAGE_ARGS", "MSG_DENIED"]
    ctx.assumptions += ["replies larger than 600 words are judged by the Go XDR interpreter alone (it runs the schema dumped from the "
                        "specification and is compared with the specification's own interpreter on every smaller reply)",
                        "MOUNT v1 results are accepted in the RFC 1094 form or in the MOUNT v3 form (the property names RFC 1813 only)",
                        "a call that HandleCall does not answer (timeout) is outside the property"]
    ctx.notes.append("MOUNT v1 MNT is answered in the MOUNT v3 form (variable-length handle + flavors), not RFC 1094's fhstatus; "
                     "accepted under the either-rule, recorded here for the reader")


def replay(ctx):
    body = [l for l in open(ctx.replay).read().splitlines() if l.strip() and json.loads(l).get("ev") != "meta"]
    tp = os.path.join(ctx.scratch, "replay.ndjson")
    open(tp, "w").write("\n".join(body) + "\n")
    res = validate(ctx, tp, "replay")
    for b in res["bad"]:
        ctx.violation(b["why"], body, {"replayed": ctx.replay})
    ctx.cov["evaluations"] = len(body)
    ctx.cov["distinct_nontrivial"] = 1
    ctx.sample({"replayed": ctx.replay})

"""C21: attribute and directory caches as bounded TTL LRU maps (specs/LRUCache)."""
import json, os, re
import vflib

HARNESS = ["vf_common.go", "vf_vfs.go", "vf_clock.go", "vf_lrucache.go"]
F13 = "Dev_NegativeEntriesSurviveDisable"

CFG = """SPECIFICATION %(spec)s
CONSTANTS
  Kind = "%(kind)s"
  KeySet <- %(keys)s
  Vals = %(vals)s
  Big = %(big)s
  Caps = %(caps)s
  InitCap = %(initcap)d
  TTLs = %(ttls)s
  InitTTL = 2
  NegTTL = 1
  MaxClock = %(clock)d
  Procs = %(procs)s
  FixPurge = %(purge)s
  FixRecheck = %(recheck)s
  NoTouch = %(notouch)s
INVARIANTS %(invs)s
%(props)s
VIEW View
"""

TRACE_CFG = """SPECIFICATION Spec
CONSTANTS
  KnownDeviations = %(known)s
  FixPurge = %(fix)s
  FixRecheck = %(fix)s
"""

LIN_CFG = TRACE_CFG + "  Atomic = %(atomic)s\n"

ATTR_VALS, DIR_VALS = '{"v1", "v2"}', '{"d1", "d2", "big"}'
STATE_INVS = "TypeOK Bounded OrderIsPermutation"


def tf(b):
    return "TRUE" if b else "FALSE"


def mc(ctx, name, **kw):
    d = dict(spec="SeqSpec", kind="attr", keys="Keys4", vals=ATTR_VALS, big="{}", caps="{1, 2, 3}", initcap=2,
             ttls="{1}", clock=2, procs="{1}", purge="FALSE", recheck="FALSE", notouch="FALSE",
             invs=STATE_INVS, props="")
    d.update(kw)
    if d["kind"] == "dir" and "vals" not in kw:
        d["vals"], d["big"] = DIR_VALS, '{"big"}'
    return ctx.write_cfg("LRUCache", "MC_%s.cfg" % name, CFG % d)


def exhaustive(ctx, fixed, workers):
    """Exhaustive TLC runs of the design spec LRUCache.tla.
    measured (transitions = states generated; the machine was shared by seven builds while measuring and gave
    10-100 k transitions/s, an idle one several times that):
    quick    attr 4 keys (/, /a, /a/b, /ab), capacities 1..2, clock <= 2: 0.24 M; dir 3 keys, capacities 1..3,
             clock <= 2: 0.14 M; two goroutines, 3 keys, clock <= 1: 0.21 M  (each run is mostly JVM start)
    thorough 5 keys (/, /a, /a/b, /ab, /b), capacities 1..3, two values, TTL 2, clock <= 4: attr 15.0 M transitions /
             0.38 M states, dir ~3.5 M; UpdateTTL between 1 and 2 on 4 keys; two goroutines (attr, dir) and three.
             The bound of DESIGN.md 5/C21 (clock <= 5) is 26.2 M transitions / 0.66 M states for attr and passed
             (5 min 26 s at 8 workers on the shared machine), with TTL changes as well 75.7 M / 1.86 M (12 min 42 s at
             6 workers, passed): both are too long for the 10-minute tier next to the other runs and are left out."""
    q = ctx.quick()
    kw = dict(workers=workers, timeout=1500, heap="4g")
    seq = dict(keys="Keys4", clock=2, ttls="{1}", caps="{1, 2}") if q else dict(keys="Keys5", clock=4, ttls="{2}")
    seqd = dict(keys="Keys3", clock=2, ttls="{1}") if q else dict(keys="Keys5", clock=4, ttls="{2}")
    ttl = dict(keys="Keys4", clock=2, ttls="{1, 2}", caps="{1, 2}")
    conc = dict(keys="Keys3", clock=1, ttls="{2}", caps="{1, 2}", vals='{"v1"}')
    conc2 = conc if q else dict(conc, clock=2)
    fx = dict(purge=tf(fixed), recheck=tf(fixed))
    full = dict(invs=STATE_INVS + " NegOnlyWhileEnabled", props="PROPERTY IdealOK")
    # the code as it is (the status of F13 decides the transcription): every sequential step is a step C21 allows
    asis = full if fixed else dict(props="PROPERTY IdealOKExceptF13")
    ctx.tlc_exhaustive("LRUCache", "LRUCache", mc(ctx, "attr_seq", **asis, **fx, **seq), **kw)
    ctx.tlc_exhaustive("LRUCache", "LRUCache", mc(ctx, "dir_seq", kind="dir", **full, **fx, **seqd), **kw)
    # one step per critical section, two goroutines: the state invariants under every interleaving
    cinv = STATE_INVS + (" NegOnlyWhileEnabled" if fixed else "")
    ctx.tlc_exhaustive("LRUCache", "LRUCache", mc(ctx, "attr_conc", spec="ConcSpec", procs="{1, 2}", invs=cinv, **fx, **conc2), **kw)
    if not q:
        ctx.tlc_exhaustive("LRUCache", "LRUCache", mc(ctx, "attr_seq_ttl", **asis, **fx, **ttl), **kw)
        ctx.tlc_exhaustive("LRUCache", "LRUCache", mc(ctx, "dir_seq_ttl", kind="dir", **full, **fx, **dict(ttl, clock=3)), **kw)
        ctx.tlc_exhaustive("LRUCache", "LRUCache", mc(ctx, "dir_conc", spec="ConcSpec", kind="dir", procs="{1, 2}", keys="Keys3",
                           clock=2, ttls="{1, 2}", vals='{"d1", "big"}', big='{"big"}', **fx), **kw)
        ctx.tlc_exhaustive("LRUCache", "LRUCache", mc(ctx, "attr_conc3", spec="ConcSpec", procs="{1, 2, 3}", keys="Keys2", clock=1,
                           ttls="{2}", caps="{1, 2}", vals='{"v1"}', invs=cinv, **fx), **kw)
        if not fixed:
            # the repaired design (purge on disable + re-check under the write lock) satisfies all of C21
            rep = dict(purge="TRUE", recheck="TRUE")
            ctx.tlc_exhaustive("LRUCache", "LRUCache", mc(ctx, "attr_seq_repaired", **full, **rep, **ttl), **kw)
            ctx.tlc_exhaustive("LRUCache", "LRUCache", mc(ctx, "attr_conc_repaired", spec="ConcSpec", procs="{1, 2}",
                               invs=STATE_INVS + " NegOnlyWhileEnabled", **rep, **conc), **kw)
    ctx.cov["exhaustive"] = True
    # non-vacuity: TLC finds (1) F13 on the transcription of the pinned code, (2) a Get that does not refresh
    # recency is not a step C21 allows, (3, thorough) purging on disable alone is not enough with two goroutines
    nv = dict(workers=workers, timeout=300, heap="4g", expect_ok=False, count=False)
    r = ctx.tlc_exhaustive("LRUCache", "LRUCache", mc(ctx, "nv_f13", invs="NegOnlyWhileEnabled"), **nv)
    if r["violated"] != "NegOnlyWhileEnabled":
        raise vflib.Broken("non-vacuity: expected NegOnlyWhileEnabled violated without the purge, got %s" % r["violated"])
    r = ctx.tlc_exhaustive("LRUCache", "LRUCache", mc(ctx, "nv_notouch", invs="TypeOK", props="PROPERTY IdealOK", purge="TRUE",
                           recheck="TRUE", notouch="TRUE"), **nv)
    if r["ok"] or not r["violated"]:
        raise vflib.Broken("non-vacuity: expected IdealOK violated by a Get that does not refresh recency")
    note = ("non-vacuity: TLC finds NegOnlyWhileEnabled violated on the transcription of the pinned code (F13) and IdealOK "
            "violated by a Get that does not refresh recency")
    if not q:
        r = ctx.tlc_exhaustive("LRUCache", "LRUCache", mc(ctx, "nv_toctou", spec="ConcSpec", procs="{1, 2}", invs="NegOnlyWhileEnabled",
                               purge="TRUE", recheck="FALSE", keys="Keys3", clock=1, ttls="{2}", caps="{1, 2}", vals='{"v1"}'), **nv)
        if r["violated"] != "NegOnlyWhileEnabled":
            raise vflib.Broken("non-vacuity: expected NegOnlyWhileEnabled violated by PutNegative racing the disable, got %s" % r["violated"])
        note += ("; and NegOnlyWhileEnabled violated with two goroutines when ConfigureNegativeCaching purges but PutNegative does "
                 "not re-read the switch under the write lock")
    ctx.notes.append(note)


def validate(ctx, trace, label, fixed, lin=False, atomic=False):
    known = [] if fixed else [d for d in ctx.known_devs(["C21"])]
    d = dict(known=ctx.tla_set(known), fix=tf(fixed), atomic=tf(atomic))
    if lin:
        cfg = ctx.write_cfg("LRUCache", "Lin_%s.cfg" % label, LIN_CFG % d)
        return ctx.tlc_trace("LRUCache", "LRUCacheLin", cfg, trace, out_name="res_%s.json" % label, heap="4g")
    cfg = ctx.write_cfg("LRUCache", "Trace_%s.cfg" % label, TRACE_CFG % d)
    return ctx.tlc_trace("LRUCache", "LRUCacheTrace", cfg, trace, out_name="res_%s.json" % label, heap="4g")


def history_of(lines, lno, whole=False):
    """The history containing 1-based line lno: from its reset line to lno (or to its end)."""
    start = lno - 1
    while start > 0 and json.loads(lines[start]).get("ev") != "reset":
        start -= 1
    end = lno
    if whole:
        while end < len(lines) and json.loads(lines[end]).get("ev") != "reset":
            end += 1
    return [l.rstrip("\n") for l in lines[start:end]]


def report(ctx, res, trace, label, whole=False):
    lines = open(trace).readlines()
    seen = {}
    for b in sorted(res["bad"], key=lambda x: x["l"]):
        seen[b["why"]] = seen.get(b["why"], 0) + 1
        if seen[b["why"]] > 2:
            continue
        ctx.violation("%s (%s, line %d)" % (b["why"], label, b["l"]), history_of(lines, b["l"], whole),
                      {"level": label, "line": b["l"]})
    for d in res["dev"]:
        ent = [e for e in ctx.known() if e["deviation"] == d["name"]]
        if ent:
            ctx.known_finding(d["name"], ent[0]["what"])
    if res.get("drift"):
        ctx.cov.setdefault("impl_model_drift", []).extend(sorted({d["why"] for d in res["drift"]}))


def write_lines(ctx, name, lines):
    p = os.path.join(ctx.scratch, name)
    open(p, "w").write("\n".join(lines) + "\n")
    return p


def bad_by_history(lines, res):
    """Index of the history (count of reset lines up to it) of every bad entry."""
    out = set()
    starts = [i + 1 for i, l in enumerate(lines) if json.loads(l).get("ev") == "reset"]
    for b in res["bad"]:
        out.add(sum(1 for s in starts if s <= b["l"]))
    return out


def bind_seq(ctx, trace, fixed):
    """Binding demonstration (SV): four histories, each with ONE recorded field corrupted (a returned value,
    a hit turned into a miss, the recency order, an expiry tick); the trace spec must reject every one."""
    lines = open(trace).read().splitlines()
    nl = [l + "\n" for l in lines]
    muts = {}
    for i, ln in enumerate(lines):
        e = json.loads(ln)
        if e.get("ev") != "op":
            continue
        o, r, st = e["o"], e["r"], e["st"]
        if "value" not in muts and o["op"] == "get" and r["hit"] and not r["neg"]:
            e2 = json.loads(ln); e2["r"]["v"] = "v2" if r["v"] != "v2" else "v1"; muts["value"] = (i, e2)
        if "miss" not in muts and o["op"] == "get" and r["hit"] and any(x["k"] == o["k"] and x["exp"] > e["now"] for x in st["ent"]):
            e2 = json.loads(ln); e2["r"] = {"hit": False, "v": "-", "neg": False}; muts["miss"] = (i, e2)
        if "order" not in muts and len(st["order"]) >= 2 and o["op"] in ("get", "put"):
            e2 = json.loads(ln); e2["st"]["order"] = st["order"][1:] + st["order"][:1]; muts["order"] = (i, e2)
        if "expiry" not in muts and o["op"] == "put" and any(x["k"] == o["k"] for x in st["ent"]):
            e2 = json.loads(ln)
            for x in e2["st"]["ent"]:
                if x["k"] == o["k"]:
                    x["exp"] += 1
            muts["expiry"] = (i, e2)
        if len(muts) == 4:
            break
    if len(muts) < 4:
        raise vflib.Broken("binding demonstration: the recorded trace offers no line for mutations %s" %
                           sorted(set(["value", "miss", "order", "expiry"]) - set(muts)))
    out, names = [], sorted(muts)
    for name in names:
        i, e2 = muts[name]
        out += history_of(nl, i + 1)[:-1] + [json.dumps(e2)]
    res = validate(ctx, write_lines(ctx, "mut_seq.ndjson", out), "mutseq", fixed)
    rejected = bad_by_history(out, res)
    for n, name in enumerate(names, 1):
        if n not in rejected:
            raise vflib.Broken("binding demonstration failed: history with corrupted %s accepted" % name)
        ctx.cov["binding_mutations_rejected"] += 1


def bind_conc(ctx, trace, fixed):
    """Binding demonstration (LV): a lookup result rewritten to a value that was never stored, and a
    dropped ret event (the goroutine's next call then arrives while it is still inside a call)."""
    lines = open(trace).read().splitlines()
    nl = [l + "\n" for l in lines]
    muts = {}
    for i, ln in enumerate(lines):
        e = json.loads(ln)
        if e.get("ev") != "ret":
            continue
        hist = history_of(nl, i + 1, whole=True)
        k = len(history_of(nl, i + 1)) - 1          # index of this line inside its history
        if "value" not in muts and e["r"]["hit"] and not e["r"]["neg"]:
            e2 = json.loads(ln); e2["r"]["v"] = "d3" if e["r"]["v"].startswith("d") else "v3"
            muts["value"] = hist[:k] + [json.dumps(e2)] + hist[k + 1:]
        if "dropped-ret" not in muts and any(json.loads(x).get("ev") == "call" and json.loads(x).get("g") == e["g"] for x in hist[k + 1:]):
            muts["dropped-ret"] = hist[:k] + hist[k + 1:]
        if len(muts) == 2:
            break
    if len(muts) < 2:
        raise vflib.Broken("binding demonstration: the recorded concurrent trace offers no line for %s" %
                           sorted(set(["value", "dropped-ret"]) - set(muts)))
    out, names = [], sorted(muts)
    for name in names:
        out += muts[name]
    res = validate(ctx, write_lines(ctx, "mut_conc.ndjson", out), "mutconc", fixed, lin=True)
    rejected = bad_by_history(out, res)
    for n, name in enumerate(names, 1):
        if n not in rejected:
            raise vflib.Broken("binding demonstration failed: concurrent history with %s accepted" % name)
        ctx.cov["binding_mutations_rejected"] += 1


RACE_RE = re.compile(r"WARNING: DATA RACE(.*?)={18}", re.S)


def race_reports(out):
    """(reports touching cache.go, other reports) from a -race run's output."""
    mine, other = [], []
    for m in RACE_RE.finditer(out):
        rep = m.group(1)
        frames = re.findall(r"^\s+(\S+\.go):\d+", rep, re.M)
        user = [f for f in frames if "/harness/" not in f and "zz_vf_" not in f]
        if any(os.path.basename(f) in ("cache.go", "clk_cache.go") for f in user):
            mine.append(rep.strip()[:1500])
        else:
            other.append(rep.strip()[:1500])
    return mine, other


def run_common(ctx, pid="C21"):
    fixed = ctx.finding_status("F13") == "fixed"
    if ctx.replay:
        return replay(ctx, fixed)
    q = ctx.quick()
    workers = min(16, os.cpu_count() or 4)
    if os.environ.get("VF_TLC_WORKERS"):
        workers = int(os.environ["VF_TLC_WORKERS"])
    exhaustive(ctx, fixed, workers)

    # ---- sequential binding: step validation at the cache API under the virtual clock
    binp = ctx.build_harness(HARNESS, clock_files=["cache.go"])
    ctx.harness_ok(binp, "TestVF_LRUSeq", {"VF_HIST": 240 if q else 1500, "VF_STEPS": 40 if q else 50})
    trace = os.path.join(ctx.scratch, "lru_seq.ndjson")
    summ = json.load(open(os.path.join(ctx.scratch, "lru_seq.summary.json")))
    res = validate(ctx, trace, "seq", fixed)
    if res["consumed"] != res["n"]:
        raise vflib.Broken("trace spec consumed %s of %s lines" % (res["consumed"], res["n"]))
    report(ctx, res, trace, "sequential")
    ctx.cov["traces_validated_against_impl"] += summ["histories"]
    ctx.cov["evaluations"] += res["n"]
    ctx.cov["distinct_nontrivial"] += summ["nontrivial"]
    ctx.cov.setdefault("trace_stats", {})["seq"] = res["stats"]
    for s in summ.get("samples", [])[:2]:
        ctx.sample({"level": "sequential", "history": s})
    if not fixed and not any(d["name"] == F13 for d in res["dev"]) and ctx.finding_status("F13") == "known":
        ctx.notes.append("the directed reproducer of F13 no longer shows the deviation although it is listed as known")
    bind_seq(ctx, trace, fixed)

    # ---- concurrent binding: call/ret histories under -race, TLC searches for a linearization
    binr = ctx.build_harness(HARNESS, race=True, clock_files=["cache.go"], name="vf-race.test")
    rc, out = ctx.run_harness(binr, "TestVF_LRUConc", {"VF_HIST": 300 if q else 2000}, timeout=600)
    mine, other = race_reports(out)
    if rc != 0 and not mine:
        raise vflib.Broken("harness driver TestVF_LRUConc failed (rc=%d)%s:\n%s" % (
            rc, " with a data race outside cache.go" if other else "", out[-6000:]))
    ctrace = os.path.join(ctx.scratch, "lru_conc.ndjson")
    for rep in mine[:2]:
        ctx.violation("data race inside cache.go under concurrent cache calls (race detector)", [json.dumps({"ev": "race", "report": rep})],
                      {"level": "concurrent", "race": True})
    if os.path.exists(ctrace) and os.path.exists(os.path.join(ctx.scratch, "lru_conc.summary.json")):
        csumm = json.load(open(os.path.join(ctx.scratch, "lru_conc.summary.json")))
        cres = validate(ctx, ctrace, "conc", fixed, lin=True)
        if cres["consumed"] != cres["n"]:
            raise vflib.Broken("linearization spec consumed %s of %s lines" % (cres["consumed"], cres["n"]))
        report(ctx, cres, ctrace, "concurrent", whole=True)
        ctx.cov["traces_validated_against_impl"] += csumm["histories"]
        ctx.cov["evaluations"] += cres["n"]
        ctx.cov["distinct_nontrivial"] += csumm["overlapped"]
        if csumm.get("probes", 0) and csumm.get("probes_interposed", 0) * 2 < csumm["probes"]:
            raise vflib.Broken("directed interleavings: only %s of %s Gets parked at their clock read (the harness could not "
                               "drive the schedule; not a verdict)" % (csumm.get("probes_interposed"), csumm["probes"]))
        ctx.cov["trace_stats"]["conc"] = dict(cres["stats"], overlapped=csumm["overlapped"], directed_interleavings=csumm.get("probes", 0),
                                              directed_interleavings_driven=csumm.get("probes_interposed", 0))
        for s in csumm.get("samples", [])[:1]:
            ctx.sample({"level": "concurrent", "history": s})
        if not q:
            # how many histories needed the section-level model (an atomic Get / PutNegative does not explain them)
            ares = validate(ctx, ctrace, "conc_atomic", fixed, lin=True, atomic=True)
            ctx.cov["trace_stats"]["conc"]["not_explained_by_atomic_calls"] = len({b["l"] for b in ares["bad"]} - {b["l"] for b in cres["bad"]})
        bind_conc(ctx, ctrace, fixed)
    elif not mine:
        raise vflib.Broken("TestVF_LRUConc wrote no trace")

    if ctx.cov.get("impl_model_drift"):
        ctx.notes.append("impl-level drift: recorded post-states differ from the transcription of cache.go; the exhaustive "
                         "result no longer speaks about this code (not a verdict)")
    ctx.cov["rule"] = ("directed scenarios (negative-cache disable, capacity reached by negative entries, direct children "
                       "/a vs /ab vs root, LRU order, Resize, TTL boundary / UpdateTTL, expired entries and Clear, oversized "
                       "listings) plus seeded histories of 40-60 calls on 3-6 keys, capacities 1..5, TTL 1..3 ticks, both "
                       "caches, caller-side modification of every stored and returned value; a sequential history is "
                       "non-trivial when it had a hit AND an eviction AND a miss on an expired entry; a concurrent history "
                       "is non-trivial when two calls overlap in the log: directed interleavings (cache kind x entry fresh / expired "
                       "/ at the expiry instant / negative x spare room or full with the entry least recently used x the call placed "
                       "exactly between the two critical sections of a Get, driven through the clock-read hook) and 2-3 goroutines x "
                       "3 calls scheduled by the runtime, all under -race")
    ctx.cov["spec_actions_covered_by_impl"] = ["Get(hit/touch)", "Get(miss)", "Get(expired/expire)", "Put(new)", "Put(replace)",
                                               "Put(evict)", "Put(refused oversize)", "PutNegative(on/off)", "Invalidate",
                                               "InvalidateNegativeInDir", "InvalidateTree (when the tree has it)", "Resize(shrink/grow/default)", "UpdateTTL", "Clear",
                                               "ConfigureNegativeCaching", "Tick", "StepG sections under 2-3 goroutines", "Get(decide) ; other call ; Get(touch / expire), every combination, directed"]
    ctx.assumptions += [
        "the in-package projection (cache/entries map, accessList front to back, expireAt/validUntil, maxSize, ttl, "
        "negativeTTL, enableNegative) is read faithfully under the cache's own lock",
        "time is the virtual clock: cache.go's time.Now()/time.Since() are rewritten to vfNow() at check time; TTLs and clock "
        "advances are whole seconds (one tick)",
        "a lookup exactly at the expiry instant is accepted either way; when an expired entry is physically dropped is not "
        "constrained; an entry's expiry is fixed when it is stored (UpdateTTL is not retroactive, as cache.go documents)",
        "the copy returned by AttrCache.Get is compared on Mode, Size, FileId, Uid, Gid, mtime, atime (the private validity "
        "stamp validUntil is not carried by the copy; not judged here)",
        "under concurrency a Get's recency update is a second critical section, as in the code: histories are accepted "
        "when some interleaving of the sections explains every result and the final cache; recency among overlapping calls "
        "is not otherwise constrained"]


def replay(ctx, fixed):
    """Re-validate one recorded history (replay file written by a violation)."""
    lines = [l for l in open(ctx.replay).read().splitlines() if l.strip()]
    meta = json.loads(lines[0]) if lines and json.loads(lines[0]).get("ev") == "meta" else {}
    body = [l for l in lines if json.loads(l).get("ev") != "meta"]
    if body and json.loads(body[0]).get("ev") == "race":
        # a race report cannot be re-validated from the file: run the concurrent driver again under -race
        # with the recorded seed and look for a race in cache.go
        ctx.seed = int(meta.get("seed", ctx.seed))
        binr = ctx.build_harness(HARNESS, race=True, clock_files=["cache.go"], name="vf-race.test")
        rc, out = ctx.run_harness(binr, "TestVF_LRUConc", {"VF_HIST": 600}, timeout=600)
        mine, other = race_reports(out)
        if rc != 0 and not mine:
            raise vflib.Broken("harness driver TestVF_LRUConc failed (rc=%d):\n%s" % (rc, out[-4000:]))
        for rep in mine[:1]:
            ctx.violation("data race inside cache.go under concurrent cache calls (race detector)",
                          [json.dumps({"ev": "race", "report": rep})], {"replayed": ctx.replay})
        if not mine:
            ctx.notes.append("the recorded data race did not show again in 600 concurrent histories")
    else:
        lin = any(json.loads(l).get("ev") in ("call", "ret", "final") for l in body)
        tp = write_lines(ctx, "replay.ndjson", body)
        res = validate(ctx, tp, "replay", fixed, lin=lin)
        for b in res["bad"]:
            ctx.violation(b["why"], body, {"replayed": ctx.replay})
        for d in res["dev"]:
            ctx.known_finding(d["name"])
    ctx.cov["evaluations"] = len(body)
    ctx.cov["distinct_nontrivial"] = 1
    ctx.sample({"replayed": ctx.replay, "meta": meta.get("meta", {})})

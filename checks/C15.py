"""C15: arbitrary client bytes cannot crash, desynchronise or exhaust the server (specs/ConnStream)."""
import json, os, sys
sys.path.insert(0, os.path.dirname(os.path.abspath(__file__)))
import vflib
import wire_common as wc

LEVEL = "model_checking"
HARNESS = ["vf_common.go", "vf_vfs.go", "vf_wire.go", "vf_replyshape.go", "vf_connstream.go"]

MC_CFG = """SPECIFICATION Spec
CONSTANTS
  MaxRecords = %(n)d
  Classes = {"call", "poison", "badhdr", "oversize", "trunc"}
  Recover = %(recover)s
  StopAtBadHeader = %(stop)s
  CheckLimitFirst = %(first)s
  AllowedDevs = %(allowed)s
INVARIANTS %(invs)s
"""
INVS = "TypeOK RepliesOK Conforms NoReplyAfterClose Bounded"

TRACE_CFG = """SPECIFICATION Spec
CONSTANTS
  KnownDeviations = %(known)s
"""


def exhaustive(ctx):
    q = ctx.quick()
    kw = dict(workers=wc.WORKERS, deadlock=False, heap="2g", timeout=600)
    fixed = ctx.finding_status("F22") == "fixed"
    known = ctx.known_devs(["C15"])
    n = 4 if q else 5      # measured: <= 4 records over 5 classes = 9 511 states; <= 5 records = 106 k states
    cfg = ctx.write_cfg("ConnStream", "MC_code.cfg", MC_CFG % dict(n=n, recover="TRUE" if fixed else "FALSE", stop="TRUE", first="TRUE",
                                                                   allowed=ctx.tla_set(known), invs=INVS))
    ctx.tlc_exhaustive("ConnStream", "ConnStream", cfg, **kw)
    cfg = ctx.write_cfg("ConnStream", "MC_fixed.cfg", MC_CFG % dict(n=n, recover="TRUE", stop="TRUE", first="TRUE", allowed="{}", invs=INVS))
    ctx.tlc_exhaustive("ConnStream", "ConnStream", cfg, **kw)
    ctx.cov["exhaustive"] = True
    nv = [("MC_nv_panic.cfg", dict(recover="FALSE", stop="TRUE", first="TRUE"), "Conforms"),
          ("MC_nv_skip.cfg", dict(recover="TRUE", stop="FALSE", first="TRUE"), "RepliesOK"),
          ("MC_nv_alloc.cfg", dict(recover="TRUE", stop="TRUE", first="FALSE"), "Bounded")]
    if q:
        nv = nv[1:2]
    for name, sw, inv in nv:
        cfg = ctx.write_cfg("ConnStream", name, MC_CFG % dict(n=3, allowed="{}", invs=inv, **sw))
        r = ctx.tlc_exhaustive("ConnStream", "ConnStream", cfg, expect_ok=False, count=False, **kw)
        if r["violated"] != inv:
            raise vflib.Broken("non-vacuity run %s: expected %s to be violated, got %s\n%s" % (name, inv, r["violated"], r["out"][-1500:]))
    ctx.notes.append("non-vacuity: TLC finds RepliesOK violated by a loop that skips an undecodable record and goes on answering" +
                     ("" if q else "; Conforms violated when a backend panic is not recovered in the request goroutine (F22); Bounded "
                                   "violated by a reader that allocates an oversize fragment before testing it"))


def validate(ctx, trace, label):
    cfg = ctx.write_cfg("ConnStream", "Trace_%s.cfg" % label, TRACE_CFG % dict(known=ctx.tla_set(ctx.known_devs(["C15"]))))
    return ctx.tlc_trace("ConnStream", "ConnStreamTrace", cfg, trace, out_name="res_%s.json" % label, heap="4g")


def bind(ctx, lines):
    rows = [json.loads(l) for l in lines]
    muts = []

    def first(pred, what, change):
        for e in rows:
            if e.get("ev") == "conn" and pred(e):
                muts.append((what, change(dict(e))))
                return

    good = lambda e: len(e["replies"]) >= 2 and e["closed"] and not e["junk"]
    first(good, "reply order", lambda e: dict(e, replies=list(reversed(e["replies"]))) if e["replies"][0] != e["replies"][-1] else dict(e, replies=e["replies"] + ["xffffffff"]))
    first(good, "duplicate reply", lambda e: dict(e, replies=e["replies"] + [e["replies"][-1]]))
    first(lambda e: any(r["cls"] in ("badhdr", "oversize", "trunc") for r in e["recs"]) and len(e["recs"]) >= 1,
          "reply after the stream became undecodable", lambda e: dict(e, replies=e["replies"] + ["x0badc0de"]))
    first(good, "close", lambda e: dict(e, closed=False))
    first(good, "panic logged", lambda e: dict(e, panics=1))
    first(lambda e: good(e) and all(r["cls"] != "poison" for r in e["recs"]), "panic recovered", lambda e: dict(e, contained=1))
    first(good, "probe", lambda e: dict(e, alive=False))
    first(lambda e: e["judge_alloc"] and any(r["cls"] == "oversize" for r in e["recs"]), "allocation", lambda e: dict(e, allockb=3000000))
    if len(muts) < 8:
        raise vflib.Broken("binding demonstration: trace lacks a line of a kind to corrupt (%d of 8)" % len(muts))
    wc.expect_rejected(ctx, lambda p, lab: validate(ctx, p, lab), muts)


def run(ctx):
    if ctx.replay:
        return replay(ctx)
    exhaustive(ctx)
    binp = ctx.build_harness(HARNESS)
    q = ctx.quick()
    ctx.harness_ok(binp, "TestVF_ConnStream", {"VF_STREAMS": 120 if q else 1500}, timeout=1500)
    trace = os.path.join(ctx.scratch, "connstream.ndjson")
    summ = json.load(open(os.path.join(ctx.scratch, "connstream.summary.json")))
    res = validate(ctx, trace, "cs")
    if res["consumed"] != res["n"]:
        raise vflib.Broken("trace spec consumed %s of %s lines" % (res["consumed"], res["n"]))
    lines = open(trace).readlines()
    wc.report(ctx, res, lines, context=wc.history_of_single)
    ctx.cov["traces_validated_against_impl"] = res["stats"]["conns"] + res["stats"]["crashes"]
    ctx.cov["evaluations"] = res["stats"]["conns"] + res["stats"]["crashes"]
    ctx.cov["distinct_nontrivial"] = sum(v["nontrivial"] for k, v in summ.items() if isinstance(v, dict) and "nontrivial" in v)
    ctx.cov["trace_stats"] = res["stats"]
    ctx.cov["runs"] = {k: v for k, v in summ.items() if isinstance(v, dict)}
    for s in summ.get("samples", [])[:3]:
        ctx.sample({k: s[k] for k in ("backend", "kind", "recs", "replies", "closed", "allockb") if k in s})
    bind(ctx, lines)
    ctx.cov["rule"] = ("real TCP loopback connections in record-marking mode to a server in a child process (vfs backend, memfs backend): every "
                       "NFSv3 / MOUNT v1/v3 case of the C14 table four per connection, seeded streams of 1-4 calls with bit flips, length-field "
                       "edits, truncation at any byte, huge fragment headers, flipped framing bytes, random bytes, a record passing 1 MiB by "
                       "accumulation, a full-size non-call record, edge offsets; each stream classified by an independent RFC 1831 parser; a "
                       "probe connection and a bystander connection after each; non-trivial = more than one record in the stream")
    ctx.cov["spec_actions_covered_by_impl"] = ["ServeCall", "ServePoison", "CloseOnUndecodable(badhdr, oversize, trunc)", "CloseAtEOF", "Probe"]
    ctx.assumptions += ["allocation is the process-wide runtime.MemStats.TotalAlloc delta over one connection (server and test client share "
                        "the child process; connections are served one at a time); the bound is 4 MiB + per record 8x its size + 2 MiB per call; "
                        "it is judged over the sparse vfs backend only: memfs materialises every byte up to a named offset (a 5-byte WRITE at "
                        "4 GiB allocates 4 GiB), which is that backend's behaviour, and damaged SETATTR/WRITE/CREATE calls are not sent to it",
                        "a call that is not answered is not a violation (the property says at most once); replies must be a subsequence of the "
                        "decodable calls before the first undecodable record",
                        "'closed' is observed after the client half-closes: the server must close its side within 8 s"]


def replay(ctx):
    body = [l for l in open(ctx.replay).read().splitlines() if l.strip() and json.loads(l).get("ev") != "meta"]
    tp = os.path.join(ctx.scratch, "replay.ndjson")
    open(tp, "w").write("\n".join(body) + "\n")
    res = validate(ctx, tp, "replay")
    for b in res["bad"]:
        ctx.violation(b["why"], body, {"replayed": ctx.replay})
    ctx.cov["evaluations"] = len(body)
    ctx.cov["distinct_nontrivial"] = 1
    ctx.sample({"replayed": ctx.replay})

"""C16: policy updates are atomic with respect to requests (specs/PolicySwap).

exhaustive TLC runs of the design spec (+ liveness under fairness, + non-vacuity runs)
-> TLC-generated environment schedules (MBT) driven into the real HandleCall / UpdatePolicyOptions /
   UpdateExportOptions / connection loop under -race
-> the recorded hook / gate / driver events validated by TLC: ideal level (verdict) and impl level
   (LV search with silent internal steps against the actions of PolicySwap)."""
import glob, json, os, sys
sys.path.insert(0, os.path.dirname(os.path.abspath(__file__)))
import vflib
import policyconn_common as pc

LEVEL = "model_checking"
HARNESS = ["vf_common.go", "vf_vfs.go", "vf_policyswap.go"]

MC_TLA = """---- MODULE MCPolicySwap ----
EXTENDS PolicySwap
CC_direct == [r \\in Reqs |-> {0}]
CC_conn == [r \\in Reqs |-> Conns]
CC_mixed == [r \\in Reqs |-> Conns \\cup {0}]
Sets0 == {{}}
KC_one == [r \\in Reqs |-> {1}]
KC_any == [r \\in Reqs |-> Classes]
Acl_none == {[u \\in Upds |-> {}]}
Acl_some == {[u \\in Upds |-> {}], [u \\in Upds |-> IF u = 1 THEN {1} ELSE {}], [u \\in Upds |-> IF u = 1 THEN {2} ELSE {1}]}
%(defs)s
====
"""

MC_CFG = """SPECIFICATION %(spec)s
CONSTANTS
  Reqs = %(reqs)s
  Upds = %(upds)s
  Conns = %(conns)s
  ConnChoice <- %(cc)s
  ShortSets <- %(short)s
  SecureSets <- %(secure)s
  LimOnSets <- %(limon)s
  BadSquashSets <- %(badsq)s
  Classes = %(classes)s
  ClassChoice <- %(kc)s
  AclChoices <- %(acl)s
  Acl0Choices <- %(acl0)s
  Budgets = %(budgets)s
  MaxOps = %(maxops)d
  MinOps = 0
  CaptureLimiter = %(capture)s
  Mutant = "%(mutant)s"
%(tail)s
"""

SAFETY = "TypeOK SamePolicy StableWhileExecuting DrainedAtRet FreshAfter JudgedBySnapshot LockDiscipline LimiterMatchesPolicy"

GEN_TLA = """---- MODULE MCPolicySwapGen ----
EXTENDS PolicySwapGen
CC_mixed == [r \\in Reqs |-> Conns \\cup {0}]
AllShort == SUBSET Reqs
SomeSecure == {{}, {1}, {2}}
NoSecure == {{}}
AllUpd == SUBSET Upds
SomeHeld == {{}, {}, {1}, {2}, {1, 3}}
Sets0 == {{}}
KC_one == [r \\in Reqs |-> {1}]
Acl_none == {[u \\in Upds |-> {}]}
====
"""

GEN_CFG = """SPECIFICATION GenSpec
CONSTANTS
  Reqs = {1, 2, 3}
  Upds = {1, 2}
  Conns = %(conns)s
  ConnChoice <- CC_mixed
  ShortSets <- %(short)s
  SecureSets <- %(secure)s
  LimOnSets <- AllUpd
  BadSquashSets <- Sets0
  Classes = {1}
  ClassChoice <- KC_one
  AclChoices <- Acl_none
  Acl0Choices <- Sets0
  Budgets = {1, 2}
  MaxOps = 1
  MinOps = 1
  CaptureLimiter = TRUE
  Mutant = "none"
  GenMode = "%(mode)s"
  HeldSets <- %(held)s
  GenDepth = %(depth)d
INVARIANT Dump
"""

TRACE_TLA = """---- MODULE MCPolicySwapTrace ----
EXTENDS PolicySwapTrace
TReqs == 1..12
TUpds == 1..3
TClasses == 1..4
TKC == [r \\in TReqs |-> TClasses]
TAcl == {[u \\in TUpds |-> {}]}
TConns == 1..3
TCC == [r \\in TReqs |-> TConns \\cup {0}]
TOne == {{}}
====
"""

TRACE_CFG = """INIT TInit
NEXT TNext
CONSTANTS
  Reqs <- TReqs
  Upds <- TUpds
  Conns <- TConns
  ConnChoice <- TCC
  ShortSets <- TOne
  SecureSets <- TOne
  LimOnSets <- TOne
  BadSquashSets <- TOne
  Classes <- TClasses
  ClassChoice <- TKC
  AclChoices <- TAcl
  Acl0Choices <- TOne
  Budgets = {0}
  MaxOps = 1000
  MinOps = 0
  CaptureLimiter = %(capture)s
  Mutant = "none"
  KnownDeviations = %(known)s
  Mode = "%(mode)s"
%(tail)s
"""


def fixed(ctx):
    return ctx.finding_status("F10") == "fixed"


def mc(ctx, name, defs="", **kw):
    d = dict(spec="Spec", reqs="{1, 2}", upds="{1, 2}", conns="{}", cc="CC_direct", short="Sets0", secure="Sets0", limon="Sets0",
             badsq="Sets0", classes="{1}", kc="KC_one", acl="Acl_none", acl0="Sets0", budgets="{1}", maxops=1, capture="FALSE" if fixed(ctx) else "TRUE", mutant="none", tail="")
    d.update(kw)
    ctx.write_cfg("PolicySwap", "MCPolicySwap.tla", MC_TLA % dict(defs=defs))
    return ctx.write_cfg("PolicySwap", name, MC_CFG % d)


def exhaustive(ctx):
    q = ctx.quick()
    W = dict(workers=4 if q else 16, deadlock=False, heap="4g")
    defs = "S1 == {{1}}\nS12 == {{}, {1}}\nU1 == {{1}}\nU12 == {{}, {1}, {2}}\nL12 == {{1}, {2}, {1, 2}}\nB2 == {{}, {2}}\nA0 == {{}, {2}}\nSS3 == {{}, {1}, {1, 2}}"
    inv_core = "INVARIANTS " + SAFETY + " LimiterFresh\nPROPERTIES Monotone MidDrainRetry"
    # (a) HandleCall / UpdatePolicyOptions: requests handed directly to HandleCall, time-outs, Secure policies, rejected update
    if q:
        # measured: 2 requests x 2 updates, request 1 short, update 1 installs a Secure policy: 4.1e4 states, 4 s / 4 workers (idle machine)
        cfg = mc(ctx, "MC_core.cfg", defs, short="S1", secure="U1", tail=inv_core)
        ctx.tlc_exhaustive("PolicySwap", "MCPolicySwap", cfg, timeout=600, **W)
    else:
        # measured: 3 requests x 2 updates, 3 choices of short requests, Secure on update 1: several 1e6 states
        cfg = mc(ctx, "MC_core3.cfg", defs, reqs="{1, 2, 3}", short="SS3", secure="U1", tail=inv_core)
        ctx.tlc_exhaustive("PolicySwap", "MCPolicySwap", cfg, timeout=1500, **W)
        cfg = mc(ctx, "MC_core2.cfg", defs, short="SS3", secure="U12", badsq="B2", maxops=2, tail=inv_core)
        ctx.tlc_exhaustive("PolicySwap", "MCPolicySwap", cfg, timeout=900, **W)
    # (a') address filters: two classes of client address, policies (also the one given to New) that refuse one of them
    cfg = mc(ctx, "MC_acl.cfg", defs, upds="{1}" if q else "{1, 2}", classes="{1, 2}", kc="KC_any", acl="Acl_some", acl0="A0", tail=inv_core)
    ctx.tlc_exhaustive("PolicySwap", "MCPolicySwap", cfg, timeout=900, **W)
    # (b) the connection loop and the limiter. The faithful model of the pinned code (CaptureLimiter) violates
    #     LimiterFresh (finding F10), so that invariant is only required of the repaired model.
    inv_lim = "INVARIANTS " + SAFETY + (" LimiterFresh" if fixed(ctx) else "")
    if q:
        # (safety and liveness in one run: FairSpec, "the update finishes once in-flight requests finish")
        cfg = mc(ctx, "MC_lim.cfg", defs, spec="FairSpec", upds="{1}", conns="{1, 2}", cc="CC_conn", limon="U1", maxops=1,
                 tail=inv_lim + "\nPROPERTIES Progress")
        ctx.tlc_exhaustive("PolicySwap", "MCPolicySwap", cfg, timeout=300, **W)
    else:
        cfg = mc(ctx, "MC_lim2.cfg", defs, conns="{1, 2}", cc="CC_conn", limon="L12", maxops=0, tail=inv_lim)
        ctx.tlc_exhaustive("PolicySwap", "MCPolicySwap", cfg, timeout=900, **W)
        cfg = mc(ctx, "MC_limfix.cfg", defs, conns="{1, 2}", cc="CC_conn", limon="L12", maxops=0, capture="FALSE",
                 tail="INVARIANTS " + SAFETY + " LimiterFresh")
        ctx.tlc_exhaustive("PolicySwap", "MCPolicySwap", cfg, timeout=900, **W)
    # (c) liveness: the update finishes once in-flight requests finish (weak fairness on the server's and the backend's steps)
    if not q:
        cfg = mc(ctx, "MC_live.cfg", defs, spec="FairSpec", short="S1", secure="S12", tail="PROPERTIES Progress")
        ctx.tlc_exhaustive("PolicySwap", "MCPolicySwap", cfg, timeout=900, **W)
    ctx.cov["exhaustive"] = True
    # (d) non-vacuity: the same invariants are violated by seeded design errors and by the faithful model of F10
    nv = [("captured-limiter", dict(upds="{1}", conns="{1, 2}", cc="CC_conn", limon="U1", maxops=0, capture="TRUE"), ("LimiterFresh",)),
          ("SwapBeforeDrain", dict(short="S1", mutant="SwapBeforeDrain"), ("StableWhileExecuting", "SamePolicy", "DrainedAtRet"))]
    if not q:
        nv += [("AliasedPolicy", dict(upds="{1}", classes="{1, 2}", kc="KC_any", acl="Acl_some", acl0="A0", mutant="AliasedPolicy"),
                ("StableWhileExecuting", "JudgedBySnapshot", "SamePolicy")),
               ("UnlockOnTimeout", dict(short="S1", mutant="UnlockOnTimeout"), ("LockDiscipline", "StableWhileExecuting", "SamePolicy", "DrainedAtRet")),
               ("ReleaseBeforeLimiter", dict(upds="{1}", conns="{1, 2}", cc="CC_conn", limon="U1", maxops=0, capture="FALSE",
                                             mutant="ReleaseBeforeLimiter"), ("LimiterMatchesPolicy", "LimiterFresh"))]
    for name, kw, expect in nv:
        cfg = mc(ctx, "MC_nv_%s.cfg" % name, defs, tail="INVARIANTS " + SAFETY + " LimiterFresh", **kw)
        r = ctx.tlc_exhaustive("PolicySwap", "MCPolicySwap", cfg, expect_ok=False, count=False, timeout=300, **W)
        if r["violated"] not in expect:
            raise vflib.Broken("non-vacuity run %s: expected one of %s to be violated, got %s" % (name, expect, r["violated"]))
    ctx.notes.append("non-vacuity: TLC finds the C16 invariants violated by the seeded design errors (%s) and LimiterFresh violated by "
                     "the faithful model of the captured limiter (F10)" % ", ".join(n for n, _, _ in nv))


def generate(ctx):
    """MBT: environment schedules from tlc -simulate of PolicySwapGen."""
    q = ctx.quick()
    ctx.write_cfg("PolicySwap", "MCPolicySwapGen.tla", GEN_TLA)
    out = []
    plan = [("direct", "{}", "AllShort", "SomeSecure", "SomeHeld", 100 if q else 500, 90),
            ("tcp", "{1, 2}", "Sets0", "NoSecure", "Sets0", 32 if q else 160, 110)]
    for mode, conns, short, secure, held, num, depth in plan:
        gd = ctx.sub("gen_" + mode)
        cfg = ctx.write_cfg("PolicySwap", "Gen_%s.cfg" % mode, GEN_CFG % dict(conns=conns, short=short, secure=secure, held=held,
                                                                               mode=mode, depth=depth))
        ctx.tlc_simulate("PolicySwap", "MCPolicySwapGen", cfg, num, depth, env={"VF_GEN_DIR": gd}, timeout=300)
        files = sorted(glob.glob(os.path.join(gd, "b*.ndjson")), key=lambda p: int(os.path.basename(p)[1:-7]))
        if len(files) < num // 2:
            raise vflib.Broken("TLC generated only %d of %d schedules (%s)" % (len(files), num, mode))
        for f in files:
            s = json.loads(open(f).read().strip())
            s["id"] = len(out) + 1
            out.append(s)
    p = os.path.join(ctx.scratch, "schedules.ndjson")
    vflib.write_ndjson(p, out)
    return p, out


def trace_cfg(ctx, mode, name):
    known = [] if fixed(ctx) else ctx.known_devs(["C16"])
    tail = "CONSTRAINT HighWater\nPOSTCONDITION ImplPost" if mode == "impl" else ""
    ctx.write_cfg("PolicySwap", "MCPolicySwapTrace.tla", TRACE_TLA)
    return ctx.write_cfg("PolicySwap", name, TRACE_CFG % dict(capture="FALSE" if fixed(ctx) else "TRUE", known=ctx.tla_set(known),
                                                              mode=mode, tail=tail))


def validate(ctx, trace, label):
    ideal = ctx.tlc_trace("PolicySwap", "MCPolicySwapTrace", trace_cfg(ctx, "ideal", "Trace_ideal_%s.cfg" % label), trace,
                          out_name="res_ideal_%s.json" % label, heap="4g")
    if ideal["consumed"] != ideal["n"]:
        raise vflib.Broken("ideal pass consumed %s of %s lines" % (ideal["consumed"], ideal["n"]))
    impl = ctx.tlc_trace("PolicySwap", "MCPolicySwapTrace", trace_cfg(ctx, "impl", "Trace_impl_%s.cfg" % label), trace, dfs=True,
                         out_name="res_impl_%s.json" % label, heap="4g")
    return ideal, impl


def mutants(ctx, lines):
    """Binding demonstration: one corrupted field, one dropped hook event; returned as two extra histories."""
    hs = pc.histories(lines)
    m1 = m2 = None
    for _, h in hs:
        ev = [json.loads(x) for x in h]
        if ev[0].get("kind") != "mbt":
            continue
        if m1 is None:
            for i, e in enumerate(ev):
                if e["ev"] == "op.end":
                    e2 = dict(e, live=e["live"] + 1)   # the backend operation "saw" another policy
                    m = ev[:i] + [e2] + ev[i + 1:]
                    m[0] = dict(m[0], hist=900001, kind="mutant:field")
                    m1 = m
                    break
        if m2 is None:
            sw = [i for i, e in enumerate(ev) if e["ev"] == "up.swapped"]
            rel = [i for i, e in enumerate(ev) if e["ev"] == "hc.release" and sw and i < sw[-1]]
            if rel:
                i = rel[-1]                            # the hook event of a released read lock is dropped
                m = ev[:i] + ev[i + 1:]
                m[0] = dict(m[0], hist=900002, kind="mutant:drop")
                m2 = m
        if m1 and m2:
            break
    if not (m1 and m2):
        raise vflib.Broken("binding demonstration: no recorded history offers an op.end and a hc.release before a swap")
    order = [m1, m2] if ctx.seed % 2 else [m2, m1]
    return [[json.dumps(e, separators=(",", ":")) for e in m] for m in order]


def run(ctx):
    if ctx.replay:
        return replay(ctx)
    q = ctx.quick()
    binp = ctx.build_harness(HARNESS, race=True, name="vf-race.test")
    pc.run_drivers(ctx, binp, "TestVF_PolicyConnHooks", {}, timeout=120)   # exit 2 at once when the hook call sites are absent
    exhaustive(ctx)
    sched_path, scheds = generate(ctx)
    racelog = os.path.join(ctx.scratch, "race")
    env = {"VF_SCHED": sched_path, "VF_HIST": 32 if q else 240, "VF_ALIAS_HIST": 12 if q else 120,
           "GORACE": "log_path=%s halt_on_error=0 exitcode=0" % racelog}
    out = pc.run_drivers(ctx, binp, "TestVF_PolicySwap(MBT|Free|Limiter|Races|Alias)", env, timeout=900, allow_race_exit=True)
    lines, summ = [], {}
    for part in ("mbt", "free", "lim", "race", "alias"):
        p = os.path.join(ctx.scratch, "ps_%s.ndjson" % part)
        if not os.path.exists(p):
            raise vflib.Broken("driver wrote no trace %s:\n%s" % (p, out[-3000:]))
        lines += [l for l in open(p).read().splitlines() if l.strip()]
        summ[part] = json.load(open(os.path.join(ctx.scratch, "ps_%s.summary.json" % part)))
    # race detector reports become events of a last history
    races = pc.parse_race_logs(racelog)
    hr = [r for r in races if r["harness"]]
    if hr:
        raise vflib.Broken("the harness itself has a data race (not a verdict): %s" % hr[:2])
    lines.append(json.dumps({"ev": "reset", "hist": 800000, "mode": "tcp", "kind": "races", "budget": 0, "nr": 0, "nu": 0, "nc": 0,
                             "reqs": [], "upds": [], "deny0": []}))
    seen = set()
    for r in races:
        k = (r["a"], r["b"])
        if k in seen:
            continue
        seen.add(k)
        lines.append(json.dumps({"ev": "race", "a": r["a"], "b": r["b"], "fa": r["fa"], "fb": r["fb"], "upd": r["upd"]}))
        if not r["upd"]:
            ctx.notes.append("race detector report that involves no policy / tuning update (not judged by C16): %s / %s" % (r["a"], r["b"]))
    n_real = len(lines)
    muts = mutants(ctx, lines)
    first_mut_line = n_real + 1
    for m in muts:
        lines += m
    trace = os.path.join(ctx.scratch, "ps_all.ndjson")
    open(trace, "w").write("\n".join(lines) + "\n")
    ideal, impl = validate(ctx, trace, "all")
    hists = pc.histories(lines)
    real_hists = [h for h in hists if h[0] < first_mut_line]

    # ---- verdict: ideal level
    seen_reason = {}
    mut_bad = set()
    for b in sorted(ideal["bad"], key=lambda x: x["l"]):
        if b["hist"] >= 900000:
            mut_bad.add(b["hist"])
            continue
        why = b["why"]
        seen_reason[why] = seen_reason.get(why, 0) + 1
        if seen_reason[why] > 2:
            continue
        start, hl = pc.history_at(hists, b["l"])
        if why.startswith("[timed]") and not confirm_timed(ctx, binp, sched_path, json.loads(hl[0]), why):
            ctx.notes.append("a real-time observation did not reproduce and was not counted: %s (history %s)" % (why, b["hist"]))
            continue
        ctx.violation("%s (history %s, line %d of it)" % (why, b["hist"], b["l"] - start + 1), hl[:b["l"] - start + 1],
                      {"history": json.loads(hl[0]), "line": b["l"]})
    for d in ideal["dev"]:
        if d["hist"] >= 900000:
            continue
        ent = [e for e in ctx.known() if e["deviation"] == d["name"]]
        if ent:
            ctx.known_finding(d["name"], ent[0]["what"])
    if ideal["drift"]:
        ctx.cov.setdefault("impl_model_drift", []).extend(sorted({d["why"] for d in ideal["drift"]}))

    # ---- binding: impl level (LV). Every real history must be explained; the first mutant must stop the search.
    explained = len([h for h in real_hists if h[0] + len(h[1]) - 1 <= impl["consumed"]])
    if impl["consumed"] < n_real:
        start, hl = pc.history_at(hists, impl["consumed"] + 1)
        ev = lines[impl["consumed"]]
        ctx.cov.setdefault("impl_model_drift", []).append(
            "no behaviour of PolicySwap explains event %s (line %d of history %s); later histories were not searched"
            % (ev, impl["consumed"] + 2 - start, json.loads(hl[0]).get("hist")))
        ctx.notes.append("impl-level drift: a recorded history is not a behaviour of specs/PolicySwap; the exhaustive result no longer "
                         "speaks about this code (not a verdict)")
        ctx.log("impl-level drift (not a verdict): " + ctx.cov["impl_model_drift"][-1][:300])
    else:
        # the search must have stopped inside the first mutated history
        if impl["consumed"] >= n_real + len(muts[0]):
            raise vflib.Broken("binding demonstration failed: the corrupted history %s was explained by the impl-level search"
                               % json.loads(muts[0][0])["kind"])
        ctx.cov["binding_mutations_rejected"] += 1
    want = {json.loads(m[0])["hist"] for m in muts}
    if not want <= mut_bad:
        raise vflib.Broken("binding demonstration failed: corrupted histories %s were accepted by the ideal level" % sorted(want - mut_bad))
    ctx.cov["binding_mutations_rejected"] += len(want)

    # ---- evidence
    ctx.cov["traces_validated_against_impl"] = explained
    ctx.cov["evaluations"] = n_real
    ctx.cov["distinct_nontrivial"] = summ["mbt"]["nontrivial"] + summ["free"]["nontrivial"] + (1 if summ["lim"]["limited"] else 0) + \
        summ["alias"]["nontrivial"]
    ctx.cov["trace_stats"] = ideal["stats"]
    ctx.cov["schedules"] = {"generated": len(scheds), "not_followed_exactly": summ["mbt"]["diverged"], "reply_kinds_mbt": summ["mbt"]["kinds"],
                            "reply_kinds_free": summ["free"]["kinds"], "race_reports": len(races)}
    for s in summ["mbt"].get("samples", [])[:2]:
        ctx.sample(s)
    for s in summ["lim"].get("samples", [])[:1]:
        ctx.sample(s)
    ctx.sample({"recorded_history": [json.loads(x) for x in real_hists[0][1][:40]]})
    ctx.cov["rule"] = ("schedules of environment actions (call r / hold r at admission / release backend gate of r / start update u / let r "
                       "time out / open connection c) generated by tlc -simulate from PolicySwapGen (server steps have priority = "
                       "quiescence), driven into the real code under -race; plus free-running histories (3 requests, 2 updates "
                       "started together), directed limiter histories over TCP, concurrent connection set-up, and alias histories: address filters given "
                       "to New and to three updates (both APIs, one of them rejected), after each of which the harness overwrites every option "
                       "value the caller still owns (AllowedIPs slice, RateLimitConfig and TLS structs) before GetExportOptions is read and "
                       "requests arrive from an admitted, a refused and the overwritten address. A history is "
                       "non-trivial when a request met a drain (retry-later) or ran into its deadline while its goroutine held the "
                       "read lock, a limiter refused a request, or (alias) an update was rejected")
    ctx.cov["spec_actions_covered_by_impl"] = ["Call", "Judge", "Arrive(ok)", "Arrive(retry-later)", "Snapshot", "Deny", "GoCheck", "OpStart",
                                               "OpEnd", "GoSend", "Finish", "TimerFire", "RetOk", "RetTimeout", "RetDenied", "RetJukebox",
                                               "UpdCall", "UpdBegin", "UpdReject" if any(s.get("badsq") for s in scheds) else "UpdReject(free only)",
                                               "UpdWait", "UpdAcquire", "UpdSwap", "UpdLimiter", "UpdRelease", "UpdReturn", "ConnOpen"]
    ctx.assumptions += ["the vhook call sites are at the linearization points named in DESIGN.md appendix B (under the lock that protects the change)",
                        "the live policy is identified by PolicyOptions.MaxFileSize (one distinct value per update)",
                        "limiter decisions are made time-independent by a per-address bucket that never refills (rate 0)",
                        "requests over TCP come from 127.0.0.1 and no Secure policy is used there (MSG_DENIED = rate limited)",
                        "an update with EnableRateLimiting and a nil RateLimitConfig (the code keeps the previous limiter) is not generated",
                        "client addresses fall into four classes (127.0.0.1, 10.1.1.2, 10.1.1.3 and the address written over the caller's "
                        "values); tuning values behind pointers (Timeouts, Log) are C24's and are not overwritten here"]


def confirm_timed(ctx, binp, sched_path, reset, why):
    """A verdict that rests on a real-time observation counts only if it reproduces twice more."""
    if reset.get("kind") != "mbt":
        return False
    for k in range(2):
        sub = ctx.sub("confirm%d" % k)
        rc, out = ctx.run_harness(binp, "TestVF_PolicySwapMBT", {"VF_SCHED": sched_path, "VF_ONLY": reset["hist"], "VF_OUT": sub,
                                                                  "GORACE": "halt_on_error=0 exitcode=0"}, 300)
        p = os.path.join(sub, "ps_mbt.ndjson")
        if not os.path.exists(p):
            return False
        res = ctx.tlc_trace("PolicySwap", "MCPolicySwapTrace", trace_cfg(ctx, "ideal", "Trace_confirm.cfg"), p,
                            out_name="res_confirm%d.json" % k, heap="2g")
        if not any(b["why"] == why for b in res["bad"]):
            return False
    return True


def replay(ctx):
    lines = [l for l in open(ctx.replay).read().splitlines() if l.strip()]
    body = [l for l in lines if json.loads(l).get("ev") != "meta"]
    tp = os.path.join(ctx.scratch, "replay.ndjson")
    open(tp, "w").write("\n".join(body) + "\n")
    res = ctx.tlc_trace("PolicySwap", "MCPolicySwapTrace", trace_cfg(ctx, "ideal", "Trace_replay.cfg"), tp, out_name="res_replay.json", heap="2g")
    for b in res["bad"]:
        ctx.violation(b["why"], body, {"replayed": ctx.replay})
    for d in res["dev"]:
        ctx.known_finding(d["name"])
    ctx.cov["evaluations"] = len(body)
    ctx.cov["distinct_nontrivial"] = 2   # a replay re-validates one recorded history (schema minimum)
    ctx.sample({"replayed": ctx.replay})

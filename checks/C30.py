"""C30: the TLS listener enforces the configured security floor (specs/TLSPolicy)."""
import json, os
import vflib

LEVEL = "model_checking"
HARNESS = ["vf_common.go", "vf_vfs.go", "vf_tls.go"]
DEV = "Dev_ReloadOnSnapshotNoEffect"

MC_CFG = """SPECIFICATION Spec
CONSTANTS
  Certs = %(certs)s
  Sharing = "%(sharing)s"
  SkipSet = %(skips)s
  SuiteSet = %(suites)s
  SystemRootsToo = %(sysroots)s
INVARIANTS %(invs)s
"""

GEN_CFG = """SPECIFICATION Spec
CONSTANTS
  Variants = %(variants)s
"""

TRACE_CFG = """SPECIFICATION Spec
CONSTANTS
  KnownDeviations = %(known)s
  Sharing = "%(sharing)s"
"""


def exhaustive(ctx):
    fixed = ctx.finding_status("F21") == "fixed"
    workers = int(os.environ.get("VF_TLC_WORKERS", "4"))
    # measured (4 workers, loaded machine): Certs {A,B}: 39 k states / 1.6 M transitions, 20 s; {A,B,C}: 116 k states / 5.1 M, 50 s
    certs = '{"A", "B"}' if ctx.quick() else '{"A", "B", "C"}'
    # InsecureSkipVerify and the cipher-suite list have no effect in the model (that they have none in the code is what the
    # vectors test); only the thorough tier spends exhaustive states on them
    dims = dict(skips="{FALSE}", suites='{"default"}') if ctx.quick() else dict(skips="{TRUE, FALSE}", suites='{"default", "listed"}')
    dims["sysroots"] = "FALSE"
    base = "TypeOK Floor Mutual Highest"
    # the code as it is: the policy function holds for all configurations x 40 clients; rotation only after the repair
    cfg = ctx.write_cfg("TLSPolicy", "MC_code.cfg", MC_CFG % dict(dims, certs=certs, sharing="all" if fixed else "none",
                                                                 invs=base + (" Rotation" if fixed else "")))
    ctx.tlc_exhaustive("TLSPolicy", "TLSPolicy", cfg, workers=workers, timeout=900, deadlock=False, heap="3g")
    if not fixed and not ctx.quick():
        cfg = ctx.write_cfg("TLSPolicy", "MC_ideal.cfg", MC_CFG % dict(dims, certs=certs, sharing="all", invs=base + " Rotation"))
        ctx.tlc_exhaustive("TLSPolicy", "TLSPolicy", cfg, workers=workers, timeout=900, deadlock=False, heap="3g")
    ctx.cov["exhaustive"] = True
    # non-vacuity: a certificate holder per clone ("none", the code before F21 was repaired) loses the documented rotation
    # step; a holder shared only by clones made after the listener was built ("lazy") loses it for settings read back earlier
    small = dict(skips="{FALSE}", suites='{"default"}', sysroots="FALSE")
    for sharing in ("lazy",) if ctx.quick() else ("none", "lazy"):
        cfg = ctx.write_cfg("TLSPolicy", "MC_nv_%s.cfg" % sharing, MC_CFG % dict(small, certs='{"A", "B"}', sharing=sharing, invs="Rotation"))
        r = ctx.tlc_exhaustive("TLSPolicy", "TLSPolicy", cfg, expect_ok=False, count=False, workers=2, timeout=300, deadlock=False, heap="2g")
        if r["violated"] != "Rotation":
            raise vflib.Broken("non-vacuity run: expected Rotation to be violated with Sharing=%s, got %s" % (sharing, r["violated"]))
    cfg = ctx.write_cfg("TLSPolicy", "MC_nv_sysroots.cfg", MC_CFG % dict(small, certs='{"A"}', sharing="all", invs="Mutual", sysroots="TRUE"))
    r = ctx.tlc_exhaustive("TLSPolicy", "TLSPolicy", cfg, expect_ok=False, count=False, workers=2, timeout=300, deadlock=False, heap="2g")
    if r["violated"] != "Mutual":
        raise vflib.Broken("non-vacuity run: expected Mutual to be violated with SystemRootsToo=TRUE, got %s" % r["violated"])
    ctx.notes.append("non-vacuity: with the host's trust store added to the verifying pool TLC finds Mutual violated (a client of a public CA gets in)")
    ctx.notes.append("non-vacuity: TLC finds Rotation violated when clones do not share the certificate holder, and when only clones made "
                     "after the listener was built share it (RotateOnDisk, ReloadPreSnapshot, Hello presents the old certificate)")


def generate(ctx):
    vp = os.path.join(ctx.scratch, "tls_vectors.ndjson")
    variants = '{"plain", "skip", "listed"}' if ctx.quick() else '{"plain", "skip", "listed", "skip+listed"}'
    cfg = ctx.write_cfg("TLSPolicy", "Gen.cfg", GEN_CFG % dict(variants=variants))
    r = ctx.tlc("TLSPolicy", "TLSGen", cfg, workers=1, timeout=300, env={"VF_VECTORS": vp}, heap="2g", deadlock=False)
    if not os.path.exists(vp) or os.path.getsize(vp) == 0:
        raise vflib.Broken("TLSGen wrote no vectors:\n" + r["out"][-3000:])
    rows = vflib.read_ndjson(vp)
    nv = sum(len(x["clients"]) for x in rows)
    ctx.log("TLSGen: %d configurations (%d accepted by Validate as transcribed) x %d clients = %d vectors in %.1fs" % (
        len(rows), sum(1 for x in rows if x["accepts"]), len(rows[0]["clients"]), nv, r["wall_s"]))
    ctx.cov["tlc_runs"].append({"module": "TLSGen", "cfg": "Gen.cfg", "vectors": nv, "configurations": len(rows), "wall_s": r["wall_s"]})
    ctx.sample({"vector": {"cfg": rows[0]["cfg"], "accepts": rows[0]["accepts"], "client": rows[0]["clients"][0]}})
    return vp


def validate(ctx, trace, label):
    fixed = ctx.finding_status("F21") == "fixed"
    cfg = ctx.write_cfg("TLSPolicy", "Trace_%s.cfg" % label, TRACE_CFG % dict(
        known=ctx.tla_set(ctx.known_devs(["C30"])), sharing="all" if fixed else "none"))
    return ctx.tlc_trace("TLSPolicy", "TLSTrace", cfg, trace, out_name="res_%s.json" % label, heap="4g")


def history_of(lines, lno):
    start = lno - 1
    while start > 0 and json.loads(lines[start]).get("ev") != "cfg":
        start -= 1
    e = json.loads(lines[lno - 1])
    if e.get("ev") == "rot":
        return [l.rstrip("\n") for l in lines[start:lno]]
    return [lines[start].rstrip("\n"), lines[lno - 1].rstrip("\n")]     # a handshake depends on its configuration only


def bind_mutation(ctx, lines):
    """Corrupt one recorded field in each of three ways; every corrupted line must be rejected."""
    out, expect = [], []
    cfgline, cfgi = None, 0
    done = set()
    for i, ln in enumerate(lines):
        e = json.loads(ln)
        if e["ev"] == "cfg":
            cfgline, cfgi = e, i
            continue
        if e["ev"] == "hs" and e["ok"] and e["ver"] == 12 and "ver" not in done:
            e["ver"] = 11                       # a completed handshake reported at TLS 1.1
            out += [lines[cfgi], json.dumps(e)]
            expect.append((len(out), "negotiated version"))
            done.add("ver")
        elif e["ev"] == "hs" and not e["ok"] and cfgline["cfg"]["auth"] == "requireAndVerify" and e["cl"]["cert"] == "other" \
                and e["cl"]["hi"] >= 12 and cfgline["cfg"]["max"] in (0, 12, 13) and "mutual" not in done:
            e["ok"], e["ver"] = True, 12        # a foreign-CA client reported as admitted
            out += [lines[cfgi], json.dumps(e)]
            expect.append((len(out), "handshake outcome"))
            done.add("mutual")
        elif e["ev"] == "rot" and e["act"] == "hs" and e["ok"] and "rot" not in done:
            e["presented"] = "other"            # a certificate that was never installed
            out += lines[cfgi:i] + [json.dumps(e)]
            expect.append((len(out), "presented certificate"))
            done.add("rot")
    if len(done) < 3:
        raise vflib.Broken("binding demonstration could not be performed (missing: %s)" % ({"ver", "mutual", "rot"} - done))
    mp = os.path.join(ctx.scratch, "mut.ndjson")
    open(mp, "w").write("\n".join(out) + "\n")
    res = validate(ctx, mp, "mut")
    badl = {b["l"] for b in res["bad"]}
    for lno, name in expect:
        if lno not in badl:
            raise vflib.Broken("binding demonstration failed: trace with corrupted %s accepted" % name)
    ctx.cov["binding_mutations_rejected"] += len(expect)


def run(ctx):
    if ctx.replay:
        return replay(ctx)
    exhaustive(ctx)
    vectors = generate(ctx)
    binp = ctx.build_harness(HARNESS)
    # every configuration (quick 750, thorough 1000: Min/Max x ClientAuth x CA x InsecureSkipVerify x cipher-suite list); quick: a
    # seeded pseudo-random half of the 40 clients for the plain ones and a quarter for those with InsecureSkipVerify or a
    # cipher-suite list (about 4000 real handshakes); thorough: every client (12 800 handshakes)
    ctx.harness_ok(binp, "TestVF_TLS", {"VF_TLS_VECTORS": vectors, "VF_TLS_EVERY": 4 if ctx.quick() else 1, "VF_TLS_EVERY_PLAIN": 2 if ctx.quick() else 1}, timeout=540)
    trace = os.path.join(ctx.scratch, "tls.ndjson")
    summ = json.load(open(os.path.join(ctx.scratch, "tls.summary.json")))
    res = validate(ctx, trace, "main")
    if res["consumed"] != res["n"]:
        raise vflib.Broken("trace spec consumed %s of %s lines" % (res["consumed"], res["n"]))
    if summ["handshakes"] == 0 or summ["completed"] == 0:
        raise vflib.Broken("no TLS handshake completed at all: the harness could not drive the listener")
    lines = open(trace).read().splitlines()
    ctx.cov["traces_validated_against_impl"] = summ["configs"] + 6
    ctx.cov["evaluations"] = res["n"]
    ctx.cov["distinct_nontrivial"] = summ["nontrivial"]
    ctx.cov["trace_stats"] = res["stats"]
    ctx.cov["handshakes"] = {"performed": summ["handshakes"], "completed": summ["completed"], "rotation_steps": summ["rotation_steps"]}
    if not summ.get("public_planted", False):
        ctx.notes.append("the public CA could not be planted in the process's system trust store: clients of a host-trusted CA were not exercised")
    ctx.cov["public_ca_planted"] = bool(summ.get("public_planted", False))
    for s in summ.get("samples", [])[:3]:
        ctx.sample(s)
    seen = {}
    for b in sorted(res["bad"], key=lambda x: x["l"]):
        seen[b["why"]] = seen.get(b["why"], 0) + 1
        if seen[b["why"]] > 2:
            continue
        h = history_of(lines, b["l"])
        ctx.violation("%s (cfg %s, line %d)" % (b["why"], json.loads(h[0])["cfg"], b["l"]), h, {"line": b["l"]})
    for d in res["dev"]:
        ent = [e for e in ctx.known() if e["deviation"] == d["name"]]
        if ent:
            ctx.known_finding(d["name"], ent[0]["what"])
    if res["drift"]:
        ctx.cov["impl_model_drift"] = sorted({d["why"] for d in res["drift"]})
        ctx.cov["impl_model_drift_lines"] = len(res["drift"])
        ctx.notes.append("impl-level drift: Listen / handshake outcomes differ from Accepts / Handshake as transcribed; the exhaustive result "
                         "no longer speaks about this code (not a verdict)")
    bind_mutation(ctx, lines)
    ctx.cov["rule"] = ("TLC-generated vectors: 1000 configurations (Min/Max x ClientAuth x CA file x InsecureSkipVerify x cipher-suite list) x 40 "
                       "clients (10 version ranges x 5 certificate kinds: none, self-signed, configured CA, another private CA, a CA planted in the "
                       "process's system trust store through SSL_CERT_FILE; certificates are sent whatever CAs the server names), every configuration "
                       "started as a real TLS listener, real crypto/tls handshakes + NULL call; 6 rotation histories (settings fetched after Listen, "
                       "fetched once and kept, fetched before Listen, written back with UpdateExportOptions); non-trivial = a configuration with "
                       "both completed and refused handshakes")
    ctx.cov["spec_actions_covered_by_impl"] = ["Start(accepted)", "Start(refused)", "Hello", "RotateOnDisk", "ReloadSnapshot", "ReloadPreSnapshot", "ReloadCaller"]
    ctx.assumptions += ["crypto/tls and crypto/x509 are trusted; the spec decides the policy around them",
                        "a handshake counts as completed when the server answered a NULL call on the session",
                        "cipher suites: library default or the list of DefaultTLSConfig(); client and server certificates are ECDSA P-256",
                        "with no CAFile the verifying modes fall back to the host's trust store (crypto/tls semantics of a nil ClientCAs); that "
                        "store is then the anchor, so only the certificate of the planted public CA may get in",
                        "the system trust store of the harness process is replaced (SSL_CERT_FILE / SSL_CERT_DIR set before its first use) by "
                        "one test CA; if that does not take effect the public-CA clients are skipped and the run says so"]


def replay(ctx):
    lines = [l for l in open(ctx.replay).read().splitlines() if l.strip()]
    body = [l for l in lines if json.loads(l).get("ev") != "meta"]
    tp = os.path.join(ctx.scratch, "replay.ndjson")
    open(tp, "w").write("\n".join(body) + "\n")
    res = validate(ctx, tp, "replay")
    for b in res["bad"]:
        ctx.violation(b["why"], body, {"replayed": ctx.replay})
    for d in res["dev"]:
        ctx.known_finding(d["name"])
    ctx.cov["evaluations"] = len(body)
    ctx.cov["distinct_nontrivial"] = 1
    ctx.sample({"replayed": ctx.replay})

"""C29: concurrent requests are race-free and linearizable (specs/Linearize).

1. Exhaustive TLC runs of the design spec Linearize.tla (2 clients, names {a,b}, handlers split
   into per-backend-call steps): the repaired design is linearizable w.r.t. CoreOps and leaves the
   caches coherent; the pinned READDIR / cache-put orders and a non-atomic MKDIR are caught.
2. The harness (vf_linearize.go, built with -race) records small concurrent histories through
   HandleCall over the thread-safe vfs backend with seeded yields/delays around every backend
   operation, plus directed schedules (blocking gates).
3. LinearizeTrace.tla: TLC searches, per history, for a linearization (depth-first queue, one
   worker), checks the final-state clause (handle table, caches), and rejects race / panic /
   deadlock events. Verdicts come only from recorded real executions."""
import json, os, re, sys, collections, concurrent.futures
sys.path.insert(0, os.path.dirname(os.path.abspath(__file__)))
import vflib

LEVEL = "model_checking"
PID = "C29"
HARNESS = ["vf_common.go", "vf_vfs.go", "vf_linearize.go"]
DEV_RD = "Dev_ReaddirNotASnapshot"
DEV_PUT = "Dev_CachePutAfterInvalidate"
DEV_RDATTR = "Dev_ReaddirplusAttrsNotASnapshot"

MC_CFG = """SPECIFICATION Spec
CONSTANTS
  Clients = {"c1", "c2"}
  Names = {"a", "b"}
  OpsPerClient <- %(ops)s
  Owner <- %(owner)s
  InitKinds = %(init)s
  Procs = %(procs)s
  MinTTL = %(minttl)s
  NegCache = %(neg)s
  DirCache = %(dirc)s
  SnapshotReaddir = %(snap)s
  GuardedPut = %(guard)s
  AtomicMkdir = %(atomic)s
INVARIANTS TypeOK Linearizable Coherent
"""

TRACE_CFG = """SPECIFICATION Spec
CONSTANTS
  KnownDeviations = %s
  MaxStates = %d
CONSTRAINT Prune
INVARIANT Observe
POSTCONDITION Finish
"""


def B(x):
    return "TRUE" if x else "FALSE"


def MC(ctx, name, ops="Ops21", owner="OwnerOne", init=("N", "F"), procs=("CREATE", "REMOVE", "READDIR"), minttl=True,
       caches=False, snap=True, guard=True, atomic=True, expect=None, workers=None, timeout=900):
    """One exhaustive run of Linearize.tla. expect = None: must hold; else the invariant that must be violated."""
    cfg = ctx.write_cfg("Linearize", "MC_%s.cfg" % name, MC_CFG % dict(
        ops=ops, owner=owner, init=ctx.tla_set(init), procs=ctx.tla_set(procs), minttl=B(minttl), neg=B(caches), dirc=B(caches),
        snap=B(snap), guard=B(guard), atomic=B(atomic)))
    r = ctx.tlc_exhaustive("Linearize", "Linearize", cfg, expect_ok=expect is None, count=expect is None,
                           deadlock=False, workers=workers, timeout=timeout, heap="4g")
    if expect is not None and r["violated"] != expect:
        raise vflib.Broken("non-vacuity run %s: expected %s to be violated, got %s\n%s" % (name, expect, r["violated"], r["out"][-1500:]))
    return r


def exhaustive(ctx):
    q = ctx.quick()
    w = 2 if q else 8
    ctx._spec_copy("Linearize")          # (create the scratch copy before the threads race for it)
    jobs = []
    with concurrent.futures.ThreadPoolExecutor(max_workers=5 if q else 2) as ex:
        def mc(ctx, name, **kw):         # noqa: shadows the module-level runner with a submitting one
            jobs.append(ex.submit(MC, ctx, name, **kw))
        _exhaustive_runs(ctx, q, w, mc)
        for j in jobs:
            j.result()
    ctx.cov["exhaustive"] = True
    ctx.notes.append("non-vacuity: TLC finds Linearizable violated by a MKDIR that checks and creates in two steps and by a READDIR that "
                     "drops entries whose later lookup fails, and Coherent violated by cache puts that an invalidation has overtaken")


def _exhaustive_runs(ctx, q, w, mc):
    small = ("CREATE", "REMOVE", "READDIR")
    # the repaired design: linearizable at minimal TTL, stale-but-real with caches, caches coherent afterwards
    if q:
        mc(ctx, "min", procs=small, workers=w)
        mc(ctx, "cache", procs=small, init=("F",), minttl=False, caches=True, workers=w)
    else:
        allp = ("LOOKUP", "CREATE", "MKDIR", "REMOVE", "RENAME", "READDIR")
        mc(ctx, "min_one", ops="Ops22", procs=("LOOKUP", "CREATE", "MKDIR", "REMOVE", "READDIR"), workers=w)
        mc(ctx, "min_split", ops="Ops22", owner="OwnerSplit", procs=allp, init=("N", "F", "D"), workers=w)
        mc(ctx, "cache_one", ops="Ops21", procs=("LOOKUP", "CREATE", "REMOVE", "READDIR"), minttl=False, caches=True, workers=w)
        mc(ctx, "cache_split", ops="Ops22", owner="OwnerSplit", procs=("LOOKUP", "CREATE", "REMOVE", "READDIR"), init=("F",),
           minttl=False, caches=True, workers=w)
    # non-vacuity: each defect is found by TLC when its switch is set to the defective order
    mc(ctx, "nv_mkdir", ops="Ops11", owner="OwnerAny", procs=("MKDIR",), atomic=False, expect="Linearizable", workers=w)
    mc(ctx, "nv_readdir", procs=small, snap=False, expect="Linearizable", workers=w)
    mc(ctx, "nv_put", procs=small, init=("F",), minttl=False, caches=True, guard=False, expect="Coherent", workers=w)


# ---------------------------------------------------------------------------- runtime observations
GOROOT = None


def goroot():
    global GOROOT
    if GOROOT is None:
        import subprocess
        try:
            GOROOT = subprocess.run(["go", "env", "GOROOT"], stdout=subprocess.PIPE, text=True, env=dict(os.environ, **vflib.GOENV)).stdout.strip()
        except Exception:
            GOROOT = "/usr/local/go"
    return GOROOT or "/usr/local/go"


def frames(block):
    """[(function, file)] of one stack section of a race report / goroutine dump."""
    out = []
    lines = block.splitlines()
    for i, ln in enumerate(lines[:-1]):
        m = re.match(r"^\s*(\S.*)\([^()]*\)$", ln)
        nxt = lines[i + 1].strip()
        if m and re.match(r"^(/|\w:).*\.go:\d+", nxt):
            out.append((m.group(1), nxt.split(":")[0]))
    return out


def frame_class(fn, path):
    base = os.path.basename(path)
    if base.startswith("zz_vf_") or "/harness/" in path or re.search(r"[.(*]vf[A-Za-z]*", fn.split("/")[-1]):
        return "harness"
    if path.startswith(goroot()) or "/pkg/mod/" in path and "absnfs" not in path:
        return "lib"
    if "absnfs." in fn or path.startswith(vflib.REPO):
        return "absnfs"
    return "lib"


def top_class(block):
    """Class of the innermost frame that is not the Go runtime / a library."""
    for fn, path in frames(block):
        c = frame_class(fn, path)
        if c != "lib":
            return c, fn
    return "lib", ""


def parse_runtime(out):
    """Race reports, panics and the watchdog dump in the harness output, each attributed to the
    history whose marker precedes it."""
    events, broken = [], []
    cur = None
    pos = 0
    marks = [(m.start(), int(m.group(1))) for m in re.finditer(r"^VF-LIN-HIST (-?\d+)$", out, re.M)]

    def hist_at(p):
        h = None
        for s, n in marks:
            if s <= p:
                h = n
            else:
                break
        return h

    for m in re.finditer(r"WARNING: DATA RACE\n(.*?)\n==================", out, re.S):
        body = m.group(1)
        secs = [s for s in re.split(r"\n\s*\n", body) if s.strip()]
        acc = [s for s in secs if re.match(r"^(Previous )?(read|write|atomic read|atomic write)", s.strip(), re.I)][:2]
        if len(acc) < 2:
            broken.append("unparsable race report:\n" + body[:1500])
            continue
        cls = [top_class(a) for a in acc]
        if all(c[0] == "absnfs" for c in cls):
            events.append({"hist": hist_at(m.start()), "ev": "race", "what": "data race between %s and %s" % (cls[0][1], cls[1][1]),
                           "detail": "WARNING: DATA RACE\n" + body})
        elif any(c[0] == "harness" for c in cls):
            broken.append("data race with harness / vfs frames on top (harness defect):\n" + body[:3000])
        else:
            broken.append("data race outside absnfs and harness:\n" + body[:3000])
    m = re.search(r"^(panic: .*|fatal error: .*)$", out, re.M)
    if m:
        dump = out[m.start():m.start() + 20000]
        first = re.split(r"\n\s*\n", dump)
        blk = first[1] if len(first) > 1 else dump
        cls = top_class(blk)
        if cls[0] == "absnfs":
            events.append({"hist": hist_at(m.start()), "ev": "panic", "what": m.group(1)[:200] + " in " + cls[1], "detail": dump})
        else:
            broken.append("the harness process died outside absnfs code:\n" + dump[:3000])
    m = re.search(r"VF-LIN-DEADLOCK-BEGIN (-?\d+)\n(.*?)VF-LIN-DEADLOCK-END", out, re.S)
    if m:
        events.append({"hist": int(m.group(1)), "ev": "deadlock", "what": "no request completed for 10 s", "detail": m.group(2)[:60000], "logged": True})
    return events, broken


# ---------------------------------------------------------------------------- one round
def validate(ctx, trace, label, known, bound=20000):
    cfg = ctx.write_cfg("Linearize", "Trace_%s.cfg" % label, TRACE_CFG % (ctx.tla_set(known), bound))
    res = ctx.tlc_trace("Linearize", "LinearizeTrace", cfg, trace, dfs=True, out_name="res_%s.json" % label, timeout=1500, heap="4g")
    if res["consumed"] != res["n"] or len(res["diag"]) != res["n"]:
        raise vflib.Broken("trace spec consumed %s of %s histories" % (res["consumed"], res["n"]))
    return res


def run_round(ctx, binp, rnd, nhist, directed):
    seed = ctx.seed if rnd == 0 else (ctx.seed * 7919 + rnd * 104729) % (2 ** 30)
    sub = ctx.sub("round%d" % rnd)
    env = {"VF_OUT": sub, "VERIF_SEED": seed, "VF_HIST": nhist, "VF_LIN_DIRECTED": 1 if directed else 0, "GORACE": "halt_on_error=0"}
    rc, out = ctx.run_harness(binp, "TestVF_Linearize", env, timeout=1500)
    events, broken = parse_runtime(out)
    if broken:
        raise vflib.Broken(broken[0])
    trace = os.path.join(sub, "linearize.ndjson")
    summ_p = os.path.join(sub, "linearize.summary.json")
    summ = json.load(open(summ_p)) if os.path.exists(summ_p) else None
    if (rc != 0 or summ is None) and not events:
        raise vflib.Broken("harness driver failed (rc=%d):\n%s" % (rc, out[-4000:]))
    lines = [json.loads(l) for l in open(trace)] if os.path.exists(trace) else []
    if summ and summ.get("undriven"):
        raise vflib.Broken("directed schedule could not be driven (gate never reached): %s" % summ["undriven"])
    # attach the runtime observations to their histories (a history that was not recorded because the
    # process died gets a stub line)
    byh = {l["hist"]: l for l in lines}
    for e in events:
        if e.get("logged"):      # (the harness wrote the event itself; add the goroutine dump to it)
            l = byh.get(e["hist"])
            if l is not None and l["events"]:
                l["events"][0]["detail"] = e["detail"][:20000]
            continue
        l = byh.get(e["hist"])
        if l is None:
            l = {"ev": "hist", "hist": e["hist"] if e["hist"] is not None else 10 ** 6, "scenario": "", "seed": seed, "cfg": {"ttl": "min", "neg": False, "dir": False, "mode": "contend"},
                 "T": 0, "nclients": 0, "init": [{"p": [], "k": "D", "perm": 493}], "ops": [], "final": [{"p": [], "k": "D", "perm": 493}],
                 "tab": [], "byp": [], "badnodes": 0, "attr": [], "dirc": [], "expired": 0, "events": []}
            lines.append(l)
            byh[l["hist"]] = l
        l["events"].append({"ev": e["ev"], "what": e["what"], "detail": e["detail"][:20000]})
    if events:
        vflib.write_ndjson(trace, lines)
    return {"rnd": rnd, "seed": seed, "trace": trace, "lines": lines, "summ": summ or {}, "events": events}


def describe(l, d):
    """Human-readable reason for a history the search rejected."""
    ops = {o["id"]: o for o in l["ops"]}

    def od(i):
        o = ops[i]
        extra = ""
        if "rnames" in o:
            extra = " -> " + ",".join(o["rnames"])
        return "#%d c%d %s %s %s=%s%s" % (i, o["c"], o["proc"], "/" + "/".join(o["h"]), o.get("name", ""), o["st"], extra)
    ttl = "minimal TTL" if l["cfg"]["ttl"] == "min" else "default TTL (stale replies allowed)"
    if d["full"]:
        return ("every reply is explained by some serial order, but none of them ends in the recorded final tree (%s, %d requests)"
                % (ttl, d["nops"]))
    blocked = "; ".join(od(b["id"]) for b in sorted(d["blocked"], key=lambda b: b["id"])) or "(none ready)"
    return ("no serial execution that respects real-time order explains the replies (%s): after linearizing %d of %d requests, "
            "no pending request is an allowed next step [%s]" % (ttl, d["best"], d["nops"], blocked))


def classify(ctx, rr, res, label, seen_reasons, known):
    """Violations / known findings of one validated round."""
    undecided = []
    for i, (l, d) in enumerate(zip(rr["lines"], res["diag"])):
        if l.get("mutkind"):
            continue                    # corrupted copies (binding demonstration) never count
        reasons = []
        for w in d["ebad"]:
            reasons.append(("runtime", w))
        for w in d["fbad"]:
            reasons.append(("final", "after all requests completed: " + w))
        for dev in d["fdev"]:
            ctx.known_finding(dev)
        if d["searched"] and not d["acc"]:
            if d["accdev"]:
                best = min(d["accdev"], key=len)
                for dev in best:
                    ctx.known_finding(dev)
            elif max(d["n"], d.get("n1", 0)) >= res["_bound"]:
                undecided.append(i)
            else:
                reasons.append(("lin", describe(l, d)))
        for kind, why in reasons:
            key = re.sub(r"#\d+ c\d+ |\d+ of \d+|, \d+ requests", "", why)[:160]
            seen_reasons[key] += 1
            if seen_reasons[key] > 2:
                continue
            where = ("directed schedule %s" % l["scenario"]) if l.get("scenario") else "history %d of round %d (seed %d)" % (l["hist"], rr["rnd"], rr["seed"])
            ctx.violation("%s [%s, mode %s]" % (why, where, l["cfg"]["mode"]), [json.dumps(l)],
                          {"round": rr["rnd"], "seed": rr["seed"], "hist": l["hist"], "kind": kind, "known_deviations": known})
    return undecided


def decide(ctx, rr, label, known, seen_reasons, bound=20000):
    res = validate(ctx, rr["trace"], label, known, bound)
    res["_bound"] = bound
    und = classify(ctx, rr, res, label, seen_reasons, known)
    if und:
        # a history the search could not settle within its bound: once more, alone, with a larger bound
        sub = {"rnd": rr["rnd"], "seed": rr["seed"], "lines": [rr["lines"][i] for i in und]}
        sub["trace"] = os.path.join(ctx.scratch, "undecided_%s.ndjson" % label)
        vflib.write_ndjson(sub["trace"], sub["lines"])
        res2 = validate(ctx, sub["trace"], label + "_u", known, bound * 50)
        res2["_bound"] = bound * 50
        still = classify(ctx, sub, res2, label + "_u", seen_reasons, known)
        if still:
            raise vflib.Broken("the linearization search of %d histories did not finish within %d states" % (len(still), bound * 50))
    return res


# ---------------------------------------------------------------------------- binding demonstration
def add_mutations(rr):
    """Binding demonstration, part 1: corrupted copies of recorded histories are appended to the trace of
    round 0 (marked mutkind / mutof) and validated in the same TLC run; they never count for the verdict."""
    muts = []
    for idx, l in enumerate(rr["lines"]):
        if l.get("scenario") or l["cfg"]["mode"] != "distinct" or l["events"] or len(muts) >= 4:
            continue
        kinds = {m["mutkind"] for m in muts}
        c = json.loads(json.dumps(l))
        c["mutof"] = idx
        if "status" not in kinds:
            o = next((o for o in c["ops"] if o["proc"] in ("MKDIR", "SYMLINK") and o["ok"]), None)
            if o:
                o["ok"], o["st"], c["mutkind"] = False, "EXIST", "status"   # a successful creation reported as a failure
                muts.append(c)
                continue
        if "listing" not in kinds:
            o = next((o for o in c["ops"] if o["proc"] in ("READDIR", "READDIRPLUS") and o["ok"]), None)
            if o:
                o["rnames"] = o["rnames"] + ["zz9"]                         # a listing with an entry that never existed
                if "rtypes" in o:
                    o["rtypes"] = o["rtypes"] + ["REG"]
                c["mutkind"] = "listing"
                muts.append(c)
                continue
        if "final" not in kinds and len(c["final"]) > 2:
            c["final"] = c["final"][:-1]                                    # an object missing from the final tree
            c["mutkind"] = "final"
            muts.append(c)
            continue
        if "handles" not in kinds and len(c["tab"]) >= 2:
            c["tab"].append({"i": 999, "p": c["tab"][-1]["p"]})            # two handle ids for one path
            c["mutkind"] = "handles"
            muts.append(c)
            continue
    if muts:
        rr["lines"].extend(muts)
        vflib.write_ndjson(rr["trace"], rr["lines"])


def binding(ctx, rr, res):
    """Binding demonstration, part 2: every corrupted copy of a cleanly accepted history must be rejected."""
    if ctx.violations:
        ctx.notes.append("binding demonstration skipped: the run found violations")
        return
    n = 0
    for l, d in zip(rr["lines"], res["diag"]):
        if not l.get("mutkind"):
            continue
        od = res["diag"][l["mutof"]]
        if not (od["searched"] and od["acc"]) or od["fbad"] or od["fdev"]:
            continue                    # the original itself needed a deviation: not a clean basis
        rejected = d["fbad"] or (d["searched"] and not d["acc"] and not d["accdev"])
        if not rejected:
            raise vflib.Broken("binding demonstration failed: a history with a corrupted %s was accepted" % l["mutkind"])
        n += 1
    if n < 2:
        raise vflib.Broken("binding demonstration: not enough cleanly accepted histories to corrupt (%d)" % n)
    ctx.cov["binding_mutations_rejected"] += n


# ---------------------------------------------------------------------------- replay
def replay(ctx):
    lines = [json.loads(l) for l in open(ctx.replay) if l.strip()]
    body = [l for l in lines if l.get("ev") == "hist"]
    if not body:
        raise vflib.Broken("replay file holds no history")
    known = ctx.known_devs([PID])
    tp = os.path.join(ctx.scratch, "replay.ndjson")
    vflib.write_ndjson(tp, body)
    rr = {"rnd": -1, "seed": ctx.seed, "trace": tp, "lines": body}
    decide(ctx, rr, "replay", known, collections.Counter())
    ctx.cov["evaluations"] = sum(len(l["ops"]) for l in body)
    ctx.cov["distinct_nontrivial"] = max(2, len(body))
    ctx.cov["traces_validated_against_impl"] = len(body)
    ctx.sample({"replayed": ctx.replay})


# ---------------------------------------------------------------------------- entry point
def run(ctx):
    if ctx.replay:
        return replay(ctx)
    # the exhaustive runs of the design spec proceed while the harness is built and run
    pool = concurrent.futures.ThreadPoolExecutor(max_workers=1)
    if os.environ.get("VF_C29_NO_MC") == "1":     # developer switch (mutant runs): skip the design-spec runs
        ctx.notes.append("exhaustive runs of the design spec skipped (VF_C29_NO_MC=1)")
        exh = pool.submit(lambda: None)
    else:
        exh = pool.submit(exhaustive, ctx)
    known = ctx.known_devs([PID])
    binp = ctx.build_harness(HARNESS, race=True)
    q = ctx.quick()
    rounds = [(0, 200)] if q else [(r, 500) for r in range(4)]
    seen = collections.Counter()
    results = []
    if len(rounds) == 1:
        results.append(run_round(ctx, binp, 0, rounds[0][1], True))
    else:
        with concurrent.futures.ThreadPoolExecutor(max_workers=2) as ex:
            futs = [ex.submit(run_round, ctx, binp, r, n, r == 0) for r, n in rounds]
            results = [f.result() for f in futs]
    exh.result()
    pool.shutdown()
    first_res = None
    for rr in results:
        if rr["rnd"] == 0 and not rr["events"]:
            add_mutations(rr)
        res = decide(ctx, rr, "r%d" % rr["rnd"], known, seen)
        if first_res is None:
            first_res = (rr, res)
        s = rr["summ"]
        ctx.cov["traces_validated_against_impl"] += len([l for l in rr["lines"] if not l.get("mutkind")])
        ctx.cov["evaluations"] += s.get("ops", 0)
        ctx.cov["distinct_nontrivial"] += s.get("nontrivial", 0)
        ctx.cov.setdefault("search_states", 0)
        ctx.cov["search_states"] += sum(d["n"] + d.get("n1", 0) for d in res["diag"])
        ctx.cov.setdefault("histories", collections.Counter())
        for l, d in zip(rr["lines"], res["diag"]):
            if l.get("mutkind"):
                continue
            ctx.cov["histories"]["%s/%s/%s" % (l["cfg"]["mode"], l["cfg"]["ttl"], "accepted" if d["acc"] else ("n/a" if not d["searched"] else "not accepted"))] += 1
        for smp in (s.get("samples") or [])[:1]:
            ctx.sample({"round": rr["rnd"], "history": smp})
    ctx.cov["histories"] = dict(ctx.cov.get("histories", {}))
    binding(ctx, first_res[0], first_res[1])
    # a finding listed as known must have been reproduced by its directed schedule
    for dev in known:
        if dev not in ctx.known_seen and not ctx.violations:
            ctx.notes.append("listed deviation %s was not observed in this run (its directed schedule no longer shows it)" % dev)
    ctx.cov["rule"] = ("seeded histories of 2-4 client goroutines x 2-4 requests (CREATE/MKDIR/SYMLINK/REMOVE/RMDIR/RENAME/WRITE/READ/SETATTR/"
                       "LOOKUP/GETATTR/READDIR/READDIRPLUS) through HandleCall over vfs under -race, seeded yields / spins / sleeps before and "
                       "after every backend operation, 8 cache configurations (TTL 1 ns / default, negative cache, directory cache); every 5th "
                       "history lets all clients work on the same names and handles (races, final-state clause only); every 10th is an attribute storm "
                       "(clients GETATTR and READ (whole file) their own files of pairwise different sizes and contents at the same moment, no injected delays; replies incl. size and "
                       "fileid are checked); every 20th consists of re-export rounds (Unexport, then all clients MNT + READDIRPLUS of 40 entries at "
                       "once, aligned by a barrier right before the handle allocations; the handle table is projected after every round); directed "
                       "schedules with blocking gates; nested schedules (a request on d/x or its handle - WRITE, SETATTR size/mode, CREATE, READ, "
                       "GETATTR, LOOKUP, READDIRPLUS - held at every one of its backend-operation boundaries while another client renames d/x "
                       "away or removes it, then the name is put back or not and both clients use the old handle and the directory again; "
                       "completion within 10 s, races, final-state clause only); paired schedules (two requests of two clients - RENAME d1/a->d2/a2 and "
                       "RENAME d2/b->d1/b2, in the thorough tier also RENAME|CREATE, WRITE|SETATTR, RENAME|READDIRPLUS, REMOVE|WRITE - stepped through "
                       "their backend-operation boundaries by the harness: first to boundary i, second to boundary j, then alternately one boundary "
                       "at a time, every (i, j); a request that does not return within 10 s is a deadlock event the spec rejects); a history is non-trivial when requests of different clients overlap in real time and at least two "
                       "requests changed the tree")
    ctx.cov["spec_actions_covered_by_impl"] = ["Step (all 13 procedures)", "Observe/Accepting", "FinalFails", "EventBad", "FidBad", DEV_RD, DEV_PUT, DEV_RDATTR, "Dev_SetattrTrustsStaleHandleMode", "nested schedules (completion)"]
    ctx.assumptions += [
        "the vfs backend is thread-safe and executes every operation atomically under one mutex (its FileInfo values are immutable snapshots)",
        "invocation / response order is taken from one atomic counter incremented immediately before and after HandleCall",
        "a handle denotes the path it was issued for; a request through a handle whose object its owner removed or renamed away may simply fail",
        "interleavings are sampled (seeded yields and delays around backend operations, directed gates), not enumerated; absence of a "
        "race report is an observation of the Go race detector on the schedules that occurred",
        "trees are compared up to ownership and symlink permission bits (CoreOps!Norm); times are not compared"]

"""PROOFS: inductive-invariant proofs that lift the model-side guarantee of a few small specifications from
"exhaustive within small constants" (TLC) to "for every parameter value / unbounded behaviours".  Not one of the 30
listed properties (there is no registry entry): run by hand or by the coordinator as `bin/check PROOFS`; writes
evidence/PROOFS.json (gitignored).  This check is about the MODELS only: it never reports a VIOLATION of a code
property.  A proof obligation that is not discharged, a tool that is missing or a timeout is exit 2 (vflib.Broken)
with the obligation's name.

The obligations live next to this file in checks/proofs_<family>.py (one list OBLIGATIONS each, see the key list
below); the Ind modules in specs/<Family>/<Name>Ind.tla.  Tools: Apalache 0.58 (symbolic, SMT: IndInit /\\ Next =>
IndInv' for one step from an arbitrary state satisfying IndInv) and TLAPS (tlapm; deductive, all constants
universally quantified).  Every obligation runs in its own scratch copy of the family's directory.

Non-vacuity: every Ind module comes with deliberately wrong variants (a bound off by one, a guard removed from one
action, a conjunct of the invariant dropped), produced textually in the scratch copy, which the SAME tool invocation
must REJECT (Apalache: a counterexample to induction; tlapm: an obligation it cannot prove).  A wrong variant that is
accepted makes the check exit 2.

An obligation is a dict:
  name     unique, "<Family>/<what>"
  family   directory under specs/
  tool     "apalache" | "tlapm" | "tlc"
  module   file name of the root module (in that directory)
  args     apalache: command line after `apalache-mc check` and before the module
           tlapm: extra arguments (default none);  tlc: ["-config", "X.cfg", ...]
  timeout  seconds
  edits    [] for a proof; for a wrong variant a list of (file, old, new): `old` must occur exactly once in `file`
  expect   "proved" | "rejected"
  claim    one line: what the obligation establishes and for which constants (goes to the evidence)
  cores    (optional) how many of the 8 cores the scheduler reserves for the run; default 2 (apalache: 1)
  threads  (optional, tlapm) --threads; default = cores (the longest proof asks for 8 and reserves 6: it runs alone at the end)
  est      (optional) expected CPU seconds; the scheduler starts the most expensive obligations first
  tier     (optional) "thorough": the obligation only runs with --tier thorough (further wrong variants); default: always
  only     (optional, tlapm) name of one LEMMA / THEOREM of the module: only its obligations are sent to the back ends
           (tlapm --toolbox first last); used by wrong variants, whose edit must break exactly that lemma
"""
import glob, importlib.util, os, re, shutil, signal, subprocess, sys, time
from concurrent.futures import ThreadPoolExecutor
sys.path.insert(0, os.path.dirname(os.path.abspath(__file__)))
import vflib

LEVEL = "model_checking"
HERE = os.path.dirname(os.path.abspath(__file__))
BUDGET = 8          # cores the whole check may keep busy
APALACHE = shutil.which("apalache-mc") or "/usr/local/bin/apalache-mc"
TLAPM = shutil.which("tlapm") or "/usr/local/bin/tlapm"


def load_obligations():
    obs = []
    for p in sorted(glob.glob(os.path.join(HERE, "proofs_*.py"))):
        spec = importlib.util.spec_from_file_location(os.path.basename(p)[:-3], p)
        m = importlib.util.module_from_spec(spec)
        spec.loader.exec_module(m)
        obs += list(m.OBLIGATIONS)
    names = [o["name"] for o in obs]
    if len(set(names)) != len(names):
        raise vflib.Broken("duplicate obligation names in checks/proofs_*.py")
    return obs


def run_cmd(cmd, cwd, timeout, env=None):
    """Run in its own process group; on timeout kill exactly that group. Returns (rc | None on timeout, output, wall)."""
    t = time.time()
    e = dict(os.environ)
    e.pop("JAVA_TOOL_OPTIONS", None)
    if env:
        e.update(env)
    p = subprocess.Popen(cmd, cwd=cwd, env=e, stdout=subprocess.PIPE, stderr=subprocess.STDOUT, text=True, errors="replace",
                         start_new_session=True)
    try:
        out, _ = p.communicate(timeout=timeout)
        return p.returncode, out, time.time() - t
    except subprocess.TimeoutExpired:
        try:
            os.killpg(p.pid, signal.SIGKILL)
        except ProcessLookupError:
            pass
        out, _ = p.communicate()
        return None, out or "", time.time() - t


def workdir(ctx, ob, k):
    src = ctx._spec_copy(ob["family"])
    dst = os.path.join(ctx.scratch, "proof-%03d" % k)
    shutil.copytree(src, dst)
    for fn, old, new in ob.get("edits", []):
        p = os.path.join(dst, fn)
        text = open(p).read()
        if text.count(old) != 1:
            raise vflib.Broken("obligation %s: the text to replace occurs %d times in %s (the wrong variant is out of date): %r"
                               % (ob["name"], text.count(old), fn, old))
        open(p, "w").write(text.replace(old, new))
    return dst


def lemma_lines(path, name):
    """First and last line (1-based) of the LEMMA / THEOREM `name` with its proof."""
    lines = open(path).read().split("\n")
    start = [i for i, l in enumerate(lines) if re.match(r"(LEMMA|THEOREM)\s+%s\s*==" % re.escape(name), l)]
    if len(start) != 1:
        raise vflib.Broken("lemma %s not found exactly once in %s" % (name, path))
    end = start[0] + 1
    while end < len(lines) and not re.match(r"(LEMMA|THEOREM|ASSUME|-----|=====|\\\*|\(\*|[A-Za-z_][A-Za-z0-9_]*(\([^)]*\))?\s*==)", lines[end]):
        end += 1
    return start[0] + 1, end


def one(ctx, ob, k):
    """Returns dict(name, tool, verdict in proved|rejected|timeout|error, wall_s, detail)."""
    d = workdir(ctx, ob, k)
    tool = ob["tool"]
    if tool == "apalache":
        if not os.path.exists(APALACHE):
            raise vflib.Broken("apalache-mc is not installed")
        cmd = [APALACHE, "check"] + list(ob["args"]) + [ob["module"]]
        # (one JIT level and one compiler thread: half the CPU of the default for runs this short)
        rc, out, wall = run_cmd(cmd, d, ob["timeout"], {"JVM_ARGS": "-Xmx3g -XX:TieredStopAtLevel=1 -XX:CICompilerCount=1",
                                                        "JVM_GC_ARGS": "-XX:+UseSerialGC"})
        if rc is None:
            v = "timeout"
        elif "The outcome is: NoError" in out and rc == 0:
            v = "proved"
        elif "The outcome is: Error" in out and re.search(r"State \d+: (state|action) invariant \d+ violated|invariant .*violated", out):
            v = "rejected"
        else:
            v = "error"      # parse / type error, deadlock, unsupported construct: never counts as a rejection
        m = re.findall(r"violated[^\n]*", out)
        detail = (m[0] if m else out[-1500:]) if v != "proved" else ""
    elif tool == "tlapm":
        if not os.path.exists(TLAPM):
            raise vflib.Broken("tlapm is not installed")
        cmd = [TLAPM, "--threads", str(ob.get("threads", ob.get("cores", 2)))] + list(ob.get("args", []))
        if ob.get("only"):
            a, b = lemma_lines(os.path.join(d, ob["module"]), ob["only"])
            cmd += ["--toolbox", str(a), str(b)]
        cmd.append(ob["module"])
        rc, out, wall = run_cmd(cmd, d, ob["timeout"])
        mp = re.search(r"All (\d+) obligations? proved", out)
        mf = re.search(r"(\d+)/(\d+) obligations? failed", out)
        if rc is None:
            v = "timeout"
        elif mp and rc == 0:
            v = "proved"
        elif mf:
            v = "rejected"
        else:
            v = "error"
        detail = ""
        if v != "proved":
            locs = re.findall(r"line (\d+), character[^\n]*\n\[ERROR\]: Could not prove", out)
            detail = ("%s; could not prove the step(s) at line %s" % (mf.group(0), ", ".join(locs[:6]))) if mf else out[-1500:]
        elif mp:
            detail = "%s tlapm obligations" % mp.group(1)
    elif tool == "tlc":
        if ob.get("edits"):
            raise vflib.Broken("obligation %s: textual edits are not supported for TLC cross-checks" % ob["name"])
        r = ctx.tlc(ob["family"], ob["module"][:-4], ob["args"][1], workers=ob.get("cores", 2), timeout=ob["timeout"], heap="3g",
                    deadlock=False)
        wall = r["wall_s"]
        v = "proved" if r["ok"] else ("rejected" if r["violated"] else "error")
        detail = "" if r["ok"] else (r["violated"] or r["out"][-1500:])
        if r["ok"]:
            detail = "%s distinct states" % r.get("distinct")
    else:
        raise vflib.Broken("obligation %s: unknown tool %s" % (ob["name"], tool))
    ctx.log("%-9s %-44s expect %-8s got %-8s %5.1fs %s" % (tool, ob["name"], ob["expect"], v, wall, detail[:110].replace("\n", " ")))
    return dict(name=ob["name"], tool=tool, family=ob["family"], expect=ob["expect"], verdict=v, wall_s=round(wall, 1),
                claim=ob.get("claim", ""), detail=detail[:1500])


def run(ctx):
    obs = load_obligations()
    only = os.environ.get("PROOFS_ONLY")          # debugging: a regular expression on obligation names
    if only:
        obs = [o for o in obs if re.search(only, o["name"])]
    if ctx.quick():
        obs = [o for o in obs if o.get("tier", "quick") != "thorough"]
    for fam in sorted({o["family"] for o in obs}):
        ctx._spec_copy(fam)                        # before the threads start
    # longest first; at most BUDGET cores busy (an Apalache run is one JVM thread plus z3)
    order = sorted(range(len(obs)), key=lambda i: -obs[i].get("est", 60))
    results, errors = {}, []
    import threading
    sem_lock, free = threading.Condition(), [BUDGET]

    def job(i):
        need = min(BUDGET, obs[i].get("cores", 1 if obs[i]["tool"] == "apalache" else 2))
        with sem_lock:
            while free[0] < need:
                sem_lock.wait()
            free[0] -= need
        try:
            results[i] = one(ctx, obs[i], i)
        except BaseException as e:
            errors.append(e)
        finally:
            with sem_lock:
                free[0] += need
                sem_lock.notify_all()

    with ThreadPoolExecutor(max_workers=BUDGET) as ex:
        list(ex.map(job, order))
    if errors:
        raise errors[0]
    res = [results[i] for i in range(len(obs))]
    ctx.cov["proof_obligations"] = res
    ctx.cov["evaluations"] = len(res)
    ctx.cov["distinct_nontrivial"] = sum(1 for r in res if r["expect"] == "proved")
    ctx.cov["binding_mutations_rejected"] = sum(1 for r in res if r["expect"] == "rejected" and r["verdict"] == "rejected")
    ctx.cov["rule"] = ("evaluations = proof obligations run (Init => IndInv, IndInv /\\ [Next]_vars => IndInv', IndInv => listed invariant, "
                       "and the wrong variants); distinct = obligations that must be proved; binding_mutations_rejected = wrong variants "
                       "of the Ind modules rejected by the same tool invocation (non-vacuity of the proofs)")
    bad = [r for r in res if r["verdict"] != r["expect"]]
    for r in res[:4]:
        ctx.sample({k: r[k] for k in ("name", "tool", "verdict", "wall_s")})
    ctx.assumptions += ["the proofs are about the TLA+ models; the models are bound to the code by the registered checks (trace validation), "
                        "not by this one",
                        "Apalache obligations are decided by z3 for the constants fixed or left symbolic in each module's ConstInit; "
                        "TLAPS obligations are for every value of the constants satisfying the module's ASSUME"]
    if bad:
        r = bad[0]
        kind = {"timeout": "timed out", "error": "could not be run (tool error)"}.get(r["verdict"])
        if r["expect"] == "proved":
            msg = "proof obligation %s %s" % (r["name"], kind or "was NOT discharged (the invariant is not inductive as written, or the prover is too weak)")
        else:
            msg = "wrong variant %s %s" % (r["name"], kind or "was ACCEPTED: the corresponding proof is vacuous")
        others = "; ".join("%s: expected %s, got %s" % (b["name"], b["expect"], b["verdict"]) for b in bad[1:])
        raise vflib.Broken("%s [%d of %d obligations off%s]\n%s" % (msg, len(bad), len(res), (" - also " + others) if others else "", r["detail"]))
    ctx.notes.append("%d obligations proved, %d wrong variants rejected" % (sum(1 for r in res if r["expect"] == "proved"),
                                                                           sum(1 for r in res if r["expect"] == "rejected")))

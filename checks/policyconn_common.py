"""Shared by checks/C16.py (specs/PolicySwap) and checks/C17.py (specs/ConnMgr)."""
import glob, json, os, re
import vflib

HOOK_MSG = ("the vhook call sites of proposed/hooks_policyconn.patch (hc.*, up.*, cm.*, cl.start, sv.stop.*) are not present in "
            "the tree under test (%s); apply the patch or point VERIF_REPO at a tree that has them" % vflib.REPO)


def run_drivers(ctx, binp, pattern, env, timeout=600, allow_race_exit=False):
    """Run harness entry points; a missing hook is a broken check with a clear message, never a verdict."""
    rc, out = ctx.run_harness(binp, pattern, env, timeout)
    if "VF-HOOKS-ABSENT" in out:
        raise vflib.Broken(HOOK_MSG)
    if "no tests to run" in out:
        raise vflib.Broken("harness entry point %s not found" % pattern)
    if rc != 0:
        # under -race the testing package fails a test in which the detector reported a race; that alone is an
        # observation (the reports are parsed from GORACE log_path), not a failure of the driver
        msgs = re.findall(r"^\s+(\S+\.go):\d+: (.*)$", out, re.M)
        only_race = allow_race_exit and msgs and all(f == "testing.go" and m.startswith("race detected") for f, m in msgs) \
            and "panic:" not in out and "fatal error" not in out
        if not only_race:
            raise vflib.Broken("harness driver %s failed (rc=%d):\n%s" % (pattern, rc, out[-6000:]))
    return out


FRAME = re.compile(r"^\s+(\S+)\(\)\s*$")
LOC = re.compile(r"^\s+(\S+\.go):(\d+)")


def parse_race_logs(prefix):
    """Parse Go race detector reports (GORACE log_path=prefix). Returns a list of
    dict(a=fn, b=fn, fa=file, fb=file, harness=bool): the innermost absnfs frame of each of the two accesses."""
    reports = []
    for f in sorted(glob.glob(prefix + ".*")):
        txt = open(f, errors="replace").read()
        for block in txt.split("WARNING: DATA RACE")[1:]:
            block = block.split("==================")[0]
            stacks, cur = [], None
            for ln in block.splitlines():
                if re.match(r"^(Read|Write|Previous read|Previous write|Atomic|Previous atomic)", ln.strip()) and " by " in ln:
                    cur = []
                    stacks.append(cur)
                    continue
                if ln.startswith("Goroutine ") or ln.strip() == "":
                    if ln.startswith("Goroutine "):
                        cur = None
                    continue
                if cur is None:
                    continue
                m = FRAME.match(ln)
                if m:
                    cur.append([m.group(1), None])
                    continue
                m = LOC.match(ln)
                if m and cur:
                    cur[-1][1] = os.path.basename(m.group(1))
            acc = []
            for st in stacks[:2]:
                pick = None
                for fn, fl in st:
                    if "absfs/absnfs." in fn:
                        pick = (fn.split("absnfs.")[-1].replace("(*", "").replace(")", "").split(".")[-1], fl or "?")
                        # method name without receiver, e.g. handleConnectionLoop
                        break
                acc.append(pick or ("(outside absnfs)", "?"))
            while len(acc) < 2:
                acc.append(("(unknown)", "?"))
            harness = any((fl or "").startswith("zz_vf") for _, fl in acc)
            # does a policy / tuning update take part in it (anywhere in the two access stacks)?
            upd = any(re.search(r"Update(Policy|Tuning|Export)Options|applyTuningSideEffects", fn) for st in stacks[:2] for fn, _ in st)
            reports.append({"a": acc[0][0], "fa": acc[0][1], "b": acc[1][0], "fb": acc[1][1], "harness": harness, "upd": upd})
    return reports


def histories(lines):
    """Split ndjson lines into histories: list of (first_line_no (1-based), [lines])."""
    out, cur, start = [], [], 1
    for i, ln in enumerate(lines, 1):
        if json.loads(ln).get("ev") == "reset" and cur:
            out.append((start, cur))
            cur, start = [], i
        cur.append(ln)
    if cur:
        out.append((start, cur))
    return out


def history_at(hists, lno):
    for start, ls in hists:
        if start <= lno < start + len(ls):
            return start, ls
    return None, []

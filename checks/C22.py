import os, sys
sys.path.insert(0, os.path.dirname(os.path.abspath(__file__)))
import core_common as cc, core_specs

LEVEL = "model_checking"
PID = "C22"


def run(ctx):
    if ctx.replay:
        return cc.replay(ctx, PID)
    core_specs.durability(ctx)
    binp = ctx.build_harness(cc.HARNESS)
    q = ctx.quick()
    runs = cc.run_profile(ctx, binp, "crash", 6 if q else 40, 0 if q else 0)
    cc.report_all(ctx, PID, runs, "crash")
    trace, res = runs[0]
    cc.mutate_and_reject(ctx, trace, "crash", None, "acknowledged byte missing from the durable copy")
    ctx.cov["rule"] = 'WRITE (stable UNSTABLE/DATA_SYNC/FILE_SYNC) and COMMIT histories on two files, each re-run with a crash injected at every backend operation k = 1..N of the history (the vfs backend then discards all unsynced file data) plus a crash after the last reply; 100+ server instances for the verifier clause; non-trivial = a run with an injected crash'

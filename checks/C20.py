"""C20: worker pool (specs/WorkerPool).

1. exhaustive TLC runs of the design spec WorkerPool.tla: the model of the tree under test (repair
   switches FixDrain / FixClose / FixExcl follow the status of F12 / F12b / F12c), the repaired design
   with every invariant and the liveness property, and non-vacuity runs in which TLC must find the
   four counterexamples of the findings register on the pinned model;
2. MBT: TLC (WorkerPoolGen, -simulate) generates environment schedules; together with the directed
   reproducers and seeded stress schedules they are applied to the real WorkerPool by
   harness/vf_workerpool.go, which records hook events, calls/returns and task bodies;
3. WorkerPoolTrace (ideal level) decides C20 on every recorded history -> VIOLATION / KNOWN-FINDING;
4. WorkerPoolLV (impl level) searches, per history, for an interleaving of WorkerPool.tla that explains
   the log -> model drift only;
5. binding demonstration: a corrupted result and a dropped hook event must be rejected.
"""
import json, os, random, sys, threading, glob

sys.path.insert(0, os.path.dirname(os.path.abspath(__file__)))
import vflib

LEVEL = "model_checking"
HARNESS = ["vf_common.go", "vf_vfs.go", "vf_workerpool.go"]
DEVS = {"F12": "Dev_StopAbandonsQueued", "F12b": "Dev_ResizeNilResult", "F12c": "Dev_StopResizeRace"}

MC_CFG = """SPECIFICATION %(spec)s
CONSTANTS
  NT = %(nt)d
  Sizes = {12, 21}
  MaxW = 3
  EnvStop = TRUE
  EnvResize = TRUE
  FixDrain = %(drain)s
  FixClose = %(close)s
  FixExcl = %(excl)s
  StrictTimer = %(strict)s
%(rest)s
CHECK_DEADLOCK FALSE
"""


def tla_bool(b):
    return "TRUE" if b else "FALSE"


def flags(ctx):
    """Repair switches of the model of the tree under test."""
    return dict(drain=ctx.finding_status("F12") == "fixed", close=ctx.finding_status("F12b") == "fixed",
                excl=ctx.finding_status("F12c") == "fixed")


def cfg_text(spec, nt, fl, rest, strict=True):
    return MC_CFG % dict(spec=spec, nt=nt, drain=tla_bool(fl["drain"]), close=tla_bool(fl["close"]),
                         excl=tla_bool(fl["excl"]), strict=tla_bool(strict), rest=rest)


def parallel(jobs, width):
    """Run thunks concurrently (TLC runs and harness shards are separate processes)."""
    res, err = [None] * len(jobs), []
    sem = threading.Semaphore(width)

    def work(i, f):
        with sem:
            try:
                res[i] = f()
            except BaseException as e:  # re-raised in the caller's thread
                err.append(e)
    ts = [threading.Thread(target=work, args=(i, f)) for i, f in enumerate(jobs)]
    for t in ts:
        t.start()
    for t in ts:
        t.join()
    if err:
        raise err[0]
    return res


# ------------------------------------------------------------------------------------------ exhaustive
def exhaustive(ctx):
    """Every run explores both directions (1 -> 2 and 2 -> 1 workers; the spec picks sz in Init).
    measured (distinct states, both directions together): pinned model 2 tasks 42 k, 3 tasks 446 k, 4 tasks 5.0 M
    (checked once by hand with GuardsComplete: 5 min 32 s at 4 workers; not part of a tier); repaired model 3 tasks 56 k, 4 tasks 434 k."""
    fl = flags(ctx)
    allfix = dict(drain=True, close=True, excl=True)
    pinned = dict(drain=False, close=False, excl=False)
    q = ctx.quick()
    wk = 4 if q else 8
    nvdir = ctx.sub("nv")
    jobs = []
    # GuardsComplete: every way in which the model of the tree violates C20 satisfies the guard of a deviation
    holds = ["TypeOK", "AtMostOnce", "NotRunIsTrue", "QueueSane", "GuardsComplete"]
    if fl["excl"]:
        holds += ["Bounded", "NoPanic"]
    if fl["close"] and fl["drain"] and fl["excl"]:
        holds += ["NoFakeResult", "Resolved"]
    every = "INVARIANTS TypeOK Bounded AtMostOnce NoFakeResult NotRunIsTrue NoPanic Resolved QueueSane GuardsComplete"
    nv_in_code = q and fl == pinned
    if fl != allfix:
        # the tree under test: the invariants that survive the listed findings; in the quick tier on the pinned
        # model the same run is the non-vacuity run (NonVacuous drops a marker file for every C20 invariant it sees
        # violated; with 2 tasks that is cheap, with more tasks the marker writes dominate the run)
        inv = holds + (["NonVacuous"] if nv_in_code else [])
        c = ctx.write_cfg("WorkerPool", "MC_code.cfg", cfg_text("Spec", 2 if q else 3, fl, "INVARIANTS " + " ".join(inv)))
        jobs.append(lambda c=c: ctx.tlc_exhaustive("WorkerPool", "WorkerPoolNV", c, workers=wk, timeout=1800, heap="4g",
                                                   env={"VF_NV_DIR": nvdir}))
    if not nv_in_code:
        c = ctx.write_cfg("WorkerPool", "MC_nv.cfg", cfg_text("Spec", 2, pinned, "INVARIANTS NonVacuous"))
        jobs.append(lambda c=c: ctx.tlc_exhaustive("WorkerPool", "WorkerPoolNV", c, count=False, workers=2, timeout=900, heap="2g",
                                                   env={"VF_NV_DIR": nvdir}))
    # the repaired design: everything C20 states, and liveness under fairness (no state constraint; 3 tasks,
    # measured: the temporal check of the 4-task graph alone takes minutes)
    c = ctx.write_cfg("WorkerPool", "MC_ideal.cfg", cfg_text("FairSpec", 3, allfix, every + "\nPROPERTY Liveness"))
    jobs.append(lambda c=c: ctx.tlc_exhaustive("WorkerPool", "WorkerPool", c, workers=wk, timeout=1800, heap="4g"))
    live = {}
    if not q:
        c = ctx.write_cfg("WorkerPool", "MC_ideal4.cfg", cfg_text("Spec", 4, allfix, every))
        jobs.append(lambda c=c: ctx.tlc_exhaustive("WorkerPool", "WorkerPool", c, workers=wk, timeout=1800, heap="4g"))
        c = ctx.write_cfg("WorkerPool", "MC_nv_live.cfg", cfg_text("FairSpec", 2, pinned, "PROPERTY Liveness"))
        jobs.append(lambda c=c: live.update(r=ctx.tlc_exhaustive("WorkerPool", "WorkerPool", c, expect_ok=False, count=False,
                                                                 workers=2, timeout=900, heap="2g")))
    parallel(jobs, 3)
    want = ["Bounded", "NoFakeResult", "NoPanic", "Resolved"]
    missing = [n for n in want if not os.path.exists(os.path.join(nvdir, n + ".json"))]
    if missing:
        raise vflib.Broken("non-vacuity: TLC did not reach a violation of %s on the pinned model" % ", ".join(missing))
    if live and (live["r"]["ok"] or "Temporal propert" not in live["r"]["out"]):
        raise vflib.Broken("non-vacuity: the liveness property was not found violated on the pinned model")
    ctx.cov["exhaustive"] = True
    ctx.notes.append("non-vacuity: on the pinned model (no repair switch) TLC reaches states that violate Bounded, NoFakeResult, "
                     "NoPanic and Resolved%s; on the repaired model (FixDrain, FixClose, FixExcl) all of them and accepted ~> "
                     "resolved hold for %s tasks, 1->2 and 2->1 workers, one Stop, one Resize"
                     % ("" if q else " and a fair behaviour that violates the liveness property", "3" if q else "3 (liveness) and 4"))


# ------------------------------------------------------------------------------------------ schedules
def S(k, via="wait", exp=True):
    d = {"a": "submit", "k": k, "via": via}
    if exp:
        d["expwho"], d["expev"] = "S%d" % k, "wp.chk"
    return d


def R(who, ev=None):
    d = {"a": "rel", "who": who}
    if ev:
        d["expwho"], d["expev"] = who, ev
    return d


def STOP(ev="wp.stop.cas"):
    return {"a": "stop", "expwho": "stop", "expev": ev}


def RS(n, ev="wp.rs.begin"):
    return {"a": "resize", "n": n, "expwho": "resize", "expev": ev}


def directed():
    """Directed reproducers of the findings register (deterministic through the pause points)."""
    D = []

    def add(name, w0, steps):
        D.append({"name": name, "w0": w0, "w1": 3 - w0, "pauses": True, "settle": True, "auto": False, "steps": steps})
    # F12: the submitter has passed the running check; Stop cancels, the idle worker leaves; the task is
    # enqueued before Stop closes the queue and stays there for ever
    abandon = [S(1), STOP(), R("stop", "wp.stop.cancelled"), R("S1", "wp.enq"), R("stop", "stop.ret")]
    add("d_stop_abandons", 1, abandon)
    # the same with ExecuteWithWorker and a second, running task
    add("d_stop_abandons_exec", 1, [S(1, "exec"), R("S1", "wp.enq"), S(2, "exec"), STOP(), R("stop", "wp.stop.cancelled"),
                                    R("S2", "wp.enq"), R("stop"), {"a": "open", "k": 1}])
    # F12b: a Resize of the stopped pool "notifies" the abandoned task with a nil result
    add("d_resize_nil_stopped", 1, abandon + [RS(2), R("resize", "wp.rs.drained"), R("resize", "wp.rs.swapped"),
                                              R("resize", "resize.ret")])
    # F12b: 2 -> 1 with four pending tasks, the new queue holds two
    add("d_resize_nil_full", 2, [S(1), S(2, "exec"), S(3), S(4, "exec"), RS(1), R("resize", "wp.stop.cas"),
                                 R("resize", "wp.stop.cancelled"), R("S1", "wp.enq"), R("S2", "wp.enq"), R("S3", "wp.enq"),
                                 R("S4", "wp.enq"), R("resize", "wp.rs.drained"), R("resize", "wp.rs.swapped"),
                                 R("resize", "wp.rs.started"), R("resize", "resize.ret")])
    # F12c: Stop wins the CAS between Resize's running check and Resize's own Stop: the busy old worker
    # survives into the new generation (1 -> 2 workers, three bodies at once) and Stop never returns
    add("d_race_bound", 1, [S(1), R("S1", "wp.enq"), RS(2), STOP(), R("stop", "wp.stop.cancelled"), R("stop", "wp.stop.closed"),
                            R("resize", "wp.rs.drained"), R("resize", "wp.rs.swapped"), R("resize", "wp.rs.started"),
                            R("resize", "resize.ret"), S(2), R("S2", "wp.enq"), S(3), R("S3", "wp.enq")])
    # F12c: Stop closes the new queue while Resize is about to re-enqueue: Resize panics, pending tasks are lost
    add("d_race_requeue_panic", 1, [S(1), S(2), RS(2), R("resize", "wp.stop.cas"), R("resize", "wp.stop.cancelled"),
                                    R("S1", "wp.enq"), R("S2", "wp.enq"), R("resize", "wp.rs.drained"),
                                    R("resize", "wp.rs.swapped"), R("resize", "wp.rs.started"), STOP(),
                                    R("stop", "wp.stop.cancelled"), R("stop", "stop.ret"), R("resize", "resize.ret")])
    # F12c: Resize of a pool that Stop is stopping closes the old queue without closeMu: a Submit in its send panics
    add("d_race_submit_panic", 1, [S(1), STOP(), RS(2), R("resize", "wp.rs.drained"), R("S1", "sub.ret")])
    # time passes (longer than every configured tuning timeout) while a task waits behind the busy worker,
    # then the worker becomes free: the waiting submitter must neither give up nor see its task run twice
    SLEEP = {"a": "sleep"}
    add("d_wait_behind_busy", 1, [S(1), R("S1", "wp.enq"), S(2, "exec"), R("S2", "wp.enq"), S(3), R("S3", "wp.enq"), SLEEP,
                                  {"a": "open", "k": 1}, SLEEP, {"a": "open", "k": 2}, {"a": "open", "k": 3}])
    # the same while Stop is waiting for the busy worker, and while Resize is
    add("d_wait_during_stop", 1, [S(1, "exec"), R("S1", "wp.enq"), S(2, "exec"), R("S2", "wp.enq"), STOP(),
                                  R("stop", "wp.stop.cancelled"), R("stop"), SLEEP, {"a": "open", "k": 1}])
    add("d_wait_during_resize", 2, [S(1), R("S1", "wp.enq"), S(2), R("S2", "wp.enq"), S(3, "exec"), R("S3", "wp.enq"), S(4),
                                    R("S4", "wp.enq"), RS(1), R("resize", "wp.stop.cas"), R("resize", "wp.stop.cancelled"),
                                    R("resize"), SLEEP, {"a": "open", "k": 1}, {"a": "open", "k": 2}, R("resize"), R("resize"),
                                    R("resize"), SLEEP])
    # plain regression scenarios (no finding involved)
    add("d_stop_busy", 1, [S(1), R("S1", "wp.enq"), S(2), R("S2", "wp.enq"), STOP(), R("stop", "wp.stop.cancelled"), R("stop"),
                           {"a": "open", "k": 1}])
    add("d_queue_full_timeout", 1, [S(1), R("S1", "wp.enq"), S(2), R("S2", "wp.enq"), S(3), R("S3", "wp.enq"), S(4, "exec"),
                                    R("S4", "wp.rej"), {"a": "open", "k": 1}, {"a": "open", "k": 2}, {"a": "open", "k": 3}])
    add("d_resize_grow_busy", 1, [S(1), R("S1", "wp.enq"), S(2), R("S2", "wp.enq"), S(3, "exec"), R("S3", "wp.enq"), RS(2),
                                  R("resize", "wp.stop.cas"), R("resize", "wp.stop.cancelled"), R("resize"),
                                  {"a": "open", "k": 1}, R("resize"), R("resize"), R("resize")])
    return D


def from_gen(d, name, rnd):
    steps = []
    for s in d["steps"]:
        if s["a"] == "submit":
            steps.append({"a": "submit", "k": s["k"], "via": "exec" if rnd.random() < 0.4 else "wait"})
        elif s["a"] == "rel":
            steps.append({"a": "rel", "who": ("S%d" % s["k"]) if s["who"] == "S" else s["who"]})
        elif s["a"] == "open":
            steps.append({"a": "open", "k": s["k"]})
        elif s["a"] == "stop":
            steps.append({"a": "stop"})
        elif s["a"] == "resize":
            steps.append({"a": "resize", "n": s["n"]})
        elif s["a"] == "sleep":
            steps.append({"a": "sleep"})
    return {"name": name, "w0": d["w0"], "w1": d["w1"], "pauses": True, "settle": True, "auto": False, "steps": steps}


GEN_CFG = """SPECIFICATION GenSpec
CONSTANTS
  NT = %(nt)d
  Sizes = {12, 21}
  MaxW = 3
  EnvStop = TRUE
  EnvResize = TRUE
  FixDrain = %(drain)s
  FixClose = %(close)s
  FixExcl = %(excl)s
  StrictTimer = TRUE
  Depth = %(depth)d
  MinBefore = %(minb)d
  DumpOn = "%(dump)s"
  MaxTicks = 1
%(rest)s
CHECK_DEADLOCK FALSE
"""


def generate(ctx, fl):
    """TLC-generated schedules: random behaviours of WorkerPoolGen (both tiers) and, in the thorough
    tier while findings are open, the shortest schedules that reach each violated invariant."""
    q = ctx.quick()
    num = 80 if q else 600
    rnd = random.Random(ctx.seed)
    out, jobs = [], []
    minbs = (2,) if q else (1, 3)
    for minb in minbs:
        gd = ctx.sub("gen_m%d" % minb)
        depth = 100
        c = ctx.write_cfg("WorkerPool", "Gen_m%d.cfg" % minb, GEN_CFG % dict(
            nt=4, drain=tla_bool(fl["drain"]), close=tla_bool(fl["close"]), excl=tla_bool(fl["excl"]),
            depth=depth, minb=minb, dump="", rest="INVARIANT DumpAtDepth"))
        jobs.append(lambda c=c, gd=gd, depth=depth: ctx.tlc_simulate("WorkerPool", "WorkerPoolGen", c, num // len(minbs), depth,
                                                                       env={"VF_GEN_DIR": gd}, timeout=1200))
    if not q and fl != dict(drain=True, close=True, excl=True):
        gd = ctx.sub("gen_cex")
        for inv in ("Resolved", "NoFakeResult", "NoPanic", "Bounded"):
            c = ctx.write_cfg("WorkerPool", "Gen_cex_%s.cfg" % inv, GEN_CFG % dict(
                nt=4, drain=tla_bool(fl["drain"]), close=tla_bool(fl["close"]), excl=tla_bool(fl["excl"]),
                depth=100, minb=1, dump=inv, rest="INVARIANT DumpOnViolation\nCONSTRAINT BoundPad\nVIEW NoHist"))
            jobs.append(lambda c=c, gd=gd: ctx.tlc("WorkerPool", "WorkerPoolGen", c, workers=4, timeout=900, heap="4g",
                                                   env={"VF_GEN_DIR": gd}, deadlock=False))
    parallel(jobs, 3)
    for d in sorted(glob.glob(os.path.join(ctx.scratch, "gen_*"))):
        for f in sorted(glob.glob(os.path.join(d, "sched_*.json"))):
            g = json.load(open(f))
            base = os.path.basename(d) + "/" + os.path.basename(f)[6:-5]
            reps = 3 if "cex" in base else 1   # the workers' own choices are not controlled: try a few times
            for i in range(reps):
                out.append(from_gen(g, "g_" + base + ("" if reps == 1 else "#%d" % i), rnd))
    if not out:
        raise vflib.Broken("WorkerPoolGen produced no schedule")
    return out


def stress(ctx):
    """Seeded free-running schedules (no pause points, no settling, bodies return by themselves)."""
    rnd = random.Random(ctx.seed * 7 + 3)
    n = 60 if ctx.quick() else 600
    out = []
    for i in range(n):
        w0 = rnd.choice((1, 2))
        w1 = 3 - w0
        nt = rnd.randint(3, 6)
        steps = [{"a": "submit", "k": k + 1, "via": rnd.choice(("wait", "exec"))} for k in range(nt)]
        if rnd.random() < 0.85:
            steps.insert(rnd.randint(1, len(steps)), {"a": "resize", "n": w1})
        if rnd.random() < 0.75:
            steps.insert(rnd.randint(1, len(steps)), {"a": "stop"})
        sc = {"name": "s_%d" % i, "w0": w0, "w1": w1, "pauses": False, "settle": False, "auto": True, "steps": steps}
        if i % 5 == 4:
            # slow bodies (up to 4 x the configured timeouts): submitters queue behind busy workers for long
            sc["bodyus"] = 80000
        out.append(sc)
    return out


# ------------------------------------------------------------------------------------------ running
def run_shards(ctx, binp, scheds, label, width, env=None):
    """Apply schedules to the real pool in `width` parallel processes; returns the list of histories
    (each a list of event dicts starting with its reset line), in schedule order."""
    shards = [scheds[i::width] for i in range(width)]
    shards = [s for s in shards if s]
    jobs = []
    for i, sh in enumerate(shards):
        sp = os.path.join(ctx.scratch, "sched_%s_%d.json" % (label, i))
        json.dump(sh, open(sp, "w"))
        e = {"VF_WP_SCHED": sp, "VF_WP_TRACE": "wp_%s_%d.ndjson" % (label, i)}
        if not ctx.quick():
            e["VF_WP_GRACE_MS"] = 400
        e.update(env or {})
        jobs.append(lambda e=e: ctx.run_harness(binp, "TestVF_WorkerPoolRun", e, timeout=1500))
    outs = parallel(jobs, width)
    hist = []
    races = 0
    for i, (rc, out) in enumerate(outs):
        if "DATA RACE" in out:
            races += out.count("WARNING: DATA RACE")
        if (rc != 0 and "race detected during execution" not in out) or "no tests to run" in out:
            if "vhook call sites" in out:
                raise vflib.Broken("the hook call sites are absent from %s/worker_pool.go (apply proposed/hooks_workerpool.patch)" % vflib.REPO)
            crash = pool_panic(out)
            if crash:
                # a goroutine of the pool itself panicked: the process (and with it this shard's recording) is gone.
                # The observation enters the monitor's input as a history of its own.
                hist.append([{"ev": "reset", "g": "env", "k": 0, "w": 0, "n": 1, "s": "crash_%s_%d" % (label, i), "b": False, "h": 0,
                              "schedules": [s["name"] for s in shards[i]], "output": crash[1][:3000]},
                             {"ev": "crash", "g": "pool", "k": 0, "w": 0, "n": 0, "s": crash[0], "b": False},
                             {"ev": "end", "g": "env", "k": 0, "w": 0, "n": 0, "s": "", "b": False, "bl": [], "stop": "none", "resize": "none"}])
                continue
            raise vflib.Broken("harness driver TestVF_WorkerPoolRun failed (rc=%d):\n%s" % (rc, out[-5000:]))
        cur = None
        for e in vflib.read_ndjson(os.path.join(ctx.scratch, "wp_%s_%d.ndjson" % (label, i))):
            if e["ev"] == "reset":
                cur = [e]
                hist.append(cur)
            else:
                cur.append(e)
    return hist, races


def pool_panic(out):
    """(panic line, excerpt) when the harness process died in a panic whose running goroutine is inside
    worker_pool.go (not inside the harness), else None."""
    p = out.find("panic: ")
    if p < 0:
        return None
    g = out.find("[running]:", p)
    if g < 0:
        return None
    frames = out[g:g + 600].splitlines()[1:5]
    code = [f for f in frames if f.startswith("\t")]
    fn = [f for f in frames if not f.startswith("\t")]
    if fn and "absnfs.(*WorkerPool)" in fn[0] and code and "worker_pool.go" in code[0]:
        return out[p:].splitlines()[0], out[p:p + 1500]
    return None


def write_hist(path, hists):
    with open(path, "w") as f:
        for h in hists:
            for e in h:
                f.write(json.dumps(e, separators=(",", ":")) + "\n")


TRACE_CFG = """SPECIFICATION Spec
CONSTANTS
  KnownDeviations = %s
CHECK_DEADLOCK FALSE
"""


def monitor(ctx, hists, label):
    tp = os.path.join(ctx.scratch, "mon_%s.ndjson" % label)
    write_hist(tp, hists)
    known = ctx.known_devs(["C20"])
    cfg = ctx.write_cfg("WorkerPool", "Trace_%s.cfg" % label, TRACE_CFG % ctx.tla_set(known))
    res = ctx.tlc_trace("WorkerPool", "WorkerPoolTrace", cfg, tp, out_name="mon_%s.json" % label, heap="4g")
    if res["consumed"] != res["n"]:
        raise vflib.Broken("WorkerPoolTrace consumed %s of %s lines:\n%s" % (res["consumed"], res["n"], res["_tlc"]["out"][-3000:]))
    return res, tp


def in_model(h):
    """The impl-level model is instantiated for 1 -> 2 and 2 -> 1 workers."""
    return (h[0]["n"], h[0]["w"]) in ((1, 2), (2, 1))


def lv(ctx, hists, label, fl, timeout=900):
    """Impl-level search; returns {index of history: (accepted, line reached, last line)}."""
    idx = [i for i, h in enumerate(hists) if not h[0]["s"].startswith("crash_") and in_model(h)]
    if not idx:
        return {}
    nt = max([e["k"] for i in idx for e in hists[i] if e["ev"] == "sub.call"] + [1])
    tp = os.path.join(ctx.scratch, "lv_%s.ndjson" % label)
    write_hist(tp, [hists[i] for i in idx])
    starts, ln = {}, 1
    for i in idx:
        starts[ln] = i
        ln += len(hists[i])
    cfg = ctx.write_cfg("WorkerPool", "LV_%s.cfg" % label,
                        cfg_text("LVSpec", nt, fl, "CONSTRAINT NotYetAccepted\nPOSTCONDITION Post", strict=False))
    res = ctx.tlc_trace("WorkerPool", "WorkerPoolLV", cfg, tp, out_name="lv_%s.json" % label, heap="6g", timeout=timeout)
    return {starts[r["h"]]: (r["hw"] == r["endl"] + 1, r["hw"] - r["h"], r["endl"] - r["h"]) for r in res["hist"]}


def describe(h):
    s = []
    for e in h[1:]:
        x = e["ev"]
        if e.get("k"):
            x += "(%d)" % e["k"]
        if x.startswith("sub.ret"):
            x += "=%s/%s" % (e["s"], "ok" if e["b"] else "notok")
        s.append(e["g"] + ":" + x)
    return " ".join(s)


# ------------------------------------------------------------------------------------------ main
def hooks_present():
    p = os.path.join(vflib.REPO, "worker_pool.go")
    try:
        src = open(p).read()
    except OSError as e:
        raise vflib.Broken("cannot read %s: %s" % (p, e))
    need = ['vhook("wp.enq"', 'vhook("wp.take"', 'vhook("wp.stop.closed"', 'vhook("wp.rs.begin"', 'vhook("wp.rs.fail"']
    missing = [n for n in need if n not in src]
    if missing:
        raise vflib.Broken("C20 needs the vhook call sites of proposed/hooks_workerpool.patch in %s (missing: %s); apply the "
                           "patch to the tree under test or point VERIF_REPO at a tree that has them" % (p, ", ".join(missing)))


def judge(ctx, res, hists, label):
    """bad -> VIOLATION (with the history as replay file), dev -> KNOWN-FINDING. Histories named bind_* are the
    deliberately corrupted ones of the binding demonstration; their bad entries are returned, not reported."""
    starts, ln = [], 1
    for h in hists:
        starts.append(ln)
        ln += len(h)

    def hist_of(line):
        return max(j for j, s in enumerate(starts) if s <= line)
    seen, bindbad = {}, []
    for b in sorted(res["bad"], key=lambda x: x["l"]):
        i = hist_of(b["l"])
        name = hists[i][0]["s"]
        if name.startswith("bind_"):
            bindbad.append(b["why"])
            continue
        seen[b["why"]] = seen.get(b["why"], 0) + 1
        if seen[b["why"]] > 2:
            continue
        extra = (" [" + hists[i][1]["s"] + "]") if name.startswith("crash_") else ""
        ctx.violation("%s%s (history %s, event %d)" % (b["why"], extra, name, b["l"] - starts[i]), hists[i],
                      {"history": name, "line": b["l"] - starts[i], "set": label})
    names = {}
    for d in res["dev"]:
        i = hist_of(d["l"])
        if not hists[i][0]["s"].startswith("bind_"):
            names.setdefault(d["name"], set()).add(hists[i][0]["s"])
    for name, where in names.items():
        ent = [e for e in ctx.known() if e["deviation"] == name]
        if ent:
            ctx.known_finding(name, ent[0]["what"])
    return names, bindbad


def renamed(h, name):
    r = [dict(e) for e in h]
    r[0]["s"] = name
    return r


def binding_histories(hists):
    """The corrupted histories of the binding demonstration: (1) a delivered result rewritten to nil (the ideal
    level must reject it), (2) a history and its copy with one wp.take event dropped (the impl-level search must
    accept the first and reject the second)."""
    res_mut = orig = dropped = None
    for h in hists:
        if h[0]["s"].startswith("s_"):
            continue
        for j, e in enumerate(h):
            if res_mut is None and e["ev"] == "sub.ret" and e["b"] and e["s"] == "tok":
                res_mut = renamed(h, "bind_result")
                res_mut[j]["s"] = "nil"
            if orig is None and e["ev"] == "wp.take" and in_model(h):
                orig = renamed(h, "bind_orig")
                dropped = renamed(h[:j] + h[j + 1:], "bind_drop")
        if res_mut and orig:
            break
    if not res_mut or not orig:
        raise vflib.Broken("binding demonstration: no recorded history has a delivered result and a wp.take event")
    return res_mut, orig, dropped


def _guard(f):
    try:
        return f()
    except BaseException as e:
        return e


def run(ctx):
    if ctx.replay:
        return replay(ctx)
    hooks_present()
    fl = flags(ctx)
    q = ctx.quick()
    built, gen = {}, {}

    def build():
        built["plain"] = ctx.build_harness(HARNESS)
        built["race"] = ctx.build_harness(HARNESS, race=True, name="vf-race.test")
    ctx._spec_copy("WorkerPool")   # before the threads below start writing configurations into it
    skip = os.environ.get("VF_WP_DEV_NOEXH") == "1"   # development only: mutant runs need no second exhaustive pass
    exh = threading.Thread(target=lambda: gen.update(exh=_guard(lambda: None if skip else exhaustive(ctx))))
    exh.start()                    # the exhaustive runs go on while the harness is driven
    try:
        _traces(ctx, fl, q, built, gen, build)
    finally:
        exh.join()
    if isinstance(gen.get("exh"), BaseException):
        raise gen["exh"]


def _traces(ctx, fl, q, built, gen, build):
    parallel([build, lambda: gen.update(s=generate(ctx, fl))], 2)
    dirs = directed()
    scheds = dirs + dirs + gen["s"]   # the directed reproducers run twice
    hists, _ = run_shards(ctx, built["plain"], scheds, "mbt", 6 if q else 8)
    sh, races = run_shards(ctx, built["race"], stress(ctx), "stress", 3 if q else 6)
    allh = hists + sh
    ctx.log("recorded %d histories (%d directed, %d generated by TLC, %d stress under -race), %d events" % (
        len(allh), 2 * len(dirs), len(gen["s"]), len(sh), sum(len(h) for h in allh)))
    res_mut, orig, dropped = binding_histories(hists)
    # ideal level (the verdict) on everything; impl level on the directed and generated histories, a part of
    # the stress histories and the binding pair
    monh = allh + [res_mut]
    ngen = 16 if q else 100000
    lvh = hists[:len(dirs)] + hists[2 * len(dirs):2 * len(dirs) + ngen] + sh[:(6 if q else 300)] + [orig, dropped]
    out = {}
    parallel([lambda: out.update(mon=monitor(ctx, monh, "all")),
              lambda: out.update(lv=lv(ctx, lvh, "all", fl, timeout=600 if q else 2400))], 2)
    res, tp = out["mon"]
    names, bindbad = judge(ctx, res, monh, "all")
    if not any("never ran" in w for w in bindbad):
        raise vflib.Broken("binding demonstration failed: a history whose delivered result was rewritten to nil was accepted "
                           "by WorkerPoolTrace")
    ctx.cov["binding_mutations_rejected"] += 1
    for dev in ctx.known_devs(["C20"]):
        if dev not in names:
            ctx.notes.append("known finding %s was not reproduced in this run (its directed reproducer did not reach the defect)" % dev)
    acc = out["lv"]
    iorig, idrop = len(lvh) - 2, len(lvh) - 1
    if not acc.get(iorig, (False,))[0]:
        ctx.notes.append("binding demonstration (dropped hook event): the unmodified history was itself not accepted by the "
                         "impl-level search (model drift), so the demonstration says nothing")
    elif acc.get(idrop, (True,))[0]:
        raise vflib.Broken("binding demonstration failed: a history with a dropped wp.take event was accepted by WorkerPoolLV")
    else:
        ctx.cov["binding_mutations_rejected"] += 1
    real = {i: v for i, v in acc.items() if i < iorig}
    rejected = [(lvh[i][0]["s"], v) for i, v in sorted(real.items()) if not v[0]]
    ctx.cov["lv_histories"] = len(real)
    ctx.cov["lv_accepted"] = len(real) - len(rejected)
    if rejected:
        ctx.cov["impl_model_drift"] = ["%s: no interleaving of WorkerPool.tla explains event %d of %d" % (n, v[1], v[2])
                                       for n, v in rejected[:10]]
        ctx.notes.append("impl-level drift: %d of %d histories are not behaviours of WorkerPool.tla with the repair switches of "
                         "this tree; the exhaustive result then does not speak about this code (not a verdict)" % (len(rejected), len(real)))
    if races:
        ctx.notes.append("the race detector reported %d data race(s) during the stress histories (observation of the Go "
                         "runtime, not part of C20's statement; Stop and Resize touch p.taskQueue without a common lock, F12c)" % races)
    ctx.cov["traces_validated_against_impl"] = len(allh)
    ctx.cov["evaluations"] = res["n"]
    ctx.cov["trace_stats"] = res["stats"]
    nontriv = 0
    for h in allh:
        inq, hit = 0, False
        for e in h:
            if e["ev"] in ("wp.enq", "wp.rs.requeue"):
                inq += 1
            elif e["ev"] in ("wp.take", "wp.rs.drain", "wp.stop.drain"):
                inq -= 1
            elif e["ev"] == "wp.stop.closed" and inq > 0:
                hit = True
        nontriv += hit
    ctx.cov["distinct_nontrivial"] = nontriv
    ctx.cov["rule"] = ("environment schedules (submit k / release a goroutine parked at a vhook pause point / open the gate of a "
                       "running task / Stop / Resize) generated by TLC from WorkerPoolGen for 1->2 and 2->1 workers and 4 tasks, "
                       "with 'time passes' steps longer than every configured tuning timeout (the pool is the one New() creates, "
                       "reached through ExecuteWithWorker), the directed reproducers of F12/F12b/F12c, and seeded free-running "
                       "stress histories (one in five with bodies slower than the timeouts) under -race; a "
                       "history is non-trivial when a Stop (external or inside Resize) closed a queue that still held tasks")
    ctx.cov["spec_actions_covered_by_impl"] = sorted({e["ev"] for h in allh for e in h if e["ev"].startswith("wp.")})
    for h in (allh[0], allh[4], hists[2 * len(dirs)] if len(hists) > 2 * len(dirs) else None):
        if h:
            ctx.sample({"history": h[0]["s"], "events": describe(h)[:1500]})
    ctx.assumptions += [
        "the log order of two events of different goroutines is the order of their vhook calls, not of the steps themselves; the "
        "ideal-level monitor only relies on facts that survive this (a body logged as started has started, one logged as ended "
        "has ended, a call is logged before it starts and a return after it returned)",
        "a submitter counts as waiting for ever when the pool has reached structural quiescence (no body running, Stop and "
        "Resize returned or stalled for 1.5 s with every gate open), its result channel is empty and it has not returned after "
        "a further grace period; a history that does not reach quiescence is exit 2, never a violation",
        "Submit's 50 ms timer is treated as 'may fire at any time' by the impl-level search and is irrelevant to the verdict",
        "one Stop and one Resize per history; Start after Stop (restart of the same pool object) is outside the model"]


def replay(ctx):
    """Re-validate one recorded history."""
    lines = [json.loads(l) for l in open(ctx.replay).read().splitlines() if l.strip()]
    body = [e for e in lines if e.get("ev") != "meta"]
    if not body or body[0]["ev"] != "reset":
        raise vflib.Broken("replay file does not start with a reset line")
    res, _ = monitor(ctx, [body], "replay")
    for b in res["bad"]:
        ctx.violation(b["why"], body, {"replayed": ctx.replay})
    for d in res["dev"]:
        ent = [e for e in ctx.known() if e["deviation"] == d["name"]]
        if ent:
            ctx.known_finding(d["name"], ent[0]["what"])
    ctx.cov["evaluations"] = len(body)
    ctx.cov["distinct_nontrivial"] = 1
    ctx.sample({"replayed": ctx.replay, "events": describe(body)[:1500]})

"""C09 / C10 / C12: decision functions of the request path (specs/Policy).
Shared by checks/C09.py, checks/C10.py, checks/C12.py.

Per property: (1) exhaustive TLC runs of PolicyMC (the rule's algebra, the transcribed Go code
refines the rule, a denied request reaches nothing; non-vacuity runs with a defect variant),
(2) TLC generates the vectors with the rule's verdict (PolicyGen), (3) the harness replays them
through the real functions and the real request path and records, (4) TLC validates the record
against the same operators (PolicyTrace), (5) binding demonstration on a corrupted record."""
import json, os, copy
from concurrent.futures import ThreadPoolExecutor
import vflib

HARNESS = ["vf_common.go", "vf_vfs.go", "vf_policy.go"]
WORKERS = int(os.environ.get("VF_TLC_WORKERS", "8"))
REAL = "  W4 = 32\n  PZ = 80\n  PO = 16\n"

MC_CFG = """SPECIFICATION Spec
CONSTANTS
  W4 = %(w4)d
  PZ = %(pz)d
  PO = %(po)d
  Focus = "%(focus)s"
  Variant = "%(variant)s"
  Ids = %(ids)s
  MaxAux = %(maxaux)d
  ModeSet = %(modes)s
  PermSet <- %(perms)s
INVARIANTS %(invs)s
"""
GEN_CFG = "SPECIFICATION Spec\nCONSTANTS\n" + REAL + '  Family = "%(family)s"\n  Seed = %(seed)d\n  Thorough = %(thorough)s\n'
TRACE_CFG = "SPECIFICATION Spec\nCONSTANTS\n" + REAL + "  KnownDeviations = %(known)s\n"

IDS7 = ["0", "1", "1000", "65534", "65535", "2147483648", "4294967295"]
MODES8 = ["all", "root", "none", "", "ROOT", "All", "nOnE", "bogus"]

INV = {
    "host": "TypeOK Gate DeniedClean ConnSameRule Processed HostDecided MonotonePrefix MappedInvariant FullLengthIsAddress "
            "ZeroLengthIsFamily EitherCharacterised BadNeutral MemberIsYes EffIdeal",
    "cred": "TypeOK Gate DeniedClean Processed EffIdeal CredDecided NoRootUnderRootSquash AllIsNobody SquashIdempotent AccessIdeal",
    "access": "TypeOK Gate DeniedClean EffIdeal AccessIdeal NeverOverGrant DirectoryOnly ReadOnlyClause MaskDistributes",
}
FOCUS = {"C09": "host", "C10": "cred", "C12": "access"}
# defect variants of the transcribed code that TLC must catch (non-vacuity), per property
VARIANTS = {
    "C09": [("conn_only", "the per-request host check is dropped (only the connection-level filter remains)"),
            ("strictfam", "single addresses are compared without IPv4-mapped normalisation"),
            ("port_le", "the secure-port test admits port 1024"),
            ("badstops", "an unparseable list entry ends the scan instead of being skipped")],
    "C10": [("root_keeps_aux", "root squashing forgets the auxiliary gids"),
            ("case_sensitive", "the mode string is compared case-sensitively"),
            ("ctx_hoisted", "the AuthContext is built once per connection, so the first parsed AUTH_SYS credential stays attached"),
            ("update_clears_squash", "a run-time update that names no squash mode is stored with an empty mode"),
            ("gids17_ok", "17 auxiliary gids are accepted")],
    "C12": [("no_aux", "auxiliary groups are ignored when the class is chosen"),
            ("ro_ignored_for_extend", "EXTEND is granted on a read-only export")],
}

REASONS = {
    "C09": ("isIPAllowed (auth.go) disagrees", "Server.isIPAllowed (connection-level filter) disagrees",
            "ValidateAuthentication decides against the host and port rule", "a request the rule rejects",
            "a rejected request reached", "an admissible request was answered MSG_DENIED",
            "acceptLoop accepts or refuses", "a request on an accepted connection", "a request on an open connection",
            "with the list given at construction",
            "an admissible request on an open connection"),
    "C10": ("a credential is admitted or denied against the rule", "effective uid/gid differ", "auxiliary gids after squashing differ",
            "the identity ACCESS acts on differs", "squashing altered auxiliary-gid data", "a request on a connection is"),
    "C12": ("ACCESS grants", "ACCESS withholds"),
}


def mine(pid, why):
    return any(r in why for r in REASONS[pid])


def mc_cfg(ctx, name, **kw):
    d = dict(w4=1, pz=1, po=1, focus="host", variant="code", ids=ctx.tla_set(["0", "1000", "65534"]), maxaux=0,
             modes=ctx.tla_set(["none"]), perms="PermsBase")
    d.update(kw)
    d["invs"] = INV[d["focus"]]
    return ctx.write_cfg("Policy", name, MC_CFG % d)


def tlc_exh(ctx, *a, **kw):
    """ctx.tlc_exhaustive, repeated once when the JVM produced no model-checking output at all
    (seen on an overloaded machine); a spec-level failure is never retried away."""
    try:
        return ctx.tlc_exhaustive(*a, **kw)
    except vflib.Broken as e:
        if "is violated" in str(e) or "Error:" in str(e) or "timed out" in str(e):
            raise
        ctx.log("TLC produced no result, retrying once")
        return ctx.tlc_exhaustive(*a, **kw)


def exhaustive(ctx, pid):
    """Exhaustive TLC runs of specs/Policy/PolicyMC.tla for the property's focus."""
    q = ctx.quick()
    focus = FOCUS[pid]
    if pid == "C09":
        # measured (4 workers): widths (W4,PZ,PO) = (1,1,1) 49 420 states; (2,1,1) 209 716 states; (2,2,1) about 1.1 M states
        runs = [dict(w4=1, pz=1, po=1)] if q else [dict(w4=1, pz=1, po=1), dict(w4=2, pz=1, po=1), dict(w4=2, pz=2, po=1), dict(w4=1, pz=2, po=2)]
    elif pid == "C10":
        # measured (with the second request on the connection): MaxAux 1 = 16 080 distinct states; MaxAux 2 = about 112 000
        runs = [dict(ids=ctx.tla_set(IDS7), maxaux=1 if q else 2, modes=ctx.tla_set(MODES8))]
    else:
        # measured: 512 modes = 131 072 states; 4096 modes = 1 048 576 states
        runs = [dict(perms="PermsBase" if q else "PermsAll")]
    for i, r in enumerate(runs):
        cfg = mc_cfg(ctx, "MC_%s_%d.cfg" % (focus, i), focus=focus, **r)
        tlc_exh(ctx, "Policy", "PolicyMC", cfg, timeout=900, workers=WORKERS, heap="4g", deadlock=False)
    ctx.cov["exhaustive"] = True


def non_vacuity(ctx, pid):
    """The same model with one realistic defect of the transcribed code switched on: TLC must find
    an invariant violated.  The smallest configuration that contains the counterexample is used."""
    focus = FOCUS[pid]
    base = {"C09": dict(w4=1, pz=0, po=1),
            "C10": dict(ids=ctx.tla_set(["0", "1000", "65534"]), maxaux=1, modes=ctx.tla_set(["root", "ROOT", "none"])),
            "C12": dict(perms="PermsTiny")}[pid]
    variants = VARIANTS[pid][:1] if ctx.quick() else VARIANTS[pid]
    for name, what in variants:
        cfg = mc_cfg(ctx, "MC_nv_%s.cfg" % name, focus=focus, variant=name, **base)
        r = tlc_exh(ctx, "Policy", "PolicyMC", cfg, expect_ok=False, count=False, timeout=600, workers=2, heap="2g", deadlock=False)
        if not r["violated"]:
            raise vflib.Broken("non-vacuity run: variant %s (%s) violates no invariant of PolicyMC" % (name, what))
        ctx.notes.append("non-vacuity: with the defect '%s' switched on TLC reports invariant %s violated" % (what, r["violated"]))


def generate(ctx, pid):
    """TLC writes the vectors (with the rule's verdict) for this property."""
    vec = os.path.join(ctx.scratch, "vectors_%s.ndjson" % pid)
    cfg = ctx.write_cfg("Policy", "Gen_%s.cfg" % pid, GEN_CFG % dict(family=pid, seed=ctx.seed % 1000003,
                                                                    thorough="FALSE" if ctx.quick() else "TRUE"))
    r = ctx.tlc("Policy", "PolicyGen", cfg, workers=1, timeout=600, env={"VF_VECTORS": vec}, heap="4g", deadlock=False)
    if not r["ok"] or not os.path.exists(vec) or os.path.getsize(vec) == 0:
        raise vflib.Broken("vector generation failed:\n" + r["out"][-3000:])
    ctx.cov["tlc_runs"].append({"module": "PolicyGen", "cfg": cfg, "wall_s": r["wall_s"], "vectors_bytes": os.path.getsize(vec)})
    ctx.log("TLC generated vectors for %s in %.1fs (%d bytes)" % (pid, r["wall_s"], os.path.getsize(vec)))
    return vec


def validate(ctx, pid, trace, label, heap="6g"):
    cfg = ctx.write_cfg("Policy", "Trace_%s.cfg" % label, TRACE_CFG % dict(known=ctx.tla_set(ctx.known_devs(["C09", "C10", "C12"]))))
    res = ctx.tlc_trace("Policy", "PolicyTrace", cfg, trace, out_name="res_%s.json" % label, heap=heap, timeout=1500)
    if res["consumed"] != res["n"]:
        raise vflib.Broken("trace spec consumed %s of %s lines (%s)" % (res["consumed"], res["n"], label))
    return res


def report(ctx, pid, res, lines, label):
    """Turn the trace spec's result into violations / known findings / drift."""
    if res["drift"]:
        why = sorted({d["why"] for d in res["drift"]})
        raise vflib.Broken("unusable record (%s): %s; first at line %d" % (label, "; ".join(why), min(d["l"] for d in res["drift"])))
    seen = {}
    for b in sorted(res["bad"], key=lambda x: x["l"]):
        if not mine(pid, b["why"]):
            ctx.notes.append("failure outside this property's reasons ignored: " + b["why"])
            continue
        seen[b["why"]] = seen.get(b["why"], 0) + 1
        if seen[b["why"]] > 2:
            continue
        ln = lines[b["l"] - 1]
        ctx.violation("%s (%s, line %d): %s" % (b["why"], label, b["l"], brief(pid, ln)), [ln.rstrip("\n")],
                      {"level": label, "line": b["l"], "occurrences_so_far": seen[b["why"]]})
    for why, n in seen.items():
        if n > 2:
            ctx.notes.append("%d lines failed with: %s" % (n, why))
    for d in res["dev"]:
        ent = [e for e in ctx.known() if e["deviation"] == d["name"]]
        if ent:
            ctx.known_finding(d["name"], ent[0]["what"])


def brief(pid, ln):
    """One-line description of the failing input for the VIOLATION reason."""
    try:
        e = json.loads(ln)
        if e.get("ev") == "c09s":
            return "one connection, client %r port %s, connect verdict %s refused=%s; steps (allow-list, secure, rule, reply, dispatched, backend): %s" % (
                e["client"]["text"], e["port"], e["exp_conn"], e["refused"],
                [([x["text"] for x in st["list"]], st["secure"], st["exp"], st["rpc"], st["dispatched"], st["backend"]) for st in e["steps"]])
        if e.get("ev") == "c10s":
            return "one connection, squash %r; requests (credential -> reply, probes granting READ as owner / as group): %s" % (
                e["mode"], [("%s %s/%s aux %s" % (st["cred"]["flavor"], st["cred"]["uid"], st["cred"]["gid"], st["cred"]["aux"]),
                             st["rpc"], st["own"], st["grp"]) if st.get("kind", "req") == "req"
                            else "run-time update %s (%s)" % (st["how"], "accepted" if st["accepted"] else "refused")
                            for st in e["steps"]])
        if pid == "C09":
            return "client %r list %r port %s secure %s; srv=%s va=%s conn=%s calls=%s" % (
                e["client"]["text"], [x["text"] for x in e["list"]], e["port"], e["secure"], e["srv"]["allowed"], e["va"]["allowed"],
                {"conn": e["conn"], "constructed": e.get("ctor")}, [(c["prog"], c["cred"], c["rpc"], c["dispatched"], c["backend"]) for c in e["calls"]][:6])
        if pid == "C10":
            return "mode %r cred %s -> va %s pre %s hc %s" % (e["mode"], e["cred"], e["va"], {k: e["pre"][k] for k in ("run", "allowed", "uid", "gid", "aux", "shared_before", "shared_after")}, e["hc"])
        return "mode %o kind %s ro %s relation %s who %s obj %s granted[mask 63]=%s granted=%s" % (
            e["setmode"], e["kind"], e["ro"], e["rel"], e["who"], e["obj"], e["granted"][63], e["granted"])
    except Exception:
        return ln[:300]


# ---------------------------------------------------------------- binding demonstration

# Corruptions are chosen so that the corrupted line contradicts the rule whatever the code did
# (a corruption that merely flips a recorded answer could repair a wrong answer).

def _mut_sessions(lines):
    """Corrupted copies of session lines: a request the policy in force rejects shown as processed (C09),
    a request shown as served under the previous request's identity (C10)."""
    out = []
    for ln in lines:
        e = json.loads(ln)
        if e.get("ev") == "c09s" and not out:
            ks = [k for k, st in enumerate(e["steps"]) if st["exp"] == "no" and st["sent"] and k > 0]
            if ks:
                m = copy.deepcopy(e)
                m["steps"][ks[0]].update(rpc="ACCEPTED", dispatched=True, backend=1)
                out.append(m)
        if e.get("ev") == "c10s" and not out and e["lower"] == "none":
            for k in range(1, len(e["steps"])):
                a, b = e["steps"][k - 1], e["steps"][k]
                if a["cred"]["flavor"] == "SYS" and b["cred"]["flavor"] == "SYS" and a["cred"]["body"] == "ok" and b["cred"]["body"] == "ok" \
                        and a["cred"]["uid"] != b["cred"]["uid"] and b["cred"]["uid"] != "0":
                    m = copy.deepcopy(e)
                    m["steps"][k].update(rpc="ACCEPTED", allowed=True, own=[a["cred"]["uid"]] if a["cred"]["uid"] != "0" else ["4242"])
                    out.append(m)
                    break
    return out


def _mut_c09(lines):
    out = []
    for ln in lines:
        e = json.loads(ln)
        if e.get("ev") != "c09":
            continue
        if e["exp"]["admit"] == "no" and e["calls"] and len(out) == 0:
            m = copy.deepcopy(e)
            m["calls"][0].update(rpc="ACCEPTED", dispatched=True, backend=2)
            out.append(m)
        elif e["exp"]["host"] in ("yes", "no") and e["list"] and len(out) == 1:
            m = copy.deepcopy(e)
            m["srv"]["allowed"] = e["exp"]["host"] != "yes"
            out.append(m)
        if len(out) == 2:
            break
    return out


def _mut_c10(lines):
    out = []
    for ln in lines:
        e = json.loads(ln)
        if e.get("ev") != "c10":
            continue
        if len(out) == 0 and e["lower"] == "all" and e["cred"]["flavor"] == "SYS" and e["cred"]["body"] == "ok":
            m = copy.deepcopy(e)
            m["va"].update(allowed=True, uid="0", sys=True)
            out.append(m)
        elif len(out) == 1 and e["pre"]["run"] and e["pre"]["shared_before"]:
            m = copy.deepcopy(e)
            m["pre"]["shared_after"] = ["12345"] + m["pre"]["shared_before"][1:]
            out.append(m)
        elif len(out) == 2 and e["lower"] == "root" and e["cred"]["flavor"] == "SYS" and e["cred"]["body"] == "ok" and e["mode"] == "root":
            m = copy.deepcopy(e)
            m["hc"].update(run=True, allowed=True, rpc="ACCEPTED", own=["0"] + [x for x in m["hc"]["own"] if x != "0"])
            out.append(m)
        if len(out) == 3:
            break
    return out


def _mut_c12(lines):
    out = []
    for ln in lines:
        e = json.loads(ln)
        if e["status"] != "OK":
            continue
        m = copy.deepcopy(e)
        if len(out) == 0:
            m["granted"][0] = 1          # READ granted for the empty mask
        elif len(out) == 1:
            m["granted"][63] = 127       # a bit outside the six
        else:
            m["granted"][1] = 2          # LOOKUP granted when only READ was asked
        out.append(m)
        if len(out) == 3:
            break
    return out


def add_mutations(ctx, pid, trace):
    """Binding demonstration, part 1: append corrupted copies of recorded lines to the trace (they are
    validated in the same TLC run as the record itself); returns (number of real lines, number appended)."""
    lines = open(trace).read().splitlines()
    muts = {"C09": _mut_c09, "C10": _mut_c10, "C12": _mut_c12}[pid](lines)
    if pid in ("C09", "C10"):
        sm = _mut_sessions(lines)
        if not sm:
            raise vflib.Broken("binding demonstration: no session line suitable for corruption in " + trace)
        muts += sm
    if not muts:
        raise vflib.Broken("binding demonstration: no line suitable for corruption in " + trace)
    with open(trace, "a") as f:
        for m in muts:
            f.write(json.dumps(m, separators=(",", ":")) + "\n")
    return len(lines), len(muts)


def split_mutations(ctx, res, nreal, nmut):
    """Binding demonstration, part 2: every corrupted line must have been rejected; they are then
    removed from the result so that they never count as a verdict."""
    want = set(range(nreal + 1, nreal + nmut + 1))
    rejected = {b["l"] for b in res["bad"]} & want
    if rejected != want:
        raise vflib.Broken("binding demonstration failed: corrupted lines %s were accepted by the trace spec" % sorted(want - rejected))
    res["bad"] = [b for b in res["bad"] if b["l"] <= nreal]
    res["drift"] = [d for d in res["drift"] if d["l"] <= nreal]
    ctx.cov["binding_mutations_rejected"] += nmut


# ---------------------------------------------------------------- the three checks

def run_common(ctx, pid):
    if ctx.replay:
        return replay(ctx, pid)
    # independent steps run side by side: exhaustive model checking, the non-vacuity runs, vector
    # generation by TLC, and the harness build
    ctx._spec_copy("Policy")
    with ThreadPoolExecutor(max_workers=4) as pool:     # on any failure the running TLC processes are waited for
        run_steps(ctx, pid, pool)


def run_steps(ctx, pid, pool):
    side = []
    if os.environ.get("VF_POLICY_SKIP_MC"):   # development aid only (mutant loops); recorded in the evidence
        ctx.notes.append("exhaustive PolicyMC runs skipped by VF_POLICY_SKIP_MC")
    else:
        side = [pool.submit(exhaustive, ctx, pid), pool.submit(non_vacuity, ctx, pid)]
    f_vec = pool.submit(generate, ctx, pid)
    f_bin = pool.submit(ctx.build_harness, HARNESS)
    vec, binp = f_vec.result(), f_bin.result()
    q = ctx.quick()
    if pid == "C09":
        ctx.harness_ok(binp, "TestVF_PolicyHost", {"VF_VECTORS": vec, "VF_CALLS_PER_VECTOR": 4 if q else 0}, timeout=900)
        traces = [os.path.join(ctx.scratch, "policy_c09.ndjson")]
    elif pid == "C10":
        ctx.harness_ok(binp, "TestVF_PolicySquash", {"VF_VECTORS": vec}, timeout=900)
        traces = [os.path.join(ctx.scratch, "policy_c10.ndjson")]
    else:
        shards = 8
        ctx.harness_ok(binp, "TestVF_PolicyAccess", {"VF_VECTORS": vec, "VF_SHARDS": shards}, timeout=1500)
        # the harness computes in 8 goroutines; the rows are validated in 2 (quick) / 4 (thorough) TLC processes
        ngroups = 2 if q else 4
        traces = [os.path.join(ctx.scratch, "policy_c12_group%d.ndjson" % g) for g in range(ngroups)]
        for g, tp in enumerate(traces):
            with open(tp, "w") as out:
                for i in range(g, shards, ngroups):
                    with open(os.path.join(ctx.scratch, "policy_c12_%d.ndjson" % i)) as f:
                        for ln in f:
                            out.write(ln)
    summ = json.load(open(os.path.join(ctx.scratch, "policy_%s.summary.json" % pid.lower())))
    nreal, nmut = add_mutations(ctx, pid, traces[0])
    ctx._spec_copy("Policy")
    par = 1 if len(traces) == 1 else int(os.environ.get("VF_TLC_PARALLEL", "4"))
    with ThreadPoolExecutor(max_workers=par) as ex:
        results = list(ex.map(lambda it: validate(ctx, pid, it[1], "%s_%d" % (pid.lower(), it[0]), heap="3g" if par > 1 else "6g"),
                              enumerate(traces)))
    split_mutations(ctx, results[0], nreal, nmut)
    for f in side:
        f.result()          # a failed exhaustive / non-vacuity run is vflib.Broken (exit 2)
    stats = {}
    for i, (tp, res) in enumerate(zip(traces, results)):
        lines = open(tp).readlines()
        report(ctx, pid, res, lines, "%s group %d" % (pid, i) if len(traces) > 1 else pid)
        for k, v in res["stats"].items():
            stats[k] = stats.get(k, 0) + v
    # the corrupted copies were counted by the trace spec's statistics; take them out again
    nsm = 1 if pid in ("C09", "C10") else 0     # one of the corrupted copies is a session line
    stats[pid.lower()] -= nmut - nsm
    if nsm:
        stats[pid.lower() + "s"] -= nsm
    stats["lines"] -= nmut
    if pid == "C12":
        stats["c12_decisions"] -= 64 * nmut
    ctx.cov["trace_stats"] = stats
    for s in summ.get("samples", [])[:3]:
        ctx.sample(s)
    fill_coverage(ctx, pid, summ, stats)


def fill_coverage(ctx, pid, summ, stats):
    cov = ctx.cov
    if pid == "C09":
        if stats["c09"] != summ["vectors"] or stats["c09_no"] == 0 or stats["c09_yes"] == 0 or stats["c09_either"] == 0:
            raise vflib.Broken("C09: the vector set lost a verdict class: %s" % stats)
        if stats["c09s"] != summ["sessions"] or stats["c09s"] == 0 or stats["c09s_denied"] == 0:
            raise vflib.Broken("C09: the sessions on one connection were not driven: %s %s" % (stats, summ))
        if summ["constructed"] == 0:
            raise vflib.Broken("C09: no policy was given at construction: %s" % summ)
        if stats["c09_denied"] == 0 or summ["call_kinds_denied_and_accepted"] < summ["call_kinds"] // 2:
            raise vflib.Broken("C09: too few program/procedure classes were seen both denied and admitted: %s" % summ)
        cov["traces_validated_against_impl"] = stats["c09"] + stats["c09s"]
        cov["evaluations"] = stats["c09"] * 3 + stats["c09_calls"] + stats["c09_conn"] + stats["c09s_steps"]
        cov["distinct_nontrivial"] = stats["c09_no"]
        cov["rule"] = ("one trace per TLC-generated vector (client, allow-list, port, secure): every prefix length 0..32 and 0..128 with "
                       "clients inside / just outside / far outside, single addresses differing in each bit, IPv4-mapped forms on "
                       "either side, IPv6 CIDRs shorter than /96 (either), malformed clients and entries, zoned addresses, ports "
                       "around 1024; evaluations = answers of isIPAllowed, Server.isIPAllowed, ValidateAuthentication, requests "
                       "through HandleCall and connections through acceptLoop; plus sessions: one long-lived connection through the "
                       "real connection loop, allow-list / secure flag replaced with UpdatePolicyOptions between its requests, every "
                       "request judged by the policy in force when it arrives; non-trivial = vectors the rule rejects")
        cov["spec_actions_covered_by_impl"] = ["Reconfigure", "Accept(refuse)", "Accept(pass)", "Step1(deny)", "Step1(pass)", "Step2(deny)", "Step2(pass)",
                                               "Step3(deny flavor)", "Spawn", "Handler"]
        cov["harness_summary"] = {k: summ[k] for k in ("constructed", "sessions", "vectors", "calls", "denied", "connections", "refused", "call_kinds",
                                                       "call_kinds_denied_and_accepted", "dispatch_observable")}
        if not summ["dispatch_observable"]:
            ctx.notes.append("handler dispatch is not observable through the debug log on this tree; 'reaches no procedure handler' "
                             "rests on the backend call log and the handle table only")
        ctx.assumptions += ["a remote address handed to acceptLoop is a *net.TCPAddr (true for net.Listen and tls.Listen); malformed client "
                            "strings are exercised at the function level and through HandleCall only",
                            "handler dispatch is observed through the server's debug log line written by the dispatching goroutine, backend "
                            "calls through the recording backend, handle allocation through the handle table size",
                            "AllowedIPs is the list the operator gave (to New or to UpdatePolicyOptions), not what the server keeps of it: a "
                            "non-empty list whose entries are all malformed admits nobody",
                            "IPv4 client against an IPv6 CIDR shorter than /96 covering ::ffff:0:0/96, and any positive match involving a "
                            "zone suffix, are accepted either way"]
    elif pid == "C10":
        if stats["c10"] != summ["vectors"] or stats["c10_denied"] == 0 or stats["c10_changed"] == 0 or stats["c10_probed"] == 0:
            raise vflib.Broken("C10: the vector set lost a class: %s" % stats)
        if stats["c10s"] != summ["sessions"] or stats["c10s"] == 0 or stats["c10s_updates"] == 0:
            raise vflib.Broken("C10: the sessions on one connection were not driven: %s %s" % (stats, summ))
        cov["traces_validated_against_impl"] = stats["c10"] + stats["c10s"]
        cov["evaluations"] = stats["c10"] * 3 + stats["c10_probed"] * 14 + stats["c10s_steps"] * 14
        cov["distinct_nontrivial"] = stats["c10_changed"] + stats["c10_denied"]
        cov["rule"] = ("one trace per TLC-generated vector (squash mode x flavor x body encoding x uid x gid x auxiliary list over the ids "
                       "0,1,1000,65534,65535,2^31,2^32-1): lists up to length 1 (quick) / 2 (thorough) exhaustively, lengths 2..16 sampled, "
                       "17 gids, truncation at every word; evaluations = ValidateAuthentication twice (parsed inside / pre-parsed shared "
                       "slice), HandleCall, 14 ACCESS probes; plus sessions: 3-5 requests with different credentials (AUTH_SYS, "
                       "AUTH_NONE, refused flavors, undecodable bodies) on ONE connection through the real connection loop, each "
                       "judged by its own credential through 14 ACCESS probes, some with run-time updates that name no squash mode "
                       "(UpdatePolicyOptions / UpdateExportOptions toggling read-only or the allow-list) between the requests: the mode "
                       "the export was created with keeps governing; non-trivial = vectors whose ids change or that are denied")
        cov["spec_actions_covered_by_impl"] = ["Step3(NONE)", "Step3(SYS parse ok)", "Step3(SYS undecodable)", "Step3(other flavor)",
                                               "Squash(all)", "Squash(root)", "Squash(none)", "Squash(unrecognised)", "Spawn", "Handler",
                                               "NextRequest", "RuntimeUpdate"]
        cov["harness_summary"] = {k: summ[k] for k in ("sessions", "vectors", "denied", "ids_changed", "cfg_ok")}
        ctx.assumptions += ["the empty mode string is the documented default 'none'; a mixed-case mode that New() accepts must act as its "
                            "lower-case form, one that New() refuses may also act as unrecognised",
                            "for an unrecognised mode only uid and gid are constrained (the statement is silent on auxiliary gids)",
                            "a well-formed body followed by extra bytes, and a machine name longer than 255 bytes that is fully present, "
                            "may be accepted or denied",
                            "object ownership for the ACCESS probes is placed in the server's node table in-package",
                            "the squash mode is the one given to New(): the documentation declares it immutable at run time, so a run-time "
                            "update that names no mode (accepted or refused) must leave squashing as configured; updates that explicitly "
                            "name another mode are not exercised"]
    else:
        if stats["c12"] != summ["rows"] or summ["rows_granting"] == 0:
            raise vflib.Broken("C12: rows lost: %s %s" % (stats, summ))
        cov["traces_validated_against_impl"] = stats["c12"]
        cov["evaluations"] = stats["c12_decisions"]
        cov["distinct_nontrivial"] = summ["rows_granting"]
        cov["rule"] = ("one trace per row (12-bit mode x {file, directory} x caller relation x read-only) carrying the 64 granted values; "
                       "quick = nine relations on the stratum of 512 modes (all 9-bit patterns, top bits a seeded function of them); thorough = "
                       "owner, owner+group, group, auxiliary group, other, uid 0 on all 4096 modes, and auxiliary group as 16th entry, "
                       "uid 0 owning, gid 0 without privilege, ids 2^31 / 2^32-1, AUTH_NONE as other / owner / group on the stratum; "
                       "non-trivial = rows granting something")
        cov["spec_actions_covered_by_impl"] = ["Handler(owner)", "Handler(group)", "Handler(aux group)", "Handler(other)", "Handler(root)",
                                               "Handler(read-only)", "Step3(NONE)"]
        cov["harness_summary"] = {k: summ[k] for k in ("rows", "decisions", "rows_granting", "relations", "modes", "modes_all")}
        ctx.assumptions += ["the oracle uses owner, group, type and mode as reported in the same ACCESS reply (self-consistency)",
                            "EXECUTE on a directory may be granted when the class has x, or never",
                            "setuid/setgid/sticky are placed in the backend as os.ModeSetuid/ModeSetgid/ModeSticky; the server reports 9 bits",
                            "object ownership is placed in the server's node table in-package; squash mode none; the caller's identity "
                            "is the effective identity HandleCall installed (AuthContext after the call), so a squashing defect is C10's"]


def replay(ctx, pid):
    """Re-validate the recorded lines of a replay file written by a violation."""
    lines = [l for l in open(ctx.replay).read().splitlines() if l.strip()]
    body = [l for l in lines if json.loads(l).get("ev") != "meta"]
    tp = os.path.join(ctx.scratch, "replay.ndjson")
    open(tp, "w").write("\n".join(body) + "\n")
    res = validate(ctx, pid, tp, "replay")
    for b in res["bad"]:
        if mine(pid, b["why"]):
            ctx.violation(b["why"], [body[b["l"] - 1]], {"replayed": ctx.replay})
    ctx.cov["evaluations"] = len(body)
    ctx.cov["distinct_nontrivial"] = len(body)
    ctx.cov["traces_validated_against_impl"] = len(body)
    ctx.sample({"replayed": ctx.replay})

import os, sys
sys.path.insert(0, os.path.dirname(os.path.abspath(__file__)))
import ratelimit_common

LEVEL = "model_checking"


def run(ctx):
    ratelimit_common.run_common(ctx, "C19")

"""C23: READ and WRITE within the advertised FSINFO limits are served (specs/Limits)."""
import json, os, sys
sys.path.insert(0, os.path.dirname(os.path.abspath(__file__)))
import vflib
import limits_common as lc

LEVEL = "model_checking"
PID = "C23"
HARNESS = ["vf_common.go", "vf_vfs.go", "vf_limits.go"]

CFG = """SPECIFICATION Spec
CONSTANTS
  Ts = %(ts)s
  R = 1048576
  Creds = {0, 24, 340, 400}
  FileSize = 3149825
  Level = "%(level)s"
INVARIANTS %(invs)s
"""

TRACE_CFG = """SPECIFICATION Spec
CONSTANTS
  KnownDeviations = %(known)s
  ImplLevel = "%(level)s"
"""


def impl_level(ctx):
    return "fixed" if ctx.finding_status("F15") == "fixed" else "code"


def exhaustive(ctx):
    level = impl_level(ctx)
    ts = "{1, 512, 65536, 1048576, 2097152}" if ctx.quick() else \
         "{1, 2, 511, 512, 4095, 4096, 4097, 65535, 65536, 65537, 1047552, 1048575, 1048576, 1048577, 2097152}"
    w = dict(workers=2, heap="2g", deadlock=False, timeout=900)
    # measured: 5 sizes: 143 (fixed) / 207 (code) distinct states, 1-2 s per run; 15 sizes (thorough): 429 / 677 distinct, < 10 s
    # the repaired design satisfies the whole property
    cfg = ctx.write_cfg("Limits", "MC_fixed.cfg", CFG % dict(ts=ts, level="fixed", invs="WriteServed ReadServed Advertised Classified"))
    ctx.tlc_exhaustive("Limits", "Limits", cfg, count=(level == "fixed"), **w)
    # the pinned server: READ side and preferred <= max hold, every failing WRITE is exactly the listed deviation ...
    cfg = ctx.write_cfg("Limits", "MC_code.cfg", CFG % dict(ts=ts, level="code", invs="ReadServed PrefWithinMax Classified"))
    ctx.tlc_exhaustive("Limits", "Limits", cfg, count=(level == "code"), **w)
    ctx.cov["exhaustive"] = True
    # ... and non-vacuity: the pinned constants violate WriteServed
    cfg = ctx.write_cfg("Limits", "MC_nv.cfg", CFG % dict(ts=ts, level="code", invs="WriteServed"))
    r = ctx.tlc_exhaustive("Limits", "Limits", cfg, expect_ok=False, count=False, **w)
    if r["violated"] != "WriteServed":
        raise vflib.Broken("non-vacuity run: the pinned FSINFO constants should violate WriteServed, got %s" % r["violated"])
    ctx.notes.append("non-vacuity: with FSINFO's pinned constants (wtmax = rtmax = 1 MiB, pref 64 KiB) TLC finds a WRITE within wtmax that is "
                     "refused INVAL (count > TransferSize) or whose record exceeds the 1 MiB record limit; with maxima derived from the "
                     "effective TransferSize and the record limit every invariant holds for every TransferSize")


def validate(ctx, trace, label):
    known = ctx.known_devs([PID])
    cfg = ctx.write_cfg("Limits", "Trace_%s.cfg" % label, TRACE_CFG % dict(known=ctx.tla_set(known), level=impl_level(ctx)))
    res = ctx.tlc_trace("Limits", "LimitsTrace", cfg, trace, out_name="res_%s.json" % label, timeout=900)
    if res["consumed"] != res["n"]:
        raise vflib.Broken("trace spec consumed %s of %s lines" % (res["consumed"], res["n"]))
    return res


def mut_refused(e):
    """An accepted WRITE within TransferSize is recorded as refused."""
    if e.get("ev") == "write" and e.get("st") == "OK" and e["count"] >= 1:
        e["st"], e["n"] = "INVAL", 0
        return e
    return None


def mut_dropped(e):
    """An accepted WRITE whose record fits is recorded as dropped."""
    if e.get("ev") == "write" and e.get("st") == "OK" and e["rec"] < 100000:
        e["st"], e["n"], e["alive"] = "NOREPLY", 0, False
        return e
    return None


def mut_read_empty(e):
    """A READ before EOF is recorded as returning nothing."""
    if e.get("ev") == "read" and e.get("st") == "OK" and e["n"] >= 1:
        e["n"], e["eof"] = 0, False
        return e
    return None


def run(ctx):
    if ctx.replay:
        body, tp = lc.replay_body(ctx)
        res = validate(ctx, tp, "replay")
        for b in res["bad"]:
            ctx.violation(b["why"], body, {"replayed": ctx.replay})
        ctx.cov["evaluations"] = len(body)
        ctx.cov["distinct_nontrivial"] = 2
        ctx.sample({"replayed": ctx.replay})
        return
    exhaustive(ctx)
    binp = ctx.build_harness(HARNESS)
    ctx.harness_ok(binp, "TestVF_Limits", {"VF_HIST": 9 if ctx.quick() else 40}, timeout=1200)
    trace = os.path.join(ctx.scratch, "limits.ndjson")
    summ = json.load(open(os.path.join(ctx.scratch, "limits.summary.json")))
    res = validate(ctx, trace, "limits")
    lc.report(ctx, res, trace, "limits")
    st = res["stats"]
    ctx.cov["traces_validated_against_impl"] = st["cfgs"]
    ctx.cov["evaluations"] = st["writes"] + st["reads"] + st["fsinfo"]
    ctx.cov["distinct_nontrivial"] = st["cfgs"]
    ctx.cov["trace_stats"] = st
    for s in summ.get("samples", [])[:2]:
        ctx.sample({"history": s})
    with open(trace) as f:
        for ln in f:
            if '"ev":"fsinfo"' in ln or ('"ev":"write"' in ln and '"st":"OK"' not in ln):
                ctx.sample({"recorded": json.loads(ln)}, limit=6)
    if st["wok"] == 0 or st["rok"] == 0 or st["fsinfo"] < st["cfgs"]:
        raise vflib.Broken("the driver did not get a served WRITE and READ over TCP: the connection path was not exercised")
    for e in ctx.known():
        if e["deviation"] not in {d["name"] for d in res["dev"]} and not ctx.violations:
            raise vflib.Broken("directed reproducer of %s (%s) did not show the deviation; if the defect is repaired, "
                               "mark the finding fixed" % (e["id"], e["deviation"]))
    lc.mutate(ctx, trace, "limits", [(mut_refused, "an accepted WRITE recorded as refused"),
                                     (mut_dropped, "an accepted WRITE recorded as dropped"),
                                     (mut_read_empty, "a READ before EOF recorded as empty")], validate)
    if ctx.cov.get("impl_model_drift"):
        ctx.notes.append("impl-level drift: recorded FSINFO values / outcomes / record sizes differ from the model (%s); the exhaustive "
                         "result no longer speaks about this code (not a verdict)" % impl_level(ctx))
    ctx.cov["rule"] = ("a real Server (Listen, record marking, 127.0.0.1) over the vfs backend and the harness's own ONC RPC client; for "
                       "TransferSize 1, 512, 65536 (and default), 2^20, 2^21 (thorough: also 2..3 MiB at random) each set at construction, "
                       "through UpdateTuningOptions and through UpdateExportOptions: FSINFO, then WRITE and READ with counts 1, pref, max-1, max, "
                       "T, T+1 (and the neighbours of the record limit) with a 24-byte and a 340-byte AUTH_SYS credential; one configuration "
                       "= one non-trivial unit")
    ctx.cov["spec_actions_covered_by_impl"] = ["Reconfigure(new)", "Reconfigure(tuning)", "Reconfigure(export)", "Fsinfo", "Write", "Read"]
    ctx.assumptions += ["effective TransferSize is read back with GetExportOptions(); values below 1 are outside C23 (C24 decides configuration validation)",
                        "the client re-reads FSINFO after every reconfiguration (a client holding an older advertisement is not modelled)",
                        "'connection survived' = a NULL call on the same TCP connection is answered",
                        "a WRITE reply that stores fewer bytes than sent is accepted as the property says; the stored bytes are compared with the count in the reply"]

"""Proof obligations of specs/Handles/HandlesInd.tla (TLAPS; Handles.tla is used unchanged).  Format: see checks/PROOFS.py.
What is proved, the strengthenings and the assumptions: header of HandlesInd.tla.

Constants: ALL universally quantified (any set of paths, any MaxH >= 1, SkipReturned and Recycle any boolean); behaviours of any
length.  tlapm cannot load a module with a RECURSIVE operator: every obligation carries LOWEST, which replaces the three lines
defining HandlesOps!Lowest by `CONSTANT Lowest(_, _)` in the scratch copy; HandlesInd assumes the defining equation for all
sets and all natural n (ASSUME LowestUnfold), and TLC checks that equation against the definition on all subsets of 1..6.

The proofs of AllocNew / StepInd restate AllocStep's and ReleaseStep's LET definitions (DEFINE ... in the proof); a wrong variant
that changes one of those lines makes the same change in the proof's copy, so that what fails is the step that needs the
property (the cardinality bound, `the returned id is not a candidate`, the inverse), not the syntactic restatement."""
F = "Handles"
M = "HandlesInd.tla"
OPS = "HandlesOps.tla"
LOWEST = (OPS, "RECURSIVE Lowest(_, _)\nLowest(S, n) == IF n = 0 \\/ S = {} THEN {}\n"
               "                ELSE LET m == SetMin(S) IN {m} \\cup Lowest(S \\ {m}, n - 1)\n", "CONSTANT Lowest(_, _)\n")
ALLC = "all constants universally quantified (TLAPS); Lowest known only through its defining equation"


def wrong(name, only, edits, claim, tier="quick"):
    return dict(name=F + "/wrong-" + name, family=F, tool="tlapm", module=M, only=only, timeout=400, cores=1, est=30, edits=[LOWEST] + edits,
                expect="rejected", claim=claim, tier=tier)


OBLIGATIONS = [
    dict(name=F + "/tlapm", family=F, tool="tlapm", module=M, args=["--stretch", "8"], timeout=900, cores=2, est=150, edits=[LOWEST], expect="proved",
         claim="Init => IndInv, IndInv /\\ [Next]_vars => IndInv', IndInv => TypeOK /\\ OnePerPath /\\ Bounded /\\ (SkipReturned => IssuedIsLive) /\\ "
               "(~Recycle => NoRebind), every step satisfies RebindOnlyViaFreeList and never issues a live id; " + ALLC),
    dict(name=F + "/tlc-lowest", family=F, tool="tlc", module="HandlesIndMC.tla", args=["-config", "HandlesIndMC.cfg"], timeout=120, cores=1,
         edits=[], expect="proved",
         claim="TLC: the equation assumed for the RECURSIVE operator Lowest equals its definition on all subsets of 1..6, n <= 7"),
    wrong("limit-off-by-one", "AllocNew",
          [(OPS, "over  == Cardinality(DOMAIN tab1) > maxh", "over  == Cardinality(DOMAIN tab1) > maxh + 1"),
           (M, "           over  == Cardinality(DOMAIN tab1) > maxh\n", "           over  == Cardinality(DOMAIN tab1) > maxh + 1\n")],
          "eviction only when the table exceeds the limit by two: Bounded (AllocNew: Cardinality <= maxh) must become unprovable"),
    wrong("release-keeps-reverse-entry", "StepInd",
          [(OPS, "[tab |-> Without(s.tab, {h}), byPath |-> Without(s.byPath, {s.tab[h]}),", "[tab |-> Without(s.tab, {h}), byPath |-> s.byPath,"),
           (M, "x == [tab |-> Without(tab, {h}), byPath |-> Without(byPath, {tab[h]}),", "x == [tab |-> Without(tab, {h}), byPath |-> byPath,")],
          "Release leaves the path in the reverse map: OnePerPath (table and reverse map inverse) must become unprovable in StepInd",
          tier="thorough"),
    wrong("evict-returned", "AllocNew",
          [(OPS, "cand  == IF skip THEN (DOMAIN tab1) \\ {h} ELSE DOMAIN tab1", "cand  == DOMAIN tab1"),
           (M, "           cand  == IF skip THEN (DOMAIN tab1) \\ {h} ELSE DOMAIN tab1\n", "           cand  == DOMAIN tab1\n")],
          "the fix of F06 removed (the id being returned is an eviction candidate): 'skip => the returned id is live' must become unprovable",
          tier="thorough"),
    wrong("no-issued-before", "StepInd",
          [(M, "  /\\ IssuedBefore\n  /\\ SkipReturned => IssuedIsLive", "  /\\ SkipReturned => IssuedIsLive")],
          "strengthening S3 dropped: NoRebind is not inductive without 'every live id is in DOMAIN first' (StepInd must become unprovable)",
          tier="thorough"),
]

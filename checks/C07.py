"""C07: the backend only sees clean in-export paths; symlink targets stay contained (specs/PathGuard).

1. PathGuard.tla (design spec): TLC enumerates every token string over the adversarial alphabet up
   to length 3 (quick) / 4 (thorough) in every argument slot of every name-taking procedure and runs
   it through the transcribed request pipeline; invariants = the property + the algebra the trace
   check relies on.  Non-vacuity: one-site mutations of the pipeline are found by TLC.
2. TLC dumps the token table (bytes per token); the harness sends the same strings (plus long and
   seeded random ones) through the real handlers over the recording backend and logs what the
   backend was handed.
3. PathGuardTrace.tla decides every recorded request; a corrupted log must be rejected."""
import json, os, sys
sys.path.insert(0, os.path.dirname(os.path.abspath(__file__)))
import vflib

LEVEL = "model_checking"
PID = "C07"
HARNESS = ["vf_common.go", "vf_vfs.go", "vf_pathguard.go"]
WORKERS = 4

MC_CFG = """%(spec)s
CONSTANTS
  MaxLen = %(maxlen)d
  Mutants = %(mut)s
INVARIANTS %(invs)s
"""
PROPERTY_INVS = "TypeOK PathsOK InvalidFails LinksOK ReadlinkOK"
ALL_INVS = PROPERTY_INVS + " Algebra ValidatorSound ValidatorExact TargetCheckSound"

SPEC = "SPECIFICATION Spec"
# the exhaustive run of the code-as-it-is also writes the token table for the harness (DumpInit = Init + JsonSerialize)
SPEC_DUMP = "INIT DumpInit\nNEXT Next"

TRACE_CFG = """SPECIFICATION Spec
CONSTANTS KnownDeviations = %s
"""

# one-site mutations of the transcribed pipeline and the invariant TLC must report for each
# (MaxLen needed to reach it)
NONVACUITY_QUICK = [("noBackslash", 2, "PathsOK")]
NONVACUITY_THOROUGH = NONVACUITY_QUICK + [("noTargetCheck", 2, "LinksOK"), ("noReadlinkCheck", 2, "ReadlinkOK"),
                                          ("noDotDot", 2, "InvalidFails"), ("noDot", 2, "InvalidFails"), ("lookupNoValidate", 2, "InvalidFails"),
                                          ("removeNoSanitize", 2, "PathsOK"), ("limit256", 3, "PathsOK"),
                                          ("targetFirstCompOnly", 2, "LinksOK"), ("mntTrimExportPrefix", 3, "PathsOK")]


def exhaustive(ctx):
    """Exhaustive runs of the design spec; returns the token table TLC wrote (the harness has none of its own)."""
    q = ctx.quick()
    maxlen = 3 if q else 4
    tokfile = os.path.join(ctx.scratch, "pg_tokens.json")
    cfg = ctx.write_cfg("PathGuard", "MC_code.cfg", MC_CFG % dict(spec=SPEC_DUMP, maxlen=maxlen, mut="{}", invs=ALL_INVS))
    ctx.tlc_exhaustive("PathGuard", "PathGuard", cfg, workers=WORKERS, timeout=1500, heap="4g", env={"VF_PG_TOKENS": tokfile})
    ctx.cov["exhaustive"] = True
    if not os.path.exists(tokfile):
        raise vflib.Broken("TLC did not write the token table")
    tb = json.load(open(tokfile))
    if not tb.get("core") or not tb.get("hex"):
        raise vflib.Broken("token table is empty")
    found = []
    for mut, ml, inv in (NONVACUITY_QUICK if q else NONVACUITY_THOROUGH):
        cfg = ctx.write_cfg("PathGuard", "MC_nv_%s.cfg" % mut, MC_CFG % dict(spec=SPEC, maxlen=ml, mut='{"%s"}' % mut, invs=PROPERTY_INVS))
        r = ctx.tlc_exhaustive("PathGuard", "PathGuard", cfg, expect_ok=False, count=False, workers=WORKERS, timeout=900, heap="4g")
        if r["violated"] is None:
            raise vflib.Broken("non-vacuity run: mutation %s of the transcribed pipeline is not found by TLC" % mut)
        found.append("%s -> %s" % (mut, r["violated"]))
    # the two NUL checks mask each other: each alone is an equivalent mutant (shown, not assumed)
    if not q:
        for mut in ('{"noNul"}', '{"xdrNoNul"}'):
            cfg = ctx.write_cfg("PathGuard", "MC_eq.cfg", MC_CFG % dict(spec=SPEC, maxlen=2, mut=mut, invs=PROPERTY_INVS))
            ctx.tlc_exhaustive("PathGuard", "PathGuard", cfg, count=False, workers=WORKERS, timeout=900, heap="4g")
        cfg = ctx.write_cfg("PathGuard", "MC_nv_nul2.cfg", MC_CFG % dict(spec=SPEC, maxlen=2, mut='{"noNul", "xdrNoNul"}', invs=PROPERTY_INVS))
        r = ctx.tlc_exhaustive("PathGuard", "PathGuard", cfg, expect_ok=False, count=False, workers=WORKERS, timeout=900, heap="4g")
        if r["violated"] is None:
            raise vflib.Broken("non-vacuity run: removing both NUL checks is not found by TLC")
        found.append("noNul+xdrNoNul -> %s (each alone is masked by the other check)" % r["violated"])
    ctx.notes.append("non-vacuity: TLC finds the violation for these one-site mutations of the transcribed pipeline: " + "; ".join(found))
    return tokfile, tb


def validate(ctx, trace, label):
    cfg = ctx.write_cfg("PathGuard", "Trace_%s.cfg" % label, TRACE_CFG % ctx.tla_set(ctx.known_devs([PID])))
    res = ctx.tlc_trace("PathGuard", "PathGuardTrace", cfg, trace, out_name="res_%s.json" % label, timeout=1500, heap="6g")
    if res["consumed"] != res["n"]:
        raise vflib.Broken("trace spec consumed %s of %s lines" % (res["consumed"], res["n"]))
    if any("unknown backend operation" in d["why"] for d in res["drift"]):
        raise vflib.Broken("the call log contains a backend operation the trace spec does not know (vf_vfs.go changed?)")
    return res


def validate_parts(ctx, trace, max_bytes=28 << 20):
    """Validate a long trace in parts cut at history boundaries (one TLC run each, so that the JSON
    of one part stays well inside the heap); line numbers of the merged result are global."""
    lines = open(trace).read().splitlines()
    parts, cur, size, first = [], [], 0, 1
    for i, ln in enumerate(lines):
        if '"ev":"reset"' in ln and cur and size > max_bytes:
            parts.append((first, cur))
            cur, size, first = [], 0, i + 1
        cur.append(ln)
        size += len(ln) + 1
    if cur:
        parts.append((first, cur))
    if len(parts) == 1:
        return validate(ctx, trace, "main")
    merged = None
    for k, (first, body) in enumerate(parts):
        pp = os.path.join(ctx.scratch, "part_%d.ndjson" % k)
        open(pp, "w").write("\n".join(body) + "\n")
        res = validate(ctx, pp, "part%d" % k)
        os.unlink(pp)
        for key in ("bad", "dev", "drift"):
            for b in res[key]:
                b["l"] += first - 1
        if merged is None:
            merged = res
        else:
            for key in ("bad", "dev", "drift"):
                merged[key] += res[key]
            merged["slots"] = sorted(set(merged["slots"]) | set(res["slots"]))
            for s, v in res["stats"].items():
                merged["stats"][s] += v
            merged["n"] += res["n"]
            merged["consumed"] += res["consumed"]
    ctx.notes.append("the recorded trace (%d lines) was validated in %d parts cut at history boundaries" % (len(lines), len(parts)))
    return merged


def history_of(lines, lno):
    """The reset line, the last sync line before the step (it supplies the pre-state after the harness
    restored the tree) and the step's own neighbourhood."""
    start = lno - 1
    while start > 0 and '"ev":"reset"' not in lines[start]:
        start -= 1
    pre = lno - 2
    keep = [lines[start]]
    # the preceding history proper (slot PRE) and plant
    for k in range(start + 1, lno - 2):
        if '"slot":"PRE"' in lines[k] or '"why":"plant"' in lines[k]:
            keep.append(lines[k])
    if pre > start:
        keep.append(lines[pre])
    keep.append(lines[lno - 1])
    return [l.rstrip("\n") for l in keep]


def report(ctx, res, trace):
    lines = open(trace).readlines()
    seen = {}
    for b in sorted(res["bad"], key=lambda x: x["l"]):
        seen[b["why"]] = seen.get(b["why"], 0) + 1
        if seen[b["why"]] > 2:
            continue
        e = json.loads(lines[b["l"] - 1])
        what = "%s slot %s name %s%s%s status %s" % (e.get("proc"), e.get("slot"), "+".join(e.get("nm") or e.get("nm2") or e.get("mp") or []) or "-",
                                                   (" name2 " + "+".join(e["nm2"])) if e.get("hasnm") and e.get("hasnm2") else "",
                                                   (" target " + "+".join(e["tgt"])) if e.get("hastgt") else "", e.get("st"))
        ctx.violation("%s [%s] (line %d)" % (b["why"], what, b["l"]), history_of(lines, b["l"]), {"line": b["l"], "count_same_reason": seen[b["why"]]})
    for why, n in seen.items():
        if n > 2:
            ctx.notes.append("%d recorded requests failed with: %s (2 replays written)" % (n, why))
    for d in res["dev"]:
        ent = [e for e in ctx.known() if e["deviation"] == d["name"]]
        if ent:
            ctx.known_finding(d["name"], ent[0]["what"])
    if res["drift"]:
        ctx.cov["impl_model_drift"] = sorted({d["why"] for d in res["drift"]})
        ctx.notes.append("impl-level drift (not a verdict): " + "; ".join(ctx.cov["impl_model_drift"]))


# ---------------------------------------------------------------- binding demonstration
def _mut_path(e):
    """A backend call is rewritten to a path outside the allowed set (two more components: one more could
    happen to be the very name the request carries, as on seed 4 where the name was "b" = hex 62)."""
    if e.get("ev") == "req" and e.get("hasnm") and e.get("calls") and e.get("proc") in ("LOOKUP", "CREATE", "MKDIR"):
        for c in e["calls"]:
            if c["op"] in ("Lstat", "Mkdir") and c["abs"]:
                c["c"] = c["c"] + ["62", "7a7a"]
                return e
    return None


def _mut_status(e):
    """A refused invalid name is reported as success."""
    if e.get("ev") == "req" and e.get("hasnm") and not e.get("ok") and "sl" in e.get("nm", []) and e.get("proc") in ("CREATE", "MKDIR", "REMOVE"):
        e["ok"], e["st"] = True, "OK"
        return e
    return None


def _mut_readlink(e):
    """A refused READLINK of a '..' target is reported as having returned it."""
    if e.get("ev") == "req" and e.get("proc") == "READLINK" and not e.get("ok") and e.get("slot") == "READLINK":
        e["ok"], e["st"] = True, "OK"
        e["rl"] = {"has": True, "abs": False, "c": ["2e2e"], "hex": "2e2e"}
        return e
    return None


def _mut_token(e):
    """The log claims another (valid) name was sent than the one the backend saw: HexOf must catch it."""
    if e.get("ev") == "req" and e.get("slot") == "PRE" and e.get("proc") == "MKDIR" and e.get("ok") and e.get("calls"):
        e["nm"] = e["nm"] + ["a"]
        return e
    return None


def corrupted_histories(lines):
    """Binding demonstration: four corruptions of recorded lines, each at the end of a copy of its own
    history.  They are appended to the recorded trace and validated in the same TLC run; every
    corrupted line must be rejected and nothing else of the copies may be."""
    out, expect = [], {}
    for label, mut in (("path", _mut_path), ("status", _mut_status), ("readlink", _mut_readlink), ("token", _mut_token)):
        for i, ln in enumerate(lines):
            if '"ev":"req"' not in ln:
                continue
            m = mut(json.loads(ln))
            if m is None:
                continue
            start = i
            while start > 0 and '"ev":"reset"' not in lines[start]:
                start -= 1
            out += lines[start:i] + [json.dumps(m, separators=(",", ":"))]
            expect[len(out)] = label
            break
        else:
            raise vflib.Broken("binding demonstration (%s): no line to corrupt" % label)
    return out, expect


def check_demo(ctx, res, n_main, expect, main_clean):
    badl = {b["l"] - n_main for b in res["bad"] if b["l"] > n_main}
    for lno, label in expect.items():
        if lno not in badl:
            raise vflib.Broken("binding demonstration failed (%s): the corrupted line was accepted" % label)
        ctx.cov["binding_mutations_rejected"] += 1
    if main_clean and badl - set(expect):
        raise vflib.Broken("binding demonstration: uncorrupted lines of the copies were rejected: %s" % sorted(badl - set(expect))[:5])


def replay(ctx):
    lines = [l for l in open(ctx.replay).read().splitlines() if l.strip()]
    body = [l for l in lines if json.loads(l).get("ev") != "meta"]
    tp = os.path.join(ctx.scratch, "replay.ndjson")
    open(tp, "w").write("\n".join(body) + "\n")
    res = validate(ctx, tp, "replay")
    for b in res["bad"]:
        ctx.violation(b["why"], body, {"replayed": ctx.replay})
    ctx.cov["evaluations"] = len(body)
    ctx.cov["distinct_nontrivial"] = 1
    ctx.sample({"replayed": ctx.replay})


def run(ctx):
    if ctx.replay:
        return replay(ctx)
    tokfile, tb = exhaustive(ctx)
    binp = ctx.build_harness(HARNESS)
    q = ctx.quick()
    env = {"VF_PG_TOKENS": tokfile, "VF_PG_LEN": 3 if q else 4, "VF_PG_RANDOM": 120 if q else 400,
           "VF_PG_CHUNK": 40 if q else 60, "VF_PG_TLEN": 4 if q else 5}
    ctx.harness_ok(binp, "TestVF_PathGuard", env, timeout=1500)
    ctx.log("harness recorded the trace")
    trace = os.path.join(ctx.scratch, "pathguard.ndjson")
    summ = json.load(open(os.path.join(ctx.scratch, "pathguard.summary.json")))
    lines = open(trace).read().splitlines()
    n_main = len(lines)
    demo, expect = corrupted_histories(lines)
    alltrace = os.path.join(ctx.scratch, "pathguard_all.ndjson")
    open(alltrace, "w").write("\n".join(lines + demo) + "\n")
    res = validate_parts(ctx, alltrace)
    ctx.log("trace validated: %d lines, %d bad, %d drift" % (res["n"], len(res["bad"]), len(res["drift"])))
    demo_res = {k: [b for b in res[k] if b["l"] > n_main] for k in ("bad", "dev", "drift")}
    for k in ("bad", "dev", "drift"):
        res[k] = [b for b in res[k] if b["l"] <= n_main]
    report(ctx, res, trace)
    check_demo(ctx, {"bad": demo_res["bad"]}, n_main, expect, not res["bad"])
    res["stats"]["req"] -= sum(1 for l in demo if '"ev":"req"' in l)
    st = res["stats"]
    ctx.cov["traces_validated_against_impl"] = summ["histories"]
    ctx.cov["evaluations"] = st["req"]
    ctx.cov["distinct_nontrivial"] = summ["nontrivial"]
    ctx.cov["trace_stats"] = st
    ctx.cov["trace_stats_note"] = "counters other than req include the %d lines of the corrupted copies appended for the binding demonstration" % len(demo)
    ctx.cov["slots"] = sorted(res["slots"])
    ctx.cov["vectors"] = {k: summ[k] for k in ("vectors", "exhaustive", "maxlen", "random", "long", "planted", "restores", "export_mnt")}
    if summ["export_mnt"] == 0:
        raise vflib.Broken("no MNT vector was sent under a non-root export name")
    need = {"LOOKUP", "CREATE", "MKDIR", "SYMLINK_NAME", "SYMLINK_TARGET", "MKNOD", "REMOVE", "RMDIR", "RENAME_FROM", "RENAME_TO", "LINK", "MNT", "READLINK"}
    if not need <= set(res["slots"]):
        raise vflib.Broken("the recorded trace does not cover every argument slot: missing %s" % sorted(need - set(res["slots"])))
    # vacuity guards: the run must have seen names accepted and refused, paths joined, links read and refused
    for k in ("invalid", "okvalid", "joined", "newlinks", "rl_ok", "rl_refused", "badtgt", "mnt"):
        if st[k] == 0:
            raise vflib.Broken("the recorded trace is vacuous for '%s' (harness or backend changed?)" % k)
    for s in summ.get("samples", [])[:1]:
        ctx.sample(s)
    with open(trace) as f:
        for i, ln in enumerate(f):
            e = json.loads(ln)
            if e.get("ev") == "req" and e.get("slot") == "CREATE" and e.get("ok"):
                e.pop("tree", None)
                ctx.sample({"recorded_line": e})
                break
    ctx.cov["rule"] = ("every token string over {a . / \\ NUL F250 F5} up to length %d (%d strings), %d long vectors (255/256/4096/8192/8193 bytes) and %d "
                       "seeded random strings over the extended alphabet, each sent in LOOKUP, CREATE, MKDIR, SYMLINK name, SYMLINK target, MKNOD, REMOVE, "
                       "RMDIR, RENAME from, RENAME to, LINK and MNT (as is, with a leading '/', and - in the histories whose export is published under "
                       "a name such as /a, /b/aa or /xxxxx (AbsfsNFS.Export's mountPath) - directly behind that name and behind name + '/') through handles at depth 0..2 (also file and symlink "
                       "handles) after a seeded preceding history, under 4 cache configurations; %d links planted in the backend with every target over "
                       "{a . /} up to length %d read back with READLINK. A (slot, string) pair is non-trivial when the string contains a token other than "
                       "a plain letter; distinct pairs are counted by the harness."
                       % (summ["maxlen"], summ["exhaustive"], summ["long"], summ["random"], summ["planted"], env["VF_PG_TLEN"]))
    ctx.cov["spec_actions_covered_by_impl"] = ["Decode", "Validate", "TargetCheck", "Handler", "Ops", "Mnt", "Readlink"]
    ctx.assumptions += [
        "the vfs backend records the path arguments exactly as passed (vf_vfs.go rec); operations on an already open file (ReadAt, Close, ...) "
        "carry the name recorded at open time and are not path arguments",
        "a handle denotes the path it was issued for (MNT '/', or the directory's path plus the validated name of the LOOKUP/CREATE/MKDIR/SYMLINK "
        "that returned it); handle recycling is C06's business and does not occur here (default table size)",
        "'containing ..' in the READLINK clause is read as 'having a component equal to ..' (split at '/'), as in the symlink clause; "
        "a target such as 'a..b' is not a traversal",
        "an empty symlink target and LOOKUP of '.' answered with the directory itself are accepted either way (the property does not exclude them)",
        "READDIR/READDIRPLUS take no name from the client and are not driven here; entry names they join come from the backend's own listing",
        "filler bytes are 'x'; the token table sent is the one TLC dumped from the spec, so a token's bytes are defined once, in TLA+",
    ]

"""Exhaustive TLC configurations of the Core design specs (Namespace, FileData)."""
import vflib

NS_CFG = """SPECIFICATION Spec
CONSTANTS
  Names = {"a", "b"}
  Kinds = %(kinds)s
  Neg = %(neg)s
  DirC = %(dirc)s
  FixMkdir = %(fixmkdir)s
  FixRename = %(fixrename)s
  Deep = %(deep)s
INVARIANTS %(invs)s
"""

FD_CFG = """SPECIFICATION Spec
CONSTANTS
  Bytes = {1, 2}
  MaxOff = %(maxoff)d
  MaxLen = %(maxlen)d
  T = %(T)d
  MaxFS = %(maxfs)d
INVARIANTS SameModel ReadRule WriteRule Bounded
PROPERTY RefusedUnchanged
"""


def b(x):
    return "TRUE" if x else "FALSE"


def namespace(ctx):
    """Cache transparency of the namespace path (C02), all four cache configurations."""
    fm = ctx.finding_status("F02") == "fixed"
    fr = ctx.finding_status("F03") == "fixed"
    # measured: Names {a,b}, Deep {a}, kinds F,D, both caches: 76 k distinct / 4.7 M generated, 36 s at 8 workers
    combos = [(True, True)] if ctx.quick() else [(n, d) for n in (False, True) for d in (False, True)]
    kinds = '{"F", "D"}' if ctx.quick() else '{"F", "D", "L"}'
    for neg, dirc in combos:
        cfg = ctx.write_cfg("Core", "MC_ns_%d%d.cfg" % (neg, dirc), NS_CFG % dict(
            kinds=kinds, neg=b(neg), dirc=b(dirc), fixmkdir=b(fm), fixrename=b(fr), deep='{"a"}',
            invs="TypeOK Transparent MutationsAgree" if (fm and fr) else "TypeOK"))
        ctx.tlc_exhaustive("Core", "Namespace", cfg, timeout=1500)
    ctx.cov["exhaustive"] = True
    # non-vacuity: without the two repairs TLC finds the stale-cache behaviours F02 / F03
    for name, fmk, frn in (("nomkdirfix", False, True), ("norenamefix", True, False)):
        cfg = ctx.write_cfg("Core", "MC_ns_%s.cfg" % name, NS_CFG % dict(
            kinds='{"F", "D"}', neg="TRUE", dirc="TRUE", fixmkdir=b(fmk), fixrename=b(frn), deep='{"a"}',
            invs="Transparent MutationsAgree"))
        r = ctx.tlc_exhaustive("Core", "Namespace", cfg, expect_ok=False, count=False, timeout=600)
        if r["violated"] not in ("Transparent", "MutationsAgree"):
            raise vflib.Broken("non-vacuity run %s: expected a transparency violation, got %s" % (name, r["violated"]))
    ctx.notes.append("non-vacuity: with FixMkdir=FALSE or FixRename=FALSE TLC finds the stale negative entry after MKDIR (F02) "
                     "and the stale descendant after a directory RENAME (F03)")


def filedata(ctx, maxfs_values=(0, 4)):
    for mfs in maxfs_values:
        for T in ((2,) if ctx.quick() else (2, 3)):
            cfg = ctx.write_cfg("Core", "MC_fd_%d_%d.cfg" % (mfs, T), FD_CFG % dict(
                maxoff=3 if ctx.quick() else 4, maxlen=2 if ctx.quick() else 3, T=T, maxfs=mfs))
            ctx.tlc_exhaustive("Core", "FileData", cfg, timeout=1500)
    ctx.cov["exhaustive"] = True


SMALL_CFG = """SPECIFICATION Spec
CONSTANTS
%s
%s
"""


def small(ctx, module, consts, props, expect_ok=True, count=True, name=None):
    cfg = ctx.write_cfg("Core", name or ("MC_%s.cfg" % module), SMALL_CFG % (consts, props))
    return ctx.tlc_exhaustive("Core", module, cfg, expect_ok=expect_ok, count=count, timeout=900, deadlock=False)


def durability(ctx):
    fixed = ctx.finding_status("F14") == "fixed"
    consts = " Vals = {1, 2}\n Len0 = %d\n MaxWrites = %d\n SyncInWrite = %%s" % ((2, 3) if ctx.quick() else (3, 4))
    if fixed:
        small(ctx, "Durability", consts % "TRUE", "INVARIANT Stable")
    r = small(ctx, "Durability", consts % "FALSE", "INVARIANT Stable", expect_ok=False, count=not fixed, name="MC_Durability_nosync.cfg")
    if r["violated"] != "Stable":
        raise vflib.Broken("Durability without sync should violate Stable")
    ctx.cov["exhaustive"] = True
    ctx.notes.append("non-vacuity: without a sync in the write path TLC finds a crash point after the first FILE_SYNC reply that loses acknowledged data (F14)")


def ownership(ctx):
    fixed = ctx.finding_status("F08") == "fixed"
    ids = "{0, 1000, 65534}" if ctx.quick() else "{0, 7, 1000, 65534}"
    consts = ' Ids = %s\n Objs = {"x", "y"}\n Modes = {"none", "root", "all", "bogus"}\n CreateChowns = %%s' % ids
    if fixed:
        small(ctx, "Ownership", consts % "TRUE", "INVARIANT NewGetsCaller\nPROPERTY NonRootOnlyOwn")
    r = small(ctx, "Ownership", consts % "FALSE", "INVARIANT NewGetsCaller\nPROPERTY NonRootOnlyOwn", expect_ok=False, count=not fixed,
              name="MC_Ownership_nochown.cfg")
    if not r["violated"]:
        raise vflib.Broken("Ownership without the CREATE chown should violate NewGetsCaller")
    ctx.cov["exhaustive"] = True
    ctx.notes.append("non-vacuity: with CreateChowns=FALSE (finding F08) TLC finds a CREATE by a non-root caller whose file is owned by the server identity")


def readonly(ctx):
    consts = (' Procs = {"GETATTR", "ACCESS", "READ", "SETATTR", "WRITE", "CREATE", "MKDIR", "SYMLINK", "MKNOD", "REMOVE", "RMDIR", "RENAME", "LINK", "COMMIT"}\n'
              ' MutProcs = {"SETATTR", "WRITE", "CREATE", "MKDIR", "SYMLINK", "MKNOD", "REMOVE", "RMDIR", "RENAME", "LINK", "COMMIT"}\n'
              ' ArgKinds = {"wellformed", "truncated", "garbage"}\n GuardFirst = %s')
    small(ctx, "ReadOnly", consts % "TRUE", "INVARIANT NeverModified\nPROPERTY Unchanged")
    r = small(ctx, "ReadOnly", consts % "FALSE", "INVARIANT NeverModified\nPROPERTY Unchanged", expect_ok=False, count=False, name="MC_ReadOnly_late.cfg")
    if not r["violated"]:
        raise vflib.Broken("ReadOnly with a late guard should violate NeverModified")
    ctx.cov["exhaustive"] = True

"""Exhaustive TLC configurations of the Core design specs (Namespace, FileData)."""
import vflib

NS_CFG = """SPECIFICATION Spec
CONSTANTS
  Names = {"a", "b"}
  Kinds = %(kinds)s
  Neg = %(neg)s
  DirC = %(dirc)s
  FixMkdir = %(fixmkdir)s
  FixRename = %(fixrename)s
  Deep = %(deep)s
INVARIANTS %(invs)s
"""

FD_CFG = """SPECIFICATION Spec
CONSTANTS
  Bytes = {1, 2}
  MaxOff = %(maxoff)d
  MaxLen = %(maxlen)d
  T = %(T)d
  MaxFS = %(maxfs)d
INVARIANTS SameModel ReadRule WriteRule Bounded
PROPERTY RefusedUnchanged
"""


def b(x):
    return "TRUE" if x else "FALSE"


def namespace(ctx):
    """Cache transparency of the namespace path (C02), all four cache configurations."""
    fm = ctx.finding_status("F02") == "fixed"
    fr = ctx.finding_status("F03") == "fixed"
    # measured: Names {a,b}, Deep {a}, kinds F,D, both caches: 76 k distinct / 4.7 M generated, 36 s at 8 workers
    combos = [(True, True)] if ctx.quick() else [(n, d) for n in (False, True) for d in (False, True)]
    kinds = '{"F", "D"}' if ctx.quick() else '{"F", "D", "L"}'
    for neg, dirc in combos:
        cfg = ctx.write_cfg("Core", "MC_ns_%d%d.cfg" % (neg, dirc), NS_CFG % dict(
            kinds=kinds, neg=b(neg), dirc=b(dirc), fixmkdir=b(fm), fixrename=b(fr), deep='{"a"}',
            invs="TypeOK Transparent MutationsAgree" if (fm and fr) else "TypeOK"))
        ctx.tlc_exhaustive("Core", "Namespace", cfg, timeout=1500)
    ctx.cov["exhaustive"] = True
    # non-vacuity: without the two repairs TLC finds the stale-cache behaviours F02 / F03
    for name, fmk, frn in (("nomkdirfix", False, True), ("norenamefix", True, False)):
        cfg = ctx.write_cfg("Core", "MC_ns_%s.cfg" % name, NS_CFG % dict(
            kinds='{"F", "D"}', neg="TRUE", dirc="TRUE", fixmkdir=b(fmk), fixrename=b(frn), deep='{"a"}',
            invs="Transparent MutationsAgree"))
        r = ctx.tlc_exhaustive("Core", "Namespace", cfg, expect_ok=False, count=False, timeout=600)
        if r["violated"] not in ("Transparent", "MutationsAgree"):
            raise vflib.Broken("non-vacuity run %s: expected a transparency violation, got %s" % (name, r["violated"]))
    ctx.notes.append("non-vacuity: with FixMkdir=FALSE or FixRename=FALSE TLC finds the stale negative entry after MKDIR (F02) "
                     "and the stale descendant after a directory RENAME (F03)")


def filedata(ctx, maxfs_values=(0, 4)):
    for mfs in maxfs_values:
        for T in ((2,) if ctx.quick() else (2, 3)):
            cfg = ctx.write_cfg("Core", "MC_fd_%d_%d.cfg" % (mfs, T), FD_CFG % dict(
                maxoff=3 if ctx.quick() else 4, maxlen=2 if ctx.quick() else 3, T=T, maxfs=mfs))
            ctx.tlc_exhaustive("Core", "FileData", cfg, timeout=1500)
    ctx.cov["exhaustive"] = True

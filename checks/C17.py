"""C17: connections are bounded, accounted, reaped when idle, and fully shut down (specs/ConnMgr).

exhaustive TLC runs of the design spec (+ liveness under fairness, + non-vacuity runs)
-> histories of concurrent opens / pings / closes / idle periods / Stop / Close / Unexport over real TCP
   (servers started with Server.Listen and with AbsfsNFS.Export), under -race, with goroutine census
-> the recorded hook / client / driver events validated by TLC: ideal level (verdict) and impl level
   (LV search with silent internal steps against the actions of ConnMgr)."""
import json, os, sys
sys.path.insert(0, os.path.dirname(os.path.abspath(__file__)))
import vflib
import policyconn_common as pc

LEVEL = "model_checking"
HARNESS = ["vf_common.go", "vf_vfs.go", "vf_policyswap.go", "vf_connmgr.go"]

MC_CFG = """SPECIFICATION %(spec)s
CONSTANTS
  Conns = %(conns)s
  Max = %(max)d
  IdleT = %(idlet)d
  Stops = %(stops)s
  Nfs = %(nfs)s
  Exported = %(exported)s
  Slow = %(slow)s
  Denied = %(denied)s
  Mutant = "%(mutant)s"
%(tail)s
"""
SAFETY = "INVARIANTS TypeOK CountMatches CountedOnce GoneUncounted RefusedUncounted Bounded ServedAreCounted AfterStop AfterClose\nPROPERTIES NothingAfterStop NoReapMidCall"

TRACE_TLA = """---- MODULE MCConnMgrTrace ----
EXTENDS ConnMgrTrace
TConns == 1..12
TStops == {1, 2, 3, 11}
TNfs == 1..4
TIdle == -1
====
"""
TRACE_CFG = """INIT TInit
NEXT TNext
CONSTANTS
  Conns <- TConns
  Max = 0
  IdleT <- TIdle
  Stops <- TStops
  Nfs <- TNfs
  Exported = FALSE
  Slow = {}
  Denied = {}
  Mutant = "none"
  KnownDeviations = %(known)s
  Mode = "%(mode)s"
%(tail)s
"""


def mc(ctx, name, **kw):
    d = dict(spec="Spec", conns="{1, 2}", max=1, stops="{1}", nfs="{}", exported="TRUE", slow="{}", denied="{}", idlet=1, mutant="none", tail=SAFETY)
    d.update(kw)
    return ctx.write_cfg("ConnMgr", name, MC_CFG % d)


def exhaustive(ctx):
    q = ctx.quick()
    W = dict(workers=4 if q else 16, deadlock=False, heap="4g")
    # measured (distinct states): 2 conns / 1 Stop: 1.8e5; 1 conn / 2 Stops / 1 Close: 7.1e4; 2 conns / 2 Stops / 1 Close: 4.3e6;
    # 3 conns / Max 2 / 1 Stop / IdleT 0: 5.8e6 (with IdleT 1: 1.8e7, 7 min); a slow and a fast conn / 1 Stop / 1 Close: 1.1e6
    ctx.tlc_exhaustive("ConnMgr", "ConnMgr", mc(ctx, "MC_conns.cfg"), timeout=600, **W)
    # an address filter: one connection comes from outside AllowedIPs
    ctx.tlc_exhaustive("ConnMgr", "ConnMgr", mc(ctx, "MC_acl.cfg", denied="{1}"), timeout=600, **W)
    ctx.tlc_exhaustive("ConnMgr", "ConnMgr", mc(ctx, "MC_stops.cfg", conns="{1}", stops="{1, 2}", nfs="{1}"), timeout=600, **W)
    # requests that take time: Close / Stop while one executes in the worker pool, the idle reaper and a call in progress
    # (the application's own server; measured: one slow connection 2.2e4 states, a slow and a fast one 1.1e6)
    # (in the quick tier safety and liveness in one run: FairSpec; idle connections are reaped, a Stop that was called returns)
    ctx.tlc_exhaustive("ConnMgr", "ConnMgr", mc(ctx, "MC_slow.cfg", spec="FairSpec" if q else "Spec", conns="{1}" if q else "{1, 2}", slow="{1}",
                                                nfs="{1}", exported="FALSE", tail=SAFETY + (" Reaped StopTerminates" if q else "")),
                       timeout=900, **W)
    if not q:
        ctx.tlc_exhaustive("ConnMgr", "ConnMgr", mc(ctx, "MC_both.cfg", stops="{1, 2}", nfs="{1}"), timeout=1200, **W)
        ctx.tlc_exhaustive("ConnMgr", "ConnMgr", mc(ctx, "MC_managed.cfg", conns="{1}", stops="{1}", nfs="{1, 2}", exported="FALSE"),
                           timeout=1200, **W)
        ctx.tlc_exhaustive("ConnMgr", "ConnMgr", mc(ctx, "MC_three.cfg", conns="{1, 2, 3}", max=2, stops="{1}", nfs="{}", idlet=0), timeout=1800, **W)
    # liveness: idle connections are reaped, a Stop that was called returns (weak fairness on the server's steps)
    if not q:
        ctx.tlc_exhaustive("ConnMgr", "ConnMgr", mc(ctx, "MC_live.cfg", spec="FairSpec", tail="PROPERTIES Reaped StopTerminates"),
                           timeout=1200, **W)
    ctx.cov["exhaustive"] = True
    nv = [("StopNoWait", dict(conns="{1}", stops="{1, 2}", nfs="{1}"), ("AfterStop", "AfterClose", "NothingAfterStop"))]
    if not q:
        nv += [("RegisterBeforeAcl", dict(denied="{1}"), ("RefusedUncounted", "CountedOnce", "CountMatches")),
               ("ReleaseBeforePoolStop", dict(conns="{1}", slow="{1}", nfs="{1}", exported="FALSE"), ("AfterClose",)),
               ("NoRefreshAtRead", dict(slow="{1}", nfs="{}", exported="FALSE"), ("NoReapMidCall", "Bounded", "ServedAreCounted")),
               ("DoubleUnreg", dict(conns="{1}", stops="{1, 2}", nfs="{1}"), ("CountMatches", "CountedOnce")),
               ("NoLimit", dict(), ("Bounded",)),
               ("CloseNoRelease", dict(conns="{1}", stops="{1, 2}", nfs="{1}"), ("AfterClose",))]
    for name, kw, expect in nv:
        r = ctx.tlc_exhaustive("ConnMgr", "ConnMgr", mc(ctx, "MC_nv_%s.cfg" % name, mutant=name, **kw), expect_ok=False, count=False,
                               timeout=600, **W)
        if r["violated"] not in expect:
            raise vflib.Broken("non-vacuity run %s: expected one of %s to be violated, got %s" % (name, expect, r["violated"]))
    ctx.notes.append("non-vacuity: TLC finds the C17 invariants violated by the seeded design errors " + ", ".join(n for n, _, _ in nv))


def trace_cfg(ctx, mode, name):
    tail = "CONSTRAINT HighWater\nPOSTCONDITION ImplPost" if mode == "impl" else ""
    ctx.write_cfg("ConnMgr", "MCConnMgrTrace.tla", TRACE_TLA)
    return ctx.write_cfg("ConnMgr", name, TRACE_CFG % dict(known=ctx.tla_set(ctx.known_devs(["C17"])), mode=mode, tail=tail))


def mutants(ctx, lines):
    hs = pc.histories(lines)
    m1 = m2 = None
    for _, h in hs:
        ev = [json.loads(x) for x in h]
        if m1 is None:
            for i, e in enumerate(ev):
                if e["ev"] == "cm.accept":
                    m = ev[:i] + [dict(e, count=e["count"] + 1)] + ev[i + 1:]     # the recorded count is wrong
                    m[0] = dict(m[0], hist=900001, kind="mutant:field")
                    m1 = m
                    break
        if m2 is None:
            idx = [i for i, e in enumerate(ev) if e["ev"] == "cm.unreg"]
            if idx:
                i = idx[0]                                                       # the hook event of an unregister is dropped
                m = ev[:i] + ev[i + 1:]
                m[0] = dict(m[0], hist=900002, kind="mutant:drop")
                m2 = m
        if m1 and m2:
            break
    if not (m1 and m2):
        raise vflib.Broken("binding demonstration: no recorded history offers a cm.accept and a cm.unreg")
    order = [m1, m2] if ctx.seed % 2 else [m2, m1]
    return [[json.dumps(e, separators=(",", ":")) for e in m] for m in order]


def run_trace(ctx, trace, label, mode):
    return ctx.tlc_trace("ConnMgr", "MCConnMgrTrace", trace_cfg(ctx, mode, "Trace_%s_%s.cfg" % (mode, label)), trace,
                         dfs=(mode == "impl"), out_name="res_%s_%s.json" % (mode, label), heap="4g")


def run(ctx):
    if ctx.replay:
        return replay(ctx)
    q = ctx.quick()
    binp = ctx.build_harness(HARNESS, race=True, name="vf-race.test")
    pc.run_drivers(ctx, binp, "TestVF_PolicyConnHooks", {}, timeout=120)   # exit 2 at once when the hook call sites are absent
    exhaustive(ctx)
    racelog = os.path.join(ctx.scratch, "race")
    env = {"VF_HIST": 16 if q else 64, "VF_STOPRACE": 6 if q else 24, "GORACE": "log_path=%s halt_on_error=0 exitcode=0" % racelog}
    out = pc.run_drivers(ctx, binp, "TestVF_ConnMgr", env, timeout=900, allow_race_exit=True)
    p = os.path.join(ctx.scratch, "cm.ndjson")
    if not os.path.exists(p):
        raise vflib.Broken("driver wrote no trace:\n" + out[-3000:])
    summ = json.load(open(os.path.join(ctx.scratch, "cm.summary.json")))
    lines = [l for l in open(p).read().splitlines() if l.strip()]
    races = pc.parse_race_logs(racelog)
    if [r for r in races if r["harness"]]:
        raise vflib.Broken("the harness itself has a data race (not a verdict): %s" % races[:2])
    if races:
        ctx.notes.append("race detector reports during connection management (C17 does not state race freedom; see C29/C16): %s"
                         % sorted({(r["a"], r["b"]) for r in races}))
    n_real = len(lines)
    muts = mutants(ctx, lines)
    for m in muts:
        lines += m
    trace = os.path.join(ctx.scratch, "cm_all.ndjson")
    open(trace, "w").write("\n".join(lines) + "\n")
    ideal = run_trace(ctx, trace, "all", "ideal")
    if ideal["consumed"] != ideal["n"]:
        raise vflib.Broken("ideal pass consumed %s of %s lines" % (ideal["consumed"], ideal["n"]))
    impl = run_trace(ctx, trace, "all", "impl")
    hists = pc.histories(lines)
    real_hists = [h for h in hists if h[0] <= n_real]

    seen_reason, mut_bad = {}, set()
    for b in sorted(ideal["bad"], key=lambda x: x["l"]):
        if b["hist"] >= 900000:
            mut_bad.add(b["hist"])
            continue
        why = b["why"]
        seen_reason[why] = seen_reason.get(why, 0) + 1
        if seen_reason[why] > 2:
            continue
        start, hl = pc.history_at(hists, b["l"])
        if why.startswith("[timed]") and not confirm_timed(ctx, binp, json.loads(hl[0]), why):
            ctx.notes.append("a real-time observation did not reproduce and was not counted: %s (history %s)" % (why, b["hist"]))
            continue
        ctx.violation("%s (history %s kind %s, line %d of it)" % (why, b["hist"], json.loads(hl[0]).get("kind"), b["l"] - start + 1),
                      hl[:b["l"] - start + 1], {"history": json.loads(hl[0]), "line": b["l"]})
    for d in ideal["dev"]:
        ent = [e for e in ctx.known() if e["deviation"] == d["name"]]
        if ent and d["hist"] < 900000:
            ctx.known_finding(d["name"], ent[0]["what"])
    real_drift = sorted({d["why"] for d in ideal["drift"] if d["hist"] < 900000})
    if real_drift:
        ctx.cov.setdefault("impl_model_drift", []).extend(real_drift)

    explained = len([h for h in real_hists if h[0] + len(h[1]) - 1 <= impl["consumed"]])
    if impl["consumed"] < n_real:
        start, hl = pc.history_at(hists, impl["consumed"] + 1)
        ctx.cov.setdefault("impl_model_drift", []).append(
            "no behaviour of ConnMgr explains event %s (line %d of history %s kind %s); later histories were not searched"
            % (lines[impl["consumed"]], impl["consumed"] + 2 - start, json.loads(hl[0]).get("hist"), json.loads(hl[0]).get("kind")))
        ctx.notes.append("impl-level drift: a recorded history is not a behaviour of specs/ConnMgr; the exhaustive result no longer "
                         "speaks about this code (not a verdict)")
        ctx.log("impl-level drift (not a verdict): " + ctx.cov["impl_model_drift"][-1][:300])
    else:
        if impl["consumed"] >= n_real + len(muts[0]):
            raise vflib.Broken("binding demonstration failed: the corrupted history %s was explained by the impl-level search"
                               % json.loads(muts[0][0])["kind"])
        ctx.cov["binding_mutations_rejected"] += 1
    want = {json.loads(m[0])["hist"] for m in muts}
    if not want <= mut_bad:
        raise vflib.Broken("binding demonstration failed: corrupted histories %s were accepted by the ideal level" % sorted(want - mut_bad))
    ctx.cov["binding_mutations_rejected"] += len(want)

    ctx.cov["traces_validated_against_impl"] = explained
    ctx.cov["evaluations"] = n_real
    ctx.cov["distinct_nontrivial"] = summ["nontrivial"]
    ctx.cov["trace_stats"] = ideal["stats"]
    ctx.cov["void_histories"] = summ["void"]
    for s in summ.get("samples", [])[:2]:
        ctx.sample(s)
    ctx.sample({"recorded_history": [json.loads(x) for x in real_hists[0][1][:50]]})
    ctx.cov["rule"] = ("seeded histories over real TCP (loopback): limit (more clients than MaxConnections, sequential then concurrent), idle "
                       "(IdleTimeout 100 ms, one silent and one never-used connection, one busy), random (4-7 clients with random pings / "
                       "closes / idle periods, Stop at a random moment, possibly two Stops at once), stoprace (8 clients connecting while "
                       "Stop runs), export (server started by AbsfsNFS.Export, Close / Unexport stop it), managed (handles and caches "
                       "filled through the wire, Stop, then Close / Unexport repeated), stopbusy / closebusy (Stop resp. Close called "
                       "while requests execute in the backend for 0.3 s), midcall (MaxConnections 1, IdleTimeout 1 s: quiet 0.8 s, then a "
                       "call the backend holds 0.8 s while other clients try to connect), acl (AllowedIPs 127.0.0.1, attempts from 127.0.0.2-4 "
                       "then allowed clients up to the limit); the idle history runs with rate limiting on, one connection's last call is "
                       "refused by the limiter. Every history ends with probes of all "
                       "connections, a new dial, a goroutine census and repeated Stop / Close / Unexport. A history is non-trivial when "
                       "a connection was rejected at the limit or reaped")
    ctx.cov["spec_actions_covered_by_impl"] = ["Listen", "Dial", "PeerClose", "AccCheck", "AccTake", "AccErr", "Register", "Reject", "Serve",
                                               "ConnNotice", "ConnExit", "ReapPick(one)", "ReapClose", "IdleExit", "StopCancel",
                                               "StopCloseListener", "StopCollect", "StopCloseOne", "StopWait", "StopReturn", "NfsBegin",
                                               "NfsStopped", "NfsPoolStop", "NfsRelease", "NfsClear", "LocalUse", "ServeBegin", "ServeEnd"]
    ctx.assumptions += ["the vhook call sites cm.accept / cm.reject / cm.unreg are under connMutex and carry connCount",
                        "a client holds proof that a connection is being served from its first reply until the last request that "
                        "was answered was sent; only such intervals are counted against MaxConnections",
                        "MaxConnections and IdleTimeout are not changed while a history runs",
                        "no request is blocked in the backend when Stop is called (Stop's 5 s wait is not forced to expire)",
                        "Unexport of a handler whose Server the application manages is called when no request is executing; Close may be "
                        "called while requests execute in the worker pool (it waits for them); nothing is sent after either",
                        "a connection with a request executing in the backend counts as served; no call takes longer than IdleTimeout "
                        "(a longer call is reaped in the middle by the pinned code as well; not generated)",
                        "goroutines are attributed by the frames acceptLoop / handleConnectionLoop / idleConnectionCleanupLoop of runtime.Stack"]


def confirm_timed(ctx, binp, reset, why):
    for k in range(2):
        sub = ctx.sub("confirm%d" % k)
        q = ctx.quick()
        rc, out = ctx.run_harness(binp, "TestVF_ConnMgr", {"VF_ONLY": reset["hist"], "VF_HIST": 16 if q else 64, "VF_STOPRACE": 6 if q else 24, "VF_OUT": sub,
                                                            "GORACE": "halt_on_error=0 exitcode=0"}, 300)
        p = os.path.join(sub, "cm.ndjson")
        if not os.path.exists(p):
            return False
        res = run_trace(ctx, p, "confirm%d" % k, "ideal")
        if not any(b["why"] == why for b in res["bad"]):
            return False
    return True


def replay(ctx):
    lines = [l for l in open(ctx.replay).read().splitlines() if l.strip()]
    body = [l for l in lines if json.loads(l).get("ev") != "meta"]
    tp = os.path.join(ctx.scratch, "replay.ndjson")
    open(tp, "w").write("\n".join(body) + "\n")
    res = run_trace(ctx, tp, "replay", "ideal")
    for b in res["bad"]:
        ctx.violation(b["why"], body, {"replayed": ctx.replay})
    ctx.cov["evaluations"] = len(body)
    ctx.cov["distinct_nontrivial"] = 2   # a replay re-validates one recorded history (schema minimum)
    ctx.sample({"replayed": ctx.replay})

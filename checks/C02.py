import os, sys
sys.path.insert(0, os.path.dirname(os.path.abspath(__file__)))
import core_common as cc, core_specs

LEVEL = "model_checking"
PID = "C02"


def run(ctx):
    if ctx.replay:
        return cc.replay(ctx, PID)
    core_specs.namespace(ctx)
    binp = ctx.build_harness(cc.HARNESS)
    q = ctx.quick()
    runs = cc.run_profile(ctx, binp, "ns", 40 if q else 320, 24 if q else 40)
    cc.report_all(ctx, PID, runs, "ns")
    trace, res = runs[0]
    cc.mutate_and_reject(ctx, trace, "ns", cc.mut_flip_status if PID != "C04" else cc.mut_wrong_type, "corrupted reply")
    ctx.cov["rule"] = ("seeded sequential histories over names {a,b,c} (plus invalid names), depth <= 3, all namespace procedures "
                       "with probe requests after every mutation, under all 8 cache configurations (negative cache, directory "
                       "cache, TTL 1 ns / default); a history is non-trivial when it performed at least 3 mutations")
    ctx.cov["spec_actions_covered_by_impl"] = sorted(res["stats"].keys())
    ctx.assumptions += ["the vfs backend implements the POSIX tree semantics the ideal level states (it is validated by the same "
                        "trace: tree' must equal the model's tree after every step)",
                        "a handle denotes the path it was issued for; a request through a handle whose object was removed or "
                        "replaced since may also simply fail"]

"""C27: portmapper registry semantics and loopback-only modification (specs/Portmap)."""
import json, os
import vflib

LEVEL = "model_checking"
HARNESS = ["vf_common.go", "vf_vfs.go", "vf_portmap.go"]

CFG = """SPECIFICATION Spec
CONSTANTS
  Progs = {100003, 100005}
  Vers = {1, 3}
  Ports = {0, 1, 2049}
  CallerSet = %(callers)s
  NetidSet = {"tcp", "udp", "tcp6"}
  MaxHist = %(maxhist)d
  FixLoopback = %(fixlb)s
  FixUaddr = %(fixua)s
INVARIANTS %(invs)s
"""

TRACE_CFG = """SPECIFICATION Spec
CONSTANTS
  KnownDeviations = %(known)s
  FixLoopback = %(fixlb)s
  FixUaddr = %(fixua)s
"""

ALL_CALLERS = '{"lo4", "lo6", "remote4", "remote6", "zoned", "garbage"}'


def tf(b):
    return "TRUE" if b else "FALSE"


def switches(ctx):
    fixlb = ctx.finding_status("F19") == "fixed" and ctx.finding_status("F19b") == "fixed"
    fixua = ctx.finding_status("F23") == "fixed"
    return fixlb, fixua


def exhaustive(ctx):
    fixlb, fixua = switches(ctx)
    workers = int(os.environ.get("VF_TLC_WORKERS", "4" if ctx.quick() else "8"))
    # measured (4 workers): MaxHist 3 = 0.4 M transitions, 3 s; MaxHist 4 = 2.4-5.1 M transitions, 8-15 s; MaxHist 0 (no bound: the registry
    # space is finite, 4^8 registries x flags) = 196 608 states / 120-180 M transitions, 2-3 min
    base = "TypeOK QueryExact V2RefusesParsedRemote"
    code_invs = base + (" LoopbackOnly" if fixlb else "") + (" AckedSetIsVisible" if fixua else "")
    # quick: all histories of <= 3 requests, all six caller classes.
    # thorough: (a) histories of <= 4 requests, six caller classes; (b) no bound at all with one caller per behaviour class
    # (lo6 behaves as lo4 and remote6 as remote4 in every rule of the model)
    runs = [("h3", ALL_CALLERS, 3)] if ctx.quick() else [("h4", ALL_CALLERS, 4), ("all", '{"lo4", "remote4", "zoned", "garbage"}', 0)]
    for tag, callers, mh in runs:
        if mh != 0 or (fixlb and fixua):   # the unbounded run is spent on the model that states the property
            cfg = ctx.write_cfg("Portmap", "MC_code_%s.cfg" % tag, CFG % dict(callers=callers, maxhist=mh, fixlb=tf(fixlb), fixua=tf(fixua), invs=code_invs))
            ctx.tlc_exhaustive("Portmap", "Portmap", cfg, workers=workers, timeout=1500, deadlock=False, heap="3g")
        if not (fixlb and fixua):
            # the repaired design: C27 as stated
            cfg = ctx.write_cfg("Portmap", "MC_ideal_%s.cfg" % tag, CFG % dict(callers=callers, maxhist=mh, fixlb="TRUE", fixua="TRUE",
                                                                               invs=base + " LoopbackOnly AckedSetIsVisible"))
            ctx.tlc_exhaustive("Portmap", "Portmap", cfg, workers=workers, timeout=1500, deadlock=False, heap="3g")
    ctx.cov["exhaustive"] = True
    # non-vacuity: the admission rule of the pinned code violates LoopbackOnly; the IPv4-only
    # universal-address parser violates AckedSetIsVisible
    cfg = ctx.write_cfg("Portmap", "MC_nv_lb.cfg", CFG % dict(callers=ALL_CALLERS, maxhist=2, fixlb="FALSE", fixua="TRUE", invs="LoopbackOnly"))
    r = ctx.tlc_exhaustive("Portmap", "Portmap", cfg, expect_ok=False, count=False, workers=2, timeout=300, deadlock=False, heap="2g")
    if r["violated"] != "LoopbackOnly":
        raise vflib.Broken("non-vacuity run: expected LoopbackOnly to be violated with FixLoopback=FALSE, got %s" % r["violated"])
    cfg = ctx.write_cfg("Portmap", "MC_nv_ua.cfg", CFG % dict(callers='{"lo4"}', maxhist=2, fixlb="TRUE", fixua="FALSE", invs="AckedSetIsVisible"))
    r = ctx.tlc_exhaustive("Portmap", "Portmap", cfg, expect_ok=False, count=False, workers=2, timeout=300, deadlock=False, heap="2g")
    if r["violated"] != "AckedSetIsVisible":
        raise vflib.Broken("non-vacuity run: expected AckedSetIsVisible to be violated with FixUaddr=FALSE, got %s" % r["violated"])
    ctx.notes.append("non-vacuity: TLC finds LoopbackOnly violated with the pinned admission rule (FixLoopback=FALSE) and "
                     "AckedSetIsVisible violated with the IPv4-only universal-address parser (FixUaddr=FALSE)")


def validate(ctx, trace, label):
    fixlb, fixua = switches(ctx)
    cfg = ctx.write_cfg("Portmap", "Trace_%s.cfg" % label, TRACE_CFG % dict(
        known=ctx.tla_set(ctx.known_devs(["C27"])), fixlb=tf(fixlb), fixua=tf(fixua)))
    return ctx.tlc_trace("Portmap", "PortmapTrace", cfg, trace, out_name="res_%s.json" % label)


def history_of(lines, lno):
    start = lno - 1
    while start > 0 and json.loads(lines[start]).get("ev") != "reset":
        start -= 1
    return [l.rstrip("\n") for l in lines[start:lno]]


def bind_mutation(ctx, lines):
    """Binding demonstration: corrupt one recorded field in each of four ways; the trace spec must
    reject every corrupted line (one file, one JVM start)."""
    def m_getport(e):
        e["r"]["port"] = e["r"]["port"] + 1
    def m_reg(e):          # a registration silently disappears from the projection after a query
        e["reg"] = e["reg"][1:]
    def m_dump(e):
        e["r"]["ents"] = e["r"]["ents"][:-1]
    def m_xid(e):
        e["r"]["xid_ok"] = False
    wanted = [("getport", lambda e: e["proc"] == "GETPORT" and e["r"]["got"] and e["r"]["astat"] == 0, m_getport),
              ("registry", lambda e: e["proc"] in ("GETPORT", "DUMP", "NULL") and len(e["reg"]) >= 1 and e["r"]["got"], m_reg),
              ("dump", lambda e: e["proc"] == "DUMP" and len([x for x in e["r"]["ents"] if x["p"] > 0]) >= 1 and e["r"]["ents"][-1]["p"] > 0, m_dump),
              ("xid", lambda e: e["proc"] == "SET" and e["r"]["got"] and e["c"] == "lo4", m_xid)]
    out, expect, k, start = [], [], 0, 0
    for i, ln in enumerate(lines):
        e = json.loads(ln)
        if e.get("ev") == "reset":
            start = i
            continue
        if k < len(wanted) and wanted[k][1](e):
            wanted[k][2](e)
            out += lines[start:i] + [json.dumps(e)]
            expect.append((len(out), wanted[k][0]))
            k += 1
    if k < len(wanted):
        raise vflib.Broken("binding demonstration could not be performed (no suitable %s line recorded)" % wanted[k][0])
    mp = os.path.join(ctx.scratch, "mut.ndjson")
    open(mp, "w").write("\n".join(out) + "\n")
    res = validate(ctx, mp, "mut")
    badl = {b["l"] for b in res["bad"]}
    for lno, name in expect:
        if lno not in badl:
            raise vflib.Broken("binding demonstration failed: trace with corrupted %s accepted" % name)
    ctx.cov["binding_mutations_rejected"] += len(expect)


def run(ctx):
    if ctx.replay:
        return replay(ctx)
    exhaustive(ctx)
    binp = ctx.build_harness(HARNESS)
    q = ctx.quick()
    ctx.harness_ok(binp, "TestVF_Portmap", {"VF_HIST": 150 if q else 1500, "VF_STEPS": 14 if q else 20, "VF_TCP_HIST": 6 if q else 40}, timeout=480)
    trace = os.path.join(ctx.scratch, "portmap.ndjson")
    summ = json.load(open(os.path.join(ctx.scratch, "portmap.summary.json")))
    res = validate(ctx, trace, "main")
    if res["consumed"] != res["n"]:
        raise vflib.Broken("trace spec consumed %s of %s lines" % (res["consumed"], res["n"]))
    lines = open(trace).read().splitlines()
    ctx.cov["traces_validated_against_impl"] = summ["histories"]
    ctx.cov["evaluations"] = res["n"]
    ctx.cov["distinct_nontrivial"] = summ["nontrivial"]
    ctx.cov["trace_stats"] = res["stats"]
    ctx.cov["tcp"] = {"caller_classes_reached_over_real_tcp": summ["tcp_classes"], "steps": summ["tcp_steps"]}
    if summ["tcp_note"]:
        ctx.notes.append("TCP path not exercised (not a verdict): " + summ["tcp_note"])
    for s in summ.get("samples", [])[:3]:
        ctx.sample(s)
    seen = {}
    for b in sorted(res["bad"], key=lambda x: x["l"]):
        seen[b["why"]] = seen.get(b["why"], 0) + 1
        if seen[b["why"]] > 2:
            continue
        h = history_of(lines, b["l"])
        e = json.loads(h[-1])
        ctx.violation("%s (v%s %s from %s via %s, line %d)" % (b["why"], e.get("pv"), e.get("proc"), e.get("c"), e.get("via"), b["l"]),
                      h, {"line": b["l"]})
    for d in res["dev"]:
        ent = [e for e in ctx.known() if e["deviation"] == d["name"]]
        if ent:
            ctx.known_finding(d["name"], ent[0]["what"])
    if res["drift"]:
        ctx.cov["impl_model_drift"] = sorted({d["why"] for d in res["drift"]})
        ctx.notes.append("impl-level drift: post-registry / SET-UNSET result differ from the transcribed handlers; the exhaustive "
                         "result no longer speaks about this code (not a verdict)")
    bind_mutation(ctx, lines)
    ctx.cov["rule"] = ("4 directed histories + seeded histories of 14-20 requests through handleCall(data, remoteAddr) with callers of every class "
                       "(127.0.0.x, ::1, 192.0.2.x, 2001:db8::7, fe80::1%zone, opaque non-IP address) and over real TCP from every address class "
                       "this machine can connect from; non-trivial = a loopback caller changed the registry AND a SET/UNSET was refused AND a DUMP "
                       "returned entries")
    ctx.cov["spec_actions_covered_by_impl"] = ["Set2", "Unset2", "SetR", "UnsetR", "ApiRegister", "ApiUnregister", "Query(GETPORT)", "Query(GETADDR)",
                                               "DUMP", "RPCBDUMP", "NULL", "PROC_UNAVAIL", "PROG_MISMATCH", "PROG_UNAVAIL"]
    ctx.assumptions += ["pm.GetMappings() is the registry projection", "the portmapper has no UDP listener; only TCP and handleCall are driven",
                        "an opaque (non host:port) transport address is neither loopback nor non-loopback: no locality verdict for it",
                        "a registration with port 0 is 'not registered' for a client (DUMP comparisons ignore port-0 entries)"]


def replay(ctx):
    lines = [l for l in open(ctx.replay).read().splitlines() if l.strip()]
    body = [l for l in lines if json.loads(l).get("ev") != "meta"]
    tp = os.path.join(ctx.scratch, "replay.ndjson")
    open(tp, "w").write("\n".join(body) + "\n")
    res = validate(ctx, tp, "replay")
    for b in res["bad"]:
        ctx.violation(b["why"], body, {"replayed": ctx.replay})
    for d in res["dev"]:
        ctx.known_finding(d["name"])
    ctx.cov["evaluations"] = len(body)
    ctx.cov["distinct_nontrivial"] = 1
    ctx.sample({"replayed": ctx.replay})

"""Registry fragment: Linearize family (C29)."""
MC = "model_checking"
CLAIMED = {
 "C29": dict(cat=MC, engine="Linearize", design="5/C29",
   technique="TLA+ design spec Linearize (handlers split into per-backend-call steps over the CoreOps tree, TLC exhaustive, invariants "
             "Linearizable / Coherent) + TLC as linearizability checker over recorded concurrent handler histories (LinearizeTrace, "
             "depth-first search per history against CoreOps) under the Go race detector",
   text="Linearize.tla runs 2 clients x 2 requests on names {a,b} of one directory with every handler split into its backend and cache "
        "operations (atomic backend): TLC checks on every completed history that some real-time-respecting order replays on CoreOps with the "
        "same replies and final tree (exact at minimal TTL; LOOKUP/READDIR may be the ideal reply of an earlier state with caches) and that the "
        "caches agree with the backend afterwards, and finds the violation for a two-step MKDIR, for READDIR dropping vanished entries (F29b) and "
        "for cache puts overtaken by an invalidation (F29a). The harness (built with -race) drives 2-4 client goroutines x 2-4 requests through "
        "HandleCall over the thread-safe vfs backend with seeded yields/spins/sleeps before and after every backend operation, on distinct names "
        "sharing directories and handles, under 8 cache configurations, plus contended histories (same names and handles), attribute storms (simultaneous GETATTRs and whole-file READs of files of different sizes and contents; size, fileid, count, data and eof "
        "compared), re-export rounds (Unexport, then MNT + READDIRPLUS by all clients at once behind a barrier, handle table projected after every "
        "round) directed schedules with blocking gates and nested schedules (every backend-operation boundary of a request on a file x another client's "
        "rename / remove of the same file, then both use the old handle again: no-deadlock clause) and paired schedules (two requests, e.g. cross-directory RENAMEs in opposite "
        "directions, stepped boundary by boundary from every pair of starting boundaries: lock-order inversions); every request is logged with invocation/response stamps of one atomic counter, arguments and decoded "
        "results, and after the join the backend tree, both handle maps and the unexpired cache entries are read in-package. LinearizeTrace.tla "
        "makes every history an initial state and lets TLC search (depth-first queue, one worker) for an order consuming all requests whose "
        "every step is an allowed CoreOps outcome with the recorded reply (LOOKUP type, GETATTR type/size/mode, READ count/data/eof, READDIR "
        "listing and entry types) and that ends in the recorded final tree; with caches enabled a read-type reply must match a state the object "
        "was in on that path. The final-state clause (pathHandles inverse of handles, every unexpired positive / negative / directory entry agrees "
        "with the backend) and race / panic / deadlock observations are part of the same trace.",
   note="interleavings are sampled, not enumerated (200 histories quick, 2000 thorough over 4 seeds, + 5 directed schedules); injected delays sit "
        "at backend-operation boundaries only; histories use plain names, root credentials, files below 200 bytes; ownership and times are not "
        "compared; a race report counts only when the innermost non-library frame of both accesses is absnfs code (harness/vfs frames = exit 2); "
        "SETATTR on shared directories and LOOKUP of another client's names are outside the 'distinct names' premise and not generated in "
        "linearizability histories; findings F29a-F29e have exact guards (F29b, F29c repaired in /repo; F29a, F29e repairs proposed; F29d, READDIRPLUS entry attributes fetched entry by entry, listed known)"),
}

"""Registry fragment: Policy family (decision functions of the request path)."""
MC = "model_checking"
CLAIMED = {
 "C09": dict(cat=MC, engine="Policy", design="5/C09",
   technique="TLA+ rule Member/Admit over bit-sequence addresses (TLC exhaustive over small widths in PolicyMC) + TLC-generated vectors "
             "with the rule's verdict (PolicyGen) replayed through isIPAllowed, Server.isIPAllowed, ValidateAuthentication, HandleCall and "
             "acceptLoop + validation of the record against the same operators (PolicyTrace)",
   text="The membership rule (IPv4-mapped normalisation, single addresses, CIDRs, unparseable entries match nothing, empty list = open) and "
        "the secure-port rule are TLA+ operators written from the statement. PolicyMC models the gate at the grain of the code (acceptLoop, "
        "ValidateAuthentication steps 1-4, dispatch, handler) and TLC checks for every client x allow-list of a reduced address width "
        "that the transcribed Go filter agrees with the rule, that a request reaches a handler only if admitted, that a denied request "
        "made no backend call, plus the rule's algebra (monotone in prefix length, mapped-form invariance, neutral malformed entries). "
        "TLC then emits about 1 600 (quick) / 4 800 (thorough) vectors at the real widths with the verdict; the harness evaluates both "
        "filter implementations and ValidateAuthentication, sends requests of every program/procedure class through HandleCall with the "
        "recording backend, offers connections to the real acceptLoop over an in-memory listener, and TLC validates every recorded line. "
        "Sessions (22 per address pattern) keep ONE connection open through the real connection loop while the allow-list / secure flag "
        "are replaced with UpdatePolicyOptions between its requests (listed -> excluded -> listed, open -> restricted, secure off -> on): "
        "each request must be judged by the policy in force when it arrives; about a fifth of the vectors (all with malformed entries, "
        "among them lists made up of malformed entries only, which admit nobody) are also given at construction through New() "
        "(spec action Reconfigure; TLC's non-vacuity variant "
        "'conn_only' is the frozen-at-connect defect).",
   note="an IPv4 client against an IPv6 CIDR shorter than /96 that covers the mapped range, and positive matches involving a zone suffix, are "
        "accepted either way; handler dispatch is observed through the server's debug log line; connection-level vectors use TCP remote "
        "addresses only (malformed client strings are exercised at function and HandleCall level); rate limiting and TLS client "
        "certificates are outside this property"),
 "C10": dict(cat=MC, engine="Policy", design="5/C10",
   technique="TLA+ rule Squash/AuthVerdict over symbolic ids (TLC exhaustive in PolicyMC) + TLC-generated credential vectors with the "
             "verdict replayed through ValidateAuthentication (parsed inside and pre-parsed with a shared gid slice) and HandleCall with "
             "ACCESS probes + validation against the same operators",
   text="Squash modes all/root/none/unrecognised, AUTH_NONE -> 65534/65534, other flavors and undecodable AUTH_SYS bodies denied are TLA+ "
        "operators from the statement; PolicyMC checks exhaustively over the id set {0,1,1000,65534,65535,2^31,2^32-1}, all modes "
        "(including mixed case and bogus) and auxiliary lists up to length 2 that the transcribed applySquashing refines the rule and "
        "that no uid/gid/auxiliary gid 0 survives root squashing. TLC emits 3 900 (quick) / 23 500 (thorough) vectors (exhaustive short "
        "lists, sampled lists up to 16, 17 gids, truncation at every word, oversize names, other flavors); for each the harness records "
        "AuthResult and AuthContext, the caller's gid slice before and after (aliasing, including spare capacity), the effective ids "
        "HandleCall installs and on which of 14 probe objects ACCESS grants READ; TLC validates every line, relating the probes to the "
        "squashed identity through the ACCESS rule. Sessions (30) send 3-5 requests with different credentials (AUTH_SYS identities, "
        "AUTH_NONE, a refused flavor, an undecodable body) on ONE connection through the real connection loop; every request must be "
        "served under its own squashed credential (spec action NextRequest; non-vacuity variant 'ctx_hoisted'); ten of them interleave "
        "run-time updates that name no squash mode (read-only toggled or allow-list set through UpdatePolicyOptions / "
        "UpdateExportOptions): accepted or refused, the mode given to New() keeps governing (spec action RuntimeUpdate; variant "
        "'update_clears_squash').",
   note="ids are opaque tokens in TLA+ (equality only); for an unrecognised mode only uid/gid are constrained; trailing bytes after a "
        "well-formed body and machine names of 256+ bytes are accepted either way; probe object ownership is set in-package"),
 "C12": dict(cat=MC, engine="Policy", design="5/C12",
   technique="TLA+ rule Access (class precedence, root, directory-only and read-only clauses) checked exhaustively by TLC over the full "
             "space in PolicyMC + the full ACCESS space driven through HandleCall and validated row by row (64 masks each) by TLC",
   text="Access(mode, kind, class, root, read-only, mask) is a TLA+ operator from the statement; PolicyMC checks on every point of "
        "4096 modes x 2 kinds x 8 relations x 2 x 64 masks (thorough; 512 modes quick) that the transcribed handleAccess equals it, grants "
        "a subset of the mask, LOOKUP/DELETE only on directories, nothing modifying on a read-only export. The harness then sets the "
        "modes on a file and a directory on read-write and read-only exports and sends all 64 masks through HandleCall: thorough = the six "
        "core relations (owner, owner+group, group, auxiliary group, other, uid 0) on all 4096 modes (98 304 rows, 6.3 M decisions) plus "
        "nine further relations (auxiliary group as 16th gid, gid 0 without privilege, uid 0 owning, ids 2^31 and 2^32-1, AUTH_NONE as "
        "other/owner/group) on a 512-mode stratum, 7.5 M decisions in all; quick = nine relations on the stratum (18 432 rows, 1.2 M "
        "decisions). TLC validates each row against the owner/group/mode reported in the same reply.",
   note="self-consistency oracle (reported owner/group/mode), so a wrong reported owner is outside this check; EXECUTE on a directory is "
        "accepted when the class has x or never; ownership is placed in the server's node table in-package; squash mode none"),
}

"""Registry fragment: wire family (codecs, reply shapes, connection streams)."""
MC = "model_checking"
CLAIMED = {
 "C13": dict(cat=MC, engine="Wire", design="5/C13",
   technique="TLA+ specs Wire / WireRM (TLC exhaustive) + TLC-generated vectors (WireGen) replayed on the real codec functions, "
             "every replayed call validated by TLC against the layout operators (WireTrace)",
   text="XDR opaque/string, file handle, RPC call header, AUTH_SYS body and record marking are TLA+ layout operators over byte sequences "
        "(WireOps). TLC checks Dec(Enc(x)) = x with exact consumption, refusal of every prefix, limit decisions and bounded allocation for a "
        "two-letter alphabet and lengths 0..9, and the record-marking reader as a state machine over every fragmentation of records up to 6 "
        "bytes (one and two records per stream) plus the writer's splitting. TLC then writes vectors (values, every cut point, trailers, declared "
        "lengths limit-1/limit/limit+1/2^31/2^32-1 for 8192, 400, 64, 16 gids and 1 MiB) which the harness replays on xdrEncode*/xdrDecode*, "
        "DecodeRPCCall, ParseAuthSysCredential, RecordMarkingReader/Writer together with seeded random contents and fragmentations up to "
        "1 MiB; TLC recomputes the expectation from each logged input and compares value, bytes consumed and measured allocation.",
   note="TLC decides layout, padding, limits and fragmentation logic; byte-for-byte fidelity for arbitrary contents is sampled by the seeded "
        "replay, not decided. Allocation is a runtime.MemStats observation compared with a bound (4 KiB + 4x accepted length, 6x for a "
        "record); excess smaller than the overhead (limit+1 for the 64/16/400 limits) cannot be seen. Strings with NUL may be refused."),
 "C14": dict(cat=MC, engine="ReplyShape", design="5/C14",
   technique="TLA+ spec ReplyShape (result schema of RFC 1813 / 1094 and RFC 1831 reply forms as data, TLC exhaustive over server condition x "
             "call class) + step validation of recorded replies by TLC's own XDR interpreter (ReplyShapeTrace)",
   text="The result type of every NFSv3 and MOUNT v1/v3 procedure, nfsstat3, mountstat3 and the RFC 1831 reply forms are TLA+ data; TLC checks "
        "the schema total and well formed, checks the transcribed reply construction of HandleCall and the handlers against the rule for "
        "every (condition, program, version, procedure, argument class), and dumps the schema as JSON for the harness's generic XDR "
        "interpreter (one source; the built-in schema of vf_common.go is cross-checked against it). Every procedure is driven with "
        "well-formed, truncated-at-every-word and garbage arguments, unknown programs/versions/procedures and refused credentials in the "
        "conditions normal, read-only, rate limited and policy drain, through HandleCall and over TCP; TLC decodes each logged reply "
        "(words) under the schema for its procedure and status and requires XID echo, a legal reply form, an enumerated status and zero "
        "missing/trailing bytes.",
   note="three listed known findings (GARBAGE_ARGS as nfsstat3, bare JUKEBOX during drain, status 10013); replies above 600 words are judged by "
        "the Go interpreter alone; MOUNT v1 results accepted in the RFC 1094 or the v3 form; calls the server does not answer (timeouts) "
        "are outside the claim"),
 "C15": dict(cat=MC, engine="ConnStream", design="5/C15",
   technique="TLA+ spec ConnStream (TLC exhaustive over streams of <= 4-5 records of five classes) + validation of recorded real TCP "
             "connections against an independent stream classifier (ConnStreamTrace)",
   text="One record-marking connection is a state machine over classified records (decodable call, call that panics the backend, undecodable "
        "header, oversize, truncated) with actions ServeCall, CloseOnUndecodable, CloseAtEOF and a probe connection; TLC checks that replies "
        "are a subsequence of the decodable calls before the first undecodable record, closure, bounded allocation and survival. The real "
        "server (child process per backend: vfs, memfs) is fed every call of the C14 table, mutated calls (bit flips, length edits, "
        "truncation at any byte), huge fragment headers, random bytes, oversize-by-accumulation; each connection's reply XIDs, close, logged "
        "panics, process death, allocation and a probe plus a bystander connection are recorded and validated by TLC.",
   note="no-panic, process survival and allocation are runtime observations entered into the trace; unanswered calls are not violations "
        "(at most once); streams are sequential per connection, concurrency is limited to one bystander connection; the backend panic "
        "over memfs (F22) is a listed known finding with a proposed repair"),
}

"""Registry fragment: RateLimiter family."""
MC = "model_checking"
CLAIMED = {
 "C18": dict(cat=MC, engine="RateLimiter", design="5/C18",
   technique="TLA+ spec RateLimiter (integer token buckets in 1/16 token on a 250 ms clock; TLC exhaustive over a sweep of rate/burst "
             "configurations) + step validation of recorded executions on a virtual clock (RateLimiterTrace)",
   text="TokenBucket / PerIPLimiter / PerOperationLimiter / AllowRequest / AllowOperation / CleanupConnection are transcribed into "
        "specs/RateLimiter next to a twin that never cleans up and an ideal-level ghost; TLC checks on every reachable state of the sweep "
        "(zero, fractional and integer rates, timed and arbitrary cleanup passes) that no limiter admits more than burst + rate x elapsed, "
        "that a client within its own limits is refused only when the global budget charged with admitted requests is empty, and that an "
        "absent bucket is indistinguishable from a full one; then every step of seeded real executions with rate_limiter.go compiled "
        "against a virtual clock (AllowRequest/AllowOperation directly, the READ/WRITE/READDIR/READDIRPLUS/MNT handlers, "
        "handleConnectionLoop over in-memory connections), each run next to a twin instance with an unreachable cleanup interval, is "
        "checked by TLC against the same ghost and the same transcribed step functions.",
   note="sequential timing sequences only (concurrent calls on one limiter are not explored); times are multiples of 250 ms and rates "
        "multiples of 1/4 per second so that the float64 arithmetic is exact; 'within its limits' means the whole traffic sent under the key "
        "fits a reference bucket; the interval of the bound starts at the first request sent under a key; an uncapped bucket satisfies the "
        "bound as written and is only caught through the cleanup rule; rule (b) fails on the pinned tree (listed known finding F11b = F11)"),
 "C19": dict(cat=MC, engine="RateLimiter", design="5/C19",
   technique="TLA+ spec RateLimiter with the pinned and the repaired AllowRequest order (TLC exhaustive, counterexample on the pinned order) "
             "+ step validation of recorded executions with an abusive and a compliant client interleaved",
   text="The faithful order (global, per IP, per connection) is modelled stage by stage; TLC finds the 3-step counterexample to "
        "RefusedIsFree / NoCollateral on it and none with the global bucket charged last; recorded executions (API and the real connection "
        "loop) are accepted only if every refused request leaves the in-package global bucket as it was and every client within its limits "
        "is admitted while the budget charged with admitted requests has a token; on the pinned tree exactly the steps explained by the "
        "listed deviation (one token taken by a refused request; refusal while the bucket charged by every request is empty) are reported "
        "as KNOWN-FINDING F11.",
   note="the first sentence of C19 is checked on the in-package global bucket (a refactoring that replaces it breaks the build: exit 2); "
        "capacity shared between connections of one address (the per-IP bucket) is covered only as far as the address as a whole stays "
        "within its limit; repair proposed in proposed/F11.patch"),
}

"""Registry fragment: PolicySwap (C16) and ConnMgr (C17)."""
MC = "model_checking"
CLAIMED = {
 "C16": dict(cat=MC, engine="PolicySwap", design="5/C16",
   technique="TLA+ spec PolicySwap (TLC exhaustive safety + liveness under fairness) + TLC-generated environment schedules (MBT) "
             "driven into the real HandleCall / UpdatePolicyOptions / UpdateExportOptions / connection loop under -race + validation of "
             "the recorded hook, backend-gate and driver events by TLC (ideal level for the verdict, impl-level search with silent steps)",
   text="PolicySwap has one action per critical section (TryRLock admission, snapshot, the goroutine that owns the read lock, the request "
        "deadline, policyMu, Lock request / acquisition, policy.Store, limiter replacement, Unlock, the connection loop's limiter). TLC checks "
        "SamePolicy, DrainedAtRet, FreshAfter, LimiterFresh, the lock discipline and UpdBegin ~> UpdReturn exhaustively for 2-3 requests x 2 "
        "updates x 2 connections, and shows the faithful model of the captured limiter violates LimiterFresh. tlc -simulate generates "
        "schedules (call / hold at admission / release backend gate / start update / let time out / open connection); the harness applies "
        "them to the real code with quiescence between steps, the backend records the live policy at every operation, and TLC accepts a "
        "recorded history only if no C16 clause fails on it and (binding) if it is a behaviour of PolicySwap.",
   note="verdicts rest on the vhook call sites of proposed/hooks_policyconn.patch; retry-later for a request that blocks instead is a "
        "real-time observation (1.5 s) that must reproduce twice before it counts; the limiter clause is decided with buckets that never "
        "refill and sequential requests; rate limiting enabled with a nil RateLimitConfig is not exercised; F10 (captured limiter, and the "
        "data race on AbsfsNFS.rateLimiter) is a listed known finding with a proposed repair"),
 "C17": dict(cat=MC, engine="ConnMgr", design="5/C17",
   technique="TLA+ spec ConnMgr (TLC exhaustive safety + liveness under fairness) + validation of recorded real TCP histories (hook events "
             "under connMutex, client observations, goroutine census) by TLC (ideal level for the verdict, impl-level search with silent steps)",
   text="ConnMgr models the accept loop (context check, Accept, registerConnection at the limit), the connection goroutines, "
        "unregisterConnection's exactly-once, the idle cleanup pass, the phases of Stop (also called twice at once) and Close / Unexport. TLC "
        "checks count = |active| <= Max, served <= Max, counted-once, nothing served and no goroutine after Stop returned, no handles / cache "
        "entries after Close, and under fairness that idle connections are reaped and Stop returns. Real servers (Server.Listen and "
        "AbsfsNFS.Export) are driven over loopback with concurrent opens / closes / idle periods and Stop / Close / Unexport at random "
        "moments and repeated; every recorded history must satisfy the C17 clauses and (binding) be a behaviour of ConnMgr.",
   note="idle reaping (IdleTimeout 100 ms, still served after 1 s) and prompt uncounting after a client closes are real-time observations that "
        "must reproduce twice before they count; 'simultaneously served' is decided from client-side proof intervals and from the hook "
        "count; Stop's 5 s timeout path (a request blocked in the backend) is not forced; goroutines of requests that outlive their "
        "deadline are counted separately and not judged"),
}

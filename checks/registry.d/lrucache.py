"""Registry fragment: LRUCache family."""
MC = "model_checking"
CLAIMED = {
 "C21": dict(cat=MC, engine="LRUCache", design="5/C21",
   technique="TLA+ spec LRUCache (TLC exhaustive, sequential and per-critical-section) + step validation of recorded AttrCache/DirCache "
             "histories under a virtual clock (LRUCacheTrace) + linearization search over recorded concurrent histories run under -race (LRUCacheLin)",
   text="Both caches are transcribed into specs/LRUCache (one operator per critical section: Get = decide under RLock, then touch/expire "
        "under Lock; PutNegative = read switch, then store). TLC checks on every reachable transition for 4-5 keys (/, /a, /a/b, /ab, /b), "
        "capacities 1..3, two values, TTL 1-2 ticks, clock <= 2 (quick) / 4 (thorough; clock <= 5 measured once, see checks/lrucache_common.py) that the transcription is a step C21 allows "
        "(lookup result, what may vanish and why, eviction victim = least recently used, recency order, expiry fixed at store time, "
        "negative entries only while enabled, direct children only; InvalidateTree of the RENAME fix included) and the state invariants under every interleaving of two (three) "
        "goroutines. Every step of directed and seeded real executions at the cache API (virtual clock, caller modifies every stored "
        "and returned value) is checked by TLC against the same relation with the full projected cache as pre/post state; concurrent "
        "histories (2-3 goroutines x 3 calls, -race) are accepted only if TLC finds an interleaving of the critical sections that "
        "explains every result and the recorded final cache; a race report inside cache.go is a violation.",
   note="trusts the in-package projection of the caches and the textual clock rewrite; whole-second TTLs only; the expiry instant itself is "
        "accepted either way; under concurrency recency among overlapping calls is only constrained as the code's two-section Get allows; "
        "interleavings inside the real code are whatever the scheduler produced (no gates in cache.go); negative entries surviving "
        "ConfigureNegativeCaching(false) is the listed known finding F13"),
}

"""Registry fragment: PathGuard family (specs/PathGuard)."""
MC = "model_checking"
CLAIMED = {
 "C07": dict(cat=MC, engine="PathGuard", design="5/C07",
   technique="TLA+ spec PathGuard (request pipeline over byte strings, TLC exhaustive over an adversarial token alphabet) + "
             "TLC-defined test vectors replayed into the real handlers, every backend path argument step-validated by PathGuardTrace",
   text="PathGuardOps.tla states the property on byte strings (ValidNameB, TargetOKB, normalized components, allowed set = handle path or "
        "handle path + one valid name) and transcribes xdrDecodeString, validateFilename, sanitizePath, path.Clean/Join and the two symlink "
        "target checks; PathGuard.tla runs every token string up to length 3/4 through every argument slot of LOOKUP, CREATE, MKDIR, SYMLINK, "
        "MKNOD, REMOVE, RMDIR, RENAME, LINK, MNT and READLINK and TLC checks the property and the algebra on every reachable state, and finds "
        "the violation for one-site mutations (validator forgets '\\', '.', '..', limit 256, sanitizePath skipped, target check removed or first "
        "component only, Readlink check removed). The same strings (bytes taken from the table TLC dumps) plus 8192/8193-byte and seeded random "
        "strings are sent through the real handlers over the recording backend; PathGuardTrace classifies every sent string itself and requires "
        "of every recorded backend call: absolute, no empty/'.'/'..' component, component list = the handle's path or that path plus HexOf(valid "
        "name); an invalid name must fail and leave the tree unchanged; no new symlink with an absolute or '..' target; READLINK of planted links "
        "never returns a relative '..' target. MNT vectors are also sent directly behind (and one '/' behind) the name the export is published under (AbsfsNFS.Export) in the histories that have one; the backend must still see only absolute normalized paths (spec mutation mntTrimExportPrefix).",
   note="bounded-exhaustive over 7 tokens (a . / \\ NUL and fillers of 250 and 5 bytes) up to 3 (quick) / 4 (thorough) tokens per string; longer and "
        "non-ASCII strings only by seeded sampling; names arrive well-formed at the XDR level (length and padding correct); handles at depth 0..2; "
        "READDIR/READDIRPLUS are not driven"),
}

"""Registry fragment: Handles family."""
MC = "model_checking"
CLAIMED = {
 "C05": dict(cat=MC, engine="Handles", design="5/C05",
   technique="TLA+ spec Handles (TLC exhaustive) + step validation of recorded FileHandleMap/handler traces (HandlesTrace)",
   text="Allocate/Release/ReleaseAll are transcribed into specs/Handles; TLC checks IssuedIsLive, OnePerPath, Bounded on every reachable "
        "state for 4-5 paths x limits 1..3, then every step of seeded real executions (FileHandleMap API and LOOKUP/CREATE/MKDIR/SYMLINK/"
        "READDIRPLUS/MNT under small limits, each issued handle used at once) is checked by TLC against the same operators.",
   note="trusts the in-package projection of the table and the recording backend; eviction limits above 25 and tables above a few dozen "
        "entries are not exercised; READDIRPLUS handles evicted by later entries of the same reply are a listed known finding"),
 "C06": dict(cat=MC, engine="Handles", design="5/C06",
   technique="TLA+ spec Handles with ghost first-issue map (TLC exhaustive) + step validation of handler traces with a client that keeps all handle values",
   text="Ghost map id -> path first issued survives eviction/release/Unexport; TLC shows rebinding arises only through free-list reuse "
        "(action property RebindOnlyViaFreeList) and that the no-recycling design satisfies NoRebind; recorded executions are accepted only "
        "if every request on an old handle value is answered STALE or served against the path of its latest issue, rebinding itself being "
        "the listed known finding F07.",
   note="re-export is exercised as Unexport + MNT on the same AbsfsNFS object; a fresh New() over the same backend (ids restart at 1) is outside the claim"),
}

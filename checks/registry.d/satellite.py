"""Registry fragment: satellite family (Startup C28, Portmap C27, Config C24, TLSPolicy C30)."""
MC = "model_checking"
CLAIMED = {
 "C28": dict(cat=MC, engine="Startup", design="5/C28",
   technique="TLA+ spec Startup (word-level ONC RPC wire, record marking, raw vs record-marking connection loop; TLC exhaustive, safety + "
             "liveness) + step validation of real TCP sessions of a conformant client against every start-up path (StartupTrace)",
   text="specs/Startup models the client->server and server->client byte streams at XDR-word granularity, RFC 1831 record marking, "
        "DecodeRPCCall and the two connection loops of server.go; TLC shows that a record-marking server completes the session NULL, MNT, "
        "GETATTR for every xid / fragmentation / auth flavour and that a raw server never produces a record the client accepts. The harness "
        "starts real servers through Export, Listen (with and without UseRecordMarking) and StartWithPortmapper x port 0 / explicit port x "
        "debug / read-only and runs an independent RFC-1831 client over loopback TCP (one write per record, two fragments, header and body "
        "in separate segments, a fragment body split over two segments, the whole stream dribbled 5 bytes at a time; the spec delivers the "
        "client's bytes to the server in segments of any size); TLC validates every recorded call against the spec.",
   note="StartWithPortmapper needs port 111 (skipped and noted when it cannot be bound); only loopback TCP; TLS listeners belong to C30; "
        "the MNT path is \"/\" (the only path MNT resolves); Export not speaking record marking is the listed finding F20"),
 "C27": dict(cat=MC, engine="Portmap", design="5/C27",
   technique="TLA+ spec Portmap (registry as a function, SET/UNSET/GETPORT/GETADDR/DUMP x portmap v2, rpcbind v3/v4 x caller locality; TLC "
             "exhaustive) + step validation of recorded handleCall and real-TCP histories with the registry projection after every step (PortmapTrace)",
   text="portmapper.go's handlers are transcribed as functions registry -> (registry, reply) with the admission rule of each protocol version; "
        "TLC checks LoopbackOnly (no change by a caller that is not on loopback), AckedSetIsVisible and QueryExact over 2 programs x 2 versions "
        "x 2 protocols x ports {0,1,2049} x 6 caller classes (quick: all histories of <= 3 requests; thorough: the whole finite state space, "
        "i.e. histories of any length). Every request of seeded real histories (through handleCall with loopback, global, zoned link-local and "
        "opaque peer addresses, and over real TCP from every address class the machine owns) is then validated by TLC: reply well-formed per "
        "RFC 1831/1833, queries equal the logged registry, SET/UNSET effects, locality.",
   note="no UDP transport exists in the implementation, so only TCP and the in-package entry point are driven; CALLIT and the rpcbind v4-only "
        "procedures are exercised only as PROC_UNAVAIL; port-0 registrations are compared as 'not registered'; four listed findings (F19, F19b, F19c, F23)"),
 "C24": dict(cat=MC, engine="Config", design="5/C24",
   technique="TLA+ spec Config (configuration abstracted to classes; updates as records; ApplyImpl = the code, Verdict = the property; TLC "
             "exhaustive) + TLC-generated update sequences (ConfigGen over a pairwise covering array) replayed into a live AbsfsNFS + step "
             "validation of the recorded GetExportOptions / in-force sizes / LOOKUP-READ-WRITE probes (ConfigTrace)",
   text="each numeric/duration field is abstracted to {default, p1, p2, zero, negative}, pointers to {nil, set}; UpdateExportOptions, "
        "UpdateTuningOptions and UpdatePolicyOptions are transcribed as ApplyImpl (parameterised by the repaired findings) and the property as "
        "Verdict (zero/negative/nil take the construction default, positive values are reported, unnamed fields keep their value, a rejected "
        "update changes nothing, whatever Squash it carried: empty, the same mode, another mode, the same mode in another spelling) plus Serviceable. TLC checks every reachable configuration of a reduced field set exhaustively, then enumerates "
        "all sequences of one and two and a residue class of sequences of three update templates; the harness applies them to real instances "
        "(the first whole-struct template is the argument of New) and logs GetExportOptions, attribute-cache and worker-pool sizes in force and "
        "a LOOKUP, a 16 KiB READ and a 100-byte WRITE through the real handler after every call; every update call runs under a watchdog (a "
        "call that does not return is a recorded observation the trace spec rejects), every rejected update is followed by an UpdatePolicyOptions "
        "call restating the policy in force, and extra templates touch one sub-field of Timeouts at a time or install partly filled structs; TLC validates every recorded step.",
   note="boolean fields, AllowedIPs and TLS are outside the abstraction; requests that would panic an unrecovered goroutine (negative transfer "
        "size, nil Timeouts) are issued only in three directed child processes; nil Timeouts/Log in UpdateExportOptions may keep the value in "
        "force (accepted either way); four listed findings F16, F16b, F16c, F16d"),
 "C30": dict(cat=MC, engine="TLSPolicy", design="5/C30",
   technique="TLA+ spec TLSPolicy (Accepts, server/client version sets, ClientAuth admission, certificate holders of every TLSConfig object; "
             "TLC exhaustive) + TLC-generated vectors (TLSGen: up to 1000 configurations x 40 clients) replayed as real crypto/tls handshakes against "
             "Server.Listen + rotation histories, validated by TLSTrace",
   text="Validate/BuildConfig are transcribed as Accepts(cfg), ServerVersions(cfg) and CertAdmitted(cfg, cert); TLC checks Floor (no completed "
        "handshake below TLS 1.2), Mutual (RequireAndVerify admits only certificates of the configured CA) and Rotation over all configurations x "
        "clients x rotate/reload interleavings (reload through settings fetched after Listen, fetched before Listen and kept, or the caller's "
        "object). The configurations include InsecureSkipVerify and a cipher-suite list, which must not change what the listener admits. The same operators generate the vectors; the harness starts a real TLS listener per configuration "
        "(certificates made with crypto/x509), performs real handshakes with clients restricted to each version range and certificate kind (none, self-signed, configured CA, another private CA, a CA "
        "planted in the process's system trust store), "
        "counts a handshake as completed only when a NULL call is answered, rotates certificates on disk and reloads through "
        "GetExportOptions().TLS; TLC validates every recorded outcome (verdict: the three clauses; drift: exact outcome and version).",
   note="crypto/tls itself is trusted; cipher-suite selection is left at library defaults; "
        "'only clients of the configured CA' is checked in the only-direction the property states; "
        "rotation through the documented step is the listed finding F21"),
}

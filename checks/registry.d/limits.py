"""Registry fragment: Limits family (specs/Limits C23, specs/Readdir C26)."""
MC = "model_checking"
CLAIMED = {
 "C26": dict(cat=MC, engine="Readdir", design="5/C26",
   technique="TLA+ spec Readdir/ReaddirOps (exact XDR sizes, client loop over cookies, TLC exhaustive at three levels) + step validation of recorded READDIR/READDIRPLUS listings (ReaddirTrace)",
   text="ReaddirOps.tla gives the exact encoded size of READDIR3resok / READDIRPLUS3resok and three paging rules (the code's, the repaired one, "
        "the property's). Readdir.tla lists every directory of <= 3 (quick) / 5 (thorough) entries with name lengths {1,4,255} by any sequence of "
        "calls with counts on the grid of all k-entry reply sizes +-1 (+ the code's margins) and checks Complete / NoDuplicates / Fits / "
        "TooSmallOnlyWhenNothingFits / Progress; for the code's rule TLC shows that every reply the property rejects is exactly one of the two "
        "named overflow deviations. ReaddirTrace then judges every recorded reply of seeded listings through the real handlers with the same "
        "operators: encoded size against count, TOOSMALL only when nothing fits, progress, every entry a name of the directory, none twice, "
        "fileids equal to LOOKUP/GETATTR, eof exactly when all entries were returned.",
   note="the directory is static while it is listed; dircount is varied but not judged (the property names only count/maxcount); the cookie "
        "verifier is echoed as received; handles in READDIRPLUS entries are the business of C05; entry order is not assumed"),
}

CLAIMED.update({
 "C23": dict(cat=MC, engine="Limits", design="5/C23",
   technique="TLA+ spec Limits/LimitsOps (FSINFO advertisement x TransferSize x record limit x call overhead, TLC exhaustive) + step validation of FSINFO/WRITE/READ exchanges recorded over a real record-marking TCP connection (LimitsTrace)",
   text="LimitsOps.tla computes the size of a WRITE call record from RFC 1831/1813 (call header, credential, verifier, WRITE3args) and what the "
        "server does with a count (record limit first, INVAL above TransferSize, clamping). Limits.tla checks for every TransferSize in "
        "{1,512,65536,2^20,2^21} and counts 1, pref, max-1, max, T, T+1 that every WRITE <= wtmax is accepted and fits the record limit, every "
        "READ <= rtmax before EOF returns >= 1 byte, and preferred <= maxima <= min(T, R - overhead): true for maxima derived from T and R, "
        "violated by the pinned constants (non-vacuity), whose failures TLC shows to be exactly the listed deviation. LimitsTrace judges every "
        "recorded exchange of a real Server.Listen(UseRecordMarking) with a harness-written ONC RPC client with the same operators, for every "
        "TransferSize set at construction, by UpdateTuningOptions and by UpdateExportOptions.",
   note="TransferSize < 1 is outside the claim (C24); a client that keeps an advertisement across a reconfiguration is not modelled; reply "
        "records are not limited by the server's record limit (only call records are); TLS and non-record-marking listeners are not exercised"),
})

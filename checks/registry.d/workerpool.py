"""Registry fragment: WorkerPool family."""
MC = "model_checking"
CLAIMED = {
 "C20": dict(cat=MC, engine="WorkerPool", design="5/C20",
   technique="TLA+ spec WorkerPool (TLC exhaustive incl. liveness) + TLC-generated environment schedules (WorkerPoolGen) replayed on the "
             "real pool through vhook pause points + trace validation of the recorded events (WorkerPoolTrace ideal level, WorkerPoolLV "
             "search with silent steps) + seeded stress under -race",
   text="Submit/SubmitWait, worker, Stop, Resize and Start are transcribed one action per critical section or channel operation; TLC checks "
        "Bounded, AtMostOnce, NoFakeResult, NotRunIsTrue, NoPanic, Resolved-at-quiescence and accepted ~> resolved under fairness on every "
        "interleaving of 3-4 tasks, 1->2 and 2->1 workers, one Stop and one Resize (concurrent with each other and with Submit). TLC then "
        "generates environment schedules which the harness applies to real WorkerPool objects, parking goroutines inside the vhook call "
        "sites; the recorded hook events, call/return events and task-body events are decided by TLC against the property (monitor) and "
        "searched for an explaining interleaving of the same spec (impl level).",
   note="needs the vhook call sites of proposed/hooks_workerpool.patch in worker_pool.go (exit 2 without them); a submitter 'waits for "
        "ever' is concluded at structural quiescence plus a grace period; one Stop and one Resize per history, restart of a stopped pool "
        "with Start is not modelled; the worker's random select between ctx.Done and the queue is not controlled by the schedules"),
}

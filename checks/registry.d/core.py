"""Registry fragment: core request path (specs/Core)."""
MC = "model_checking"
_NS = ("TLA+ design spec Namespace (tree + attribute/negative/directory caches + per-handle kind at the code's grain; TLC "
       "exhaustive, invariant Transparent) + step validation of recorded handler histories against CoreOps/CoreTrace")
CLAIMED = {
 "C01": dict(cat=MC, engine="Core", design="5/C01",
   technique="TLA+ spec FileData/CoreOps (byte-array model, TLC exhaustive) + step validation of recorded READ/WRITE/SETATTR histories (CoreTrace)",
   text="FileData.tla shows on every reachable state that the Overlay/Resize/ReadCount operators are the byte-array model (holes zero, "
        "count = min(requested, T, size-offset), eof rule, a WRITE acknowledging n stored exactly n bytes); CoreTrace then checks every "
        "recorded step of seeded real histories (HandleCall -> handlers -> vfs) with those operators: reply count/eof/data and the backend "
        "file bytes after every step.",
   note="literal-byte histories keep files under 200 bytes and transfer sizes 4/16/64/default; offsets near 2^63 are logged by class "
        "(2^63-1-d, 2^63+d, 2^64-1-d) because TLC integers are 32-bit; after a successful write near 2^63 the file's contents are no longer "
        "constrained until it is shrunk again; transfers of 64 KiB-1 MiB are the business of C23"),
 "C02": dict(cat=MC, engine="Core", design="5/C02", technique=_NS,
   text="Namespace.tla models Lookup/Readdir/Create/Mkdir/Remove/Rmdir/Rename with exactly the invalidations the code performs and an "
        "Expire action for any entry; TLC checks in every reachable state that every possible LOOKUP and READDIR reply equals the reply "
        "computed from the tree alone, and finds F02/F03 when the repairs are switched off. CoreTrace validates every step of seeded "
        "histories under all 8 cache configurations: ok/fail and the resulting backend tree must be an allowed outcome of the POSIX model; "
        "a failed request must leave the tree unchanged.",
   note="names {a,b,c} plus invalid ones, depth <= 3; exhaustive model: names {a,b}, one nested directory, kinds F/D (quick) F/D/L (thorough); "
        "a handle denotes the path it was issued for and a request through a handle whose object was replaced may simply fail"),
 "C03": dict(cat=MC, engine="Core", design="5/C03", technique=_NS,
   text="CreateOut in CoreOps states the allowed outcomes of CREATE for every mode x existing kind x sattr x verifier (ghost map of the "
        "verifier that created each file); every recorded CREATE step of the namespace histories is checked against it, including the "
        "bytes of the pre-existing object afterwards and the NFS3ERR_EXIST status for GUARDED/EXCLUSIVE.",
   note="EXCLUSIVE on an existing regular file with another verifier replies OK (file untouched): listed known finding F01b"),
 "C04": dict(cat=MC, engine="Core", design="5/C04", technique=_NS,
   text="every fattr3 / wcc_attr / entry fileid of every recorded reply is decoded with the RFC 1813 schema and compared by CoreTrace "
        "with the backend tree logged before/after the step (type, size, permission bits) and with a ghost map path -> first fileid "
        "reported while the path is unchanged; SETATTR with arbitrary mode bits, dangling links, all cache settings.",
   note="attributes reported through a handle whose object was removed or replaced are exempt (they describe the old object); mtime/atime/ctime, "
        "uid/gid and nlink are not compared"),
}

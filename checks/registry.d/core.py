"""Registry fragment: core request path (specs/Core)."""
MC = "model_checking"
_NS = ("TLA+ design spec Namespace (tree + attribute/negative/directory caches + per-handle kind at the code's grain; TLC "
       "exhaustive, invariant Transparent) + step validation of recorded handler histories against CoreOps/CoreTrace")
CLAIMED = {
 "C01": dict(cat=MC, engine="Core", design="5/C01",
   technique="TLA+ spec FileData/CoreOps (byte-array model, TLC exhaustive) + step validation of recorded READ/WRITE/SETATTR histories (CoreTrace)",
   text="FileData.tla shows on every reachable state that the Overlay/Resize/ReadCount operators are the byte-array model (holes zero, "
        "count = min(requested, T, size-offset), eof rule, a WRITE acknowledging n stored exactly n bytes); CoreTrace then checks every "
        "recorded step of seeded real histories (HandleCall -> handlers -> vfs) with those operators: reply count/eof/data and the backend "
        "file bytes after every step.",
   note="literal-byte histories keep files under 200 bytes and transfer sizes 4/16/64/default; offsets near 2^63 are logged by class "
        "(2^63-1-d, 2^63+d, 2^64-1-d) because TLC integers are 32-bit; after a successful write near 2^63 the file's contents are no longer "
        "constrained until it is shrunk again; transfers of 64 KiB-1 MiB are the business of C23"),
 "C02": dict(cat=MC, engine="Core", design="5/C02", technique=_NS,
   text="Namespace.tla models Lookup/Readdir/Create/Mkdir/Remove/Rmdir/Rename with exactly the invalidations the code performs and an "
        "Expire action for any entry; TLC checks in every reachable state that every possible LOOKUP and READDIR reply equals the reply "
        "computed from the tree alone, and finds F02/F03 when the repairs are switched off. CoreTrace validates every step of seeded "
        "histories under all 8 cache configurations: ok/fail and the resulting backend tree must be an allowed outcome of the POSIX model; "
        "a failed request must leave the tree unchanged.",
   note="names {a,b,c} plus invalid ones, depth <= 3; exhaustive model: names {a,b}, one nested directory, kinds F/D (quick) F/D/L (thorough); "
        "a handle denotes the path it was issued for and a request through a handle whose object was replaced may simply fail"),
 "C03": dict(cat=MC, engine="Core", design="5/C03", technique=_NS,
   text="CreateOut in CoreOps states the allowed outcomes of CREATE for every mode x existing kind x sattr x verifier (ghost map of the "
        "verifier that created each file); every recorded CREATE step of the namespace histories is checked against it, including the "
        "bytes of the pre-existing object afterwards and the NFS3ERR_EXIST status for GUARDED/EXCLUSIVE.",
   note="EXCLUSIVE on an existing regular file with another verifier replies OK (file untouched): listed known finding F01b"),
 "C04": dict(cat=MC, engine="Core", design="5/C04", technique=_NS,
   text="every fattr3 / wcc_attr / entry fileid of every recorded reply is decoded with the RFC 1813 schema and compared by CoreTrace "
        "with the backend tree logged before/after the step (type, size, permission bits) and with a ghost map path -> first fileid "
        "reported while the path is unchanged; SETATTR with arbitrary mode bits, dangling links, all cache settings.",
   note="attributes reported through a handle whose object was removed or replaced are exempt (they describe the old object); mtime/atime/ctime, "
        "uid/gid and nlink are not compared"),
}

CLAIMED.update({
 "C08": dict(cat=MC, engine="Core", design="5/C08",
   technique="TLA+ spec ReadOnly (guard order per procedure, TLC exhaustive) + step validation of recorded histories with every backend call classified (CoreTrace ROBad)",
   text="ReadOnly.tla models a request of any procedure with well-formed / truncated / garbage arguments against a policy that may be switched "
        "between requests; TLC shows no modification, no OK from a mutating procedure and no MODIFY/EXTEND/DELETE grant while read-only, and finds the "
        "violation when the guard is tested after decoding. CoreTrace checks the same clauses on every recorded request of read-only histories: "
        "the recording backend counts write-mode opens, writes, truncation, create, remove, rename, mkdir, symlink, chmod, chown, chtimes.",
   note="the switch is exercised between requests (atomicity of the switch with respect to in-flight requests is C16); arguments are mangled by "
        "truncation at 4-byte boundaries, random bytes and single bit flips"),
 "C11": dict(cat=MC, engine="Core", design="5/C11",
   technique="TLA+ spec Ownership (squash x credential x sattr3 subsets, TLC exhaustive) + step validation of recorded chown calls and recorded owners (CoreTrace OwnBad)",
   text="Ownership.tla enumerates CREATE/MKDIR/SYMLINK/SETATTR by every caller identity under every squash mode with every subset of sattr3 uid/gid "
        "and checks that a caller whose effective uid is not 0 never makes another owner recorded and that new objects get the effective identity; "
        "CoreTrace checks, on recorded histories over the vfs backend (new inodes start 0:0, so a missing chown is visible), the owner of every "
        "object after every step and the arguments of every chown/lchown call against CoreOps!Squash.",
   note="the effective identity is computed by the spec's own Squash operator (C10 decides that operator against the code); a root SETATTR that sets "
        "only one of uid/gid is not exercised (outside the property)"),
 "C22": dict(cat=MC, engine="Core", design="5/C22",
   technique="TLA+ spec Durability (write path step by step, Crash at any point, TLC exhaustive) + crash injection at every backend operation of recorded histories (CoreTrace CrashBad)",
   text="Durability.tla executes WriteWithContext's backend operations one at a time with a Crash action enabled between any two; TLC shows every "
        "acknowledged byte is durable after a crash and finds the loss when the sync is absent (F14). The harness re-runs each WRITE/COMMIT history "
        "with the vfs backend crashing at backend operation k for every k; CoreTrace keeps the acknowledged contents as ghost state and compares "
        "them with the durable copy logged at the crash. The write verifier must be constant within an instance and new for each of 100+ instances.",
   note="the vfs backend's durability model: file data is volatile until Sync on an open file, the namespace is journaled; a byte range of the "
        "request in flight at the crash may hold old or new data"),
 "C25": dict(cat=MC, engine="Core", design="5/C25",
   technique="TLA+ spec FileData with MaxFS (TLC exhaustive, invariant Bounded / RefusedUnchanged) + step validation of recorded histories around the limit (CoreTrace)",
   text="FileData.tla with MaxFS in {1,3,5} shows the size never exceeds the limit and a refused request changes nothing; CoreTrace checks recorded "
        "WRITE and SETATTR(size) at limit-1/limit/limit+1 (limit set at construction or switched on and changed at run time): over-limit requests "
        "must reply NFS3ERR_FBIG and leave the file unchanged, the others must behave exactly as without a limit.",
   note="limits 1, 5, 10, 33 (+7 after a second update); the limit applies to offset + length of the request as sent"),
})

"""C18 / C19: rate limiting (specs/RateLimiter). Shared by checks/C18.py and checks/C19.py."""
import json, os
from concurrent.futures import ThreadPoolExecutor
import vflib

HARNESS = ["vf_common.go", "vf_vfs.go", "vf_clock.go", "vf_ratelimit.go"]
CLOCK_FILES = ["rate_limiter.go"]
DEV = "Dev_RefusedTrafficChargesGlobal"

WHY_A = "admitted more than burst + rate x elapsed"
WHY_B = "client within all its limits refused while the global budget has room"
WHY_BOP = "client within its per-operation limit refused"
WHY_FREE = "request subject to no rate limit refused"
WHY_C = "cleanup changed an admit/deny decision"
WHY_D = "refused request consumed global capacity"
REASONS = {"C18": (WHY_A, WHY_B, WHY_BOP, WHY_FREE, WHY_C), "C19": (WHY_B, WHY_D)}

CFG = """SPECIFICATION Spec
CONSTANTS
  Conns1 = %(c1)s
  Conns2 = %(c2)s
  OpTypes = %(ops)s
  GSet = %(G)s
  IpR4Set = %(ipr)s
  IpBSet = %(ipb)s
  ConnR4Set = %(cr)s
  ConnBSet = %(cb)s
  OpR4Set = %(opr)s
  OpBurstSet = %(opb)s
  CISet = %(ci)s
  FhIPSet = %(fhip)s
  FhGSet = %(fhg)s
  Modes = %(modes)s
  Horizon = %(hz)d
  OpHorizon = %(ohz)d
  FixSet = %(fix)s
  KnownDeviations = %(known)s
VIEW View
INVARIANTS %(invs)s
"""

TRACE_CFG = """SPECIFICATION Spec
CONSTANTS
  KnownDeviations = %(known)s
  FixOrder = %(fix)s
"""

# the JVMs of one check run side by side: keep their GC / JIT helper threads from multiplying
JENV = {"JAVA_TOOL_OPTIONS": "-XX:ParallelGCThreads=4 -XX:CICompilerCount=2"}

ALL_INV = "TypeOK FHBounded BurstPlusRate NoCollateral RefusedIsFree CleanupInvisible AbsentIsFull FaithIsGlobal FixedGlobalIsRef"


def fixed(ctx):
    return ctx.finding_status("F11") == "fixed"


def _iset(xs):
    return "{" + ", ".join(str(x).upper() if isinstance(x, bool) else str(x) for x in xs) + "}"


def _cfg(ctx, name, **kw):
    d = dict(c1=["c1"], c2=["c3"], ops=[], G=[1, 2], ipr=[0, 4], ipb=[1], cr=[0, 1], cb=[1], opr=[0], opb=[0], ci=[0, 100],
             hz=4, ohz=3, fhip=[0], fhg=[0], fix=[False], known=[], invs=ALL_INV, modes=["req"])
    d.update(kw)
    for k in ("c1", "c2", "ops", "known", "modes"):
        d[k] = ctx.tla_set(d[k])
    for k in ("G", "ipr", "ipb", "cr", "cb", "opr", "opb", "ci", "fhip", "fhg", "fix"):
        d[k] = _iset(d[k])
    return ctx.write_cfg("RateLimiter", name, CFG % d)


def exhaustive(ctx, pid):
    """Exhaustive TLC runs of the design spec (RateLimiter.tla), returned as jobs (they run next to
    the harness build and drivers to keep the wall time down). Rates are in 1/4 token per second
    (4 = 1/s, 1 = 1/4 per second, 0 = never refilled), time in ticks of 250 ms; every run explores the
    product of the configuration sets."""
    fx = fixed(ctx)
    known_now = [] if fx else [DEV]
    orders = [True] if fx else [False, True]   # the code's order (with its listed deviation) and the repaired order
    W = int(os.environ.get("VF_TLC_WORKERS", "8"))
    q = ctx.quick()
    TO = 300 if q else 900
    OPS = ["mount", "readdir"]
    if q:
        # one JVM (the start-up and warm-up of a JVM costs more than these states)
        runs = [("code", dict(fix=orders, known=known_now, ci=[0, 100], ops=OPS, opr=[0, 4], opb=[1], fhip=[0, 1, 2], fhg=[0, 2, 3], modes=["req", "op", "fh"]))]
    else:
        # measured on a machine loaded by other checks (load average 35 on 16 cores), 8 workers each, side by side:
        # cb=[1,2] and req3 at horizon 6 gave 3 630 326 + 1 633 376 distinct states in 729 s; cb=[1], horizon 5 for both
        # and operation horizon 5 gave 2 774 979 + 614 898 in 586 s (1 930 CPU-seconds); the operation horizon is now 4
        runs = [("code", dict(fix=orders, known=known_now, G=[1, 3], ipr=[0, 1, 4], ipb=[1, 2], cr=[0, 4], cb=[1], ci=[0, 100], hz=5, ohz=4,
                              ops=OPS, opr=[0, 1, 4], opb=[1, 2], fhip=[0, 1, 2], fhg=[0, 2, 3], modes=["req", "op", "fh"])),
                ("req3", dict(fix=orders, known=known_now, c1=["c1", "c2"], G=[2], ipr=[2], ipb=[2], cr=[4], cb=[1], ci=[100], hz=5))]
    if pid == "C19":
        for _, kw in runs:
            kw["modes"] = ["req"]
    jobs = []

    def job(name, kw, w):
        def go():
            cfg = _cfg(ctx, "MC_%s.cfg" % name, **kw)
            return (ctx.tlc("RateLimiter", "RateLimiter", cfg, timeout=TO, workers=w, deadlock=False, heap="4g", env=JENV), None)
        return go
    for name, kw in runs:
        jobs.append(job(name, kw, W))

    # non-vacuity: the pinned order without the deviation violates NoCollateral (rule (b) of C18, second
    # sentence of C19) and RefusedIsFree (first sentence of C19)
    def nonvac(inv):
        def go():
            cfg = _cfg(ctx, "MC_nv_%s.cfg" % inv, fix=[False], known=[], invs=inv)
            return (ctx.tlc("RateLimiter", "RateLimiter", cfg, timeout=300, workers=1, deadlock=False, heap="1g", env=JENV), inv)
        return go
    for inv in (["NoCollateral"] if pid == "C18" else ["RefusedIsFree", "NoCollateral"]):
        jobs.append(nonvac(inv))
    return jobs


def account(ctx, r, inv):
    """Bookkeeping of one exhaustive run (main thread). A failure here is a defect of the *spec*, or the
    expected counterexample of a non-vacuity run; it is never by itself a verdict about the code."""
    ctx.log("TLC RateLimiter %s: %s generated=%s distinct=%s depth=%s (%.1fs)" % (
        r["cfg"], "OK" if r["ok"] else ("violated " + str(r["violated"])), r.get("generated"), r.get("distinct"), r.get("depth"), r["wall_s"]))
    if "generated" not in r:
        raise vflib.Broken("could not parse TLC output:\n" + r["out"][-3000:])
    ctx.cov["tlc_runs"].append({k: r.get(k) for k in ("module", "cfg", "generated", "distinct", "depth", "wall_s", "ok", "violated")})
    if inv is None:
        if not r["ok"]:
            raise vflib.Broken("exhaustive TLC run %s did not complete cleanly (spec-level problem, not a verdict about the "
                               "code):\n%s" % (r["cfg"], r["out"][-5000:]))
        ctx.cov["states"] += r["distinct"]
        ctx.cov["transitions"] += r["generated"]
    else:
        if r["violated"] != inv:
            raise vflib.Broken("non-vacuity run: expected %s to be violated by the pinned order, got %s" % (inv, r["violated"]))
        ctx.notes.append("non-vacuity: on the faithful (pinned order) model without the deviation TLC finds %s violated "
                         "(counterexample of %s states); the repaired order satisfies it in the exhaustive run" % (inv, r.get("depth")))


def validate(ctx, trace, label):
    cfg = ctx.write_cfg("RateLimiter", "Trace_%s.cfg" % label, TRACE_CFG % dict(
        known=ctx.tla_set(ctx.known_devs(["C18", "C19"])), fix="TRUE" if fixed(ctx) else "FALSE"))
    return ctx.tlc_trace("RateLimiter", "RateLimiterTrace", cfg, trace, out_name="res_%s.json" % label, heap="4g", env=JENV)


def mine(pid, why):
    return why in REASONS[pid]


def history_of(lines, lno):
    start = lno - 1
    while start > 0 and json.loads(lines[start]).get("ev") != "reset":
        start -= 1
    return [l.rstrip("\n") for l in lines[start:lno]]


def _mutations(lines, label):
    """Corrupted copies of recorded histories: (lines of the history prefix with one field of the
    last line changed, the reason the trace spec must give for that last line)."""
    want = {"C": WHY_C}
    if label != "conn":
        want["A"] = WHY_A
    want["F" if label == "nfs" else "B"] = WHY_FREE if label == "nfs" else WHY_B
    out, hist, first, admits, cfg = {}, [], {}, {}, {}
    for ln in lines:
        e = json.loads(ln)
        if e["ev"] == "reset":
            hist, first, admits, cfg = [], {}, {}, e["cfg"]
            e = dict(e, level="mut")
        m = None
        key = (e["ip"], e["op"])
        if e["ev"] == "op":
            first.setdefault(key, e["t"])
        # the candidates are chosen so that the ghost must reject the corrupted line whatever the code did
        # (it depends only on the configuration and on the logged calls and decisions)
        if ("A" in want and "A" not in out and e["ev"] == "op" and not e["dec"] and not e["decn"] and first[key] == e["t"]
                and admits.get(key, 0) == cfg["opB"][e["op"]]):
            # a refusal in the very tick the limiter was first used, after exactly `burst` admits, rewritten
            # into an admit: more than burst + rate x elapsed admitted
            m = ("A", dict(e, dec=True, decn=True))
        elif "C" not in out and e["ev"] in ("req", "op") and e["dec"] and e["decn"]:
            # the decision of the twin that never cleans up flipped
            m = ("C", dict(e, decn=False))
        elif "F" in want and "F" not in out and e["ev"] == "free" and e["dec"]:
            # a request no limiter applies to rewritten into a refusal
            m = ("F", dict(e, dec=False, decn=False))
        elif ("B" in want and "B" not in out and e["ev"] == "req" and e["dec"] and hist and hist[-1]["ev"] == "reset"
              and cfg["gB"] >= 1 and cfg["ipB"] >= 1 and (cfg["connR4"] == 0 or cfg["connB"] >= 1)):
            # the first request of a history (nothing sent yet, every bucket it needs full) rewritten into a refusal
            m = ("B", dict(e, dec=False, decn=False))
        if m:
            out[m[0]] = ([json.dumps(x, separators=(",", ":")) for x in hist] + [json.dumps(m[1], separators=(",", ":"))], want[m[0]])
        if e["ev"] == "op" and e["dec"]:
            admits[key] = admits.get(key, 0) + 1
        hist.append(e)
        if len(out) == len(want):
            break
    return out


LEVELS = (("api", "TestVF_RateLimitAPI"), ("nfs", "TestVF_RateLimitNFS"), ("conn", "TestVF_RateLimitConn"))


def _validate_chunks(ctx, body, pool, parts):
    """Validate the concatenated trace in `parts` chunks (cut at history boundaries) with one TLC
    each, in parallel; line numbers of the merged result refer to `body`."""
    resets = [i for i, ln in enumerate(body) if ln.startswith('{"ev":"reset"') or json.loads(ln).get("ev") == "reset"]
    cuts = [0]
    for k in range(1, parts):
        target = len(body) * k // parts
        c = next((i for i in resets if i >= target), None)
        if c is not None and c > cuts[-1]:
            cuts.append(c)
    cuts.append(len(body))

    def one(k):
        tp = os.path.join(ctx.scratch, "ratelimit_part%d.ndjson" % k)
        open(tp, "w").write("\n".join(body[cuts[k]:cuts[k + 1]]) + "\n")
        return validate(ctx, tp, "part%d" % k)
    futs = [pool.submit(one, k) for k in range(len(cuts) - 1)]
    merged = {"n": 0, "consumed": 0, "bad": [], "dev": [], "drift": [], "stats": {}}
    for k, f in enumerate(futs):
        r = f.result()
        merged["n"] += r["n"]
        merged["consumed"] += r["consumed"]
        for key in ("bad", "dev", "drift"):
            merged[key] += [dict(x, l=x["l"] + cuts[k]) for x in r[key]]
        for lv, cs in r["stats"].items():
            m = merged["stats"].setdefault(lv, {})
            for c, v in cs.items():
                m[c] = m.get(c, 0) + v
    return merged


def run_common(ctx, pid):
    if ctx.replay:
        return replay(ctx, pid)
    ctx._spec_copy("RateLimiter")   # create the scratch copy of specs/ before any thread needs it
    pool = ThreadPoolExecutor(max_workers=8)
    try:
        _run(ctx, pid, pool)
    finally:
        pool.shutdown(wait=True)


def _run(ctx, pid, pool):
    exh = [pool.submit(j) for j in exhaustive(ctx, pid)]
    binp = ctx.build_harness(HARNESS, clock_files=CLOCK_FILES)
    q = ctx.quick()
    # the trace spec costs about 3 ms of TLC per recorded call: quick validates ~8 500 calls, thorough ~190 000 (4 TLC in parallel)
    envs = {"api": {"VF_HIST": 80 if q else 1200, "VF_STEPS": 50 if q else 80},
            "nfs": {"VF_HIST": 12 if q else 120, "VF_STEPS": 40 if q else 70},
            "conn": {"VF_HIST": 16 if q else 160, "VF_STEPS": 40 if q else 60}}
    for label, test in LEVELS:
        ctx.harness_ok(binp, test, envs[label])
    ctx.log("harness drivers done")
    # one file: corrupted copies first (binding demonstration), then the recorded traces of the three levels
    body, segs, spans, summ, nolines = [], [], [], {}, []
    recorded = {}
    for label, _ in LEVELS:
        recorded[label] = open(os.path.join(ctx.scratch, "ratelimit_%s.ndjson" % label)).read().splitlines()
        summ[label] = json.load(open(os.path.join(ctx.scratch, "ratelimit_%s.summary.json" % label)))
        ms = _mutations(recorded[label], label)
        if len(ms) < 2:
            nolines.append("no line to corrupt in the %s trace" % label)
        for k, (lns, expect) in sorted(ms.items()):
            body += lns
            segs.append((label + ":" + k, len(body), expect))
    nmut = len(body)
    for label, _ in LEVELS:
        spans.append((label, len(body), len(body) + len(recorded[label])))
        body += recorded[label]
    res = _validate_chunks(ctx, body, pool, parts=1 if q else 4)
    for f in exh:
        account(ctx, *f.result())   # a spec-level failure of an exhaustive run is vflib.Broken (exit 2)
    ctx.cov["exhaustive"] = True
    ctx.log("trace validation done: %d lines, %d bad, %d dev, %d drift entries" % (res["n"], len(res["bad"]), len(res["dev"]), len(res["drift"])))
    if res["consumed"] != res["n"]:
        raise vflib.Broken("trace spec consumed %s of %s lines" % (res["consumed"], res["n"]))
    # binding demonstration: every corrupted history must be rejected, at the corrupted line, for the corrupted rule
    unbound = nolines + ["%s: expected '%s' at line %d, got %s" % (name, expect, lno, sorted({b["why"] for b in res["bad"] if b["l"] == lno}))
               for name, lno, expect in segs if not any(b["l"] == lno and b["why"] == expect for b in res["bad"])]
    ctx.cov["binding_mutations_rejected"] += len(segs) - (len(unbound) - len(nolines))
    for label, _ in LEVELS:
        ctx.cov["traces_validated_against_impl"] += summ[label]["histories"]
        ctx.cov["distinct_nontrivial"] += summ[label]["nontrivial"]
        for s in summ[label].get("samples", [])[:1]:
            ctx.sample(s)
    ctx.cov["evaluations"] += res["n"] - nmut
    ctx.cov["trace_stats"] = {k: v for k, v in res["stats"].items() if k != "mut"}

    def level_of(lno):
        for label, a, b in spans:
            if a < lno <= b:
                return label
        return "mut"
    seen = {}
    for b in sorted(res["bad"], key=lambda x: x["l"]):
        if b["l"] <= nmut or not mine(pid, b["why"]):
            continue
        seen[b["why"]] = seen.get(b["why"], 0) + 1
        if seen[b["why"]] > 2:
            continue
        e = json.loads(body[b["l"] - 1])
        label = level_of(b["l"])
        ctx.violation("%s (limiter %s; level %s, line %d: t=%s ip=%s conn=%s op=%s decided %s)" % (
            b["why"], "/".join(x for x in b["lim"] if x != "-"), label, b["l"], e.get("t"), e.get("ip"), e.get("conn"),
            e.get("op"), "admit" if e.get("dec") else "refuse"), history_of(body, b["l"]), {"level": label, "line": b["l"]})
    if unbound and not ctx.violations:
        raise vflib.Broken("binding demonstration failed: corrupted trace accepted (%s)" % "; ".join(unbound))
    dev_seen = False
    for d in res["dev"]:
        if d["l"] <= nmut:
            continue
        ent = [e for e in ctx.known() if e["deviation"] == d["name"]]
        if ent:
            ctx.known_finding(d["name"], ent[0]["what"])
            dev_seen = True
    if ctx.known() and not dev_seen:
        ctx.notes.append("the listed finding was not reproduced by its directed scenario in this run")
    drift = sorted({"%s: %s" % (level_of(d["l"]), d["why"]) for d in res["drift"] if d["l"] > nmut})
    if drift:
        ctx.cov["impl_model_drift"] = drift[:8]
        ctx.notes.append("impl-level drift: recorded bucket contents / decisions differ from the transcribed AllowRequest/AllowOperation; "
                         "the exhaustive result no longer speaks about this code (not a verdict)")
    names = (("admit", "admit"), ("refused_global", "AllowRequest refused at the global stage"), ("refused_ip", "AllowRequest refused at the per-IP stage"),
             ("refused_conn", "AllowRequest refused at the per-connection stage"), ("refused_op", "AllowOperation refused"),
             ("cleanup_ip", "PerIPLimiter timed cleanup removed a bucket"), ("cleanup_op", "PerOperationLimiter timed cleanup removed an address"),
             ("close", "CleanupConnection"), ("free", "request subject to no limiter"),
             ("fhalloc", "AllocateFileHandle"), ("fhrel", "ReleaseFileHandle"))
    covered = {name for s in ctx.cov["trace_stats"].values() for k, name in names if s.get(k, 0) > 0}
    ctx.cov["spec_actions_covered_by_impl"] = sorted(covered)
    ctx.cov["rule"] = ("seeded timing sequences on the virtual clock (gaps 0..40 ticks of 250 ms) over 3 addresses, 5+ connections and the 4 "
                       "operation types with limits 0..8 (mount rates 1/4..2 per second, cleanup interval 0..8 ticks and 5 min), at the "
                       "RateLimiter API, through the READ/WRITE/READDIR/READDIRPLUS/MNT handlers and through handleConnectionLoop; one address "
                       "hammers, one paces itself within its limits; a history is non-trivial when it has a refusal, a later admit and a "
                       "cleanup pass that removed a bucket (API, handlers) or a refusal and a later admit (connection loop)")
    ctx.assumptions += ["rate_limiter.go is compiled with time.Now()/time.Since() textually redirected to the harness clock; no other clock "
                        "source reaches the limiter",
                        "the in-package projection (tokens, lastRefill, limiter maps, lastCleanup) is read faithfully; tokens x 16 are integers "
                        "for the rates and tick used (non-integers are reported as drift)",
                        "the bursts the configuration does not name (global, per operation type) are read from the limiter at creation",
                        "a client is 'within its limits' while every request it has sent so far would have found a token in a reference bucket "
                        "charged with all the traffic sent under the same key; the global budget is a reference bucket charged with admitted "
                        "requests only; the interval of rule (a) starts at the first request sent under the limiter's key",
                        "sequential timing sequences only (one call at a time); fewer than 100 idle per-IP limiters per cleanup pass"]


def replay(ctx, pid):
    """Re-validate one recorded history (replay file written by a violation)."""
    lines = [l for l in open(ctx.replay).read().splitlines() if l.strip()]
    body = [l for l in lines if json.loads(l).get("ev") != "meta"]
    tp = os.path.join(ctx.scratch, "replay.ndjson")
    open(tp, "w").write("\n".join(body) + "\n")
    res = validate(ctx, tp, "replay")
    if res["consumed"] != res["n"]:
        raise vflib.Broken("trace spec consumed %s of %s lines of the replay file" % (res["consumed"], res["n"]))
    for why in sorted({b["why"] for b in res["bad"] if mine(pid, b["why"])}):
        ctx.violations.append({"reason": why, "replay": ctx.replay})   # the replayed file stays as it is
    for d in res["dev"]:
        ctx.known_finding(d["name"])
    ctx.cov["evaluations"] = len(body)
    ctx.cov["distinct_nontrivial"] = 2
    ctx.sample({"replayed": ctx.replay})

"""Limits family (C23 specs/Limits, C26 specs/Readdir): helpers shared by checks/C23.py and checks/C26.py."""
import json, os
import vflib


def history_of(lines, lno):
    """Lines of the history (from its reset line) up to and including 1-based line number lno."""
    start = lno - 1
    while start > 0 and '"ev":"reset"' not in lines[start]:
        start -= 1
    return [l.rstrip("\n") for l in lines[start:lno]]


def report(ctx, res, trace, label, max_per_reason=2):
    """bad -> violations (at most max_per_reason replays per distinct reason), dev -> known findings."""
    lines = open(trace).readlines()
    seen = {}
    for b in sorted(res["bad"], key=lambda x: x["l"]):
        seen[b["why"]] = seen.get(b["why"], 0) + 1
        if seen[b["why"]] > max_per_reason:
            continue
        ctx.violation("%s (%s, line %d)" % (b["why"], label, b["l"]), history_of(lines, b["l"]), {"trace": label, "line": b["l"]})
    for d in res["dev"]:
        ent = [e for e in ctx.known() if e["deviation"] == d["name"]]
        if ent:
            ctx.known_finding(d["name"], ent[0]["what"])
    if res["drift"]:
        ctx.cov.setdefault("impl_model_drift", [])
        for w in sorted({d["why"] for d in res["drift"]}):
            if w not in ctx.cov["impl_model_drift"]:
                ctx.cov["impl_model_drift"].append(w)
    return seen


def replay_body(ctx):
    lines = [l for l in open(ctx.replay).read().splitlines() if l.strip()]
    body = [l for l in lines if json.loads(l).get("ev") != "meta"]
    tp = os.path.join(ctx.scratch, "replay.ndjson")
    open(tp, "w").write("\n".join(body) + "\n")
    return body, tp


def mutate(ctx, trace, label, mutators, validate):
    """Binding demonstration. mutators: list of (pick, what); pick(event) returns a corrupted copy of one
    recorded line (or None). For each mutator the history prefix up to the first applicable line, with the
    corrupted line in place, is appended to one file; the trace spec must flag every corrupted line."""
    if ctx.violations:
        ctx.notes.append("binding demonstration skipped: the run found violations")
        return
    lines = open(trace).read().splitlines()
    out, marks = [], []
    for pick, what in mutators:
        for i, ln in enumerate(lines):
            e = json.loads(ln)
            if e.get("ev") in ("reset", "meta"):
                continue
            m = pick(e)
            if m is None:
                continue
            start = i
            while start > 0 and '"ev":"reset"' not in lines[start]:
                start -= 1
            out += lines[start:i] + [json.dumps(m, separators=(",", ":"))]
            marks.append((len(out), what))
            break
        else:
            raise vflib.Broken("binding demonstration (%s): no line to corrupt" % what)
    mp = os.path.join(ctx.scratch, "mut_%s.ndjson" % label)
    open(mp, "w").write("\n".join(out) + "\n")
    res = validate(ctx, mp, label + "_mut")
    flagged = {b["l"] for b in res["bad"]}
    for lno, what in marks:
        if lno not in flagged:
            raise vflib.Broken("binding demonstration failed (%s): corrupted line %d accepted" % (what, lno))
        ctx.cov["binding_mutations_rejected"] += 1

import os, sys
sys.path.insert(0, os.path.dirname(os.path.abspath(__file__)))
import core_common as cc, core_specs

LEVEL = "model_checking"
PID = "C01"


def run(ctx):
    if ctx.replay:
        return cc.replay(ctx, PID)
    core_specs.filedata(ctx, maxfs_values=(0,))
    binp = ctx.build_harness(cc.HARNESS)
    q = ctx.quick()
    runs = cc.run_profile(ctx, binp, "data", 48 if q else 320, 40 if q else 60)
    cc.report_all(ctx, PID, runs, "data")
    trace, res = runs[0]
    cc.mutate_and_reject(ctx, trace, "data", cc.mut_lose_data, "written byte altered in the logged backend state")
    ctx.cov["rule"] = ("seeded histories of CREATE/WRITE/READ/SETATTR(size)/GETATTR on two files with transfer sizes 4, 16, 64 and the "
                       "default, offsets 0, EOF+-1, beyond EOF, 2^63-1-d, 2^63+d, 2^64-1-d, counts 0, T-1, T, T+1, 2T, 2^32-1, under "
                       "attribute-cache TTL 1 ns and default; non-trivial = at least 3 mutating requests")
    ctx.assumptions += ["file contents are compared on the first 200 bytes (histories keep files below that size)"]

"""C13: XDR, RPC and record-marking codecs are exact and bounded (specs/Wire)."""
import json, os, sys
sys.path.insert(0, os.path.dirname(os.path.abspath(__file__)))
import vflib
import wire_common as wc

LEVEL = "model_checking"
HARNESS = ["vf_common.go", "vf_vfs.go", "vf_wire.go"]

CODEC_CFG = """SPECIFICATION Spec
CONSTANTS
  Alphabet = {0, 1}
  MaxLen = %(maxlen)d
  ModelLim = %(lim)d
  CheckLimit = %(check)s
  PadRule = "%(pad)s"
INVARIANTS %(invs)s
"""
CODEC_INVS = "TypeOK Aligned RoundTrip NoValueFromPrefix LimitRefused ClsDecision AllocBounded BadTypeRefused"

RM_CFG = """SPECIFICATION Spec
CONSTANTS
  RecLenAll = %(all)d
  RecLenPat = %(pat)d
  MaxFrags = %(frags)d
  MaxRec = %(maxrec)d
  MaxStream = %(stream)d
  WriterSizes = {1, 2, 3, 4, 5, 6, 7}
  CheckFirst = %(first)s
  ResetBuf = %(reset)s
INVARIANTS %(invs)s
"""
RM_INVS = ("TypeOK DeliveredIsPrefix Reassembled ErrIsJustified OversizeNotDelivered AllocBounded "
           "AgreesWithClosedForm FirstRecordClosedForm")

GEN_CFG = """SPECIFICATION Spec
CONSTANTS
  MaxLen = 9
  FullLen = %(full)d
  Seed = %(seed)d
  SampleMod = %(mod)d
  StrAlpha = {97, 98}
  CutLen = %(cutlen)d
"""

TRACE_CFG = """SPECIFICATION Spec
CONSTANTS
  KnownDeviations = %(known)s
"""


def exhaustive(ctx):
    q = ctx.quick()
    kw = dict(workers=wc.WORKERS, deadlock=False, heap="4g")
    # measured (4 workers, loaded machine): codec MaxLen 9 = ~90 k states / 15 s; record marking, one record, all contents
    # <= 2 (thorough: <= 6 = 1.2 M states / 110 s) and the pattern <= 6, <= 4 fragments; two-record streams 32 k (thorough 585 k / 80 s)
    cfg = ctx.write_cfg("Wire", "MC_codec.cfg", CODEC_CFG % dict(maxlen=9, lim=5, check="TRUE", pad="code", invs=CODEC_INVS))
    ctx.tlc_exhaustive("Wire", "Wire", cfg, timeout=600, **kw)
    cfg = ctx.write_cfg("Wire", "MC_rm1.cfg", RM_CFG % dict(all=2 if q else 6, pat=6, frags=4, maxrec=5, stream=1,
                                                            first="TRUE", reset="TRUE", invs=RM_INVS))
    ctx.tlc_exhaustive("Wire", "WireRM", cfg, timeout=900, **kw)
    cfg = ctx.write_cfg("Wire", "MC_rm2.cfg", RM_CFG % dict(all=1, pat=3 if q else 4, frags=2 if q else 3, maxrec=3, stream=2,
                                                            first="TRUE", reset="TRUE", invs=RM_INVS))
    ctx.tlc_exhaustive("Wire", "WireRM", cfg, timeout=900, **kw)
    ctx.cov["exhaustive"] = True
    # non-vacuity: the same models with the defect switched on must violate the invariant
    nv = [("Wire", "MC_nv_alloc.cfg", CODEC_CFG % dict(maxlen=4, lim=2, check="FALSE", pad="code", invs="AllocBounded"), "AllocBounded"),
          ("Wire", "MC_nv_pad.cfg", CODEC_CFG % dict(maxlen=4, lim=2, check="TRUE", pad="none", invs="RoundTrip"), "RoundTrip"),
          ("WireRM", "MC_nv_first.cfg", RM_CFG % dict(all=0, pat=4, frags=2, maxrec=3, stream=1, first="FALSE", reset="TRUE",
                                                       invs="AllocBounded"), "AllocBounded"),
          ("WireRM", "MC_nv_reset.cfg", RM_CFG % dict(all=0, pat=2, frags=2, maxrec=5, stream=2, first="TRUE", reset="FALSE",
                                                       invs="DeliveredIsPrefix"), "DeliveredIsPrefix")]
    if q:   # quick: the reader defect only (each TLC start costs seconds); thorough: all four
        nv = [nv[3]]
    for mod, name, text, inv in nv:
        cfg = ctx.write_cfg("Wire", name, text)
        r = ctx.tlc_exhaustive("Wire", mod, cfg, expect_ok=False, count=False, timeout=300, **kw)
        if r["violated"] != inv:
            raise vflib.Broken("non-vacuity run %s: expected %s to be violated, got %s\n%s" % (name, inv, r["violated"], r["out"][-1500:]))
    ctx.notes.append("non-vacuity: TLC finds DeliveredIsPrefix violated by a reader that keeps its buffer across records" +
                     ("" if q else "; AllocBounded violated by a decoder that allocates the declared length before testing it and by a "
                                   "reader that tests the record limit after reading the fragment; RoundTrip violated by a decoder "
                                   "that ignores padding"))


def gen_vectors(ctx):
    q = ctx.quick()
    vec = os.path.join(ctx.scratch, "wire_vectors.ndjson")
    cfg = ctx.write_cfg("Wire", "Gen.cfg", GEN_CFG % dict(full=5 if q else 9, seed=ctx.seed % 100000, mod=23 if q else 1,
                                                          cutlen=60 if q else 200))
    r = ctx.tlc("Wire", "WireGen", cfg, workers=1, timeout=600, env={"VF_VECTORS": vec}, deadlock=False, heap="4g")
    if not r["ok"] or not os.path.exists(vec):
        raise vflib.Broken("vector generation failed:\n" + r["out"][-3000:])
    ctx.cov["tlc_runs"].append({"module": "WireGen", "cfg": "Gen.cfg", "wall_s": r["wall_s"], "vectors": sum(1 for _ in open(vec))})
    return vec


def validate(ctx, trace, label):
    cfg = ctx.write_cfg("Wire", "Trace_%s.cfg" % label, TRACE_CFG % dict(known=ctx.tla_set(ctx.known_devs(["C13"]))))
    return ctx.tlc_trace("Wire", "WireTrace", cfg, trace, out_name="res_%s.json" % label, heap="4g")


def bind(ctx, lines):
    rows = [json.loads(l) for l in lines]
    muts = []

    def first(pred, what, change):
        for e in rows:
            if pred(e):
                muts.append((what, change(dict(e))))
                return

    # a successful decode reported with one byte more consumed
    first(lambda e: e.get("ev") == "dec" and e["out"] == "ok" and e["k"] == "str" and e["used"] > 4,
          "consumed length", lambda e: dict(e, used=e["used"] + 1))
    # one byte of an encoder output flipped
    first(lambda e: e.get("ev") == "enc" and len(e["got"]) > 5, "encoder output",
          lambda e: dict(e, got=e["got"][:5] + [e["got"][5] ^ 1] + e["got"][6:]))
    # a rejected over-limit length reported with an allocation of the declared size
    first(lambda e: e.get("ev") == "cls" and e["out"] != "ok" and e["w"]["h"] >= 32768, "allocation",
          lambda e: dict(e, alloc=(1 << 30) - 1))
    # a reassembled record reported one byte short
    first(lambda e: e.get("ev") == "rml" and e["out"] == "ok" and e["reclen"] > 0, "record length",
          lambda e: dict(e, reclen=e["reclen"] - 1))
    # a truncated input reported as decoded
    first(lambda e: e.get("ev") == "dec" and e["out"] == "short" and e["k"] == "fh", "outcome", lambda e: dict(e, out="ok"))
    if len(muts) < 5:
        raise vflib.Broken("binding demonstration: trace lacks a line of a kind to corrupt")
    wc.expect_rejected(ctx, lambda p, lab: validate(ctx, p, lab), muts)


def run(ctx):
    if ctx.replay:
        return replay(ctx)
    exhaustive(ctx)
    vec = gen_vectors(ctx)
    binp = ctx.build_harness(HARNESS)
    q = ctx.quick()
    ctx.harness_ok(binp, "TestVF_WireVectors", {"VF_VECTORS": vec, "VF_RANDOM": 300 if q else 3000, "VF_FRAGS": 120 if q else 900,
                                                "VF_WRITES": 24 if q else 120}, timeout=900)
    trace = os.path.join(ctx.scratch, "wire.ndjson")
    summ = json.load(open(os.path.join(ctx.scratch, "wire.summary.json")))
    res = validate(ctx, trace, "wire")
    if res["consumed"] != res["n"]:
        raise vflib.Broken("trace spec consumed %s of %s lines" % (res["consumed"], res["n"]))
    lines = open(trace).readlines()
    wc.report(ctx, res, lines)
    ctx.cov["traces_validated_against_impl"] = res["n"] - 1
    ctx.cov["evaluations"] = res["n"] - 1
    ctx.cov["distinct_nontrivial"] = summ["nontrivial"]
    ctx.cov["trace_stats"] = res["stats"]
    ctx.cov["vectors_by_kind"] = summ["by_kind"]
    for s in summ.get("samples", [])[:3]:
        ctx.sample(s)
    bind(ctx, lines)
    ctx.cov["rule"] = ("every vector TLC generated (values over a two-letter alphabet, lengths 0..9, every cut point and a trailer; declared "
                       "lengths limit-1, limit, limit+1, 2^31, 2^32-1 for the limits 8192/400/64/16/1 MiB; every fragmentation of records "
                       "<= 6 bytes into <= 3 fragments) replayed on the real codec functions, plus seeded random strings, call headers, "
                       "AUTH_SYS bodies, fragmentations up to 1 MiB and writer runs; each line is one call and is non-trivial by construction")
    ctx.cov["spec_actions_covered_by_impl"] = ["Encode(str, fh)", "Decode(str, fh, call, authsys)", "DecodeCls(all limits)",
                                               "ReadHeader", "ReadBody", "WriterStream"]
    ctx.assumptions += ["allocation per decode call is runtime.MemStats.TotalAlloc delta (minimum of repeated runs for the length classes); "
                        "bound = 4 KiB overhead + 4x the accepted padded length (6x for a reassembled record)",
                        "a string containing a NUL byte may be refused (xdrDecodeString does); it is never decoded to something else",
                        "TLC decides layout, padding, limits and fragmentation over a two-letter alphabet and symbolic length classes; "
                        "fidelity for arbitrary contents is sampled by the seeded replay"]


def replay(ctx):
    body = [l for l in open(ctx.replay).read().splitlines() if l.strip() and json.loads(l).get("ev") != "meta"]
    tp = os.path.join(ctx.scratch, "replay.ndjson")
    open(tp, "w").write("\n".join(body) + "\n")
    res = validate(ctx, tp, "replay")
    for b in res["bad"]:
        ctx.violation(b["why"], body, {"replayed": ctx.replay})
    ctx.cov["evaluations"] = len(body)
    ctx.cov["distinct_nontrivial"] = 1
    ctx.sample({"replayed": ctx.replay})

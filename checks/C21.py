import os, sys
sys.path.insert(0, os.path.dirname(os.path.abspath(__file__)))
import lrucache_common

LEVEL = "model_checking"


def run(ctx):
    lrucache_common.run_common(ctx, "C21")

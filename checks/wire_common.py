"""C13 / C14 / C15: wire family (specs/Wire, specs/ReplyShape, specs/ConnStream). Shared helpers."""
import json, os
import vflib

WORKERS = int(os.environ.get("VF_TLC_WORKERS", "8"))


def history_of(lines, lno):
    """Lines of the history (from its reset line) up to and including 1-based line number lno."""
    start = lno - 1
    while start > 0 and json.loads(lines[start]).get("ev") != "reset":
        start -= 1
    return [l.rstrip("\n") for l in lines[start:lno]]


def report(ctx, res, lines, mine=lambda why: True, per_reason=2, context=None, label=""):
    """Turn the `bad` / `dev` sets of a trace-spec result into violations / known findings."""
    seen = {}
    for b in sorted(res["bad"], key=lambda x: x["l"]):
        if not mine(b["why"]):
            continue
        seen[b["why"]] = seen.get(b["why"], 0) + 1
        if seen[b["why"]] > per_reason:
            continue
        hist = context(lines, b["l"]) if context else [lines[b["l"] - 1].rstrip("\n")]
        ctx.violation("%s (%sline %d)" % (b["why"], label and label + ", ", b["l"]), hist, {"line": b["l"], "label": label})
    if seen:
        ctx.cov.setdefault("violation_counts", {}).update({k: v for k, v in seen.items()})
    known = {e["deviation"]: e for e in ctx.known()}
    for d in res["dev"]:
        if d["name"] in known:
            ctx.known_finding(d["name"], known[d["name"]]["what"])
    if res.get("drift"):
        ctx.cov.setdefault("impl_model_drift", [])
        for w in sorted({d["why"] for d in res["drift"]}):
            if w not in ctx.cov["impl_model_drift"]:
                ctx.cov["impl_model_drift"].append(w)


def expect_rejected(ctx, validate, muts):
    """Binding demonstration: muts = [(what, row)], one corrupted row each; all go into one trace and the
    trace spec must flag every one of them (rows are independent lines after a reset line)."""
    if not muts:
        raise vflib.Broken("binding demonstration: no line of the recorded trace was suitable for corruption")
    mp = os.path.join(ctx.scratch, "mut.ndjson")
    vflib.write_ndjson(mp, [{"ev": "reset", "seed": 0}] + [row for _, row in muts])
    res = validate(mp, "mut")
    flagged = {b["l"] for b in res["bad"]}
    for i, (what, _) in enumerate(muts):
        if i + 2 not in flagged:
            raise vflib.Broken("binding demonstration failed: corrupted trace accepted (%s)" % what)
        ctx.cov["binding_mutations_rejected"] += 1


def history_of_single(lines, lno):
    """The reset line of the history (server condition) and the offending line."""
    h = history_of(lines, lno)
    return [h[0], h[-1]] if len(h) > 1 else h

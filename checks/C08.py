import os, sys
sys.path.insert(0, os.path.dirname(os.path.abspath(__file__)))
import core_common as cc, core_specs

LEVEL = "model_checking"
PID = "C08"


def run(ctx):
    if ctx.replay:
        return cc.replay(ctx, PID)
    core_specs.readonly(ctx)
    binp = ctx.build_harness(cc.HARNESS)
    q = ctx.quick()
    runs = cc.run_profile(ctx, binp, "ro", 30 if q else 300, 40 if q else 60)
    cc.report_all(ctx, PID, runs, "ro")
    trace, res = runs[0]
    cc.mutate_and_reject(ctx, trace, "ro", cc.mut_romut, "a modifying backend call under read-only")
    ctx.cov["rule"] = 'histories over a pre-populated tree with the export read-only from construction or switched on/off at run time (UpdatePolicyOptions and UpdateExportOptions), all 22 procedures, arguments well-formed / truncated at a 4-byte boundary / garbage / one bit flipped, credentials root, uid 1000, AUTH_NONE; every backend call is classified modifying or not'

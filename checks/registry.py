"""Registry of claimed checks -> MANIFEST.json (run bin/mkmanifest after editing a fragment in registry.d/)."""
import glob, os, importlib.util
CLAIMED, NA = {}, {}
for f in sorted(glob.glob(os.path.join(os.path.dirname(os.path.abspath(__file__)), "registry.d", "*.py"))):
    spec = importlib.util.spec_from_file_location("reg_" + os.path.basename(f)[:-3], f)
    m = importlib.util.module_from_spec(spec)
    spec.loader.exec_module(m)
    CLAIMED.update(getattr(m, "CLAIMED", {}))
    NA.update(getattr(m, "NA", {}))
NOT_YET = "check not built yet (work in progress; see DESIGN.md section 5 for the plan)"

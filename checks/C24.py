"""C24: runtime reconfiguration keeps the server serviceable and is all-or-nothing (specs/Config)."""
import json, os, random
import vflib

LEVEL = "model_checking"
HARNESS = ["vf_common.go", "vf_vfs.go", "vf_config.go"]
NF = ["TransferSize", "AttrCacheTimeout", "AttrCacheSize", "NegativeCacheTimeout", "DirCacheTimeout", "DirCacheMaxEntries",
      "DirCacheMaxDirSize", "MaxWorkers", "MaxConnections", "IdleTimeout", "SendBufferSize", "ReceiveBufferSize"]
TF = ["T_Read", "T_Write", "T_Lookup", "T_Readdir", "T_Create", "T_Remove", "T_Rename", "T_Handle", "T_Default"]
FIDS = ["F16", "F16b", "F16c", "F16d"]
GIVEN = ["neg", "zero", "p1", "p2"]

MC_CFG = """SPECIFICATION Spec
CONSTANTS
  NF = %(nf)s
  TF = %(tf)s
  GV = %(gv)s
  Fixed = %(fixed)s
INVARIANTS %(invs)s
%(props)s
"""

GEN_CFG = """SPECIFICATION Spec
CONSTANTS
  NF = %(nf)s
  TF = %(tf)s
  MaxLen = %(maxlen)d
  SampleMod = %(mod)d
  SampleRes = %(res)d
"""

TRACE_CFG = """SPECIFICATION Spec
CONSTANTS
  NF = %(nf)s
  TF = %(tf)s
  KnownDeviations = %(known)s
  Fixed = %(fixed)s
"""


def fixed_set(ctx):
    return [f for f in FIDS if ctx.finding_status(f) == "fixed"]


def exhaustive(ctx):
    fixed = fixed_set(ctx)
    allfixed = len(fixed) == len(FIDS)
    workers = int(os.environ.get("VF_TLC_WORKERS", "4"))
    # measured (4 workers, loaded machine): 1 numeric + 1 timeout field, 2 classes: < 0.3 M transitions, < 10 s; 3 classes: 1.2 M, 38 s;
    # 2 + 1 fields, 3 classes (thorough): ~2 k states / ~4 M transitions; 2 + 2 fields, 3 classes: 34 M; 2 + 2 fields, 4 classes: 234 M (too slow)
    if ctx.quick():
        nf, tf, gv = ["TransferSize"], ["T_Default"], ["zero", "p1"]
    else:
        nf, tf, gv = ["TransferSize", "AttrCacheSize"], ["T_Default"], ["neg", "zero", "p1"]
    kw = dict(nf=ctx.tla_set(nf), tf=ctx.tla_set(tf), gv=ctx.tla_set(gv))
    full = "TypeOK PlainConforms StepsConform AlwaysServiceable"
    # the code as it is: plain updates (what the repository's tests do) conform
    cfg = ctx.write_cfg("Config", "MC_code.cfg", MC_CFG % dict(kw, fixed=ctx.tla_set(fixed), invs=full if allfixed else "TypeOK PlainConforms",
                                                                props="PROPERTY RejectedUnchanged" if "F16b" in fixed else ""))
    ctx.tlc_exhaustive("Config", "Config", cfg, workers=workers, timeout=900, heap="3g")
    if not allfixed:
        cfg = ctx.write_cfg("Config", "MC_ideal.cfg", MC_CFG % dict(kw, fixed=ctx.tla_set(FIDS), invs=full, props="PROPERTY RejectedUnchanged"))
        ctx.tlc_exhaustive("Config", "Config", cfg, workers=workers, timeout=900, heap="3g")
    ctx.cov["exhaustive"] = True
    # non-vacuity: the pinned update code violates StepsConform at once; with only the ordering
    # defect left (tuning before the Squash check) a rejected update still changes the configuration
    small = dict(nf=ctx.tla_set(["TransferSize"]), tf=ctx.tla_set(["T_Default"]), gv=ctx.tla_set(["zero", "p1"]))
    cfg = ctx.write_cfg("Config", "MC_nv_defaults.cfg", MC_CFG % dict(small, fixed="{}", invs="AlwaysServiceable", props=""))
    r = ctx.tlc_exhaustive("Config", "Config", cfg, expect_ok=False, count=False, workers=2, timeout=300, heap="2g")
    if r["violated"] != "AlwaysServiceable":
        raise vflib.Broken("non-vacuity run: expected AlwaysServiceable to be violated by the pinned model, got %s" % r["violated"])
    if not ctx.quick():
        cfg = ctx.write_cfg("Config", "MC_nv_atomic.cfg", MC_CFG % dict(small, fixed=ctx.tla_set(["F16", "F16c", "F16d"]), invs="TypeOK",
                                                                         props="PROPERTY RejectedUnchanged"))
        r = ctx.tlc_exhaustive("Config", "Config", cfg, expect_ok=False, count=False, workers=2, timeout=300, heap="2g")
        if r["violated"] != "RejectedUnchanged":
            raise vflib.Broken("non-vacuity run: expected RejectedUnchanged to be violated with F16b unrepaired, got %s" % r["violated"])
    ctx.notes.append("non-vacuity: TLC finds AlwaysServiceable violated by the pinned update code (a zero TransferSize is stored)"
                     + ("" if ctx.quick() else " and RejectedUnchanged violated when only the apply-before-validate ordering is left unrepaired"))


# ---------------------------------------------------------------- covering array of update templates
def covering(params, budget, rng, tries=60):
    """Greedy pairwise covering array: params = {name: [values]}; returns (rows, covered, total)."""
    names = sorted(params)
    need = set()
    for i, a in enumerate(names):
        for b in names[i + 1:]:
            for va in params[a]:
                for vb in params[b]:
                    need.add((a, va, b, vb))
    total = len(need)
    rows = []
    while need and len(rows) < budget:
        best, bestgain = None, -1
        for _ in range(tries):
            row = {k: rng.choice(params[k]) for k in names}
            gain = sum(1 for i, a in enumerate(names) for b in names[i + 1:] if (a, row[a], b, row[b]) in need)
            if gain > bestgain:
                best, bestgain = row, gain
        rows.append(best)
        for i, a in enumerate(names):
            for b in names[i + 1:]:
                need.discard((a, best[a], b, best[b]))
    # whatever the budget and the luck of the candidates: every value of every parameter occurs in some row
    k = 0
    for a in names:
        for va in dict.fromkeys(params[a]):
            if rows and not any(r[a] == va for r in rows):
                # overwrite a row whose value for `a` occurs more than once
                cand = [r for r in rows if sum(1 for q in rows if q[a] == r[a]) > 1] or rows
                cand[k % len(cand)][a] = va
                k += 1
    return rows, total - len(need), total


def templates(ctx):
    rng = random.Random(ctx.seed * 1000003 + 24)
    q = ctx.quick()
    be, bt, bp = (8, 8, 5) if q else (20, 20, 8)
    out = []
    # UpdateExportOptions: a whole struct
    p = {f: GIVEN for f in NF}
    p.update({f: GIVEN for f in TF})
    p.update(tp=["nil", "set"], log=["nil", "l1", "l2"], rlc=["nil", "r1", "r2"], ro=["T", "F"], maxfs=["neg", "zero", "pos"],
             squash=["keep", "keep", "same", "other", "case"])
    rows, c1, t1 = covering(p, be, rng)
    for r in rows:
        out.append(dict(kind="export", n={f: r[f] for f in NF}, tp=r["tp"], t={f: (r[f] if r["tp"] == "set" else "keep") for f in TF},
                        log=r["log"], rlc=r["rlc"], ro=r["ro"], maxfs=r["maxfs"], squash=r["squash"]))
    # UpdateTuningOptions: the mutation function names a subset
    kv = ["keep", "keep", "keep"] + GIVEN
    p = {f: kv for f in NF}
    p.update({f: kv for f in TF})
    p.update(tp=["keep", "set", "set", "nil"], log=["keep", "nil", "l1", "l2"])
    rows, c2, t2 = covering(p, bt, rng)
    for r in rows:
        out.append(dict(kind="tuning", n={f: r[f] for f in NF}, tp=r["tp"], t={f: (r[f] if r["tp"] == "set" else "keep") for f in TF},
                        log=r["log"], rlc="keep", ro="keep", maxfs="keep", squash="keep"))
    # UpdatePolicyOptions: a whole PolicyOptions
    p = dict(ro=["T", "F"], maxfs=["neg", "zero", "pos"], rlc=["nil", "r1", "r2"], squash=["same", "same", "other", "empty", "case"])
    rows, c3, t3 = covering(p, bp, rng)
    for r in rows:
        out.append(dict(kind="policy", n={f: "keep" for f in NF}, tp="keep", t={f: "keep" for f in TF}, log="keep",
                        rlc=r["rlc"], ro=r["ro"], maxfs=r["maxfs"], squash=r["squash"]))
    # nested structures, one field at a time: everything at top level is left alone (or positive) and a single
    # sub-field of Timeouts is zero / negative, or a freshly allocated TimeoutConfig is only partly filled
    keepn, keept = {f: "keep" for f in NF}, {f: "keep" for f in TF}
    nested = []
    for f in rng.sample(TF, 1 if q else 5) + [rng.choice(["T_Read", "T_Lookup", "T_Default"])]:
        nested.append(dict(kind="tuning", n=dict(keepn), tp="set", t=dict(keept, **{f: rng.choice(["zero", "neg"])}),
                           log="keep", rlc="keep", ro="keep", maxfs="keep", squash="keep"))
    some = rng.sample(TF, 3)
    nested.append(dict(kind="tuning", n=dict(keepn), tp="set", t={f: ("p1" if f in some else "zero") for f in TF},   # &TimeoutConfig{a, b, c}
                       log="keep", rlc="keep", ro="keep", maxfs="keep", squash="keep"))
    f = rng.choice(TF)
    nested.append(dict(kind="export", n={x: "p1" for x in NF}, tp="set", t={x: ("neg" if x == f else "p2") for x in TF},
                       log="l1", rlc="r2", ro="F", maxfs="zero", squash="same"))
    if not q:
        nested.append(dict(kind="tuning", n=dict(keepn, TransferSize="p2"), tp="set", t=dict(keept, T_Write="zero", T_Default="neg"),
                           log="l2", rlc="keep", ro="keep", maxfs="keep", squash="keep"))
    out += nested
    ctx.cov["nested_templates"] = len(nested)
    ctx.cov["covering_array"] = {"export_rows": be, "tuning_rows": bt, "policy_rows": bp,
                                 "pairs_covered": [c1, c2, c3], "pairs_total": [t1, t2, t3]}
    return out


def generate(ctx):
    """TLC (ConfigGen) enumerates the sequences and writes the vectors."""
    tpl = templates(ctx)
    tp = os.path.join(ctx.scratch, "templates.ndjson")
    vflib.write_ndjson(tp, tpl)
    vp = os.path.join(ctx.scratch, "vectors.ndjson")
    nt = len(tpl)
    mod = max(1, (nt ** 3) // (60 if ctx.quick() else 3000))
    cfg = ctx.write_cfg("Config", "Gen.cfg", GEN_CFG % dict(nf=ctx.tla_set(NF), tf=ctx.tla_set(TF), maxlen=3, mod=mod, res=ctx.seed % mod))
    r = ctx.tlc("Config", "ConfigGen", cfg, workers=1, timeout=600, env={"VF_TEMPLATES": tp, "VF_VECTORS": vp}, heap="3g", deadlock=False)
    if not os.path.exists(vp) or os.path.getsize(vp) == 0:
        raise vflib.Broken("ConfigGen wrote no vectors:\n" + r["out"][-3000:])
    n = sum(1 for _ in open(vp))
    ctx.log("ConfigGen: %d templates -> %d sequences (all of length 1 and 2, residue %d mod %d of length 3) in %.1fs" % (nt, n, ctx.seed % mod, mod, r["wall_s"]))
    ctx.cov["tlc_runs"].append({"module": "ConfigGen", "cfg": "Gen.cfg", "vectors": n, "templates": nt, "wall_s": r["wall_s"]})
    return vp, n


def validate(ctx, trace, label):
    cfg = ctx.write_cfg("Config", "Trace_%s.cfg" % label, TRACE_CFG % dict(
        nf=ctx.tla_set(NF), tf=ctx.tla_set(TF), known=ctx.tla_set(ctx.known_devs(["C24"])), fixed=ctx.tla_set(fixed_set(ctx))))
    return ctx.tlc_trace("Config", "ConfigTrace", cfg, trace, out_name="res_%s.json" % label, heap="6g")


def history_of(lines, lno):
    start = lno - 1
    while start > 0 and json.loads(lines[start]).get("ev") != "reset":
        start -= 1
    return [l.rstrip("\n") for l in lines[start:lno]]


def bind_mutation(ctx, lines):
    """Corrupt one recorded field in each of four ways; every corrupted line must be rejected."""
    def m_field(e):
        e["cfg"]["n"]["MaxConnections"] = "p2" if e["cfg"]["n"]["MaxConnections"] != "p2" else "p1"
    def m_read(e):
        e["io"]["read"], e["io"]["readcls"] = "IO", "none"
    def m_force(e):
        e["inforce"]["attr"] = "p2" if e["inforce"]["attr"] != "p2" else "p1"
    def m_rej(e):
        e["rejected"] = True
    pos = lambda c: all(v in ("def", "p1", "p2") for v in list(c["n"].values()) + list(c["t"].values()))
    wanted = [("reported field", lambda e: e["ev"] == "upd" and e["u"]["kind"] == "policy" and not e["rejected"], m_field),
              ("READ outcome", lambda e: e["io"]["read"] == "OK" and pos(e["cfg"]), m_read),
              ("size in force", lambda e: pos(e["cfg"]), m_force),
              ("rejected flag", lambda e: e["ev"] == "upd" and not e["rejected"] and e["u"]["kind"] == "tuning"
               and any(v not in ("keep",) for v in e["u"]["n"].values()) and e["u"]["tp"] != "nil"
               and any(e["u"]["n"][f] in ("p1", "p2") for f in e["u"]["n"]), m_rej)]
    out, expect, k, start = [], [], 0, 0
    for i, ln in enumerate(lines):
        e = json.loads(ln)
        if e.get("ev") == "reset":
            start = i
        if k < len(wanted) and wanted[k][1](e) and (k != 3 or json.loads(lines[i - 1])["cfg"] != e["cfg"]):
            wanted[k][2](e)
            out += lines[start:i] + [json.dumps(e)]
            expect.append((len(out), wanted[k][0]))
            k += 1
    if k < len(wanted):
        raise vflib.Broken("binding demonstration could not be performed (no suitable line for: %s)" % wanted[k][0])
    mp = os.path.join(ctx.scratch, "mut.ndjson")
    open(mp, "w").write("\n".join(out) + "\n")
    res = validate(ctx, mp, "mut")
    badl = {b["l"] for b in res["bad"]}
    for lno, name in expect:
        if lno not in badl:
            raise vflib.Broken("binding demonstration failed: trace with corrupted %s accepted" % name)
    ctx.cov["binding_mutations_rejected"] += len(expect)


def run(ctx):
    if ctx.replay:
        return replay(ctx)
    exhaustive(ctx)
    vectors, nvec = generate(ctx)
    binp = ctx.build_harness(HARNESS)
    ctx.harness_ok(binp, "TestVF_Config", {"VF_CFG_VECTORS": vectors}, timeout=480)
    trace = os.path.join(ctx.scratch, "config.ndjson")
    summ = json.load(open(os.path.join(ctx.scratch, "config.summary.json")))
    res = validate(ctx, trace, "main")
    if res["consumed"] != res["n"]:
        raise vflib.Broken("trace spec consumed %s of %s lines" % (res["consumed"], res["n"]))
    lines = open(trace).read().splitlines()
    ctx.cov["traces_validated_against_impl"] = summ["histories"]
    ctx.cov["evaluations"] = res["n"]
    ctx.cov["distinct_nontrivial"] = summ["nontrivial"]
    ctx.cov["trace_stats"] = res["stats"]
    ctx.cov["crash_children"] = summ["crash_children"]
    if summ["child_skipped"]:
        ctx.notes.append("%d directed child-process histories could not be run (not a verdict)" % summ["child_skipped"])
    for s in summ.get("samples", [])[:2]:
        ctx.sample(s)
    seen = {}
    for b in sorted(res["bad"], key=lambda x: x["l"]):
        seen[b["why"]] = seen.get(b["why"], 0) + 1
        if seen[b["why"]] > 2:
            continue
        h = history_of(lines, b["l"])
        e = json.loads(h[-1])
        ctx.violation("%s (%s, template %s, line %d)" % (b["why"], "New" if e["ev"] == "reset" else e["u"]["kind"], e.get("ti"), b["l"]),
                      h, {"line": b["l"]})
    for d in res["dev"]:
        ent = [e for e in ctx.known() if e["deviation"] == d["name"]]
        if ent:
            ctx.known_finding(d["name"], ent[0]["what"])
    if res["drift"]:
        ctx.cov["impl_model_drift"] = sorted({d["why"] for d in res["drift"]})
        ctx.cov["impl_model_drift_lines"] = len(res["drift"])
        ctx.notes.append("impl-level drift: the configuration after a call differs from the transcribed update code; the exhaustive "
                         "result no longer speaks about this code (not a verdict)")
    bind_mutation(ctx, lines)
    ctx.cov["rule"] = ("every sequence of one and two update templates and a seeded residue class of the sequences of three, enumerated by TLC "
                       "over a pairwise covering array of the fields' classes (neg/zero/p1/p2, nil/set, keep); the first whole-struct template "
                       "of a sequence is used as the options of New(); non-trivial = a history of >= 2 updates containing a rejected one")
    ctx.cov["spec_actions_covered_by_impl"] = ["New", "Update(export)", "Update(tuning)", "Update(policy)", "Rejects(export)", "Rejects(policy)",
                                               "probe LOOKUP", "probe READ", "probe WRITE"]
    ctx.assumptions += ["'def' is whatever a reference New(fs, ExportOptions{}) reports; positive classes are two fixed values per field",
                        "a nil Timeouts / nil Log in UpdateExportOptions may either take the construction default or keep the value in force "
                        "(the code documents the latter); both keep the server serviceable",
                        "probes go through NFSProcedureHandler.HandleCall without TCP; states whose next request panics in an unrecovered goroutine "
                        "are probed in three directed child processes only",
                        "boolean fields, AllowedIPs and TLS are not part of the abstraction (TLS belongs to C30)"]


def replay(ctx):
    lines = [l for l in open(ctx.replay).read().splitlines() if l.strip()]
    body = [l for l in lines if json.loads(l).get("ev") != "meta"]
    tp = os.path.join(ctx.scratch, "replay.ndjson")
    open(tp, "w").write("\n".join(body) + "\n")
    res = validate(ctx, tp, "replay")
    for b in res["bad"]:
        ctx.violation(b["why"], body, {"replayed": ctx.replay})
    for d in res["dev"]:
        ctx.known_finding(d["name"])
    ctx.cov["evaluations"] = len(body)
    ctx.cov["distinct_nontrivial"] = 1
    ctx.sample({"replayed": ctx.replay})

import os, sys
sys.path.insert(0, os.path.dirname(os.path.abspath(__file__)))
import core_common as cc, core_specs

LEVEL = "model_checking"
PID = "C25"


def run(ctx):
    if ctx.replay:
        return cc.replay(ctx, PID)
    core_specs.filedata(ctx, maxfs_values=(1, 3, 5))
    binp = ctx.build_harness(cc.HARNESS)
    q = ctx.quick()
    runs = cc.run_profile(ctx, binp, "maxfs", 32 if q else 320, 30 if q else 40)
    cc.report_all(ctx, PID, runs, "maxfs")
    trace, res = runs[0]
    cc.mutate_and_reject(ctx, trace, "maxfs", [cc.mut_fbig, cc.mut_lose_data], "an over-limit WRITE reported as OK")
    ctx.cov["rule"] = 'seeded WRITE/SETATTR(size)/READ histories on two files with MaxFileSize 1, 5, 10, 33 set at construction or switched on (and changed) at run time, offsets/counts/sizes at limit-1, limit, limit+1; non-trivial = at least 3 mutating requests'

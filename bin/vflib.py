"""Shared machinery for /verif/bin/check: scratch handling, harness build (overlay injection
into /repo), TLC runners (exhaustive, simulate/MBT, trace validation), verdict + evidence.

Exit code contract (DESIGN.md section 3): 0 held / only known findings, 1 VIOLATION printed,
2 the check itself could not run (never a verdict)."""
import json, os, re, shutil, subprocess, sys, tempfile, time, hashlib, glob

VERIF = os.path.dirname(os.path.dirname(os.path.abspath(__file__)))
REPO = os.environ.get("VERIF_REPO", "/repo")
TLAJAR = "/opt/veriftools/tla/tla2tools.jar:/opt/veriftools/tla/CommunityModules-deps.jar"
FINDINGS = os.environ.get("VERIF_FINDINGS") or os.path.join(VERIF, "known_findings.json")
GOENV = {"GOFLAGS": "-mod=mod", "GOPROXY": "off", "GOSUMDB": "off", "GOTOOLCHAIN": "local"}


class Broken(Exception):
    """The check could not run (exit 2). Never a verdict."""


class Ctx:
    def __init__(self, pid, tier, seed, replay=None):
        self.pid = pid
        self.tier = tier
        self.seed = seed
        self.replay = replay
        self.t0 = time.time()
        self.scratch = tempfile.mkdtemp(prefix="vf-%s-" % pid)
        self.violations = []      # list of dict(reason=, replay=)
        self.known_seen = {}      # deviation name -> text
        self.cov = {"states": 0, "transitions": 0, "traces_validated_against_impl": 0,
                    "samples": [], "evaluations": 0, "distinct_nontrivial": 0, "rule": "",
                    "exhaustive": False, "tlc_runs": [], "spec_actions_covered_by_impl": [],
                    "binding_mutations_rejected": 0, "known_findings_seen": []}
        self.assumptions = []
        self.notes = []
        self._nrep = 0

    # ---------------------------------------------------------------- misc
    def log(self, *a):
        print("[%s %6.1fs]" % (self.pid, time.time() - self.t0), *a, flush=True)

    def quick(self):
        return self.tier == "quick"

    def cleanup(self):
        shutil.rmtree(self.scratch, ignore_errors=True)

    def sub(self, name):
        d = os.path.join(self.scratch, name)
        os.makedirs(d, exist_ok=True)
        return d

    # ---------------------------------------------------------------- known findings
    def known(self):
        """Entries of /verif/known_findings.json for this property with status 'known'."""
        p = FINDINGS
        if not os.path.exists(p):
            return []
        allk = json.load(open(p))
        return [e for e in allk.get("findings", []) if e.get("property") == self.pid and e.get("status") == "known"]

    def known_devs(self, props=None):
        """Deviation names listed as known for this property (or for the given properties)."""
        p = FINDINGS
        if not os.path.exists(p):
            return []
        props = props or [self.pid]
        return sorted(e["deviation"] for e in json.load(open(p)).get("findings", [])
                      if e.get("status") == "known" and e.get("property") in props)

    def finding_status(self, fid):
        """'known', 'fixed' or None for a finding id (F01...)."""
        p = FINDINGS
        if not os.path.exists(p):
            return None
        for e in json.load(open(p)).get("findings", []):
            if e.get("id") == fid:
                return e.get("status")
        return None

    def write_cfg(self, module_dir, name, text):
        d = self._spec_copy(module_dir)
        with open(os.path.join(d, name), "w") as f:
            f.write(text)
        return name

    @staticmethod
    def tla_set(strs):
        return "{" + ", ".join('"%s"' % x for x in sorted(strs)) + "}"

    # ---------------------------------------------------------------- harness
    def build_harness(self, files, race=False, clock_files=(), tags="verif", name="vf.test"):
        """Compile /repo's package with the harness files injected by -overlay.
        files: names under /verif/harness. clock_files: files of /repo rewritten so that
        time.Now/time.Since go through the harness's virtual clock (vfNow)."""
        ov = {"Replace": {}}
        for f in files:
            src = os.path.join(VERIF, "harness", f)
            if not os.path.exists(src):
                raise Broken("harness file missing: " + src)
            base = f if f.endswith("_test.go") else f[:-3] + "_test.go"
            ov["Replace"][os.path.join(REPO, "zz_" + base)] = src
        for cf in clock_files:
            src = open(os.path.join(REPO, cf)).read()
            out = src.replace("time.Now()", "vfNow()")
            out = re.sub(r"time\.Since\(([^()]*)\)", r"vfNow().Sub(\1)", out)
            if out == src:
                raise Broken("clock rewrite found nothing to rewrite in " + cf)
            dst = os.path.join(self.scratch, "clk_" + cf)
            open(dst, "w").write(out)
            ov["Replace"][os.path.join(REPO, cf)] = dst
        ovp = os.path.join(self.scratch, "overlay-%s.json" % name)
        json.dump(ov, open(ovp, "w"))
        binp = os.path.join(self.scratch, name)
        cmd = ["go", "test", "-c", "-tags", tags, "-vet=off", "-overlay", ovp, "-o", binp]
        if race:
            cmd.append("-race")
        cmd.append(".")
        env = dict(os.environ, **GOENV)
        t = time.time()
        r = subprocess.run(cmd, cwd=REPO, env=env, stdout=subprocess.PIPE, stderr=subprocess.STDOUT, text=True)
        if r.returncode != 0:
            raise Broken("harness build failed (a refactoring of /repo that renames what the harness "
                         "reaches into breaks the check, it is not a verdict):\n" + r.stdout[-4000:])
        self.log("harness built in %.1fs%s" % (time.time() - t, " (race)" if race else ""))
        return binp

    def run_harness(self, binp, test, env=None, timeout=600, args=()):
        """Run one harness entry point; returns (rc, output). Output dir is passed as VF_OUT."""
        e = dict(os.environ, **GOENV)
        e.update({"VF_OUT": self.scratch, "VERIF_SEED": str(self.seed), "VERIF_TIER": self.tier})
        if env:
            e.update({k: str(v) for k, v in env.items()})
        cmd = [binp, "-test.run", "^%s$" % test, "-test.timeout", "%ds" % (timeout + 30), "-test.count=1"] + list(args)
        try:
            r = subprocess.run(cmd, cwd=REPO, env=e, stdout=subprocess.PIPE, stderr=subprocess.STDOUT,
                               text=True, timeout=timeout, errors="replace")
        except subprocess.TimeoutExpired as ex:
            raise Broken("harness %s timed out after %ds" % (test, timeout))
        return r.returncode, r.stdout

    def harness_ok(self, binp, test, env=None, timeout=600, args=()):
        rc, out = self.run_harness(binp, test, env, timeout, args)
        if rc != 0 or "no tests to run" in out:
            raise Broken("harness driver %s failed (rc=%d):\n%s" % (test, rc, out[-6000:]))
        return out

    # ---------------------------------------------------------------- TLC
    def _spec_copy(self, module_dir):
        """Scratch copy of specs/ (tools litter states/, .tlacache); returns path of module dir."""
        dst = os.path.join(self.scratch, "specs")
        if not os.path.exists(dst):
            shutil.copytree(os.path.join(VERIF, "specs"), dst)
        return os.path.join(dst, module_dir)

    def tlc(self, module_dir, module, cfg, workers=None, timeout=600, env=None, dfs=False,
            simulate=None, depth=None, coverage=False, heap="6g", extra=(), seed=None, deadlock=True):
        d = self._spec_copy(module_dir)
        meta = tempfile.mkdtemp(prefix="meta-", dir=self.scratch)
        if workers is None:
            workers = min(16, os.cpu_count() or 4)
        java = ["java", "-XX:+UseParallelGC", "-Xmx" + heap, "-Xss64m"]
        if dfs:
            java.append("-Dtlc2.tool.queue.IStateQueue=StateDeque")
        # library path: sibling module dirs so EXTENDS across families works
        libs = os.pathsep.join(sorted(glob.glob(os.path.join(os.path.dirname(d), "*"))))
        java += ["-DTLA-Library=" + libs, "-cp", TLAJAR, "tlc2.TLC", "-metadir", meta, "-workers", str(workers),
                 "-config", cfg]
        if not deadlock:
            java += ["-deadlock"]
        if simulate is not None:
            java += ["-simulate", simulate]
            if depth:
                java += ["-depth", str(depth)]
        if seed is not None:
            java += ["-seed", str(seed)]
        if coverage:
            java += ["-coverage", "1"]
        java += list(extra) + [module + ".tla"]
        e = dict(os.environ)
        e.pop("JAVA_TOOL_OPTIONS", None)
        if env:
            e.update({k: str(v) for k, v in env.items()})
        t = time.time()
        try:
            r = subprocess.run(java, cwd=d, env=e, stdout=subprocess.PIPE, stderr=subprocess.STDOUT, text=True,
                               timeout=timeout, errors="replace")
            out, rc = r.stdout, r.returncode
        except subprocess.TimeoutExpired as ex:
            subprocess.run(["pkill", "-f", meta], check=False)
            raise Broken("TLC timed out after %ds on %s/%s %s" % (timeout, module_dir, module, cfg))
        finally:
            shutil.rmtree(meta, ignore_errors=True)
        res = {"rc": rc, "out": out, "wall_s": round(time.time() - t, 2), "module": module, "cfg": cfg}
        m = re.search(r"(\d[\d,]*) states generated, (\d[\d,]*) distinct states found, (\d[\d,]*) states left", out)
        if m:
            res["generated"] = int(m.group(1).replace(",", ""))
            res["distinct"] = int(m.group(2).replace(",", ""))
            res["left"] = int(m.group(3).replace(",", ""))
        m = re.search(r"depth of the complete state graph search is (\d+)", out)
        if m:
            res["depth"] = int(m.group(1))
        res["ok"] = ("Model checking completed. No error has been found." in out) or \
                    (simulate is not None and rc == 0)
        m = re.search(r"Invariant (\S+) is violated", out)
        res["violated"] = m.group(1) if m else None
        if not m:
            m = re.search(r"Action property (\S+) is violated", out) or re.search(r"Temporal properties were violated", out)
            if m:
                res["violated"] = m.group(1) if m.lastindex else "temporal"
        if "StackOverflowError" in out or "OutOfMemoryError" in out:
            raise Broken("TLC resource failure on %s %s:\n%s" % (module, cfg, out[-2000:]))
        return res

    def tlc_exhaustive(self, module_dir, module, cfg, expect_ok=True, count=True, **kw):
        """Exhaustive run of a design spec. A failure here is a defect of the *spec* (or an expected
        counterexample when expect_ok=False); it is never by itself a verdict about the code."""
        r = self.tlc(module_dir, module, cfg, **kw)
        self.log("TLC %s/%s %s: %s generated=%s distinct=%s depth=%s (%.1fs)" % (
            module_dir, module, cfg, "OK" if r["ok"] else ("violated " + str(r["violated"])),
            r.get("generated"), r.get("distinct"), r.get("depth"), r["wall_s"]))
        if expect_ok and not r["ok"]:
            raise Broken("exhaustive TLC run %s %s did not complete cleanly (spec-level problem, not a "
                         "verdict about the code):\n%s" % (module, cfg, r["out"][-5000:]))
        if "generated" not in r:
            raise Broken("could not parse TLC output:\n" + r["out"][-3000:])
        if count:
            self.cov["states"] += r["distinct"]
            self.cov["transitions"] += r["generated"]
        self.cov["tlc_runs"].append({k: r.get(k) for k in ("module", "cfg", "generated", "distinct", "depth", "wall_s", "ok", "violated")})
        return r

    def tlc_trace(self, module_dir, module, cfg, trace_file, timeout=900, dfs=False, env=None, heap="8g", out_name=None):
        """Validate a recorded ndjson trace against a trace spec. The trace spec writes its result
        (bad steps, deviations used, lines consumed) to the JSON file named by env VF_RESULT."""
        out_json = os.path.join(self.scratch, out_name or ("result-%d.json" % len(self.cov["tlc_runs"])))
        if os.path.exists(out_json):
            os.unlink(out_json)
        e = {"VF_TRACE": trace_file, "VF_RESULT": out_json}
        if env:
            e.update(env)
        r = self.tlc(module_dir, module, cfg, workers=1, timeout=timeout, env=e, dfs=dfs, heap=heap, deadlock=False)
        if not os.path.exists(out_json):
            raise Broken("trace spec %s produced no result file (TLC rc=%s):\n%s" % (module, r["rc"], r["out"][-5000:]))
        res = json.load(open(out_json))
        res["_tlc"] = r
        self.cov["tlc_runs"].append({"module": module, "cfg": cfg, "trace_lines": res.get("n"), "generated": r.get("generated"),
                                     "wall_s": r["wall_s"]})
        return res

    def tlc_simulate(self, module_dir, module, cfg, num, depth, env=None, timeout=600):
        """MBT generation: the Gen spec writes behaviours / vectors itself (ndJsonSerialize)."""
        r = self.tlc(module_dir, module, cfg, workers=1, timeout=timeout, env=env,
                     simulate="num=%d" % num, depth=depth, seed=self.seed + 1, deadlock=False)
        if r["rc"] != 0 and "violated" not in r["out"]:
            raise Broken("TLC -simulate failed:\n" + r["out"][-4000:])
        return r

    # ---------------------------------------------------------------- verdicts
    def violation(self, reason, lines=None, meta=None):
        """Record a violation reproduced from real-code behaviour; writes the replay file."""
        self._nrep += 1
        d = os.path.join(VERIF, "replays", self.pid)
        os.makedirs(d, exist_ok=True)
        p = os.path.join(d, "%s-seed%d-%d.ndjson" % (self.tier, self.seed, self._nrep))
        with open(p, "w") as f:
            f.write(json.dumps({"ev": "meta", "property": self.pid, "reason": reason, "seed": self.seed,
                                "tier": self.tier, "meta": meta or {}}) + "\n")
            for ln in (lines or []):
                f.write(ln if isinstance(ln, str) else json.dumps(ln))
                if isinstance(ln, str) and ln.endswith("\n"):
                    continue
                f.write("\n")
        self.violations.append({"reason": reason, "replay": p})
        return p

    def known_finding(self, deviation, text=None):
        if deviation not in self.known_seen:
            if text is None:
                for e in self.known():
                    if e["deviation"] == deviation:
                        text = e.get("what", "")
            self.known_seen[deviation] = text or ""

    def sample(self, s, limit=4):
        if len(self.cov["samples"]) < limit:
            self.cov["samples"].append(s)

    def finish(self, level="model_checking"):
        wall = round(time.time() - self.t0, 1)
        self.cov["known_findings_seen"] = sorted(self.known_seen)
        if not self.cov["samples"]:
            self.cov["samples"] = ["(no sample recorded)"]
        cov = dict(self.cov)
        if cov["states"] == 0 or cov["transitions"] == 0:
            # no exhaustive run in this check: fall back to the generic keys only
            cov.pop("states"), cov.pop("transitions")
        cov["evaluations"] = max(cov["evaluations"], 1)
        ev = {"property_id": self.pid, "tier": self.tier, "seed": self.seed, "level": level,
              "coverage": cov, "assumptions": self.assumptions, "wall_s": wall,
              "violations": len(self.violations), "notes": self.notes}
        os.makedirs(os.path.join(VERIF, "evidence"), exist_ok=True)
        with open(os.path.join(VERIF, "evidence", self.pid + ".json"), "w") as f:
            json.dump(ev, f, indent=1, default=str)
        for dev, text in sorted(self.known_seen.items()):
            print("KNOWN-FINDING: property=%s %s: %s" % (self.pid, dev, text))
        for v in self.violations[:20]:
            print("VIOLATION property=%s replay=%s" % (self.pid, v["replay"]))
            print("  reason: " + str(v["reason"])[:500])
        self.log("done: %d violation(s), %d known finding(s), %.1fs" % (len(self.violations), len(self.known_seen), wall))
        return 1 if self.violations else 0


def read_ndjson(path):
    with open(path) as f:
        return [json.loads(l) for l in f if l.strip()]


def write_ndjson(path, rows):
    with open(path, "w") as f:
        for r in rows:
            f.write(json.dumps(r, separators=(",", ":")) + "\n")

package absnfs

// vf_core2.go: additional generator profiles of the core driver (see vf_core.go):
//   maxfs  (C25)  MaxFileSize set at construction or at run time, requests around the limit
//   own    (C11)  arbitrary credentials x squash modes x sattr3 uid/gid in SETATTR/CREATE/MKDIR/SYMLINK
//   ro     (C08)  read-only exports (construction or switched at run time), every procedure,
//                 well-formed / truncated / garbage arguments, arbitrary credentials
//   crash  (C22)  WRITE/COMMIT histories re-run with a crash at every backend operation

import (
	"fmt"
	"math/rand"
	"os"
	"testing"
	"time"
)

// cfgLine records a run-time configuration change (the tree must not change).
func (c *vfcClient) cfgLine() {
	c.flush()
	c.tr.Emit(M{"ev": "cfg", "cfg": c.cfg, "tree": c.tree()})
}

func (c *vfcClient) setPolicy(t testing.TB, f func(p *PolicyOptions)) {
	p := *c.env.n.policy.Load()
	f(&p)
	if err := c.env.n.UpdatePolicyOptions(p); err != nil {
		t.Fatalf("UpdatePolicyOptions: %v", err)
	}
}

// ---------------------------------------------------------------- maxfs (C25)

func (c *vfcClient) maxfsStep(r *rand.Rand) {
	L := c.cfg.MaxFS
	if L <= 0 {
		L = 8
	}
	f := c.pickKind(r, "F")
	near := []int{0, 1, L - 1, L, L + 1, L / 2}
	pos := func() uint64 {
		v := near[r.Intn(len(near))]
		if v < 0 {
			v = 0
		}
		return uint64(v)
	}
	switch x := r.Intn(100); {
	case x < 6:
		// far beyond any limit (and near the point where offset + length overflows)
		c.write(f, []string{"m63", "p63", "m64"}[r.Intn(3)], uint64(r.Intn(12)), vfcData(r, 1+r.Intn(6)), 2)
	case x < 55:
		c.write(f, "small", pos(), vfcData(r, int(pos())%40), 2)
	case x < 85:
		c.setattr(f, vfSattr{Size: u64p(pos())})
	case x < 95:
		c.read(f, "small", pos(), uint32(L+2))
	default:
		c.getattr(f)
	}
}

func vfcRunMaxfs(t *testing.T, tr *vfTrace, h int, seed int64, steps int) *vfcClient {
	r := vfRand(seed, fmt.Sprintf("core-maxfs-%d", h))
	limits := []int{1, 5, 10, 33}
	L := limits[h%len(limits)]
	atStart := h%2 == 0
	cfg := vfcCfg{TTL: []string{"min", "def"}[(h/2)%2], Profile: "maxfs"}
	if atStart {
		cfg.MaxFS = L
	}
	c := vfcNewClient(t, tr, cfg, h, seed)
	root := c.hs[0]
	c.create(root, "a", 0, vfSattr{Mode: u32p(0644)}, "")
	c.create(root, "b", 0, vfSattr{Mode: u32p(0644)}, "")
	for s := 0; s < steps; s++ {
		if !atStart && s == steps/3 {
			// the limit is switched on at run time
			c.cfg.MaxFS = L
			if h%4 == 3 {
				// through UpdateExportOptions, changing nothing else
				o := c.env.n.GetExportOptions()
				o.MaxFileSize = int64(L)
				if err := c.env.n.UpdateExportOptions(o); err != nil {
					t.Fatalf("UpdateExportOptions: %v", err)
				}
			} else {
				c.setPolicy(t, func(p *PolicyOptions) { p.MaxFileSize = int64(L) })
			}
			c.cfgLine()
		}
		if !atStart && s == 2*steps/3 && h%4 == 1 {
			// ... and changed again
			c.cfg.MaxFS = L + 7
			c.setPolicy(t, func(p *PolicyOptions) { p.MaxFileSize = int64(L + 7) })
			c.cfgLine()
		}
		if s == steps/2 || s == (5*steps)/6 {
			// an unrelated option is changed through the read-modify-write cycle the API documents;
			// the limit in force must survive it
			o := c.env.n.GetExportOptions()
			o.AttrCacheSize += 1
			if err := c.env.n.UpdateExportOptions(o); err != nil {
				t.Fatalf("UpdateExportOptions: %v", err)
			}
			c.cfgLine()
		}
		c.maxfsStep(r)
	}
	return c
}

// ---------------------------------------------------------------- own (C11)

var vfcUIDs = []uint32{0, 1000, 65534, 7}
var vfcGIDs = []uint32{0, 1000, 100, 65534}

func (c *vfcClient) setCred(uid, gid uint32) {
	c.cred = vfCred{Flavor: AUTH_SYS, UID: uid, GID: gid, IP: "127.0.0.1", Port: 1000}
}

func (c *vfcClient) ownSattr(r *rand.Rand) vfSattr {
	s := vfSattr{}
	if r.Intn(2) == 0 {
		s.Mode = u32p([]uint32{0644, 0600, 0755}[r.Intn(3)])
	}
	switch r.Intn(4) {
	case 0:
		s.UID = u32p(vfcUIDs[r.Intn(len(vfcUIDs))])
		s.GID = u32p(vfcGIDs[r.Intn(len(vfcGIDs))])
	case 1:
		s.UID = u32p(vfcUIDs[r.Intn(len(vfcUIDs))])
	case 2:
		s.GID = u32p(vfcGIDs[r.Intn(len(vfcGIDs))])
	}
	return s
}

func vfcRunOwn(t *testing.T, tr *vfTrace, h int, seed int64, steps int) *vfcClient {
	r := vfRand(seed, fmt.Sprintf("core-own-%d", h))
	squash := []string{"none", "root", "all", ""}[h%4]
	cfg := vfcCfg{TTL: []string{"min", "def"}[(h/4)%2], Squash: squash, Profile: "own"}
	c := vfcNewClient(t, tr, cfg, h, seed)
	names := 0
	{
		// directed: root gives a file and a directory away; the new owner (a member of further
		// groups) then tries chgrp / chown through the same handles
		U, G := vfcUIDs[1+r.Intn(len(vfcUIDs)-1)], vfcGIDs[1+r.Intn(len(vfcGIDs)-1)]
		c.cred = vfRoot
		c.create(c.hs[0], "given", 0, vfSattr{Mode: u32p(0644)}, "")
		c.mkdir(c.hs[0], "givend", vfSattr{Mode: u32p(0755)})
		for _, nm := range []string{"given", "givend"} {
			hh := c.handleOf(nm)
			c.setattr(hh, vfSattr{UID: u32p(U), GID: u32p(G)})
			c.cred = vfCred{Flavor: AUTH_SYS, UID: U, GID: G, Aux: []uint32{4242, 100}, IP: "127.0.0.1", Port: 1000}
			c.setattr(hh, vfSattr{GID: u32p(4242)})
			c.setattr(hh, vfSattr{UID: u32p(U), GID: u32p(100)})
			c.setattr(hh, vfSattr{UID: u32p(7), GID: u32p(G)})
			c.getattr(hh)
			c.cred = vfRoot
		}
	}
	for s := 0; s < steps; s++ {
		c.setCred(vfcUIDs[r.Intn(len(vfcUIDs))], vfcGIDs[r.Intn(len(vfcGIDs))])
		if r.Intn(2) == 0 {
			// auxiliary groups: being a member of a group does not make it the caller's effective gid
			c.cred.Aux = []uint32{vfcGIDs[r.Intn(len(vfcGIDs))], 4242}
		}
		d := c.pickKind(r, "D")
		names++
		name := fmt.Sprintf("n%d", names)
		if names > 4 && r.Intn(4) == 0 {
			name = fmt.Sprintf("n%d", 1+r.Intn(names-1)) // a name that may already exist
		}
		switch x := r.Intn(100); {
		case x < 22:
			c.create(d, name, uint32(r.Intn(3)), c.ownSattr(r), "v1")
		case x < 44:
			c.mkdir(d, name, c.ownSattr(r))
		case x < 60:
			c.symlink(d, name, "a", c.ownSattr(r))
		case x < 90:
			s := c.ownSattr(r)
			// an effective root sets both ids or none (the handler chowns with the ids cached in
			// the handle for the unset one, which is outside this property)
			if (s.UID == nil) != (s.GID == nil) {
				s.UID, s.GID = u32p(vfcUIDs[r.Intn(len(vfcUIDs))]), u32p(vfcGIDs[r.Intn(len(vfcGIDs))])
			}
			if len(c.cred.Aux) > 0 && r.Intn(2) == 0 {
				// chgrp to one of the caller's auxiliary groups, keeping the owner
				s.UID, s.GID = u32p(c.cred.UID), u32p(c.cred.Aux[r.Intn(len(c.cred.Aux))])
			}
			c.setattr(c.pick(r), s)
		default:
			c.getattr(c.pick(r))
		}
	}
	c.cred = vfRoot
	return c
}

// ---------------------------------------------------------------- ro (C08)

// vfcMangle truncates or garbles well-formed arguments.
func vfcMangle(r *rand.Rand, args []byte) ([]byte, string) {
	switch r.Intn(4) {
	case 0:
		if len(args) >= 4 {
			cut := 4 * r.Intn(len(args)/4)
			return args[:cut], "trunc"
		}
	case 1:
		g := make([]byte, r.Intn(40))
		r.Read(g)
		return g, "garbage"
	case 2:
		if len(args) > 0 {
			b := append([]byte{}, args...)
			b[r.Intn(len(b))] ^= byte(1 << uint(r.Intn(8)))
			return b, "flip"
		}
	}
	return args, "ok"
}

func (c *vfcClient) roStep(r *rand.Rand) {
	h := c.pick(r)
	d := c.pickKind(r, "D")
	p, dp := c.hp[h], c.hp[d]
	name := []string{"a", "b", "c", "new", "x"}[r.Intn(5)]
	procs := []uint32{0, 1, 2, 3, 4, 5, 6, 7, 8, 9, 10, 11, 12, 13, 14, 15, 16, 17, 18, 19, 20, 21}
	// mutating procedures are over-represented
	mut := []uint32{2, 7, 8, 9, 10, 11, 12, 13, 14, 15, 21}
	proc := procs[r.Intn(len(procs))]
	if r.Intn(2) == 0 {
		proc = mut[r.Intn(len(mut))]
	}
	accessAll := false
	if r.Intn(10) == 0 {
		// ACCESS asking for everything on a directory (DELETE is only meaningful there)
		proc, accessAll, h = NFSPROC3_ACCESS, true, d
		p = dp
	}
	var args []byte
	meta := M{"h": p}
	roles := map[string][]string{}
	switch proc {
	case NFSPROC3_NULL:
		args = []byte{}
	case NFSPROC3_GETATTR, NFSPROC3_READLINK, NFSPROC3_FSSTAT, NFSPROC3_FSINFO, NFSPROC3_PATHCONF:
		args = vfArgsFH(h)
	case NFSPROC3_SETATTR:
		s := vfcSattr(r)
		if r.Intn(2) == 0 {
			s.Size = u64p(uint64(r.Intn(9)))
		}
		args = vfArgsSetattr(h, s, nil)
		c.sattrMeta(meta, s)
	case NFSPROC3_LOOKUP:
		args = vfArgsDirOp(d, name)
		meta = M{"h": dp, "name": name, "ncls": vfcNameClass(name)}
	case NFSPROC3_ACCESS:
		mask := uint32(r.Intn(64))
		if accessAll {
			mask = 63
		}
		args = vfArgsAccess(h, mask)
		meta["mask"] = int(mask)
	case NFSPROC3_READ:
		args = vfArgsRead(h, uint64(r.Intn(8)), uint32(r.Intn(16)))
		meta["off"], meta["cnt"] = 0, 0
	case NFSPROC3_WRITE:
		data := vfcData(r, r.Intn(8))
		args = vfArgsWrite(h, uint64(r.Intn(8)), uint32(r.Intn(3)), data)
	case NFSPROC3_CREATE:
		args = vfArgsCreate(d, name, uint32(r.Intn(3)), vfcSattr(r), [8]byte{1})
		meta = M{"h": dp, "name": name, "ncls": vfcNameClass(name)}
	case NFSPROC3_MKDIR:
		args = vfArgsMkdir(d, name, vfcSattr(r))
		meta = M{"h": dp, "name": name, "ncls": vfcNameClass(name)}
	case NFSPROC3_SYMLINK:
		args = vfArgsSymlink(d, name, vfSattr{}, "a")
		meta = M{"h": dp, "name": name, "ncls": vfcNameClass(name)}
	case NFSPROC3_MKNOD:
		args = vfArgsMknod(d, name, 4)
		meta = M{"h": dp, "name": name, "ncls": vfcNameClass(name)}
	case NFSPROC3_REMOVE, NFSPROC3_RMDIR:
		args = vfArgsDirOp(d, name)
		meta = M{"h": dp, "name": name, "ncls": vfcNameClass(name)}
	case NFSPROC3_RENAME:
		d2 := c.pickKind(r, "D")
		args = vfArgsRename(d, name, d2, "y")
		meta = M{"h": dp, "name": name, "ncls": vfcNameClass(name), "h2": c.hp[d2], "name2": "y", "ncls2": "ok"}
	case NFSPROC3_LINK:
		args = vfArgsLink(h, d, name)
	case NFSPROC3_READDIR:
		args = vfArgsReaddir(d, 0, [8]byte{}, 4096)
		meta = M{"h": dp}
	case NFSPROC3_READDIRPLUS:
		args = vfArgsReaddirplus(d, 0, [8]byte{}, 4096, 8192)
		meta = M{"h": dp}
	case NFSPROC3_COMMIT:
		args = vfArgsCommit(h, 0, 0)
	}
	args, how := vfcMangle(r, args)
	if accessAll {
		args, how = vfArgsAccess(h, 63), "ok"
	}
	// this profile only states the read-only clauses (and "a failed request changes nothing"):
	// the line is marked so that the POSIX outcome rules are not applied to possibly malformed calls
	meta["rocheck"] = true
	meta["mangle"] = how
	// arbitrary credentials
	switch r.Intn(4) {
	case 0:
		c.cred = vfRoot
	case 1:
		c.setCred(1000, 1000)
	case 2:
		c.cred = vfCred{Flavor: AUTH_NONE, IP: "127.0.0.1", Port: 1000}
	case 3:
		c.setCred(0, 0)
	}
	rep := c.req(proc, args, meta, roles)
	// ACCESS bits as booleans (TLC has no bit operations)
	if proc == NFSPROC3_ACCESS && rep.OK() {
		a := vfU(vfGet(rep.Res.Val, "access"))
		c.pending["acc_mod"], c.pending["acc_ext"], c.pending["acc_del"] = a&ACCESS3_MODIFY != 0, a&ACCESS3_EXTEND != 0, a&ACCESS3_DELETE != 0
	}
	c.cred = vfRoot
}

func vfcRunRO(t *testing.T, tr *vfTrace, h int, seed int64, steps int) *vfcClient {
	r := vfRand(seed, fmt.Sprintf("core-ro-%d", h))
	atStart := h%3 == 0
	cfg := vfcCfg{TTL: []string{"min", "def"}[h%2], RO: atStart, Profile: "ro", Neg: h%4 == 1, Dir: h%4 == 2}
	// the tree exists before the export does (a read-only export cannot create it)
	fs := vfNewFS()
	fs.vfPoke("/a", "D", nil, "", 0755)
	fs.vfPoke("/a/b", "F", []byte("data-ab"), "", 0644)
	fs.vfPoke("/b", "F", []byte("data-b"), "", 0644)
	fs.vfPoke("/c", "L", nil, "b", 0777)
	fs.vfPoke("/a/c", "D", nil, "", 0755)
	c := vfcNewClientOn(t, tr, cfg, h, seed, fs)
	root := c.hs[0]
	// collect handles (read-only requests)
	c.readdir(root, true)
	for _, hh := range append([]uint64{}, c.hs...) {
		if len(c.hp[hh]) == 1 && c.hp[hh][0] == "a" {
			c.readdir(hh, true)
		}
	}
	for s := 0; s < steps; s++ {
		if !atStart && (s == steps/4 || s == steps/2 || s == 3*steps/4) {
			// switched at run time, through either API
			c.cfg.RO = !c.cfg.RO
			if s == steps/2 {
				o := c.env.n.GetExportOptions()
				o.ReadOnly = c.cfg.RO
				if err := c.env.n.UpdateExportOptions(o); err != nil {
					t.Fatalf("UpdateExportOptions: %v", err)
				}
			} else {
				c.setPolicy(t, func(p *PolicyOptions) { p.ReadOnly = c.cfg.RO })
			}
			c.cfgLine()
		}
		c.roStep(r)
	}
	return c
}

// vfcRunROSwitch: read-only is switched on while a WRITE admitted earlier is still inside a
// slow backend call (and HandleCall has already timed it out). Once the update has returned,
// the backend must see no modifying operation any more. Logs one "roswitch" line.
func vfcRunROSwitch(t *testing.T, tr *vfTrace, h int, seed int64) {
	fs := vfNewFS()
	fs.vfPoke("/f", "F", []byte("data"), "", 0644)
	variant := (h / 10) % 4 // 0: async export + UNSTABLE, 1: plain + FILE_SYNC, 2: async + FILE_SYNC, 3: plain + UNSTABLE
	cfg := vfcCfg{TTL: "min", Profile: "ro", Async: variant%2 == 0}
	stable := uint32(2)
	if variant == 0 || variant == 3 {
		stable = 0 // UNSTABLE
	}
	c := vfcNewClientOn(t, tr, cfg, h, seed, fs)
	c.env.n.UpdateTuningOptions(func(tu *TuningOptions) { tu.Timeouts.DefaultTimeout = 80 * time.Millisecond })
	c.lookup(c.hs[0], "f")
	c.flush()
	var fh uint64
	for _, hh := range c.hs {
		if len(c.hp[hh]) == 1 {
			fh = hh
		}
	}
	release := make(chan struct{})
	entered := make(chan struct{}, 1)
	fs.Gate = func(op, p string) {
		if op == "WriteAt" || (op == "OpenFile" && p == "/f") {
			select {
			case entered <- struct{}{}:
				<-release
			default:
			}
		}
	}
	reqDone := make(chan struct{})
	go func() {
		c.env.Do(NFSPROC3_WRITE, vfArgsWrite(fh, 0, stable, []byte("new!")), vfRoot)
		close(reqDone)
	}()
	select {
	case <-entered:
	case <-time.After(2 * time.Second):
		t.Fatalf("roswitch: the WRITE never reached the backend")
	}
	<-reqDone // HandleCall gave up after DefaultTimeout; its goroutine is still in the backend
	updDone := make(chan struct{})
	go func() {
		c.setPolicy(t, func(p *PolicyOptions) { p.ReadOnly = true })
		close(updDone)
	}()
	early := false
	select {
	case <-updDone:
		early = true // the update did not wait for the request in flight
	case <-time.After(300 * time.Millisecond):
	}
	fs.TakeCalls()
	if early {
		close(release)
		time.Sleep(200 * time.Millisecond)
	} else {
		close(release)
		select {
		case <-updDone:
		case <-time.After(5 * time.Second):
			t.Fatalf("roswitch: UpdatePolicyOptions did not return after the request finished")
		}
		fs.TakeCalls() // what the request did before the update returned is legitimate
		time.Sleep(50 * time.Millisecond)
	}
	mutAfter := 0
	for _, cl := range fs.TakeCalls() {
		if vfcMutating(cl.Op, cl.Flags) {
			mutAfter++
		}
	}
	fs.Gate = nil
	c.cfg.RO = true
	tr.Emit(M{"ev": "roswitch", "early": early, "mut_after": mutAfter, "cfg": c.cfg, "tree": c.tree()})
	c.env.Close()
}

// ---------------------------------------------------------------- crash (C22)

type vfcCrashOp struct {
	kind   int // 0 write, 1 commit
	file   int
	off    uint64
	data   []byte
	stable uint32
}

func vfcCrashHistory(r *rand.Rand) []vfcCrashOp {
	n := 2 + r.Intn(4)
	var ops []vfcCrashOp
	for i := 0; i < n; i++ {
		if r.Intn(5) == 0 {
			ops = append(ops, vfcCrashOp{kind: 1, file: r.Intn(2)})
		} else {
			ops = append(ops, vfcCrashOp{kind: 0, file: r.Intn(2), off: uint64(r.Intn(10)), data: vfcData(r, 1+r.Intn(6)), stable: uint32(r.Intn(3))})
		}
	}
	ops = append(ops, vfcCrashOp{kind: 1, file: 0})
	return ops
}

// vfcRunCrash runs one history with a crash injected at backend operation k (0 = none);
// returns the number of countable backend operations the history needed.
func vfcRunCrash(t *testing.T, tr *vfTrace, h int, seed int64, ops []vfcCrashOp, k int64) int64 {
	cfg := vfcCfg{TTL: "min", Profile: "crash", Async: h%2 == 1}
	fs := vfNewFS()
	fs.vfPoke("/f0", "F", []byte{9, 9, 9}, "", 0644)
	fs.vfPoke("/f1", "F", []byte{}, "", 0644)
	c := vfcNewClientOn(t, tr, cfg, h, seed, fs)
	root := c.hs[0]
	c.lookup(root, "f0")
	c.lookup(root, "f1")
	files := []uint64{}
	for _, name := range []string{"f0", "f1"} {
		for _, hh := range c.hs {
			if len(c.hp[hh]) == 1 && c.hp[hh][0] == name {
				files = append(files, hh)
			}
		}
	}
	if len(files) != 2 {
		t.Fatalf("crash profile: handles missing")
	}
	fs.SetCrashAt(k)
	for _, op := range ops {
		if op.kind == 0 {
			c.write(files[op.file], "small", op.off, op.data, op.stable)
		} else {
			c.commit(files[op.file])
		}
		if fs.crashedNow() {
			// the injected fault hit this request: its outcome is not constrained by the POSIX rules
			c.pending["faulty"] = true
			break
		}
	}
	n := fs.OpCount()
	c.flush()
	// what survives: the durable copies
	if !fs.crashedNow() {
		fs.Crash() // a crash after the last reply
	}
	dur := []M{}
	for _, name := range []string{"f0", "f1"} {
		_, d, _, _, ok := fs.vfPeek("/"+name, 200)
		ints := []int{}
		for _, b := range d {
			ints = append(ints, int(b))
		}
		if ok {
			dur = append(dur, M{"p": []string{name}, "d": ints})
		}
	}
	tr.Emit(M{"ev": "crash", "at": int(k), "dur": dur})
	c.env.Close()
	return n
}

func (f *vfsFS) crashedNow() bool {
	f.mu.Lock()
	defer f.mu.Unlock()
	return f.crashed
}

// ---------------------------------------------------------------- entry point

// TestVF_Core2 writes core_<profile>.ndjson for VF_PROFILE in {maxfs, own, ro, crash}.
func TestVF_Core2(t *testing.T) {
	seed := vfSeed()
	profile := os.Getenv("VF_PROFILE")
	nh := vfEnvInt("VF_HIST", 32)
	steps := vfEnvInt("VF_STEPS", 30)
	tr := vfNewTrace(t, "core_"+profile+".ndjson")
	defer tr.Close()
	nontrivial := 0
	var samples []M
	hists := 0
	for h := 0; h < nh; h++ {
		switch profile {
		case "maxfs", "own", "ro":
			var c *vfcClient
			switch profile {
			case "maxfs":
				c = vfcRunMaxfs(t, tr, h, seed, steps)
			case "own":
				c = vfcRunOwn(t, tr, h, seed, steps)
			default:
				if h%10 == 9 {
					vfcRunROSwitch(t, tr, h, seed)
					hists++
					nontrivial++
					continue
				}
				c = vfcRunRO(t, tr, h, seed, steps)
			}
			c.flush()
			c.env.Close()
			hists++
			if c.muts >= 3 || profile == "ro" {
				nontrivial++
			}
			if h < 1 {
				samples = append(samples, M{"cfg": c.cfg, "requests": c.n})
			}
		case "crash":
			r := vfRand(seed, fmt.Sprintf("core-crash-%d", h))
			ops := vfcCrashHistory(r)
			n := vfcRunCrash(t, tr, h, seed, ops, 0)
			hists++
			for k := int64(1); k <= n; k++ {
				vfcRunCrash(t, tr, h, seed, ops, k)
				hists++
				nontrivial++
			}
			if h < 1 {
				samples = append(samples, M{"ops": len(ops), "crash_points": n})
			}
		default:
			t.Fatalf("unknown profile %q", profile)
		}
	}
	vfWriteJSON(t, "core_"+profile+".summary.json", M{"histories": hists, "steps": steps, "nontrivial": nontrivial, "lines": tr.n, "samples": samples, "profile": profile})
}

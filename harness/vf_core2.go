package absnfs

// vf_core2.go: additional generator profiles of the core driver (see vf_core.go).

package absnfs

// vf_connstream.go: C15 driver (specs/ConnStream). Feeds byte streams to the real server over TCP
// loopback in record-marking mode: valid calls of every program/procedure, mutated calls (bit flips,
// length-field edits, truncation at every point), huge declared lengths, random bytes; classifies each
// stream with an independent parser, records what the server did (reply XIDs, close, logged panics,
// allocation, a probe connection and a bystander connection afterwards). The server runs in a CHILD
// process (the test binary re-executed), one per backend (vfs, memfs), because a panic that escapes a
// request goroutine kills the process: the death of the child is the observation `crash`.
//
//   TestVF_ConnStream      : parent; $VF_OUT/connstream.ndjson, connstream.summary.json
//   TestVF_ConnStreamChild : child (VF_CS_BACKEND set); appends to $VF_CS_TRACE line by line

import (
	"bytes"
	"encoding/binary"
	"encoding/json"
	"fmt"
	"io"
	"log"
	"math/rand"
	"net"
	"os"
	"os/exec"
	"runtime"
	"strings"
	"sync"
	"testing"
	"time"

	"github.com/absfs/absfs"
	"github.com/absfs/memfs"
)

// ---------------------------------------------------------------- independent classifier

type vfcRec struct {
	Cls  string `json:"cls"`  // call | poison | badhdr | oversize | trunc
	XID  string `json:"xid"`  // "x%08x" for calls, "" otherwise
	KB   int    `json:"kb"`   // KiB of payload the framing let through
	Proc string `json:"proc"` // prog.vers.proc of a call (information)
}

const vfcMaxRecord = 1 << 20

// vfcClassifyCall: does the record hold a decodable RPC call header (RFC 1831; bodies <= 400 bytes)?
func vfcClassifyCall(rec []byte) (ok bool, xid uint32, prog, vers, proc uint32, args []byte) {
	u := func(off int) uint32 { return binary.BigEndian.Uint32(rec[off:]) }
	if len(rec) < 32 || u(4) != 0 {
		return
	}
	xid, prog, vers, proc = u(0), u(12), u(16), u(20)
	off := 24
	for i := 0; i < 2; i++ { // credential, verifier
		if len(rec) < off+8 {
			return
		}
		n := u(off + 4)
		if n > 400 {
			return
		}
		off += 8 + (int(n)+3)&^3
		if len(rec) < off {
			return
		}
	}
	return true, xid, prog, vers, proc, rec[off:]
}

// vfcClassify walks the stream as RFC 1831 section 10 frames it and returns the records up to and
// including the first undecodable one.
func vfcClassify(stream []byte) []vfcRec {
	out := []vfcRec{}
	p := 0
	for p < len(stream) {
		var rec []byte
		total := 0
		for {
			if len(stream)-p < 4 {
				return append(out, vfcRec{Cls: "trunc", KB: (total + 1023) / 1024})
			}
			h := binary.BigEndian.Uint32(stream[p:])
			n := int(h &^ 0x80000000)
			if total+n > vfcMaxRecord {
				return append(out, vfcRec{Cls: "oversize", KB: (total + 1023) / 1024})
			}
			p += 4
			if len(stream)-p < n {
				return append(out, vfcRec{Cls: "trunc", KB: (total + n + 1023) / 1024})
			}
			rec = append(rec, stream[p:p+n]...)
			total += n
			p += n
			if h&0x80000000 != 0 {
				break
			}
		}
		ok, xid, prog, vers, proc, args := vfcClassifyCall(rec)
		if !ok {
			return append(out, vfcRec{Cls: "badhdr", KB: (total + 1023) / 1024})
		}
		r := vfcRec{Cls: "call", XID: fmt.Sprintf("x%08x", xid), KB: (total + 1023) / 1024, Proc: fmt.Sprintf("%d.%d.%d", prog, vers, proc)}
		// a WRITE whose offset is beyond 2^62: the class of calls known to make memfs panic (F22)
		if prog == NFS_PROGRAM && vers == 3 && proc == NFSPROC3_WRITE && len(args) >= 4 {
			fl := int(binary.BigEndian.Uint32(args))
			o := 4 + (fl+3)&^3
			if fl <= 64 && len(args) >= o+8 && binary.BigEndian.Uint64(args[o:]) >= 1<<62 {
				r.Cls = "poison"
			}
		}
		out = append(out, r)
	}
	return out
}

// vfcGrowsBackend: a damaged stream that holds a call able to make a non-sparse backend allocate what its
// arguments name (WRITE offset, SETATTR / CREATE size), other than the class already known to panic memfs.
func vfcGrowsBackend(kind string, recs []vfcRec) bool {
	if kind == "valid" || kind == "bigwrite" || kind == "edge-read" || kind == "write-near-2^63" {
		return false
	}
	for _, r := range recs {
		if r.Cls == "call" && (r.Proc == "100003.3.2" || r.Proc == "100003.3.7" || r.Proc == "100003.3.8") {
			return true
		}
	}
	return false
}

// ---------------------------------------------------------------- stream generation

func vfcFrame(msg []byte, r *rand.Rand, split bool) []byte {
	var out []byte
	put := func(b []byte, last bool) {
		var h [4]byte
		v := uint32(len(b))
		if last {
			v |= 0x80000000
		}
		binary.BigEndian.PutUint32(h[:], v)
		out = append(out, h[:]...)
		out = append(out, b...)
	}
	if !split || len(msg) < 2 {
		put(msg, true)
		return out
	}
	for len(msg) > 0 {
		n := 1 + r.Intn(len(msg))
		if r.Intn(5) == 0 {
			put(nil, false) // an empty fragment
		}
		put(msg[:n], n == len(msg))
		msg = msg[n:]
	}
	return out
}

// vfcMutate damages a call message: bit flips, length-like words replaced, truncation.
func vfcMutate(msg []byte, r *rand.Rand) []byte {
	m := append([]byte{}, msg...)
	switch r.Intn(5) {
	case 0: // bit flips anywhere
		for k := 0; k < 1+r.Intn(4) && len(m) > 0; k++ {
			m[r.Intn(len(m))] ^= 1 << uint(r.Intn(8))
		}
	case 1: // bit flips in the arguments only (the header stays decodable)
		if len(m) > 44 {
			for k := 0; k < 1+r.Intn(4); k++ {
				m[40+r.Intn(len(m)-40)] ^= 1 << uint(r.Intn(8))
			}
		}
	case 2: // a word replaced by a huge or slightly wrong length
		if len(m) >= 8 {
			off := 4 * r.Intn(len(m)/4)
			old := binary.BigEndian.Uint32(m[off:])
			v := []uint32{0xffffffff, 0x7fffffff, 0x80000000, old + 1, old - 1, 1 << 20, 401, 8193, 65}[r.Intn(9)]
			binary.BigEndian.PutUint32(m[off:], v)
		}
	case 3: // truncation at any point
		m = m[:r.Intn(len(m)+1)]
	case 4: // WRITE / READ offsets near 2^63 are left to the directed scenario; here: garbage tail
		m = append(m, vfwFill(r, r.Intn(40))...)
	}
	return m
}

type vfcStream struct {
	Kind  string
	Bytes []byte
	Stall int // > 0: the client pauses after this many bytes for longer than the server's read timeout
}

// vfcStreams builds the streams of one run: nrand seeded streams plus the directed ones.
func vfcStreams(r *rand.Rand, h vfrHandles, nrand int, poison, valid, stalls bool) []vfcStream {
	cases := vfrAllCases(r, h, 7, true)
	xid := uint32(100)
	call := func(c *vfrCase) []byte {
		xid++
		_, cred := c.Cred.authCtx()
		return vfrCallBytes(xid, c.Prog, c.Vers, c.Proc, cred.Flavor, cred.Body, c.Args)
	}
	pick := func() *vfrCase { return &cases[r.Intn(len(cases))] }
	var out []vfcStream
	// every case once, four per connection (valid framing): each decodable call must be answered in order
	for i := 0; valid && i < len(cases); i += 4 {
		var s []byte
		for j := i; j < i+4 && j < len(cases); j++ {
			s = append(s, vfcFrame(call(&cases[j]), r, r.Intn(3) == 0)...)
		}
		out = append(out, vfcStream{Kind: "valid", Bytes: s})
	}
	for i := 0; i < nrand; i++ {
		var s []byte
		kind := "mutated"
		n := 1 + r.Intn(4)
		for j := 0; j < n; j++ {
			msg := call(pick())
			if r.Intn(2) == 0 {
				msg = vfcMutate(msg, r)
			}
			s = append(s, vfcFrame(msg, r, r.Intn(3) == 0)...)
		}
		switch r.Intn(8) {
		case 0: // random bytes instead of a stream
			kind, s = "random", vfwFill(r, 1+r.Intn(200))
		case 1: // the stream cut at an arbitrary byte
			kind, s = "cut", s[:r.Intn(len(s)+1)]
		case 2: // a huge declared fragment after some calls
			kind = "huge"
			var hdr [4]byte
			binary.BigEndian.PutUint32(hdr[:], []uint32{0xffffffff, 0x7fffffff, 0x80100001, 0x00100001, 0xc0000000}[r.Intn(5)])
			s = append(s, hdr[:]...)
			s = append(s, vfwFill(r, r.Intn(64))...)
			s = append(s, vfcFrame(call(pick()), r, false)...) // must not be answered
		case 3: // bytes flipped in the framed stream itself (fragment headers included)
			kind = "flipped"
			for k := 0; k < 1+r.Intn(3); k++ {
				s[r.Intn(len(s))] ^= 1 << uint(r.Intn(8))
			}
		}
		out = append(out, vfcStream{Kind: kind, Bytes: s})
	}
	// word edits: for the primary well-formed call of every procedure, every 32-bit word of the arguments
	// replaced by boundary values (0, 1, 2^31-1, 2^31, 2^32-1, ...), the rest left valid; eight per connection
	{
		vals := []uint32{0, 1, 0x7fffffff, 0x80000000, 0xffffffff, 8, 0x10000, 0x00100001, 0xfffffffd, 0xfffffffe, 0xfffffffc}
		per := 2
		if vfThorough() {
			per = len(vals)
		}
		var s []byte
		nIn := 0
		flush := func() {
			if nIn > 0 {
				out = append(out, vfcStream{Kind: "wordedit", Bytes: s})
				s, nIn = nil, 0
			}
		}
		seen := map[string]bool{}
		for ci := range cases {
			c := &cases[ci]
			key := fmt.Sprintf("%d.%d.%d", c.Prog, c.Vers, c.Proc)
			if c.Class != "good" || seen[key] || len(c.Args) < 4 {
				continue
			}
			seen[key] = true
			for off := 0; off+4 <= len(c.Args) && off < 160; off += 4 {
				for k := 0; k < per; k++ {
					e := *c
					e.Args = append([]byte{}, c.Args...)
					binary.BigEndian.PutUint32(e.Args[off:], vals[(r.Intn(len(vals))+k)%len(vals)])
					s = append(s, vfcFrame(call(&e), r, false)...)
					if nIn++; nIn == 8 {
						flush()
					}
				}
			}
		}
		flush()
	}
	// credential edits: the call header stays decodable (body <= 400 bytes) while every 32-bit word of a
	// well-formed AUTH_SYS body is replaced by boundary values, among them the lengths whose padded size wraps
	// around 2^32; also bodies cut at every word and other flavors over the same bytes. The credential is parsed
	// before any handler runs (ValidateAuthentication), outside the request goroutine.
	{
		vals := []uint32{0, 1, 17, 400, 401, 8193, 0x7fffffff, 0x80000000, 0xfffffffc, 0xfffffffd, 0xfffffffe, 0xffffffff}
		good := vfAuthSysBody(7, "vfhost", 1000, 100, []uint32{1, 2, 3})
		bases := []vfrCase{
			{Prog: NFS_PROGRAM, Vers: 3, Proc: NFSPROC3_GETATTR, Args: vfArgsFH(h.file)},
			{Prog: NFS_PROGRAM, Vers: 3, Proc: 0},
			{Prog: MOUNT_PROGRAM, Vers: 3, Proc: 1, Args: []byte{0, 0, 0, 1, '/', 0, 0, 0}},
		}
		var s []byte
		nIn := 0
		add := func(b *vfrCase, flavor uint32, body []byte) {
			e := *b
			e.Cred = vfCred{Flavor: flavor, Raw: body, IP: "127.0.0.1", Port: 1000}
			s = append(s, vfcFrame(call(&e), r, false)...)
			if nIn++; nIn == 8 {
				out = append(out, vfcStream{Kind: "crededit", Bytes: s})
				s, nIn = nil, 0
			}
		}
		for bi := range bases {
			for off := 0; off+4 <= len(good); off += 4 {
				for vi, v := range vals {
					if bi > 0 && v < 0xfffffffc && !vfThorough() { // the other procedures: the wrap-around class only
						continue
					}
					if bi == 0 && !vfThorough() && vi%2 == int(r.Int31n(2)) && v < 0xfffffffc {
						continue
					}
					body := append([]byte{}, good...)
					binary.BigEndian.PutUint32(body[off:], v)
					add(&bases[bi], AUTH_SYS, body)
				}
			}
		}
		for cut := 0; cut < len(good); cut += 4 {
			add(&bases[0], AUTH_SYS, good[:cut])
		}
		for _, fl := range []uint32{AUTH_NONE, AUTH_SHORT, AUTH_DH, 6, 0xffffffff} {
			add(&bases[0], fl, good)
		}
		if nIn > 0 {
			out = append(out, vfcStream{Kind: "crededit", Bytes: s})
		}
	}
	// a record assembled from many fragments that passes the limit only by accumulation (1 MiB + 1 really sent)
	{
		var s []byte
		s = append(s, vfcFrame(call(pick()), r, false)...)
		chunk := make([]byte, 65536)
		for k := 0; k < 16; k++ {
			var hdr [4]byte
			binary.BigEndian.PutUint32(hdr[:], 65536)
			s = append(append(s, hdr[:]...), chunk...)
		}
		s = append(s, 0x80, 0, 0, 1, 0)
		s = append(s, vfcFrame(call(pick()), r, false)...)
		out = append(out, vfcStream{Kind: "accumulated", Bytes: s})
	}
	// a full-size record (exactly 1 MiB) that is not a call, then a call that must not be answered
	{
		big := make([]byte, vfcMaxRecord)
		s := vfcFrame(big, r, false)
		s = append(s, vfcFrame(call(pick()), r, false)...)
		out = append(out, vfcStream{Kind: "fullsize", Bytes: s})
	}
	// the largest WRITE the server accepts, valid, followed by a NULL
	{
		c := vfrCase{Prog: NFS_PROGRAM, Vers: 3, Proc: NFSPROC3_WRITE, Args: vfArgsWrite(h.big, 0, 2, make([]byte, 65536)), Cred: vfRoot}
		s := vfcFrame(call(&c), r, true)
		n := vfrCase{Prog: NFS_PROGRAM, Vers: 3, Proc: 0, Cred: vfRoot}
		s = append(s, vfcFrame(call(&n), r, false)...)
		out = append(out, vfcStream{Kind: "bigwrite", Bytes: s})
	}
	// offsets and counts at the edges of the 64-bit range (READ everywhere; WRITE near 2^63 only when asked:
	// it is the directed reproducer of F22 and kills a memfs-backed server)
	for _, off := range []uint64{1<<63 - 10, 1 << 63, ^uint64(0) - 5, 1<<62 + 1} {
		c := vfrCase{Prog: NFS_PROGRAM, Vers: 3, Proc: NFSPROC3_READ, Args: vfArgsRead(h.file, off, 5), Cred: vfRoot}
		out = append(out, vfcStream{Kind: "edge-read", Bytes: vfcFrame(call(&c), r, false)})
	}
	// stalls: the client (or the network) pauses in mid-stream for longer than the read timeout and then
	// delivers the rest. Whatever the server does (wait, or give the connection up) it must never take bytes
	// from the middle of a record for a new record. The interesting streams are those whose remainder is
	// itself well-framed: a call whose trailing argument bytes are framed calls, the pause at that boundary.
	if stalls {
		null := func() *vfrCase { return &vfrCase{Prog: NFS_PROGRAM, Vers: 3, Proc: 0, Cred: vfRoot} }
		getattr := func() *vfrCase {
			return &vfrCase{Prog: NFS_PROGRAM, Vers: 3, Proc: NFSPROC3_GETATTR, Args: vfArgsFH(h.file), Cred: vfRoot}
		}
		embed := func(outer *vfrCase, inner ...*vfrCase) (framed []byte, cut int) {
			msg := call(outer)
			cut = 4 + len(msg)
			for _, in := range inner {
				msg = append(msg, vfcFrame(call(in), r, false)...)
			}
			return vfcFrame(msg, r, false), cut
		}
		first := vfcFrame(call(getattr()), r, false)
		fr, cut := embed(null(), null())
		out = append(out, vfcStream{"stall", append(append([]byte{}, first...), fr...), len(first) + cut})
		fr, cut = embed(getattr(), getattr(), null())
		out = append(out, vfcStream{"stall", fr, cut})
		lk := &vfrCase{Prog: NFS_PROGRAM, Vers: 3, Proc: NFSPROC3_LOOKUP, Args: vfArgsDirOp(h.root, "f"), Cred: vfRoot}
		fr, cut = embed(lk, getattr())
		out = append(out, vfcStream{"stall", append(fr, vfcFrame(call(null()), r, false)...), cut})
		// inside a fragment header, at a record boundary, and at seeded offsets of ordinary streams
		two := append(vfcFrame(call(getattr()), r, false), vfcFrame(call(null()), r, false)...)
		out = append(out, vfcStream{"stall", two, len(vfcFrame(call(getattr()), r, false)) + 2})
		out = append(out, vfcStream{"stall", append([]byte{}, two...), len(two) - 44})
		for k := 0; k < 3; k++ {
			var s []byte
			for j := 0; j < 3; j++ {
				s = append(s, vfcFrame(call(pick()), r, r.Intn(2) == 0)...)
			}
			out = append(out, vfcStream{"stall", s, 1 + r.Intn(len(s)-1)})
		}
	}
	if poison {
		c := vfrCase{Prog: NFS_PROGRAM, Vers: 3, Proc: NFSPROC3_WRITE, Args: vfArgsWrite(h.file, 1<<63-10, 2, []byte("12345")), Cred: vfRoot}
		n := vfrCase{Prog: NFS_PROGRAM, Vers: 3, Proc: 0, Cred: vfRoot}
		s := vfcFrame(call(&c), r, false)
		s = append(s, vfcFrame(call(&n), r, false)...)
		out = append(out, vfcStream{Kind: "write-near-2^63", Bytes: s})
	}
	return out
}

// ---------------------------------------------------------------- child: server + client in one process

type vfcLockedBuf struct {
	mu sync.Mutex
	b  bytes.Buffer
}

func (l *vfcLockedBuf) Write(p []byte) (int, error) {
	l.mu.Lock()
	defer l.mu.Unlock()
	return l.b.Write(p)
}

func (l *vfcLockedBuf) Take() string {
	l.mu.Lock()
	defer l.mu.Unlock()
	s := l.b.String()
	l.b.Reset()
	return s
}

func vfcAppend(path string, v interface{}) {
	b, err := json.Marshal(v)
	if err != nil {
		panic(err)
	}
	f, err := os.OpenFile(path, os.O_APPEND|os.O_CREATE|os.O_WRONLY, 0644)
	if err != nil {
		panic(err)
	}
	f.Write(append(b, '\n'))
	f.Close()
}

// vfcNull sends a NULL call on c and waits for its reply.
func vfcNull(c *vfrConn, xid uint32) bool {
	if err := c.SendRecord(vfrCallBytes(xid, NFS_PROGRAM, 3, 0, AUTH_NONE, nil, nil)); err != nil {
		return false
	}
	rep, err := c.ReadRecord(5 * time.Second)
	return err == nil && len(rep) >= 4 && binary.BigEndian.Uint32(rep) == xid
}

func vfcTotalAlloc() uint64 {
	var m runtime.MemStats
	runtime.ReadMemStats(&m)
	return m.TotalAlloc
}

func TestVF_ConnStreamChild(t *testing.T) {
	backend := os.Getenv("VF_CS_BACKEND")
	if backend == "" {
		t.Skip("child entry point")
	}
	tracePath := os.Getenv("VF_CS_TRACE")
	from := vfEnvInt("VF_CS_FROM", 0)
	nrand := vfEnvInt("VF_CS_STREAMS", 100)
	poison := os.Getenv("VF_CS_POISON") == "1"
	mode := os.Getenv("VF_CS_MODE")
	seed := vfSeed()

	var fs absfs.SymlinkFileSystem
	if backend == "memfs" {
		m, err := memfs.NewFS()
		if err != nil {
			t.Fatalf("memfs: %v", err)
		}
		data := make([]byte, 100)
		for _, p := range []string{"/d", "/d/sub", "/e"} {
			m.Mkdir(p, 0755)
		}
		for p, n := range map[string]int{"/f": 100, "/big": 200000, "/d/a": 1, "/d/bb": 2} {
			f, err := m.Create(p)
			if err != nil {
				t.Fatalf("memfs create: %v", err)
			}
			if n > len(data) {
				data = make([]byte, n)
			}
			f.Write(data[:n])
			f.Close()
		}
		m.Symlink("f", "/l")
		fs = m
	} else {
		v := vfNewFS()
		vfrPopulate(v)
		fs = v
	}
	opts := ExportOptions{}
	if mode == "ratelimited" { // two calls per connection, then the loop's own refusal (MSG_DENIED) for the rest
		cfg := DefaultRateLimiterConfig()
		cfg.PerConnectionRequestsPerSecond, cfg.PerConnectionBurstSize = 1, 2
		opts.EnableRateLimiting, opts.RateLimitConfig = true, &cfg
	}
	e := vfNewEnv(t, fs, opts)
	lb := &vfcLockedBuf{}
	e.n.logger = log.New(lb, "", 0)
	e.srv.logger = log.New(lb, "", 0)
	h := vfrGetHandles(t, e)
	port := vfrListen(t, e)
	defer e.srv.Stop()

	streams := vfcStreams(vfRand(seed, "cs-"+backend), h, nrand, poison, os.Getenv("VF_CS_VALID") != "0", backend == "vfs" && mode == "")
	if mode == "ratelimited" { // the valid table only: the third and later calls of each connection exceed the bucket
		var keep []vfcStream
		for _, s := range streams {
			if s.Kind == "valid" {
				keep = append(keep, s)
			}
		}
		streams = keep
	}
	// stalled streams are served by the same connection loop with a read timeout of 200 ms instead of 30 s
	const stallTimeout = 200 * time.Millisecond
	stallLn, err := net.Listen("tcp", "127.0.0.1:0")
	if err != nil {
		t.Fatalf("listen: %v", err)
	}
	defer stallLn.Close()
	go func() {
		for {
			sc, err := stallLn.Accept()
			if err != nil {
				return
			}
			go e.srv.handleConnectionLoop(sc, &NFSProcedureHandler{server: e.srv},
				&recordMarkingConnIO{server: e.srv, rmConn: NewRecordMarkingConn(sc, sc)}, stallTimeout, stallTimeout)
		}
	}()
	stallPort := stallLn.Addr().(*net.TCPAddr).Port
	bystander := vfrDial(t, port)
	defer func() { bystander.Close() }()
	for id := from; id < len(streams); id++ {
		s := streams[id]
		recs := vfcClassify(s.Bytes)
		if backend == "memfs" && vfcGrowsBackend(s.Kind, recs) {
			// memfs materialises every byte up to the offset / size a client names (a 5-byte WRITE at 4 GiB
			// allocates 4 GiB): a matter of that backend, outside this property; such damaged calls go to vfs only
			vfcAppend(tracePath, M{"ev": "skipped", "backend": backend, "id": id, "kind": s.Kind})
			continue
		}
		// announce the stream first: if the process dies, the parent knows which stream was being served
		vfcAppend(tracePath, M{"ev": "begin", "backend": backend, "id": id, "kind": s.Kind, "recs": recs, "nbytes": len(s.Bytes)})
		lb.Take()
		a0 := vfcTotalAlloc()
		dport := port
		if s.Stall > 0 {
			dport = stallPort
		}
		c, err := net.DialTimeout("tcp", fmt.Sprintf("127.0.0.1:%d", dport), 5*time.Second)
		if err != nil {
			t.Fatalf("dial: %v", err)
		}
		// reader: reply records until the server closes
		type rd struct {
			xids   []string
			junk   bool
			closed bool
		}
		done := make(chan rd, 1)
		go func() {
			var r rd
			cl := &vfrConn{c: c}
			for {
				rep, err := cl.ReadRecord(8 * time.Second)
				if err != nil {
					ne, isNet := err.(net.Error)
					r.closed = !(isNet && ne.Timeout())
					// a clean close is EOF at a record boundary or a reset; anything else (half a record, a
					// fragment no reply can have) is junk
					if r.closed && err != io.EOF && !strings.Contains(err.Error(), "reset") {
						r.junk = true
					}
					break
				}
				if len(rep) < 12 || binary.BigEndian.Uint32(rep[4:]) != 1 {
					r.junk = true
					continue
				}
				r.xids = append(r.xids, fmt.Sprintf("x%08x", binary.BigEndian.Uint32(rep)))
			}
			done <- r
		}()
		// writer: the stream in irregular TCP segments, then FIN
		rr := vfRand(seed, fmt.Sprintf("cs-w-%d", id))
		c.SetWriteDeadline(time.Now().Add(8 * time.Second))
		sent := 0
		for b := s.Bytes; len(b) > 0; {
			n := len(b)
			if rr.Intn(3) == 0 {
				n = 1 + rr.Intn(len(b))
			}
			if s.Stall > 0 && sent < s.Stall && sent+n >= s.Stall {
				n = s.Stall - sent
			}
			if _, err := c.Write(b[:n]); err != nil {
				break // the server may already have closed
			}
			b = b[n:]
			if sent += n; sent == s.Stall {
				time.Sleep(stallTimeout + 300*time.Millisecond)
				c.SetWriteDeadline(time.Now().Add(8 * time.Second))
			}
		}
		if tc, ok := c.(*net.TCPConn); ok {
			tc.CloseWrite()
		}
		got := <-done
		c.Close()
		alloc := vfcTotalAlloc() - a0
		logs := lb.Take()
		probe := func() bool {
			pc, err := net.DialTimeout("tcp", fmt.Sprintf("127.0.0.1:%d", port), 5*time.Second)
			if err != nil {
				return false
			}
			defer pc.Close()
			return vfcNull(&vfrConn{c: pc}, 0x50000000+uint32(id))
		}
		alive := probe()
		other := vfcNull(bystander, 0x60000000+uint32(id))
		if !other { // a bystander that was lost is reported once, then replaced
			bystander.Close()
			if nc, err := net.DialTimeout("tcp", fmt.Sprintf("127.0.0.1:%d", port), 5*time.Second); err == nil {
				bystander = &vfrConn{c: nc}
			}
		}
		if got.xids == nil {
			got.xids = []string{}
		}
		kb := int((alloc + 1023) / 1024)
		if kb > 1<<30-1 {
			kb = 1<<30 - 1
		}
		vfcAppend(tracePath, M{"ev": "conn", "backend": backend, "id": id, "kind": s.Kind, "recs": recs, "replies": got.xids, "junk": got.junk,
			"closed": got.closed, "panics": strings.Count(logs, "recovered panic in connection handler"),
			"contained": strings.Count(logs, "panic") - strings.Count(logs, "recovered panic in connection handler"),
			"alive":     alive, "other": other, "allockb": kb, "judge_alloc": backend == "vfs"})
	}
	vfcAppend(tracePath, M{"ev": "end", "backend": backend, "streams": len(streams)})
}

// ---------------------------------------------------------------- parent

func TestVF_ConnStream(t *testing.T) {
	out := vfOutDir(t)
	tr := vfNewTrace(t, "connstream.ndjson")
	defer tr.Close()
	nrand := vfEnvInt("VF_STREAMS", 120)
	summary := M{}
	var samples []M
	for _, run := range []struct {
		backend string
		poison  bool
		mode    string
	}{{"vfs", true, ""}, {"vfs", false, "ratelimited"}, {"memfs", false, ""}, {"memfs", true, ""}} {
		label := run.backend
		if run.poison && run.backend == "memfs" {
			label = "memfs-directed"
		}
		if run.mode != "" {
			label = run.backend + "-" + run.mode
		}
		tr.Emit(M{"ev": "reset", "backend": run.backend, "label": label})
		from, crashes, conns, nontrivial := 0, 0, 0, 0
		n := nrand
		if label == "memfs-directed" || run.mode != "" {
			n = 0
		}
		for attempt := 0; attempt < 6; attempt++ {
			path := fmt.Sprintf("%s/cs_%s_%d.ndjson", out, label, attempt)
			os.Remove(path)
			cmd := exec.Command(os.Args[0], "-test.run", "^TestVF_ConnStreamChild$", "-test.count=1", "-test.timeout", "600s")
			cmd.Env = append(os.Environ(), "VF_CS_BACKEND="+run.backend, "VF_CS_TRACE="+path, fmt.Sprintf("VF_CS_FROM=%d", from),
				fmt.Sprintf("VF_CS_STREAMS=%d", n), "VF_CS_POISON="+map[bool]string{true: "1", false: "0"}[run.poison],
				"VF_CS_VALID="+map[bool]string{true: "0", false: "1"}[label == "memfs-directed"], "VF_CS_MODE="+run.mode)
			var stderr bytes.Buffer
			cmd.Stdout, cmd.Stderr = &stderr, &stderr
			err := cmd.Run()
			data, _ := os.ReadFile(path)
			var last M
			ended := false
			for _, ln := range bytes.Split(data, []byte("\n")) {
				if len(ln) == 0 {
					continue
				}
				var m M
				if json.Unmarshal(ln, &m) != nil {
					continue
				}
				switch m["ev"] {
				case "begin":
					last = m
				case "conn":
					last = nil
					tr.Emit(m)
					conns++
					if rs, ok := m["recs"].([]interface{}); ok && len(rs) > 1 {
						nontrivial++
					}
					if len(samples) < 3 && m["kind"] != "valid" && conns%37 == 0 {
						samples = append(samples, m)
					}
				case "end":
					ended = true
				}
			}
			if ended && err == nil {
				break
			}
			if last == nil {
				t.Fatalf("child %s failed outside a stream (err=%v):\n%s", label, err, vfTail(stderr.String(), 3000))
			}
			// the process died while serving a stream: that is an observation, not a harness failure
			crashes++
			se := stderr.String()
			tr.Emit(M{"ev": "crash", "backend": run.backend, "id": last["id"], "kind": last["kind"], "recs": last["recs"],
				"panic": strings.Contains(se, "panic:") || strings.Contains(se, "fatal error:"), "trace": vfHead(vfPanicLine(se), 300)})
			from = int(last["id"].(float64)) + 1
		}
		summary[label] = M{"connections": conns, "crashes": crashes, "nontrivial": nontrivial}
	}
	summary["samples"] = samples
	summary["lines"] = tr.n
	vfWriteJSON(t, "connstream.summary.json", summary)
}

func vfTail(s string, n int) string {
	if len(s) > n {
		return s[len(s)-n:]
	}
	return s
}

// vfPanicLine extracts the panic message and the first absnfs / backend frames from a crash dump.
func vfPanicLine(se string) string {
	i := strings.Index(se, "panic:")
	if i < 0 {
		i = strings.Index(se, "fatal error:")
	}
	if i < 0 {
		return ""
	}
	s := se[i:]
	if len(s) > 600 {
		s = s[:600]
	}
	return strings.ReplaceAll(s, "\t", " ")
}

func vfHead(s string, n int) string {
	if len(s) > n {
		return s[:n]
	}
	return s
}

package absnfs

// vf_portmap.go: driver for C27 (specs/Portmap).
//
//   TestVF_Portmap : seeded histories of SET / UNSET / GETPORT / GETADDR / DUMP / rpcbind DUMP /
//                    NULL / unknown procedure, version, program over portmap v2 and rpcbind
//                    v3, v4 from loopback and non-loopback callers
//                    - through the real handleCall(data, remoteAddr) with *net.TCPAddr /
//                      opaque net.Addr values of every caller class, and
//                    - over real TCP (StartOnPort on a free port) from 127.0.0.1, ::1 and, where the
//                      machine has them, a global IPv4/IPv6 address and a link-local zoned IPv6
//                      address of a non-loopback interface.
//                    After every step: the request, the decoded reply, pm.GetMappings().
//
// Requests and reply decoding are written against RFC 1831/1833 only. The harness records;
// specs/Portmap/PortmapTrace.tla decides.

import (
	"encoding/binary"
	"fmt"
	"io"
	"math/rand"
	"net"
	"os"
	"sort"
	"strconv"
	"strings"
	"testing"
	"time"
)

type vfpmEnt struct {
	G int    `json:"g"`
	V int    `json:"v"`
	T string `json:"t"`
	P int    `json:"p"`
}

type vfpmReply struct {
	Got     bool      `json:"got"`
	XidOK   bool      `json:"xid_ok"`
	MType   int       `json:"mtype"`
	RStat   int       `json:"rstat"`
	VerfOK  bool      `json:"verf_ok"`
	AStat   int       `json:"astat"`
	ShapeOK bool      `json:"shape_ok"` // SUCCESS body decodes as the procedure's result type
	Trail   int       `json:"trailing"` // bytes after the result
	BodyLen int       `json:"bodylen"`  // bytes after accept_stat
	RejOK   bool      `json:"rej_ok"`   // MSG_DENIED body is a well-formed rejected_reply
	B       int       `json:"b"`        // SET/UNSET: boolean result, -1 if none
	Port    int       `json:"port"`     // GETPORT result, -1 if none
	UPort   int       `json:"uport"`    // GETADDR: port of the universal address (0 for ""), -1 if none/unparsable
	UAddr   string    `json:"uaddr"`
	Ents    []vfpmEnt `json:"ents"` // DUMP / rpcbind DUMP entries
}

func vfpmNoReply() vfpmReply {
	return vfpmReply{MType: -1, RStat: -1, AStat: -1, Trail: -1, BodyLen: -1, B: -1, Port: -1, UPort: -1, Ents: []vfpmEnt{}}
}

func vfpmProt(p uint32) string {
	switch p {
	case 6:
		return "tcp"
	case 17:
		return "udp"
	}
	return "p" + strconv.Itoa(int(p&0xffff))
}

func vfpmProject(pm *Portmapper) []vfpmEnt {
	out := []vfpmEnt{}
	for _, m := range pm.GetMappings() {
		out = append(out, vfpmEnt{int(m.Program), int(m.Version), vfpmProt(m.Protocol), int(m.Port)})
	}
	sort.Slice(out, func(i, j int) bool {
		a, b := out[i], out[j]
		if a.G != b.G {
			return a.G < b.G
		}
		if a.V != b.V {
			return a.V < b.V
		}
		if a.T != b.T {
			return a.T < b.T
		}
		return a.P < b.P
	})
	return out
}

// ---------------------------------------------------------------- requests

type vfpmReq struct {
	PV    int    // protocol version on the wire
	Proc  string // NULL SET UNSET GETPORT GETADDR DUMP CALLIT BADPROC BADVERS BADPROG API_REG API_UNREG
	C     string // caller class
	G, V  int
	T     string // protocol (v2 argument / API)
	Netid string // rpcbind argument
	UA    string // v4 | v6 | none: format of the universal address sent
	Port  int
}

func vfpmXdrString(b []byte, s string) []byte {
	b = binary.BigEndian.AppendUint32(b, uint32(len(s)))
	b = append(b, s...)
	for len(b)%4 != 0 {
		b = append(b, 0)
	}
	return b
}

func vfpmUaddr(kind string, port int) string {
	switch kind {
	case "v6":
		return fmt.Sprintf("::1.%d.%d", port/256, port%256)
	case "v4":
		return fmt.Sprintf("127.0.0.1.%d.%d", port/256, port%256)
	}
	return ""
}

func vfpmProtNum(t string) uint32 {
	if t == "udp" {
		return 17
	}
	return 6
}

// vfpmCall builds the RPC call message for a request.
func vfpmCall(xid uint32, q vfpmReq) []byte {
	prog, vers, proc := uint32(100000), uint32(q.PV), uint32(0)
	switch q.Proc {
	case "SET":
		proc = 1
	case "UNSET":
		proc = 2
	case "GETPORT", "GETADDR":
		proc = 3
	case "DUMP":
		proc = 4
	case "CALLIT":
		proc = 5
	case "BADPROC":
		proc = 77
	case "BADPROG":
		prog = 100099
	}
	b := make([]byte, 0, 128)
	for _, w := range []uint32{xid, 0, 2, prog, vers, proc, 0, 0, 0, 0} { // AUTH_NONE cred + verf
		b = binary.BigEndian.AppendUint32(b, w)
	}
	switch q.Proc {
	case "SET", "UNSET", "GETPORT", "GETADDR":
		if q.PV == 2 {
			for _, w := range []uint32{uint32(q.G), uint32(q.V), vfpmProtNum(q.T), uint32(q.Port)} {
				b = binary.BigEndian.AppendUint32(b, w)
			}
		} else {
			b = binary.BigEndian.AppendUint32(b, uint32(q.G))
			b = binary.BigEndian.AppendUint32(b, uint32(q.V))
			b = vfpmXdrString(b, q.Netid)
			b = vfpmXdrString(b, vfpmUaddr(q.UA, q.Port))
			b = vfpmXdrString(b, "vf")
		}
	case "CALLIT":
		for _, w := range []uint32{100003, 3, 0, 0} {
			b = binary.BigEndian.AppendUint32(b, w)
		}
	}
	return b
}

// ---------------------------------------------------------------- reply decoding

type vfpmRd struct {
	b   []byte
	pos int
	bad bool
}

func (r *vfpmRd) u32() uint32 {
	if r.pos+4 > len(r.b) {
		r.bad = true
		return 0
	}
	v := binary.BigEndian.Uint32(r.b[r.pos:])
	r.pos += 4
	return v
}

func (r *vfpmRd) str() string {
	n := int(r.u32())
	if r.bad || n > 1024 || r.pos+(n+3)/4*4 > len(r.b) {
		r.bad = true
		return ""
	}
	s := string(r.b[r.pos : r.pos+n])
	for _, p := range r.b[r.pos+n : r.pos+(n+3)/4*4] {
		if p != 0 {
			r.bad = true
		}
	}
	r.pos += (n + 3) / 4 * 4
	return s
}

// vfpmUport extracts the port of a universal address ("" -> 0; unparsable -> -1).
func vfpmUport(u string) int {
	if u == "" {
		return 0
	}
	parts := strings.Split(u, ".")
	if len(parts) < 3 {
		return -1
	}
	hi, e1 := strconv.Atoi(parts[len(parts)-2])
	lo, e2 := strconv.Atoi(parts[len(parts)-1])
	if e1 != nil || e2 != nil || hi < 0 || hi > 255 || lo < 0 || lo > 255 {
		return -1
	}
	return hi*256 + lo
}

func vfpmDecode(msg []byte, xid uint32, q vfpmReq) vfpmReply {
	out := vfpmNoReply()
	if msg == nil {
		return out
	}
	out.Got = true
	r := &vfpmRd{b: msg}
	x := r.u32()
	out.XidOK = !r.bad && x == xid
	mt := r.u32()
	rs := r.u32()
	if r.bad {
		return out
	}
	out.MType, out.RStat = int(mt&0xffff), int(rs&0xffff)
	if rs == 1 {
		rj := r.u32()
		switch {
		case r.bad:
		case rj == 0: // RPC_MISMATCH low high
			r.u32()
			r.u32()
			out.RejOK = !r.bad && r.pos == len(msg)
		case rj == 1: // AUTH_ERROR stat
			r.u32()
			out.RejOK = !r.bad && r.pos == len(msg)
		}
		return out
	}
	if rs != 0 {
		return out
	}
	r.u32() // verifier flavor
	vl := int(r.u32())
	if r.bad || vl > 400 || r.pos+(vl+3)/4*4 > len(msg) {
		return out
	}
	r.pos += (vl + 3) / 4 * 4
	as := r.u32()
	if r.bad {
		return out
	}
	out.VerfOK = true
	out.AStat = int(as & 0xffff)
	out.BodyLen = len(msg) - r.pos
	if as != 0 {
		return out
	}
	switch q.Proc {
	case "NULL":
		out.ShapeOK = true
	case "SET", "UNSET":
		v := r.u32()
		if !r.bad && v <= 1 {
			out.ShapeOK, out.B = true, int(v)
		}
	case "GETPORT", "GETADDR":
		if q.PV == 2 {
			v := r.u32()
			if !r.bad {
				out.ShapeOK, out.Port = true, int(v&0xfffff)
				if v > 0xfffff {
					out.Port = 0xfffff
				}
			}
		} else {
			u := r.str()
			if !r.bad {
				out.ShapeOK, out.UAddr, out.UPort = true, u, vfpmUport(u)
			}
		}
	case "DUMP":
		for {
			more := r.u32()
			if r.bad || more > 1 {
				r.bad = true
				break
			}
			if more == 0 {
				break
			}
			if q.PV == 2 {
				g, v, t, p := r.u32(), r.u32(), r.u32(), r.u32()
				out.Ents = append(out.Ents, vfpmEnt{int(g), int(v), vfpmProt(t), int(p & 0xfffff)})
			} else {
				g, v := r.u32(), r.u32()
				nid, ua := r.str(), r.str()
				r.str() // owner
				t := "tcp"
				if nid == "udp" || nid == "udp6" {
					t = "udp"
				} else if nid != "tcp" && nid != "tcp6" {
					t = "n:" + nid
				}
				out.Ents = append(out.Ents, vfpmEnt{int(g), int(v), t, vfpmUport(ua)})
			}
			if r.bad || len(out.Ents) > 4096 {
				r.bad = true
				break
			}
		}
		out.ShapeOK = !r.bad
	default: // a SUCCESS reply to CALLIT / unknown procedure, version, program: shape unknown
		out.ShapeOK = false
	}
	out.Trail = len(msg) - r.pos
	return out
}

// ---------------------------------------------------------------- callers

type vfpmOpaqueAddr string

func (a vfpmOpaqueAddr) Network() string { return "pipe" }
func (a vfpmOpaqueAddr) String() string  { return string(a) }

// vfpmFakeAddr returns a transport address of the given class for handleCall.
func vfpmFakeAddr(class string, r *rand.Rand) net.Addr {
	port := 600 + r.Intn(400)
	switch class {
	case "lo4":
		return &net.TCPAddr{IP: net.IPv4(127, 0, 0, byte(1+r.Intn(3))), Port: port}
	case "lo6":
		return &net.TCPAddr{IP: net.ParseIP("::1"), Port: port}
	case "remote4":
		return &net.TCPAddr{IP: net.IPv4(192, 0, 2, byte(7+r.Intn(9))), Port: port}
	case "remote6":
		return &net.TCPAddr{IP: net.ParseIP("2001:db8::7"), Port: port}
	case "zoned":
		return &net.TCPAddr{IP: net.ParseIP("fe80::1"), Zone: []string{"eth0", "en0", "7"}[r.Intn(3)], Port: port}
	}
	return vfpmOpaqueAddr([]string{"pipe", "@vf", "vsock:3"}[r.Intn(3)])
}

// vfpmLocalAddrs finds, per caller class, a local address from which the machine can connect to
// itself so that the server sees a peer of that class.
func vfpmLocalAddrs() map[string]*net.TCPAddr {
	out := map[string]*net.TCPAddr{"lo4": {IP: net.IPv4(127, 0, 0, 1)}}
	ifs, _ := net.Interfaces()
	for _, ifc := range ifs {
		addrs, _ := ifc.Addrs()
		for _, a := range addrs {
			ipn, ok := a.(*net.IPNet)
			if !ok {
				continue
			}
			ip := ipn.IP
			switch {
			case ip.IsLoopback() && ip.To4() == nil:
				out["lo6"] = &net.TCPAddr{IP: ip}
			case ip.IsLoopback():
			case ip.To4() != nil && ip.IsGlobalUnicast() && out["remote4"] == nil:
				out["remote4"] = &net.TCPAddr{IP: ip}
			case ip.To4() == nil && ip.IsLinkLocalUnicast() && out["zoned"] == nil:
				out["zoned"] = &net.TCPAddr{IP: ip, Zone: ifc.Name}
			case ip.To4() == nil && ip.IsGlobalUnicast() && out["remote6"] == nil:
				out["remote6"] = &net.TCPAddr{IP: ip}
			}
		}
	}
	return out
}

// vfpmTCP performs one record-marked call over a fresh TCP connection from the class's address.
func vfpmTCP(local *net.TCPAddr, port int, msg []byte) ([]byte, net.Addr, error) {
	d := net.Dialer{LocalAddr: &net.TCPAddr{IP: local.IP, Zone: local.Zone}, Timeout: 10 * time.Second}
	raddr := &net.TCPAddr{IP: local.IP, Zone: local.Zone, Port: port}
	conn, err := d.Dial("tcp", raddr.String())
	if err != nil {
		return nil, nil, err
	}
	defer conn.Close()
	conn.SetDeadline(time.Now().Add(20 * time.Second))
	out := binary.BigEndian.AppendUint32(nil, 0x80000000|uint32(len(msg)))
	if _, err := conn.Write(append(out, msg...)); err != nil {
		return nil, conn.LocalAddr(), err
	}
	var rec []byte
	for {
		var h [4]byte
		if _, err := io.ReadFull(conn, h[:]); err != nil {
			return nil, conn.LocalAddr(), err
		}
		v := binary.BigEndian.Uint32(h[:])
		n := int(v & 0x7fffffff)
		if n > 1<<20 {
			return nil, conn.LocalAddr(), fmt.Errorf("fragment header %#x", v)
		}
		frag := make([]byte, n)
		if _, err := io.ReadFull(conn, frag); err != nil {
			return nil, conn.LocalAddr(), err
		}
		rec = append(rec, frag...)
		if v&0x80000000 != 0 {
			return rec, conn.LocalAddr(), nil
		}
	}
}

// ---------------------------------------------------------------- generation

var vfpmProgs = []int{100003, 100005}
var vfpmVers = []int{1, 3}
var vfpmPorts = []int{0, 1, 2049}

func vfpmRandReq(r *rand.Rand, classes []string) vfpmReq {
	q := vfpmReq{PV: 2 + r.Intn(3), C: classes[r.Intn(len(classes))], G: vfpmProgs[r.Intn(2)], V: vfpmVers[r.Intn(2)],
		T: []string{"tcp", "udp"}[r.Intn(2)], Netid: "tcp", UA: "none", Port: vfpmPorts[r.Intn(3)]}
	x := r.Intn(100)
	switch {
	case x < 30:
		q.Proc = "SET"
	case x < 48:
		q.Proc = "UNSET"
	case x < 66:
		q.Proc = "GETPORT"
	case x < 80:
		q.Proc = "DUMP"
	case x < 84:
		q.Proc = "NULL"
	case x < 87:
		q.Proc = "CALLIT"
	case x < 90:
		q.Proc = "BADPROC"
	case x < 93:
		q.Proc = "BADVERS"
		q.PV = []int{1, 5, 0}[r.Intn(3)]
	case x < 95:
		q.Proc = "BADPROG"
	case x < 98:
		q.Proc = "API_REG"
	default:
		q.Proc = "API_UNREG"
	}
	if q.PV != 2 && (q.Proc == "SET" || q.Proc == "UNSET" || q.Proc == "GETPORT") {
		if q.Proc == "GETPORT" {
			q.Proc = "GETADDR"
		}
		q.Netid = []string{"tcp", "udp", "tcp", "udp", "tcp6", "udp6"}[r.Intn(6)]
		q.T = "tcp"
		if strings.HasPrefix(q.Netid, "udp") {
			q.T = "udp"
		}
		if q.Proc == "SET" {
			q.UA = "v4"
			if strings.HasSuffix(q.Netid, "6") {
				q.UA = "v6"
			}
		}
	}
	if q.Proc == "CALLIT" && q.PV != 2 {
		q.PV = 2 // procedure 5 of portmap v2 (v3/v4 number 5 is CALLIT as well; kept to v2)
	}
	if q.Proc == "API_REG" || q.Proc == "API_UNREG" {
		q.PV, q.C = 2, "lo4"
	}
	return q
}

type vfpmDriver struct {
	t     *testing.T
	tr    *vfTrace
	pm    *Portmapper
	via   string
	port  int
	local map[string]*net.TCPAddr
	r     *rand.Rand
	xid   uint32
	calls int
}

func (d *vfpmDriver) step(q vfpmReq) (vfpmReply, bool) {
	rep := vfpmNoReply()
	peer := ""
	switch q.Proc {
	case "API_REG":
		d.pm.RegisterService(uint32(q.G), uint32(q.V), vfpmProtNum(q.T), uint32(q.Port))
	case "API_UNREG":
		d.pm.UnregisterService(uint32(q.G), uint32(q.V), vfpmProtNum(q.T))
	default:
		d.xid += 1 + uint32(d.r.Intn(1000))
		msg := vfpmCall(d.xid, q)
		if d.via == "tcp" {
			la := d.local[q.C]
			if la == nil {
				return rep, false
			}
			rec, lp, err := vfpmTCP(la, d.port, msg)
			if lp != nil {
				peer = lp.String()
			}
			if err != nil && lp == nil {
				return rep, false // this machine cannot connect from that address: the step is not driven
			}
			rep = vfpmDecode(rec, d.xid, q)
		} else {
			addr := vfpmFakeAddr(q.C, d.r)
			peer = addr.String()
			out, err := d.pm.handleCall(msg, addr)
			if err == nil {
				rep = vfpmDecode(out, d.xid, q)
			}
		}
	}
	d.calls++
	d.tr.Emit(M{"ev": "req", "via": d.via, "pv": q.PV, "proc": q.Proc, "c": q.C, "g": q.G, "v": q.V, "t": q.T,
		"netid": q.Netid, "ua": q.UA, "port": q.Port, "peer": peer, "r": rep, "reg": vfpmProject(d.pm)})
	return rep, true
}

func TestVF_Portmap(t *testing.T) {
	seed := vfSeed()
	nh := vfEnvInt("VF_HIST", 120)
	steps := vfEnvInt("VF_STEPS", 14)
	ntcp := vfEnvInt("VF_TCP_HIST", 6)
	tr := vfNewTrace(t, "portmap.ndjson")
	defer tr.Close()
	all := []string{"lo4", "lo6", "remote4", "remote6", "zoned", "garbage"}
	nontrivial, hist := 0, 0
	var samples []M
	newPM := func() *Portmapper {
		pm := NewPortmapper()
		pm.logger.SetOutput(io.Discard)
		pm.SetListenAddr("127.0.0.1")
		return pm
	}
	// ---- directed reproducers of the listed findings and the basic map laws (handleCall level)
	directed := [][]vfpmReq{
		{ // F19: rpcbind v3/v4 SET/UNSET from a non-loopback caller
			{PV: 2, Proc: "SET", C: "lo4", G: 100003, V: 3, T: "tcp", Netid: "tcp", UA: "none", Port: 2049},
			{PV: 4, Proc: "SET", C: "remote4", G: 100003, V: 3, T: "tcp", Netid: "tcp", UA: "v4", Port: 1},
			{PV: 2, Proc: "GETPORT", C: "lo4", G: 100003, V: 3, T: "tcp", Netid: "tcp", UA: "none", Port: 0},
			{PV: 3, Proc: "UNSET", C: "remote6", G: 100003, V: 3, T: "tcp", Netid: "tcp", UA: "none", Port: 0},
			{PV: 4, Proc: "GETADDR", C: "lo6", G: 100003, V: 3, T: "tcp", Netid: "tcp", UA: "none", Port: 0},
		},
		{ // F19b: portmap v2 SET/UNSET from a zoned link-local address; plain remote is refused
			{PV: 2, Proc: "SET", C: "remote4", G: 100005, V: 3, T: "udp", Netid: "tcp", UA: "none", Port: 2049},
			{PV: 2, Proc: "SET", C: "zoned", G: 100005, V: 3, T: "udp", Netid: "tcp", UA: "none", Port: 2049},
			{PV: 2, Proc: "DUMP", C: "remote4", G: 100005, V: 3, T: "udp", Netid: "tcp", UA: "none", Port: 0},
			{PV: 2, Proc: "SET", C: "lo4", G: 100005, V: 1, T: "tcp", Netid: "tcp", UA: "none", Port: 1},
			{PV: 2, Proc: "UNSET", C: "zoned", G: 100005, V: 1, T: "tcp", Netid: "tcp", UA: "none", Port: 0},
		},
		{ // F19c: PROG_MISMATCH without the version range; other error replies
			{PV: 5, Proc: "BADVERS", C: "lo4", G: 100003, V: 3, T: "tcp", Netid: "tcp", UA: "none", Port: 0},
			{PV: 1, Proc: "BADVERS", C: "remote4", G: 100003, V: 3, T: "tcp", Netid: "tcp", UA: "none", Port: 0},
			{PV: 2, Proc: "BADPROG", C: "lo4", G: 100003, V: 3, T: "tcp", Netid: "tcp", UA: "none", Port: 0},
			{PV: 3, Proc: "BADPROC", C: "lo4", G: 100003, V: 3, T: "tcp", Netid: "tcp", UA: "none", Port: 0},
		},
		{ // F23: rpcbind SET with an IPv6 universal address; the IPv4 form for comparison
			{PV: 4, Proc: "SET", C: "lo6", G: 100003, V: 3, T: "tcp", Netid: "tcp6", UA: "v6", Port: 2049},
			{PV: 4, Proc: "GETADDR", C: "lo6", G: 100003, V: 3, T: "tcp", Netid: "tcp6", UA: "none", Port: 0},
			{PV: 4, Proc: "SET", C: "lo4", G: 100003, V: 3, T: "tcp", Netid: "tcp", UA: "v4", Port: 2049},
			{PV: 4, Proc: "GETADDR", C: "lo6", G: 100003, V: 3, T: "tcp", Netid: "tcp6", UA: "none", Port: 0},
			{PV: 3, Proc: "DUMP", C: "lo4", G: 100003, V: 3, T: "tcp", Netid: "tcp", UA: "none", Port: 0},
			{PV: 3, Proc: "UNSET", C: "lo4", G: 100003, V: 3, T: "tcp", Netid: "tcp6", UA: "none", Port: 0},
			{PV: 2, Proc: "DUMP", C: "lo4", G: 100003, V: 3, T: "tcp", Netid: "tcp", UA: "none", Port: 0},
		},
	}
	for _, dh := range directed {
		pm := newPM()
		d := &vfpmDriver{t: t, tr: tr, pm: pm, via: "call", r: vfRand(seed, "pmd"), xid: 0x1000}
		tr.Emit(M{"ev": "reset", "hist": hist, "via": "call", "reg": vfpmProject(pm)})
		var ops []M
		for _, q := range dh {
			rep, _ := d.step(q)
			ops = append(ops, M{"pv": q.PV, "proc": q.Proc, "c": q.C, "port": q.Port, "b": rep.B, "astat": rep.AStat})
		}
		if len(samples) < 2 {
			samples = append(samples, M{"via": "call", "ops": ops})
		}
		hist++
	}
	// ---- seeded histories through handleCall
	for h := 0; h < nh; h++ {
		r := vfRand(seed, "pm"+strconv.Itoa(h))
		pm := newPM()
		d := &vfpmDriver{t: t, tr: tr, pm: pm, via: "call", r: r, xid: uint32(r.Intn(1 << 30))}
		tr.Emit(M{"ev": "reset", "hist": hist, "via": "call", "reg": vfpmProject(pm)})
		changedByLo, refused, queried := false, false, false
		for s := 0; s < steps; s++ {
			before := len(pm.GetMappings())
			q := vfpmRandReq(r, all)
			rep, _ := d.step(q)
			if (q.Proc == "SET" || q.Proc == "UNSET") && (q.C == "lo4" || q.C == "lo6") && len(pm.GetMappings()) != before {
				changedByLo = true
			}
			if (q.Proc == "SET" || q.Proc == "UNSET") && rep.B == 0 {
				refused = true
			}
			if q.Proc == "DUMP" && len(rep.Ents) > 0 {
				queried = true
			}
		}
		if changedByLo && refused && queried {
			nontrivial++
		}
		hist++
	}
	// ---- over real TCP
	local := vfpmLocalAddrs()
	tcpClasses := []string{}
	for _, c := range all {
		if local[c] != nil {
			tcpClasses = append(tcpClasses, c)
		}
	}
	tcpNote := ""
	tcpSteps := 0
	for h := 0; h < ntcp; h++ {
		r := vfRand(seed, "pmtcp"+strconv.Itoa(h))
		l, err := net.Listen("tcp", "127.0.0.1:0")
		if err != nil {
			tcpNote = "no free TCP port: " + err.Error()
			break
		}
		port := l.Addr().(*net.TCPAddr).Port
		l.Close()
		pm := newPM()
		if err := pm.StartOnPort(port); err != nil {
			tcpNote = "StartOnPort: " + err.Error()
			break
		}
		d := &vfpmDriver{t: t, tr: tr, pm: pm, via: "tcp", port: port, local: local, r: r, xid: uint32(r.Intn(1 << 30))}
		tr.Emit(M{"ev": "reset", "hist": hist, "via": "tcp", "reg": vfpmProject(pm)})
		var ops []M
		// every reachable class first tries a SET through every version, then the random walk
		var plan []vfpmReq
		for _, c := range tcpClasses {
			for pv := 2; pv <= 4; pv++ {
				q := vfpmReq{PV: pv, Proc: "SET", C: c, G: 100003, V: vfpmVers[(pv+h)%2], T: "tcp", Netid: "tcp", UA: "none", Port: 2049}
				if pv != 2 {
					q.UA = "v4"
				}
				plan = append(plan, q)
			}
		}
		for s := 0; s < steps; s++ {
			plan = append(plan, vfpmRandReq(r, tcpClasses))
		}
		for _, q := range plan {
			rep, ok := d.step(q)
			if ok {
				tcpSteps++
				if h == 0 && len(ops) < 12 {
					ops = append(ops, M{"pv": q.PV, "proc": q.Proc, "c": q.C, "port": q.Port, "b": rep.B, "astat": rep.AStat})
				}
			}
		}
		if h == 0 {
			samples = append(samples, M{"via": "tcp", "ops": ops})
		}
		pm.Stop()
		hist++
	}
	_ = os.Getenv
	vfWriteJSON(t, "portmap.summary.json", M{"histories": hist, "lines": tr.n, "nontrivial": nontrivial, "tcp_classes": tcpClasses,
		"tcp_steps": tcpSteps, "tcp_note": tcpNote, "samples": samples})
}

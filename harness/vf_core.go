package absnfs

// vf_core.go: driver for the core request path (specs/Core): sequential NFSv3 histories through
// the real handlers over the vfs backend, one ndjson line per request with arguments, decoded
// result, every attribute-carrying position of the reply, the backend calls made and the full
// backend tree after the step. Serves C01-C04, C07, C08, C11, C22, C23, C25 (each check selects
// its own generator profile through VF_PROFILE).

import (
	"bytes"
	"fmt"
	"math/rand"
	"os"
	"path"
	"sort"
	"strings"
	"testing"
	"time"
)

type vfcCfg struct {
	Neg     bool   `json:"neg"`
	Dir     bool   `json:"dir"`
	TTL     string `json:"ttl"` // "min" (1 ns) or "def" (package default)
	T       int    `json:"T"`   // TransferSize
	MaxFS   int    `json:"maxfs"`
	RO      bool   `json:"ro"`
	Squash  string `json:"squash"`
	Profile string `json:"profile"`
	Async   bool   `json:"async"`
}

type vfcClient struct {
	t       testing.TB
	env     *vfEnv
	fs      *vfsFS
	tr      *vfTrace
	cfg     vfcCfg
	hp      map[uint64][]string // handle value -> path it was issued for
	hs      []uint64
	fid     map[uint64]string
	n       int
	cred    vfCred
	verfN   int
	muts    int
	hits    int
	iss     [][]string // paths for which the current reply carried a handle
	pending M
	snap    int64 // bytes of file data logged per file (0: 200)
}

func (c *vfcClient) hold(h uint64, p []string) {
	c.iss = append(c.iss, append([]string{}, p...))
	if _, ok := c.hp[h]; !ok {
		c.hs = append(c.hs, h)
	}
	c.hp[h] = append([]string{}, p...)
}

func (c *vfcClient) fidTok(v uint64) string {
	if t, ok := c.fid[v]; ok {
		return t
	}
	t := fmt.Sprintf("f%d", len(c.fid))
	c.fid[v] = t
	return t
}

func vfcCap(v uint64) (int, bool) {
	if v >= 1<<30 {
		return -1, true
	}
	return int(v), false
}

// attrRec converts a decoded fattr3 / wcc_attr into a log record.
func (c *vfcClient) attrRec(role, when string, p []string, a interface{}) M {
	r := M{"role": role, "when": when, "p": p, "has": false, "type": "", "fid": "", "size": 0, "szbig": false, "perm": 0, "uid": 0, "gid": 0, "full": false}
	m, ok := a.(M)
	if !ok || m == nil {
		return r
	}
	r["has"] = true
	sz, big := vfcCap(vfU(m["size"]))
	r["size"], r["szbig"] = sz, big
	if _, isF := m["type"]; isF {
		r["full"] = true
		r["type"] = vfTypeNames[vfU(m["type"])]
		r["fid"] = c.fidTok(vfU(m["fileid"]))
		r["perm"] = int(vfU(m["mode"]))
		u, _ := vfcCap(vfU(m["uid"]))
		g, _ := vfcCap(vfU(m["gid"]))
		r["uid"], r["gid"] = u, g
	}
	return r
}

func (c *vfcClient) tree() []M {
	out := []M{}
	snap := c.snap
	if snap == 0 {
		snap = 200
	}
	for _, n := range c.fs.Snapshot(snap) {
		sz, big := vfcCap(uint64(n.Sz))
		tc := []string{}
		if n.T != "" {
			tc = strings.Split(strings.Trim(n.T, "/"), "/")
		}
		out = append(out, M{"p": n.P, "k": n.K, "d": n.D, "sz": sz, "szbig": big, "t": n.T, "tc": tc, "tabs": strings.HasPrefix(n.T, "/"),
			"perm": n.Perm, "uid": n.Uid, "gid": n.Gid})
	}
	return out
}

func vfcMutating(op string, flags int) bool {
	switch op {
	case "Mkdir", "Remove", "Rename", "Chmod", "Chown", "Lchown", "Chtimes", "Truncate", "FTruncate", "Symlink", "WriteAt", "RemoveAll":
		return true
	case "OpenFile":
		return flags&(os.O_WRONLY|os.O_RDWR|os.O_CREATE|os.O_TRUNC|os.O_APPEND) != 0
	}
	return false
}

// req performs one request and logs it. roles maps attribute-carrying fields of the result to
// the path they describe.
func (c *vfcClient) req(proc uint32, args []byte, meta M, roles map[string][]string) *vfNFSReply {
	c.flush()
	c.fs.TakeCalls()
	c.iss = [][]string{}
	rep := c.env.Do(proc, args, c.cred)
	calls := c.fs.TakeCalls()
	c.n++
	line := M{"ev": "req", "n": c.n, "proc": vfNFSProcNames[proc], "st": rep.StatusName(), "ok": rep.OK()}
	// defaults so that every line has every field with a fixed type
	for k, v := range map[string]interface{}{"h": []string{}, "name": "", "ncls": "none", "h2": []string{}, "name2": "", "ncls2": "none",
		"how": "", "verf": "", "hasmode": false, "mode": 0, "modehi": false, "hassize": false, "size": 0, "hasuid": false, "uid": 0, "hasgid": false, "gid": 0,
		"off": 0, "offc": "small", "cnt": 0, "cntbig": false, "stable": 0, "data": []int{}, "euid": 0, "egid": 0, "tgt": "", "tgtc": []string{}, "tgtok": true, "mask": 0, "hknown": true,
		"rocheck": false, "faulty": false, "nsfault": false, "mangle": "ok", "acc_mod": false, "acc_ext": false, "acc_del": false} {
		line[k] = v
	}
	for k, v := range meta {
		line[k] = v
	}
	cu, _ := vfcCap(uint64(c.cred.UID))
	cg, _ := vfcCap(uint64(c.cred.GID))
	line["cuid"], line["cgid"] = cu, cg
	line["cflavor"] = map[uint32]string{AUTH_NONE: "NONE", AUTH_SYS: "SYS"}[c.cred.Flavor]
	res := M{"kind": "", "newh": []string{}, "hasnewh": false, "names": []string{}, "types": []string{}, "target": "", "count": 0, "eof": false, "data": []int{},
		"committed": -1, "verf": "", "access": 0, "complete": true, "dlen": 0}
	attrs := []M{}
	if rep.Res != nil && rep.Res.Err == nil {
		v := rep.Res.Val
		var names []string
		for role := range roles {
			names = append(names, role)
		}
		sort.Strings(names)
		for _, role := range names {
			p := roles[role]
			x, present := v[role]
			if !present {
				continue
			}
			if strings.HasSuffix(role, "_wcc") {
				w, _ := x.(M)
				if w != nil {
					attrs = append(attrs, c.attrRec(role, "pre", p, w["before"]))
					attrs = append(attrs, c.attrRec(role, "post", p, w["after"]))
				}
			} else {
				attrs = append(attrs, c.attrRec(role, "post", p, x))
			}
		}
		if rep.OK() {
			if o, ok := v["obj"].(M); ok && o != nil {
				res["kind"] = vfTypeNames[vfU(o["type"])]
			}
			if d, ok := v["data"].([]byte); ok {
				ints := make([]int, 0, len(d))
				lim := int(c.snap)
				if lim == 0 {
					lim = 200
				}
				for i, b := range d {
					if i >= lim {
						break
					}
					ints = append(ints, int(b))
				}
				res["data"] = ints
				res["dlen"] = len(d)
			}
			if s, ok := v["data"].(string); ok {
				res["target"] = s
			}
			if _, ok := v["count"]; ok {
				res["count"] = int(vfU(v["count"]))
			}
			if e, ok := v["eof"].(bool); ok {
				res["eof"] = e
			}
			if _, ok := v["committed"]; ok {
				res["committed"] = int(vfU(v["committed"]))
			}
			if vb, ok := v["verf"].([]byte); ok {
				res["verf"] = fmt.Sprintf("%x", vb)
			}
			if _, ok := v["access"]; ok {
				res["access"] = int(vfU(v["access"]))
			}
			if ents, ok := v["entries"].([]interface{}); ok {
				ns, ts := []string{}, []string{}
				for _, e := range ents {
					em := e.(M)
					nm, _ := em["name"].(string)
					ns = append(ns, nm)
					ty := ""
					if a, ok := em["attr"].(M); ok && a != nil {
						ty = vfTypeNames[vfU(a["type"])]
						attrs = append(attrs, c.attrRec("entry", "post", append(append([]string{}, roles["dir"]...), nm), a))
					}
					ts = append(ts, ty)
					if fh, ok := vfFH(em["fh"]); ok {
						c.hold(fh, append(append([]string{}, roles["dir"]...), nm))
					}
					// the bare entry fileid is checked like an attribute position (C04 / C26)
					attrs = append(attrs, M{"role": "entryid", "when": "post", "p": append(append([]string{}, roles["dir"]...), nm), "has": true, "type": "",
						"fid": c.fidTok(vfU(em["fileid"])), "size": 0, "szbig": false, "perm": 0, "uid": 0, "gid": 0, "full": false})
				}
				res["names"], res["types"] = ns, ts
				if e, ok := v["eof"].(bool); ok {
					res["complete"] = e
				}
			}
		}
	}
	line["res"] = res
	line["attrs"] = attrs
	bc := []M{}
	mut := 0
	for _, cl := range calls {
		if vfcMutating(cl.Op, cl.Flags) {
			mut++
		}
		if len(bc) < 40 {
			bc = append(bc, M{"op": cl.Op, "path": cl.Path, "path2": cl.Path2, "mut": vfcMutating(cl.Op, cl.Flags), "a": vfcClamp(cl.A), "b": vfcClamp(cl.B), "err": cl.Err})
		}
	}
	if os.Getenv("VF_CALLS") != "1" {
		bc = []M{} // the call list is only logged for the profiles whose property talks about backend calls
	}
	line["calls"] = bc
	line["mut"] = mut
	line["tree"] = c.tree()
	c.pending = line
	return rep
}

// flush writes the pending line (after the caller has recorded the handles the reply carried).
func (c *vfcClient) flush() {
	if c.pending != nil {
		iss := c.iss
		if iss == nil {
			iss = [][]string{}
		}
		c.pending["issued"] = iss
		c.tr.Emit(c.pending)
		c.pending = nil
	}
}

func vfcClamp(v int64) int {
	if v >= 1<<30 || v <= -(1<<30) {
		return -1
	}
	return int(v)
}

func vfcNameClass(n string) string {
	switch {
	case n == "":
		return "empty"
	case n == ".":
		return "dot"
	case n == "..":
		return "dotdot"
	case strings.ContainsAny(n, "/\\"):
		return "sep"
	case strings.Contains(n, "\x00"):
		return "nul"
	case len(n) > 255:
		return "long"
	}
	return "ok"
}

func vfcJoin(p []string, n string) []string { return append(append([]string{}, p...), n) }

func vfcPathStr(p []string) string { return "/" + path.Join(p...) }

// ---- individual procedures -------------------------------------------------------------

func (c *vfcClient) lookup(h uint64, name string) *vfNFSReply {
	p := c.hp[h]
	ch := vfcJoin(p, name)
	rep := c.req(NFSPROC3_LOOKUP, vfArgsDirOp(h, name), M{"h": p, "name": name, "ncls": vfcNameClass(name)}, map[string][]string{"obj": ch, "dir": p})
	if rep.OK() {
		if fh, ok := vfFH(vfGet(rep.Res.Val, "object")); ok {
			c.hold(fh, ch)
		}
	}
	return rep
}

func (c *vfcClient) getattr(h uint64) *vfNFSReply {
	p := c.hp[h]
	return c.req(NFSPROC3_GETATTR, vfArgsFH(h), M{"h": p}, map[string][]string{"obj": p})
}

func (c *vfcClient) readlink(h uint64) *vfNFSReply {
	p := c.hp[h]
	return c.req(NFSPROC3_READLINK, vfArgsFH(h), M{"h": p}, map[string][]string{"obj": p})
}

func (c *vfcClient) access(h uint64, mask uint32) *vfNFSReply {
	p := c.hp[h]
	return c.req(NFSPROC3_ACCESS, vfArgsAccess(h, mask), M{"h": p, "mask": int(mask)}, map[string][]string{"obj": p})
}

func (c *vfcClient) sattrMeta(m M, s vfSattr) {
	if s.Mode != nil {
		// TLC integers are 32-bit: the low 16 bits and a flag for anything above
		m["hasmode"], m["mode"], m["modehi"] = true, int(*s.Mode&0xFFFF), *s.Mode>>16 != 0
	}
	if s.Size != nil {
		v, _ := vfcCap(*s.Size)
		m["hassize"], m["size"] = true, v
	}
	if s.UID != nil {
		v, _ := vfcCap(uint64(*s.UID))
		m["hasuid"], m["uid"] = true, v
	}
	if s.GID != nil {
		v, _ := vfcCap(uint64(*s.GID))
		m["hasgid"], m["gid"] = true, v
	}
}

func (c *vfcClient) newObj(rep *vfNFSReply, ch []string) {
	if rep.OK() {
		if fh, ok := vfFH(vfGet(rep.Res.Val, "object")); ok {
			c.hold(fh, ch)
		}
	}
}

func (c *vfcClient) create(h uint64, name string, how uint32, s vfSattr, verf string) *vfNFSReply {
	p := c.hp[h]
	ch := vfcJoin(p, name)
	var vb [8]byte
	copy(vb[:], verf)
	m := M{"h": p, "name": name, "ncls": vfcNameClass(name), "how": []string{"UNCHECKED", "GUARDED", "EXCLUSIVE"}[how], "verf": verf}
	if how != 2 {
		c.sattrMeta(m, s)
	}
	rep := c.req(NFSPROC3_CREATE, vfArgsCreate(h, name, how, s, vb), m, map[string][]string{"obj": ch, "dir_wcc": p})
	c.newObj(rep, ch)
	c.muts++
	return rep
}

func (c *vfcClient) mkdir(h uint64, name string, s vfSattr) *vfNFSReply {
	p := c.hp[h]
	ch := vfcJoin(p, name)
	m := M{"h": p, "name": name, "ncls": vfcNameClass(name)}
	c.sattrMeta(m, s)
	rep := c.req(NFSPROC3_MKDIR, vfArgsMkdir(h, name, s), m, map[string][]string{"obj": ch, "dir_wcc": p})
	c.newObj(rep, ch)
	c.muts++
	return rep
}

func vfcTargetOK(t string) bool {
	if t == "" || strings.HasPrefix(t, "/") {
		return false
	}
	for _, comp := range strings.Split(t, "/") {
		if comp == ".." {
			return false
		}
	}
	return true
}

func (c *vfcClient) symlink(h uint64, name, target string, s vfSattr) *vfNFSReply {
	p := c.hp[h]
	ch := vfcJoin(p, name)
	tc := []string{}
	if target != "" {
		tc = strings.Split(strings.Trim(target, "/"), "/")
	}
	m := M{"h": p, "name": name, "ncls": vfcNameClass(name), "tgt": target, "tgtc": tc, "tgtok": vfcTargetOK(target)}
	c.sattrMeta(m, s)
	rep := c.req(NFSPROC3_SYMLINK, vfArgsSymlink(h, name, s, target), m, map[string][]string{"obj": ch, "dir_wcc": p})
	c.newObj(rep, ch)
	c.muts++
	return rep
}

func (c *vfcClient) remove(h uint64, name string) *vfNFSReply {
	p := c.hp[h]
	c.muts++
	return c.req(NFSPROC3_REMOVE, vfArgsDirOp(h, name), M{"h": p, "name": name, "ncls": vfcNameClass(name)}, map[string][]string{"dir_wcc": p})
}

func (c *vfcClient) rmdir(h uint64, name string) *vfNFSReply {
	p := c.hp[h]
	c.muts++
	return c.req(NFSPROC3_RMDIR, vfArgsDirOp(h, name), M{"h": p, "name": name, "ncls": vfcNameClass(name)}, map[string][]string{"dir_wcc": p})
}

func (c *vfcClient) rename(h1 uint64, n1 string, h2 uint64, n2 string) *vfNFSReply {
	p1, p2 := c.hp[h1], c.hp[h2]
	c.muts++
	return c.req(NFSPROC3_RENAME, vfArgsRename(h1, n1, h2, n2), M{"h": p1, "name": n1, "ncls": vfcNameClass(n1), "h2": p2, "name2": n2, "ncls2": vfcNameClass(n2)},
		map[string][]string{"fromdir_wcc": p1, "todir_wcc": p2})
}

func (c *vfcClient) readdir(h uint64, plus bool) *vfNFSReply {
	p := c.hp[h]
	if plus {
		return c.req(NFSPROC3_READDIRPLUS, vfArgsReaddirplus(h, 0, [8]byte{}, 65536, 1<<20), M{"h": p}, map[string][]string{"dir": p})
	}
	return c.req(NFSPROC3_READDIR, vfArgsReaddir(h, 0, [8]byte{}, 1<<20), M{"h": p}, map[string][]string{"dir": p})
}

func (c *vfcClient) setattr(h uint64, s vfSattr) *vfNFSReply {
	p := c.hp[h]
	m := M{"h": p}
	c.sattrMeta(m, s)
	c.muts++
	return c.req(NFSPROC3_SETATTR, vfArgsSetattr(h, s, nil), m, map[string][]string{"obj_wcc": p})
}

// offset classes: "small" literal; "m63" = 2^63-1-d; "p63" = 2^63+d; "m64" = 2^64-1-d
func vfcOffset(cls string, d uint64) uint64 {
	switch cls {
	case "m63":
		return 1<<63 - 1 - d
	case "p63":
		return 1<<63 + d
	case "m64":
		return ^uint64(0) - d
	}
	return d
}

func (c *vfcClient) read(h uint64, cls string, d uint64, cnt uint32) *vfNFSReply {
	p := c.hp[h]
	cc, _ := vfcCap(uint64(cnt))
	return c.req(NFSPROC3_READ, vfArgsRead(h, vfcOffset(cls, d), cnt), M{"h": p, "off": int(d), "offc": cls, "cnt": cc, "cntbig": cnt >= 1<<30}, map[string][]string{"obj": p})
}

func (c *vfcClient) write(h uint64, cls string, d uint64, data []byte, stable uint32) *vfNFSReply {
	p := c.hp[h]
	ints := make([]int, len(data))
	for i, b := range data {
		ints[i] = int(b)
	}
	c.muts++
	return c.req(NFSPROC3_WRITE, vfArgsWrite(h, vfcOffset(cls, d), stable, data), M{"h": p, "off": int(d), "offc": cls, "cnt": len(data), "data": ints, "stable": int(stable)},
		map[string][]string{"obj_wcc": p})
}

func (c *vfcClient) commit(h uint64) *vfNFSReply {
	p := c.hp[h]
	return c.req(NFSPROC3_COMMIT, vfArgsCommit(h, 0, 0), M{"h": p}, map[string][]string{"file_wcc": p})
}

func (c *vfcClient) fsx(proc uint32, h uint64) *vfNFSReply {
	p := c.hp[h]
	return c.req(proc, vfArgsFH(h), M{"h": p}, map[string][]string{"obj": p})
}

// ---- histories -------------------------------------------------------------------------

func vfcNewClient(t testing.TB, tr *vfTrace, cfg vfcCfg, hist int, seed int64) *vfcClient {
	return vfcNewClientOn(t, tr, cfg, hist, seed, vfNewFS())
}

// vfcNewClientOn exports an existing backend.
func vfcNewClientOn(t testing.TB, tr *vfTrace, cfg vfcCfg, hist int, seed int64, fs *vfsFS) *vfcClient {
	opts := ExportOptions{CacheNegativeLookups: cfg.Neg, EnableDirCache: cfg.Dir, MaxWorkers: 2, ReadOnly: cfg.RO, Squash: cfg.Squash, Async: cfg.Async}
	if cfg.TTL == "min" {
		opts.AttrCacheTimeout = time.Nanosecond
		opts.NegativeCacheTimeout = time.Nanosecond
		opts.DirCacheTimeout = time.Nanosecond
	}
	if cfg.T > 0 {
		opts.TransferSize = cfg.T
	}
	if cfg.MaxFS > 0 {
		opts.MaxFileSize = int64(cfg.MaxFS)
	}
	env := vfNewEnv(t, fs, opts)
	c := &vfcClient{t: t, env: env, fs: fs, tr: tr, cfg: cfg, hp: map[uint64][]string{}, fid: map[uint64]string{}, cred: vfRoot}
	eff := env.n.GetExportOptions()
	tr.Emit(M{"ev": "reset", "hist": hist, "seed": seed, "cfg": cfg, "T": eff.TransferSize, "tree": c.tree()})
	root := env.Mount(t, vfRoot)
	c.hold(root, []string{})
	return c
}

// kindAt returns the kind of the backend object at p ("" when missing).
func (c *vfcClient) kindAt(p []string) string {
	for _, n := range c.fs.Snapshot(0) {
		if strings.Join(n.P, "/") == strings.Join(p, "/") {
			return n.K
		}
	}
	return ""
}

func (c *vfcClient) pick(r *rand.Rand) uint64 { return c.hs[r.Intn(len(c.hs))] }

// pickKind prefers a handle whose backend object currently has the given kind ("D","F","L").
func (c *vfcClient) pickKind(r *rand.Rand, kind string) uint64 {
	if r.Intn(8) == 0 {
		return c.pick(r)
	}
	kinds := map[string]string{}
	for _, n := range c.fs.Snapshot(0) {
		kinds[strings.Join(n.P, "/")] = n.K
	}
	var cand []uint64
	for _, h := range c.hs {
		if kinds[strings.Join(c.hp[h], "/")] == kind {
			cand = append(cand, h)
		}
	}
	if len(cand) == 0 {
		return c.pick(r)
	}
	return cand[r.Intn(len(cand))]
}

var vfcNames = []string{"a", "b", "c"}

func vfcName(r *rand.Rand) string {
	x := r.Intn(40)
	switch x {
	case 0:
		return ""
	case 1:
		return "."
	case 2:
		return ".."
	case 3:
		return "a/b"
	}
	return vfcNames[r.Intn(len(vfcNames))]
}

func vfcSattr(r *rand.Rand) vfSattr {
	s := vfSattr{}
	if r.Intn(2) == 0 {
		modes := []uint32{0644, 0600, 0755, 0700, 0, 0444, 0777, 04755, 0644, 0755, 0x80000644, 0x10755}
		s.Mode = u32p(modes[r.Intn(len(modes))])
	}
	return s
}

func vfcData(r *rand.Rand, n int) []byte {
	b := make([]byte, n)
	for i := range b {
		b[i] = byte(1 + r.Intn(250))
	}
	return b
}

// probe issues a few read-only requests around path p (and random ones).
func (c *vfcClient) probe(r *rand.Rand, k int) {
	for i := 0; i < k; i++ {
		h := c.pick(r)
		switch r.Intn(6) {
		case 0, 1:
			c.lookup(c.pickKind(r, "D"), vfcNames[r.Intn(len(vfcNames))])
		case 2:
			c.getattr(h)
		case 3:
			c.readdir(c.pickKind(r, "D"), r.Intn(2) == 0)
		case 4:
			c.readlink(c.pickKind(r, "L"))
		case 5:
			c.read(c.pickKind(r, "F"), "small", uint64(r.Intn(8)), uint32(r.Intn(24)))
		}
	}
}

// vfcNamespaceStep performs one random mutation (namespace profile).
func (c *vfcClient) namespaceStep(r *rand.Rand) {
	d := c.pickKind(r, "D")
	name := vfcName(r)
	switch x := r.Intn(100); {
	case x < 16:
		sa := vfcSattr(r)
		if c.kindAt(vfcJoin(c.hp[d], name)) == "F" && r.Intn(2) == 0 {
			// CREATE of an existing file with an explicit size (any mode)
			sa.Size = u64p(uint64([]int{0, 1, 5, 20}[r.Intn(4)]))
		}
		c.create(d, name, uint32(r.Intn(3)), sa, fmt.Sprintf("v%d", r.Intn(3)))
	case x < 28:
		c.mkdir(d, name, vfcSattr(r))
	case x < 38:
		tg := []string{"a", "b", "c", "a/b", "b/c", "zz", "/a", "../a", "a/../b", ""}[r.Intn(10)]
		c.symlink(d, name, tg, vfSattr{})
	case x < 50:
		c.remove(d, name)
	case x < 60:
		c.rmdir(d, name)
	case x < 78:
		c.rename(d, name, c.pickKind(r, "D"), vfcName(r))
	case x < 86:
		f := c.pickKind(r, "F")
		c.write(f, "small", uint64(r.Intn(12)), vfcData(r, 1+r.Intn(8)), uint32(r.Intn(3)))
	case x < 93:
		s := vfcSattr(r)
		if r.Intn(3) == 0 {
			s.Size = u64p(uint64(r.Intn(14)))
		}
		c.setattr(c.pick(r), s)
	default:
		// a burst of lookups fills the caches (positive and negative) before the next mutation
		for _, n := range vfcNames {
			c.lookup(d, n)
		}
	}
}

// dataStep performs one random data-path operation (file data profile).
func (c *vfcClient) dataStep(r *rand.Rand) {
	T := c.cfg.T
	if T <= 0 {
		T = 65536
	}
	if T > 64 {
		T = 64 // literal-byte histories stay small; large transfers are driven by the limits profile
	}
	f := c.pickKind(r, "F")
	cnts := []int{0, 1, T - 1, T, T + 1, 2 * T, 3}
	switch x := r.Intn(100); {
	case x < 6:
		sa := vfSattr{Mode: u32p(0644)}
		d, nm := c.pickKind(r, "D"), vfcNames[r.Intn(3)]
		if c.kindAt(vfcJoin(c.hp[d], nm)) == "F" && r.Intn(3) > 0 {
			sa.Size = u64p(uint64([]int{0, 1, 5, 20, 40, 70}[r.Intn(6)]))
		}
		c.create(d, nm, uint32(r.Intn(2)), sa, "")
	case x < 40:
		n := cnts[r.Intn(len(cnts))]
		if n < 0 {
			n = 0
		}
		offs := []uint64{0, 1, uint64(T), uint64(T) + 1, 5, 17, 33}
		c.write(f, "small", offs[r.Intn(len(offs))], vfcData(r, n), uint32(r.Intn(3)))
	case x < 46:
		cls := []string{"m63", "p63", "m64"}[r.Intn(3)]
		if rep := c.write(f, cls, uint64(r.Intn(12)), vfcData(r, 1+r.Intn(6)), 2); rep.OK() {
			// bring the (now huge) file back to a size whose contents stay observable
			c.setattr(f, vfSattr{Size: u64p(uint64(r.Intn(24)))})
		}
	case x < 80:
		n := cnts[r.Intn(len(cnts))]
		if n < 0 {
			n = 0
		}
		offs := []uint64{0, 1, 2, 5, 17, 33, 40, 64, 65, 200}
		c.read(f, "small", offs[r.Intn(len(offs))], uint32(n))
	case x < 84:
		c.read(f, "small", uint64(r.Intn(40)), ^uint32(0))
	case x < 90:
		cls := []string{"m63", "p63", "m64"}[r.Intn(3)]
		c.read(f, cls, uint64(r.Intn(12)), uint32(r.Intn(20)))
	case x < 97:
		c.setattr(f, vfSattr{Size: u64p(uint64([]int{0, 1, 5, 16, 17, 40, 70}[r.Intn(7)]))})
	default:
		c.getattr(f)
	}
}

func vfcConfigs(profile string) []vfcCfg {
	var out []vfcCfg
	switch profile {
	case "data":
		for _, T := range []int{4, 16, 64, 0} {
			for _, ttl := range []string{"min", "def"} {
				out = append(out, vfcCfg{TTL: ttl, T: T, Neg: ttl == "def", Dir: ttl == "def", Profile: profile})
			}
		}
	default:
		for _, neg := range []bool{false, true} {
			for _, dir := range []bool{false, true} {
				for _, ttl := range []string{"min", "def"} {
					out = append(out, vfcCfg{Neg: neg, Dir: dir, TTL: ttl, Profile: profile})
				}
			}
		}
	}
	return out
}

// TestVF_Core writes core.ndjson for the profile named by VF_PROFILE ("ns" or "data").
func TestVF_Core(t *testing.T) {
	seed := vfSeed()
	profile := os.Getenv("VF_PROFILE")
	if profile == "" {
		profile = "ns"
	}
	nh := vfEnvInt("VF_HIST", 64)
	steps := vfEnvInt("VF_STEPS", 30)
	tr := vfNewTrace(t, "core_"+profile+".ndjson")
	defer tr.Close()
	cfgs := vfcConfigs(profile)
	nontrivial := 0
	var samples []M
	for h := 0; h < nh; h++ {
		r := vfRand(seed, fmt.Sprintf("core-%s-%d", profile, h))
		cfg := cfgs[h%len(cfgs)]
		c := vfcNewClient(t, tr, cfg, h, seed)
		// seed a little structure so that histories start in the interesting region
		root := c.hs[0]
		if profile == "data" {
			c.create(root, "a", 0, vfSattr{Mode: u32p(0644)}, "")
			c.create(root, "b", 0, vfSattr{Mode: u32p(0644)}, "")
		} else if r.Intn(2) == 0 {
			c.mkdir(root, "a", vfSattr{Mode: u32p(0755)})
			c.lookup(root, "a")
		}
		startN := c.n
		for s := 0; s < steps; s++ {
			if profile == "data" {
				c.dataStep(r)
			} else {
				c.namespaceStep(r)
				c.probe(r, 2+r.Intn(3))
			}
		}
		okMut := 0
		if c.n-startN > 0 && c.muts >= 3 {
			okMut = 1
		}
		nontrivial += okMut
		if h < 1 {
			samples = append(samples, M{"cfg": cfg, "requests": c.n})
		}
		c.flush()
		c.env.Close()
	}
	if profile == "ns" {
		nd := vfcDirected(t, tr, nh, seed)
		nh += nd
		nontrivial += nd
	}
	if profile == "data" {
		nd := vfcDirectedData(t, tr, nh, seed)
		nh += nd
		nontrivial += nd
	}
	vfWriteJSON(t, "core_"+profile+".summary.json", M{"histories": nh, "steps": steps, "nontrivial": nontrivial, "lines": tr.n, "samples": samples, "profile": profile})
	_ = bytes.MinRead
}

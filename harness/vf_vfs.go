package absnfs

// vf_vfs.go: "vfs", the harness's own backend: a deliberately plain POSIX in-memory
// absfs.SymlinkFileSystem. It is the executable twin of the Backend semantics used by the
// TLA+ specs (specs/Backend). It records every call, can gate / yield before every call,
// keeps a volatile and a durable copy of file data (Sync / Crash), stores data sparsely so
// offsets near 2^63 do not allocate, and returns immutable FileInfo snapshots.
//
// Path resolution: only the final component of a path is followed through symlinks (Stat,
// OpenFile, Chmod, Chown, Chtimes, Truncate); a symlink in an intermediate component is
// ENOTDIR. absnfs only passes handle paths joined with one name, so intermediate components
// are directories unless the tree changed under a handle.

import (
	"errors"
	"io"
	"io/fs"
	"os"
	"path"
	"sort"
	"strings"
	"sync"
	"syscall"
	"time"

	"github.com/absfs/absfs"
)

const vfBlk = 4096

type vfKind int

const (
	vfFile vfKind = iota
	vfDir
	vfLink
)

type vfData struct {
	size   int64
	blocks map[int64][]byte // block index -> vfBlk bytes
}

func (d *vfData) clone() *vfData {
	n := &vfData{size: d.size, blocks: make(map[int64][]byte, len(d.blocks))}
	for k, v := range d.blocks {
		c := make([]byte, len(v))
		copy(c, v)
		n.blocks[k] = c
	}
	return n
}

func (d *vfData) readAt(p []byte, off int64) (int, error) {
	if off >= d.size {
		return 0, io.EOF
	}
	n := int64(len(p))
	if off+n > d.size || off+n < 0 {
		n = d.size - off
	}
	for i := int64(0); i < n; {
		bi, bo := (off+i)/vfBlk, (off+i)%vfBlk
		chunk := vfBlk - bo
		if chunk > n-i {
			chunk = n - i
		}
		if b, ok := d.blocks[bi]; ok {
			copy(p[i:i+chunk], b[bo:bo+chunk])
		} else {
			for j := i; j < i+chunk; j++ {
				p[j] = 0
			}
		}
		i += chunk
	}
	if n < int64(len(p)) {
		return int(n), io.EOF
	}
	return int(n), nil
}

func (d *vfData) writeAt(p []byte, off int64) (int, error) {
	n := int64(len(p))
	if off < 0 || off+n < 0 {
		return 0, &os.PathError{Op: "write", Path: "", Err: syscall.EFBIG}
	}
	for i := int64(0); i < n; {
		bi, bo := (off+i)/vfBlk, (off+i)%vfBlk
		chunk := vfBlk - bo
		if chunk > n-i {
			chunk = n - i
		}
		b, ok := d.blocks[bi]
		if !ok {
			b = make([]byte, vfBlk)
			d.blocks[bi] = b
		}
		copy(b[bo:bo+chunk], p[i:i+chunk])
		i += chunk
	}
	if n > 0 && off+n > d.size {
		d.size = off + n
	}
	return int(n), nil
}

func (d *vfData) truncate(size int64) {
	if size < d.size {
		for bi, b := range d.blocks {
			start := bi * vfBlk
			if start >= size {
				delete(d.blocks, bi)
			} else if start+vfBlk > size {
				for j := size - start; j < vfBlk; j++ {
					b[j] = 0
				}
			}
		}
	}
	d.size = size
}

// bytes returns the first n bytes (n small) for snapshots.
func (d *vfData) bytes(max int64) []byte {
	n := d.size
	if n > max {
		n = max
	}
	out := make([]byte, n)
	d.readAt(out, 0)
	return out
}

type vfInode struct {
	kind     vfKind
	perm     os.FileMode
	uid, gid int
	target   string
	vol      *vfData // volatile contents
	dur      *vfData // durable contents (as of the last Sync)
	mtime    time.Time
	children map[string]*vfInode
	ino      uint64
}

// vfCall is one recorded backend call.
type vfCall struct {
	Op    string `json:"op"`
	Path  string `json:"path"`
	Path2 string `json:"path2,omitempty"`
	Flags int    `json:"flags,omitempty"`
	A     int64  `json:"a,omitempty"` // uid / offset / size / perm
	B     int64  `json:"b,omitempty"` // gid / length
	Err   string `json:"err,omitempty"`
	Tag   int64  `json:"tag,omitempty"` // harness-defined tag active when the call was made
}

type vfsFS struct {
	mu      sync.Mutex
	root    *vfInode
	calls   []vfCall
	record  bool
	nextIno uint64
	clock   time.Time
	// Gate, when set, is called (without the lock) before every operation; it may block or
	// yield. It receives the operation name and primary path.
	Gate func(op, p string)
	// Tag is copied into every recorded call (set by drivers, e.g. a policy version).
	Tag func() int64
	// crashAt > 0: the crashAt-th mutating/data operation from now fails with EIO and the
	// filesystem reverts all file data to the durable copies (simulated crash).
	opCount int64
	crashAt int64
	crashed bool
	syncs   int64
	// faultAt > 0: the faultAt-th mutating/data operation from now fails once with faultErr and has
	// no effect (an injected backend fault, not a crash: nothing else is lost)
	faultAt  int64
	faultErr syscall.Errno
	faultHit bool
}

// SetFaultAt arms a one-shot failure of the k-th mutating/data operation from now (0 disarms).
func (f *vfsFS) SetFaultAt(k int64, e syscall.Errno) {
	f.mu.Lock()
	defer f.mu.Unlock()
	f.faultAt, f.faultErr, f.faultHit = k, e, false
}

// FaultHit reports whether the armed fault was delivered, and disarms it.
func (f *vfsFS) FaultHit() bool {
	f.mu.Lock()
	defer f.mu.Unlock()
	h := f.faultHit
	f.faultAt, f.faultHit = 0, false
	return h
}

func vfNewFS() *vfsFS {
	f := &vfsFS{record: true, clock: time.Unix(1_700_000_000, 0)}
	f.root = &vfInode{kind: vfDir, perm: 0755, children: map[string]*vfInode{}, ino: 1, mtime: f.clock}
	f.nextIno = 2
	return f
}

var _ absfs.SymlinkFileSystem = (*vfsFS)(nil)

func (f *vfsFS) gate(op, p string) {
	if g := f.Gate; g != nil {
		g(op, p)
	}
}

func (f *vfsFS) rec(c vfCall, err error) {
	if !f.record {
		return
	}
	if err != nil {
		c.Err = vfErrName(err)
	}
	if f.Tag != nil {
		c.Tag = f.Tag()
	}
	f.calls = append(f.calls, c)
}

func vfErrName(err error) string {
	var en syscall.Errno
	if errors.As(err, &en) {
		switch en {
		case syscall.ENOENT:
			return "ENOENT"
		case syscall.EEXIST:
			return "EEXIST"
		case syscall.ENOTDIR:
			return "ENOTDIR"
		case syscall.EISDIR:
			return "EISDIR"
		case syscall.ENOTEMPTY:
			return "ENOTEMPTY"
		case syscall.EINVAL:
			return "EINVAL"
		case syscall.ELOOP:
			return "ELOOP"
		case syscall.EFBIG:
			return "EFBIG"
		case syscall.EIO:
			return "EIO"
		}
		return en.Error()
	}
	return err.Error()
}

// TakeCalls returns and clears the call log.
func (f *vfsFS) TakeCalls() []vfCall {
	f.mu.Lock()
	defer f.mu.Unlock()
	c := f.calls
	f.calls = nil
	return c
}

func (f *vfsFS) tick() time.Time {
	f.clock = f.clock.Add(time.Second)
	return f.clock
}

func vfClean(p string) string {
	p = path.Clean("/" + p)
	return p
}

func vfSplit(p string) []string {
	p = vfClean(p)
	if p == "/" {
		return nil
	}
	return strings.Split(p[1:], "/")
}

func perr(op, p string, e syscall.Errno) error { return &os.PathError{Op: op, Path: p, Err: e} }

// walkParent resolves all but the last component (no symlink following).
func (f *vfsFS) walkParent(op, p string) (*vfInode, string, error) {
	comps := vfSplit(p)
	if len(comps) == 0 {
		return nil, "", nil // root itself
	}
	cur := f.root
	for _, c := range comps[:len(comps)-1] {
		n, ok := cur.children[c]
		if !ok {
			return nil, "", perr(op, p, syscall.ENOENT)
		}
		if n.kind != vfDir {
			return nil, "", perr(op, p, syscall.ENOTDIR)
		}
		cur = n
	}
	return cur, comps[len(comps)-1], nil
}

// lookup resolves p; follow=true follows a symlink in the final component (max 8 hops).
// Returns the inode and the resolved (clean) path.
func (f *vfsFS) lookup(op, p string, follow bool) (*vfInode, string, error) {
	p = vfClean(p)
	for hops := 0; ; hops++ {
		par, name, err := f.walkParent(op, p)
		if err != nil {
			return nil, p, err
		}
		if par == nil {
			return f.root, "/", nil
		}
		n, ok := par.children[name]
		if !ok {
			return nil, p, perr(op, p, syscall.ENOENT)
		}
		if n.kind != vfLink || !follow {
			return n, p, nil
		}
		if hops >= 8 {
			return nil, p, perr(op, p, syscall.ELOOP)
		}
		if strings.HasPrefix(n.target, "/") {
			p = vfClean(n.target)
		} else {
			p = vfClean(path.Dir(p) + "/" + n.target)
		}
	}
}

// step counts one operation for crash injection; returns EIO after the crash point.
func (f *vfsFS) step(op, p string) error {
	if f.crashed {
		return perr(op, p, syscall.EIO)
	}
	f.opCount++
	if f.faultAt > 0 {
		f.faultAt--
		if f.faultAt == 0 {
			f.faultHit = true
			return perr(op, p, f.faultErr)
		}
	}
	if f.crashAt > 0 && f.opCount >= f.crashAt {
		f.crashLocked()
		return perr(op, p, syscall.EIO)
	}
	return nil
}

func (f *vfsFS) crashLocked() {
	f.crashed = true
	var walk func(n *vfInode)
	walk = func(n *vfInode) {
		if n.kind == vfFile {
			n.vol = n.dur.clone()
		}
		for _, c := range n.children {
			walk(c)
		}
	}
	walk(f.root)
}

// Crash discards everything not synced (file data); the namespace is journaled (kept).
func (f *vfsFS) Crash() {
	f.mu.Lock()
	defer f.mu.Unlock()
	f.crashLocked()
}

// Recover makes the filesystem usable again after a crash.
func (f *vfsFS) Recover() {
	f.mu.Lock()
	defer f.mu.Unlock()
	f.crashed = false
	f.crashAt = 0
}

func (f *vfsFS) SetCrashAt(k int64) {
	f.mu.Lock()
	defer f.mu.Unlock()
	f.opCount = 0
	f.crashAt = k
}

func (f *vfsFS) OpCount() int64 {
	f.mu.Lock()
	defer f.mu.Unlock()
	return f.opCount
}

func (f *vfsFS) SyncCount() int64 {
	f.mu.Lock()
	defer f.mu.Unlock()
	return f.syncs
}

// ---------------------------------------------------------------- FileInfo

type vfInfo struct {
	name  string
	size  int64
	mode  os.FileMode
	mtime time.Time
	uid   int
	gid   int
	ino   uint64
}

func (i *vfInfo) Name() string       { return i.name }
func (i *vfInfo) Size() int64        { return i.size }
func (i *vfInfo) Mode() os.FileMode  { return i.mode }
func (i *vfInfo) ModTime() time.Time { return i.mtime }
func (i *vfInfo) IsDir() bool        { return i.mode.IsDir() }
func (i *vfInfo) Sys() interface{}   { return nil }

func (i *vfInfo) Type() fs.FileMode          { return i.mode.Type() }
func (i *vfInfo) Info() (fs.FileInfo, error) { return i, nil }

const vfDirSize = 4096

func vfInfoOf(name string, n *vfInode) *vfInfo {
	in := &vfInfo{name: name, mtime: n.mtime, uid: n.uid, gid: n.gid, ino: n.ino}
	switch n.kind {
	case vfDir:
		in.mode = os.ModeDir | n.perm
		in.size = vfDirSize
	case vfLink:
		in.mode = os.ModeSymlink | n.perm
		in.size = int64(len(n.target))
	default:
		in.mode = n.perm
		in.size = n.vol.size
	}
	return in
}

// ---------------------------------------------------------------- Filer

func (f *vfsFS) OpenFile(name string, flag int, perm os.FileMode) (absfs.File, error) {
	f.gate("OpenFile", name)
	f.mu.Lock()
	defer f.mu.Unlock()
	fl, err := f.openLocked(name, flag, perm)
	f.rec(vfCall{Op: "OpenFile", Path: name, Flags: flag, A: int64(perm)}, err)
	if err != nil {
		return nil, err
	}
	return fl, nil
}

func (f *vfsFS) openLocked(name string, flag int, perm os.FileMode) (*vfFileH, error) {
	if name == "" {
		return nil, perr("open", name, syscall.ENOENT)
	}
	wr := flag&(os.O_WRONLY|os.O_RDWR) != 0
	mutating := wr || flag&(os.O_CREATE|os.O_TRUNC) != 0
	if mutating {
		if err := f.step("open", name); err != nil {
			return nil, err
		}
	} else if f.crashed {
		return nil, perr("open", name, syscall.EIO)
	}
	n, rp, err := f.lookup("open", name, true)
	if err != nil {
		var pe *os.PathError
		if errors.As(err, &pe) && pe.Err == syscall.ENOENT && flag&os.O_CREATE != 0 {
			// create at the resolved path (rp is the final, possibly symlink-resolved, path)
			par, base, perr2 := f.walkParent("open", rp)
			if perr2 != nil {
				return nil, perr2
			}
			if par == nil {
				return nil, perr("open", name, syscall.EISDIR)
			}
			if _, exists := par.children[base]; exists {
				return nil, perr("open", name, syscall.EEXIST)
			}
			n = &vfInode{kind: vfFile, perm: perm.Perm(), vol: &vfData{blocks: map[int64][]byte{}}, dur: &vfData{blocks: map[int64][]byte{}}, mtime: f.tick(), ino: f.nextIno}
			f.nextIno++
			par.children[base] = n
			par.mtime = n.mtime
			return &vfFileH{fs: f, n: n, name: vfClean(rp), flag: flag}, nil
		}
		return nil, err
	}
	if flag&os.O_CREATE != 0 && flag&os.O_EXCL != 0 {
		return nil, perr("open", name, syscall.EEXIST)
	}
	if n.kind == vfDir && wr {
		return nil, perr("open", name, syscall.EISDIR)
	}
	if flag&os.O_TRUNC != 0 && n.kind == vfFile {
		n.vol.truncate(0)
		n.mtime = f.tick()
	}
	return &vfFileH{fs: f, n: n, name: vfClean(rp), flag: flag}, nil
}

func (f *vfsFS) Mkdir(name string, perm os.FileMode) error {
	f.gate("Mkdir", name)
	f.mu.Lock()
	defer f.mu.Unlock()
	err := f.mkdirLocked(name, perm)
	f.rec(vfCall{Op: "Mkdir", Path: name, A: int64(perm)}, err)
	return err
}

func (f *vfsFS) mkdirLocked(name string, perm os.FileMode) error {
	if err := f.step("mkdir", name); err != nil {
		return err
	}
	par, base, err := f.walkParent("mkdir", name)
	if err != nil {
		return err
	}
	if par == nil {
		return perr("mkdir", name, syscall.EEXIST)
	}
	if _, ok := par.children[base]; ok {
		return perr("mkdir", name, syscall.EEXIST)
	}
	par.children[base] = &vfInode{kind: vfDir, perm: perm.Perm(), children: map[string]*vfInode{}, mtime: f.tick(), ino: f.nextIno}
	f.nextIno++
	par.mtime = f.clock
	return nil
}

func (f *vfsFS) Remove(name string) error {
	f.gate("Remove", name)
	f.mu.Lock()
	defer f.mu.Unlock()
	err := f.removeLocked(name)
	f.rec(vfCall{Op: "Remove", Path: name}, err)
	return err
}

func (f *vfsFS) removeLocked(name string) error {
	if err := f.step("remove", name); err != nil {
		return err
	}
	par, base, err := f.walkParent("remove", name)
	if err != nil {
		return err
	}
	if par == nil {
		return perr("remove", name, syscall.EINVAL)
	}
	n, ok := par.children[base]
	if !ok {
		return perr("remove", name, syscall.ENOENT)
	}
	if n.kind == vfDir && len(n.children) > 0 {
		return perr("remove", name, syscall.ENOTEMPTY)
	}
	delete(par.children, base)
	par.mtime = f.tick()
	return nil
}

func (f *vfsFS) Rename(oldpath, newpath string) error {
	f.gate("Rename", oldpath)
	f.mu.Lock()
	defer f.mu.Unlock()
	err := f.renameLocked(oldpath, newpath)
	f.rec(vfCall{Op: "Rename", Path: oldpath, Path2: newpath}, err)
	return err
}

func (f *vfsFS) renameLocked(oldpath, newpath string) error {
	lerr := func(e syscall.Errno) error {
		return &os.LinkError{Op: "rename", Old: oldpath, New: newpath, Err: e}
	}
	if err := f.step("rename", oldpath); err != nil {
		return err
	}
	op, ob, err := f.walkParent("rename", oldpath)
	if err != nil {
		return lerr(err.(*os.PathError).Err.(syscall.Errno))
	}
	np, nb, err := f.walkParent("rename", newpath)
	if err != nil {
		return lerr(err.(*os.PathError).Err.(syscall.Errno))
	}
	if op == nil || np == nil {
		return lerr(syscall.EINVAL)
	}
	src, ok := op.children[ob]
	if !ok {
		return lerr(syscall.ENOENT)
	}
	co, cn := vfClean(oldpath), vfClean(newpath)
	if co == cn {
		return nil
	}
	if src.kind == vfDir && strings.HasPrefix(cn+"/", co+"/") {
		return lerr(syscall.EINVAL) // into its own subtree
	}
	if dst, exists := np.children[nb]; exists {
		if dst == src {
			return nil
		}
		switch {
		case src.kind == vfDir && dst.kind != vfDir:
			return lerr(syscall.ENOTDIR)
		case src.kind != vfDir && dst.kind == vfDir:
			return lerr(syscall.EISDIR)
		case src.kind == vfDir && len(dst.children) > 0:
			return lerr(syscall.ENOTEMPTY)
		}
	}
	delete(op.children, ob)
	np.children[nb] = src
	t := f.tick()
	op.mtime, np.mtime = t, t
	return nil
}

func (f *vfsFS) Stat(name string) (os.FileInfo, error) {
	f.gate("Stat", name)
	f.mu.Lock()
	defer f.mu.Unlock()
	n, rp, err := f.lookup("stat", name, true)
	if err == nil && f.crashed {
		err = perr("stat", name, syscall.EIO)
	}
	f.rec(vfCall{Op: "Stat", Path: name}, err)
	if err != nil {
		return nil, err
	}
	return vfInfoOf(path.Base(rp), n), nil
}

func (f *vfsFS) Lstat(name string) (os.FileInfo, error) {
	f.gate("Lstat", name)
	f.mu.Lock()
	defer f.mu.Unlock()
	n, rp, err := f.lookup("lstat", name, false)
	if err == nil && f.crashed {
		err = perr("lstat", name, syscall.EIO)
	}
	f.rec(vfCall{Op: "Lstat", Path: name}, err)
	if err != nil {
		return nil, err
	}
	return vfInfoOf(path.Base(rp), n), nil
}

func (f *vfsFS) Chmod(name string, mode os.FileMode) error {
	f.gate("Chmod", name)
	f.mu.Lock()
	defer f.mu.Unlock()
	err := f.step("chmod", name)
	if err == nil {
		var n *vfInode
		n, _, err = f.lookup("chmod", name, true)
		if err == nil {
			n.perm = mode.Perm()
		}
	}
	f.rec(vfCall{Op: "Chmod", Path: name, A: int64(mode)}, err)
	return err
}

func (f *vfsFS) Chtimes(name string, atime time.Time, mtime time.Time) error {
	f.gate("Chtimes", name)
	f.mu.Lock()
	defer f.mu.Unlock()
	err := f.step("chtimes", name)
	if err == nil {
		var n *vfInode
		n, _, err = f.lookup("chtimes", name, true)
		if err == nil {
			n.mtime = mtime
		}
	}
	f.rec(vfCall{Op: "Chtimes", Path: name}, err)
	return err
}

func (f *vfsFS) Chown(name string, uid, gid int) error {
	f.gate("Chown", name)
	f.mu.Lock()
	defer f.mu.Unlock()
	err := f.step("chown", name)
	if err == nil {
		var n *vfInode
		n, _, err = f.lookup("chown", name, true)
		if err == nil {
			n.uid, n.gid = uid, gid
		}
	}
	f.rec(vfCall{Op: "Chown", Path: name, A: int64(uid), B: int64(gid)}, err)
	return err
}

func (f *vfsFS) Lchown(name string, uid, gid int) error {
	f.gate("Lchown", name)
	f.mu.Lock()
	defer f.mu.Unlock()
	err := f.step("lchown", name)
	if err == nil {
		var n *vfInode
		n, _, err = f.lookup("lchown", name, false)
		if err == nil {
			n.uid, n.gid = uid, gid
		}
	}
	f.rec(vfCall{Op: "Lchown", Path: name, A: int64(uid), B: int64(gid)}, err)
	return err
}

func (f *vfsFS) ReadDir(name string) ([]fs.DirEntry, error) {
	f.gate("ReadDir", name)
	f.mu.Lock()
	defer f.mu.Unlock()
	n, _, err := f.lookup("readdir", name, true)
	if err == nil && n.kind != vfDir {
		err = perr("readdir", name, syscall.ENOTDIR)
	}
	f.rec(vfCall{Op: "ReadDir", Path: name}, err)
	if err != nil {
		return nil, err
	}
	var out []fs.DirEntry
	for _, i := range f.listLocked(n) {
		out = append(out, i)
	}
	return out, nil
}

func (f *vfsFS) listLocked(n *vfInode) []*vfInfo {
	names := make([]string, 0, len(n.children))
	for k := range n.children {
		names = append(names, k)
	}
	sort.Strings(names)
	out := make([]*vfInfo, 0, len(names))
	for _, k := range names {
		out = append(out, vfInfoOf(k, n.children[k]))
	}
	return out
}

func (f *vfsFS) ReadFile(name string) ([]byte, error) {
	fl, err := f.OpenFile(name, os.O_RDONLY, 0)
	if err != nil {
		return nil, err
	}
	defer fl.Close()
	return io.ReadAll(fl)
}

func (f *vfsFS) Sub(dir string) (fs.FS, error) { return nil, absfs.ErrNotImplemented }

// ---------------------------------------------------------------- FileSystem

func (f *vfsFS) Chdir(dir string) error               { return nil }
func (f *vfsFS) Getwd() (string, error)               { return "/", nil }
func (f *vfsFS) TempDir() string                      { return "/tmp" }
func (f *vfsFS) Open(name string) (absfs.File, error) { return f.OpenFile(name, os.O_RDONLY, 0) }
func (f *vfsFS) Create(name string) (absfs.File, error) {
	return f.OpenFile(name, os.O_RDWR|os.O_CREATE|os.O_TRUNC, 0666)
}
func (f *vfsFS) MkdirAll(name string, perm os.FileMode) error {
	comps := vfSplit(name)
	cur := ""
	for _, c := range comps {
		cur += "/" + c
		if err := f.Mkdir(cur, perm); err != nil && !errors.Is(err, syscall.EEXIST) {
			return err
		}
	}
	return nil
}
func (f *vfsFS) RemoveAll(p string) error {
	f.mu.Lock()
	defer f.mu.Unlock()
	par, base, err := f.walkParent("removeall", p)
	if err != nil || par == nil {
		return nil
	}
	delete(par.children, base)
	f.rec(vfCall{Op: "RemoveAll", Path: p}, nil)
	return nil
}

func (f *vfsFS) Truncate(name string, size int64) error {
	f.gate("Truncate", name)
	f.mu.Lock()
	defer f.mu.Unlock()
	err := f.step("truncate", name)
	if err == nil {
		var n *vfInode
		n, _, err = f.lookup("truncate", name, true)
		if err == nil {
			switch {
			case n.kind == vfDir:
				err = perr("truncate", name, syscall.EISDIR)
			case size < 0:
				err = perr("truncate", name, syscall.EINVAL)
			default:
				n.vol.truncate(size)
				n.mtime = f.tick()
			}
		}
	}
	f.rec(vfCall{Op: "Truncate", Path: name, A: size}, err)
	return err
}

// ---------------------------------------------------------------- SymLinker

func (f *vfsFS) Readlink(name string) (string, error) {
	f.gate("Readlink", name)
	f.mu.Lock()
	defer f.mu.Unlock()
	n, _, err := f.lookup("readlink", name, false)
	if err == nil && n.kind != vfLink {
		err = perr("readlink", name, syscall.EINVAL)
	}
	f.rec(vfCall{Op: "Readlink", Path: name}, err)
	if err != nil {
		return "", err
	}
	return n.target, nil
}

func (f *vfsFS) Symlink(oldname, newname string) error {
	f.gate("Symlink", newname)
	f.mu.Lock()
	defer f.mu.Unlock()
	err := f.step("symlink", newname)
	if err == nil {
		var par *vfInode
		var base string
		par, base, err = f.walkParent("symlink", newname)
		if err == nil {
			if par == nil {
				err = perr("symlink", newname, syscall.EEXIST)
			} else if _, ok := par.children[base]; ok {
				err = &os.LinkError{Op: "symlink", Old: oldname, New: newname, Err: syscall.EEXIST}
			} else {
				par.children[base] = &vfInode{kind: vfLink, perm: 0777, target: oldname, mtime: f.tick(), ino: f.nextIno}
				f.nextIno++
				par.mtime = f.clock
			}
		}
	}
	f.rec(vfCall{Op: "Symlink", Path: newname, Path2: oldname}, err)
	return err
}

// ---------------------------------------------------------------- open file handle

type vfFileH struct {
	fs     *vfsFS
	n      *vfInode
	name   string
	flag   int
	pos    int64
	closed bool
	dirPos int
}

var _ absfs.File = (*vfFileH)(nil)

func (h *vfFileH) Name() string { return h.name }

func (h *vfFileH) Read(b []byte) (int, error) {
	n, err := h.ReadAt(b, h.pos)
	h.pos += int64(n)
	return n, err
}

func (h *vfFileH) ReadAt(b []byte, off int64) (int, error) {
	h.fs.gate("ReadAt", h.name)
	h.fs.mu.Lock()
	defer h.fs.mu.Unlock()
	var n int
	var err error
	switch {
	case h.fs.crashed:
		err = perr("read", h.name, syscall.EIO)
	case h.n.kind == vfDir:
		err = perr("read", h.name, syscall.EISDIR)
	case off < 0:
		err = perr("read", h.name, syscall.EINVAL)
	default:
		n, err = h.n.vol.readAt(b, off)
	}
	var rerr error
	if err != io.EOF {
		rerr = err
	}
	h.fs.rec(vfCall{Op: "ReadAt", Path: h.name, A: off, B: int64(len(b))}, rerr)
	return n, err
}

func (h *vfFileH) Write(b []byte) (int, error) {
	n, err := h.WriteAt(b, h.pos)
	h.pos += int64(n)
	return n, err
}

func (h *vfFileH) WriteAt(b []byte, off int64) (int, error) {
	h.fs.gate("WriteAt", h.name)
	h.fs.mu.Lock()
	defer h.fs.mu.Unlock()
	var n int
	err := h.fs.step("write", h.name)
	if err == nil {
		switch {
		case h.flag&(os.O_WRONLY|os.O_RDWR) == 0:
			err = perr("write", h.name, syscall.EBADF)
		case h.n.kind != vfFile:
			err = perr("write", h.name, syscall.EISDIR)
		default:
			n, err = h.n.vol.writeAt(b, off)
			if err == nil {
				h.n.mtime = h.fs.tick()
			}
		}
	}
	h.fs.rec(vfCall{Op: "WriteAt", Path: h.name, A: off, B: int64(len(b))}, err)
	return n, err
}

func (h *vfFileH) WriteString(s string) (int, error) { return h.Write([]byte(s)) }

func (h *vfFileH) Seek(offset int64, whence int) (int64, error) {
	h.fs.mu.Lock()
	defer h.fs.mu.Unlock()
	switch whence {
	case io.SeekStart:
		h.pos = offset
	case io.SeekCurrent:
		h.pos += offset
	case io.SeekEnd:
		if h.n.kind == vfFile {
			h.pos = h.n.vol.size + offset
		}
	}
	return h.pos, nil
}

func (h *vfFileH) Close() error {
	h.fs.mu.Lock()
	defer h.fs.mu.Unlock()
	h.closed = true
	h.fs.rec(vfCall{Op: "Close", Path: h.name}, nil)
	return nil
}

func (h *vfFileH) Sync() error {
	h.fs.gate("Sync", h.name)
	h.fs.mu.Lock()
	defer h.fs.mu.Unlock()
	err := h.fs.step("sync", h.name)
	if err == nil && h.n.kind == vfFile {
		h.n.dur = h.n.vol.clone()
		h.fs.syncs++
	}
	h.fs.rec(vfCall{Op: "Sync", Path: h.name}, err)
	return err
}

func (h *vfFileH) Stat() (os.FileInfo, error) {
	h.fs.mu.Lock()
	defer h.fs.mu.Unlock()
	var err error
	if h.fs.crashed {
		err = perr("stat", h.name, syscall.EIO)
	}
	h.fs.rec(vfCall{Op: "FStat", Path: h.name}, err)
	if err != nil {
		return nil, err
	}
	return vfInfoOf(path.Base(h.name), h.n), nil
}

func (h *vfFileH) Readdir(n int) ([]os.FileInfo, error) {
	h.fs.gate("Readdir", h.name)
	h.fs.mu.Lock()
	defer h.fs.mu.Unlock()
	var err error
	if h.fs.crashed {
		err = perr("readdir", h.name, syscall.EIO)
	} else if h.n.kind != vfDir {
		err = perr("readdir", h.name, syscall.ENOTDIR)
	}
	h.fs.rec(vfCall{Op: "Readdir", Path: h.name}, err)
	if err != nil {
		return nil, err
	}
	all := h.fs.listLocked(h.n)
	if h.dirPos > len(all) {
		h.dirPos = len(all)
	}
	rest := all[h.dirPos:]
	if n > 0 && len(rest) > n {
		rest = rest[:n]
	}
	h.dirPos += len(rest)
	out := make([]os.FileInfo, len(rest))
	for i, r := range rest {
		out[i] = r
	}
	if n > 0 && len(out) == 0 {
		return out, io.EOF
	}
	return out, nil
}

func (h *vfFileH) Readdirnames(n int) ([]string, error) {
	infos, err := h.Readdir(n)
	names := make([]string, len(infos))
	for i, in := range infos {
		names[i] = in.Name()
	}
	return names, err
}

func (h *vfFileH) ReadDir(n int) ([]fs.DirEntry, error) {
	infos, err := h.Readdir(n)
	out := make([]fs.DirEntry, len(infos))
	for i, in := range infos {
		out[i] = in.(*vfInfo)
	}
	return out, err
}

func (h *vfFileH) Truncate(size int64) error {
	h.fs.mu.Lock()
	defer h.fs.mu.Unlock()
	err := h.fs.step("ftruncate", h.name)
	if err == nil {
		if h.n.kind != vfFile {
			err = perr("truncate", h.name, syscall.EINVAL)
		} else {
			h.n.vol.truncate(size)
			h.n.mtime = h.fs.tick()
		}
	}
	h.fs.rec(vfCall{Op: "FTruncate", Path: h.name, A: size}, err)
	return err
}

// ---------------------------------------------------------------- snapshots

// vfNode is one entry of a tree snapshot (the projected abstract backend state).
type vfNode struct {
	P    []string `json:"p"`    // path components (root = [])
	K    string   `json:"k"`    // "D", "F", "L"
	D    []int    `json:"d"`    // file bytes (volatile), capped
	Sz   int64    `json:"sz"`   // file size (only meaningful for F; capped values logged by callers)
	T    string   `json:"t"`    // link target
	Perm int      `json:"perm"` // permission bits
	Uid  int      `json:"uid"`
	Gid  int      `json:"gid"`
}

// Snapshot returns the whole tree in path order, without recording or gating.
func (f *vfsFS) Snapshot(maxBytes int64) []vfNode {
	f.mu.Lock()
	defer f.mu.Unlock()
	var out []vfNode
	var walk func(p []string, n *vfInode)
	walk = func(p []string, n *vfInode) {
		e := vfNode{P: append([]string{}, p...), Perm: int(n.perm), Uid: n.uid, Gid: n.gid, D: []int{}}
		switch n.kind {
		case vfDir:
			e.K = "D"
		case vfLink:
			e.K = "L"
			e.T = n.target
		default:
			e.K = "F"
			e.Sz = n.vol.size
			for _, b := range n.vol.bytes(maxBytes) {
				e.D = append(e.D, int(b))
			}
		}
		out = append(out, e)
		names := make([]string, 0, len(n.children))
		for k := range n.children {
			names = append(names, k)
		}
		sort.Strings(names)
		for _, k := range names {
			walk(append(p, k), n.children[k])
		}
	}
	walk(nil, f.root)
	return out
}

// vfPeek returns (volatile bytes, durable bytes, size, durable size) of a file without recording.
func (f *vfsFS) vfPeek(p string, max int64) (vol, dur []byte, size, dsize int64, ok bool) {
	f.mu.Lock()
	defer f.mu.Unlock()
	n, _, err := f.lookup("peek", p, false)
	if err != nil || n.kind != vfFile {
		return nil, nil, 0, 0, false
	}
	return n.vol.bytes(max), n.dur.bytes(max), n.vol.size, n.dur.size, true
}

// vfPoke creates objects directly in the backend (not recorded): kind "F","D","L".
func (f *vfsFS) vfPoke(p, kind string, data []byte, target string, perm os.FileMode) {
	f.mu.Lock()
	defer f.mu.Unlock()
	par, base, err := f.walkParent("poke", p)
	if err != nil || par == nil {
		panic("vfPoke: bad parent for " + p)
	}
	n := &vfInode{perm: perm, mtime: f.tick(), ino: f.nextIno}
	f.nextIno++
	switch kind {
	case "D":
		n.kind = vfDir
		n.children = map[string]*vfInode{}
	case "L":
		n.kind = vfLink
		n.target = target
	default:
		n.kind = vfFile
		n.vol = &vfData{blocks: map[int64][]byte{}}
		n.vol.writeAt(data, 0)
		n.dur = n.vol.clone()
	}
	par.children[base] = n
}

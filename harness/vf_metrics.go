package absnfs

// vf_metrics.go: drivers for the metrics / health extension (specs/Metrics, checks/METRICS.py).
//
//   TestVF_Metrics     : seeded histories against the REAL collector, operations, handlers and accept loop.
//                        One ndjson line per step with the full projection of GetMetrics() (every scalar field),
//                        IsHealthy() and the collector's private counters after the step; the line before is the
//                        pre-state (SV).  Levels:
//                          api  the collector's public API (RecordOperationStart and its completion function,
//                               RecordConnection*, RecordRateLimitExceeded, RecordError, RecordTimeout, cache
//                               hit / miss, RecordLatency, TLS counters), sequential, in-flight operations
//                               completed out of order, batches that wrap the three rings
//                          ops  AbsfsNFS.Lookup / GetAttr / ReadDir over the vfs backend with the cache entry's
//                               status (read in-package) before the call; *WithContext calls on an expired context
//                          srv  NFS procedures through HandleCall (success and every failing class), refused
//                               credentials, per-operation rate-limit refusals; connections through the real accept
//                               loop over loopback TCP (accepted, rejected at MaxConnections, closed), a
//                               connection-level rate-limit refusal
//                          conc goroutines issuing api calls and real Lookups freely while a sampler calls
//                               GetMetrics / IsHealthy; one line per sample, one line at quiescence with the tally
//                               of what was issued; the directed schedule for the stale hit rate
//   TestVF_MetricsRace : (built with -race) writers of every counter next to GetMetrics / IsHealthy readers; the
//                        race detector's reports are the observation, the check reads them from the output.
//
// The harness records; it never judges.  Time in rate_limiter.go, cache.go, metrics.go and metrics_api.go is the
// virtual clock (vf_clock.go), so latencies, uptime, cache expiry and token buckets are exact.

import (
	"bytes"
	"context"
	"encoding/binary"
	"errors"
	"fmt"
	"io"
	"log"
	"math"
	"math/rand"
	"net"
	"os"
	"runtime"
	"sort"
	"strings"
	"sync"
	"sync/atomic"
	"syscall"
	"testing"
	"time"
)

var vfmetEpoch = time.Unix(1_700_000_000, 0)

// ---------------------------------------------------------------- projection

// vfmetFrac writes a hit rate as the reduced fraction of small integers it is the float64 quotient of
// ([0,1] for 0; [-1,1] when it is no such quotient).
func vfmetFrac(r float64, maxDen uint64) []int {
	if r == 0 {
		return []int{0, 1}
	}
	if maxDen < 4 {
		maxDen = 4
	}
	for den := uint64(1); den <= maxDen; den++ {
		num := math.Round(r * float64(den))
		if num >= 0 && float64(num)/float64(den) == r {
			return []int{int(num), int(den)}
		}
	}
	return []int{-1, 1}
}

func vfmetDur(d time.Duration) (int, int) {
	return int(d / time.Millisecond), int(d % time.Millisecond)
}

// vfmetProj is the projected state: every scalar field of GetMetrics(), IsHealthy(), and (under "g") the
// collector's private counters and ring fill levels and the caches' own sizes, read in-package.
func vfmetProj(n *AbsfsNFS) (M, M, bool) {
	m := n.GetMetrics()
	healthy := n.IsHealthy()
	mc := n.metrics
	ah, am := atomic.LoadUint64(&mc.attrCacheHits), atomic.LoadUint64(&mc.attrCacheMisses)
	dh, dm := atomic.LoadUint64(&mc.dirCacheHits), atomic.LoadUint64(&mc.dirCacheMisses)
	nh, nm := atomic.LoadUint64(&mc.negativeCacheHits), atomic.LoadUint64(&mc.negativeCacheMisses)
	mc.latencyMutex.Lock()
	winLen, winErrs := mc.recentResultsLen, 0
	for i := 0; i < mc.recentResultsLen; i++ {
		if mc.recentResults[i] {
			winErrs++
		}
	}
	rn, wn := mc.readLatLen, mc.writeLatLen
	capR, capW, capWin := len(mc.readLatencies), len(mc.writeLatencies), len(mc.recentResults)
	mc.latencyMutex.Unlock()
	lat := func(avg, max, p95 time.Duration) M {
		aq, ar := vfmetDur(avg)
		mq, mr := vfmetDur(max)
		pq, pr := vfmetDur(p95)
		return M{"avgq": aq, "avgr": ar, "max": mq, "maxr": mr, "p95": pq, "p95r": pr}
	}
	pm := M{
		"total": int(m.TotalOperations),
		"op": M{"READ": int(m.ReadOperations), "WRITE": int(m.WriteOperations), "LOOKUP": int(m.LookupOperations),
			"GETATTR": int(m.GetAttrOperations), "CREATE": int(m.CreateOperations), "REMOVE": int(m.RemoveOperations),
			"RENAME": int(m.RenameOperations), "MKDIR": int(m.MkdirOperations), "RMDIR": int(m.RmdirOperations),
			"READDIR": int(m.ReaddirOperations), "ACCESS": int(m.AccessOperations)},
		"err": int(m.ErrorCount),
		"cat": M{"AUTH": int(m.AuthFailures), "ACCESS": int(m.AccessViolations), "STALE": int(m.StaleHandles),
			"RESOURCE": int(m.ResourceErrors), "RATELIMIT": int(m.RateLimitExceeded)},
		"tot": int(m.TotalTimeouts),
		"to": M{"READ": int(m.ReadTimeouts), "WRITE": int(m.WriteTimeouts), "LOOKUP": int(m.LookupTimeouts),
			"READDIR": int(m.ReaddirTimeouts), "CREATE": int(m.CreateTimeouts), "REMOVE": int(m.RemoveTimeouts),
			"RENAME": int(m.RenameTimeouts), "HANDLE": int(m.HandleTimeouts)},
		"tconn": int(m.TotalConnections), "rej": int(m.RejectedConnections), "active": m.ActiveConnections,
		"tls": M{"hs": int(m.TLSHandshakes), "hsfail": int(m.TLSHandshakeFailures), "cert": int(m.TLSClientCertProvided),
			"certok": int(m.TLSClientCertValidated), "certrej": int(m.TLSClientCertRejected), "reuse": int(m.TLSSessionReused),
			"v12": int(m.TLSVersion12), "v13": int(m.TLSVersion13)},
		"rate": M{"attr": vfmetFrac(m.CacheHitRate, ah+am+8), "dir": vfmetFrac(m.DirCacheHitRate, dh+dm+8),
			"neg": vfmetFrac(m.NegativeCacheHitRate, nh+nm+8)},
		"lat": M{"READ": lat(m.AvgReadLatency, m.MaxReadLatency, m.P95ReadLatency),
			"WRITE": lat(m.AvgWriteLatency, m.MaxWriteLatency, m.P95WriteLatency)},
		"asize": m.AttrCacheSize, "acap": m.AttrCacheCapacity, "nsize": m.NegativeCacheSize,
		"uptime": int(m.UptimeSeconds),
	}
	asz, acap := n.attrCache.Stats()
	g := M{
		"hits": M{"attr": int(ah), "dir": int(dh), "neg": int(nh)}, "misses": M{"attr": int(am), "dir": int(dm), "neg": int(nm)},
		"winlen": winLen, "winerrs": winErrs, "latn": M{"READ": rn, "WRITE": wn},
		"caps":  []int{capWin, capR, capW},
		"asize": asz, "acap": acap, "nsize": n.attrCache.NegativeStats(),
		"now": int(vfNow().Sub(vfmetEpoch) / time.Millisecond), "start": int(m.StartTime.Sub(vfmetEpoch) / time.Millisecond),
	}
	return pm, g, healthy
}

// ---------------------------------------------------------------- world

type vfmetWorld struct {
	t      *testing.T
	tr     *vfTrace
	hist   int
	kind   string
	n      *AbsfsNFS
	env    *vfEnv
	fs     *vfsFS
	ro     bool
	nsteps int
	sum    *vfmetSummary
}

type vfmetSummary struct {
	PerKind  map[string]int
	Calls    map[string]int
	Distinct map[string]bool
	Samples  []M
	Notes    []string
}

func (w *vfmetWorld) line(ev string, f M) {
	pm, g, healthy := vfmetProj(w.n)
	f["ev"], f["hist"], f["m"], f["g"], f["healthy"] = ev, w.hist, pm, g, healthy
	w.tr.Emit(f)
}

func (w *vfmetWorld) step(lvl, call string, f M) {
	f["lvl"], f["call"] = lvl, call
	w.line("step", f)
	w.nsteps++
	w.sum.Calls[lvl+"."+call]++
}

func (w *vfmetWorld) distinct(parts ...interface{}) {
	w.sum.Distinct[fmt.Sprint(parts...)] = true
}

func vfmetNewWorld(t *testing.T, tr *vfTrace, sum *vfmetSummary, hist int, kind, mode string, opts ExportOptions, fill func(*vfsFS), extra M) *vfmetWorld {
	vfClockSet(vfmetEpoch.Add(time.Duration(hist) * time.Hour))
	fs := vfNewFS()
	if fill != nil {
		fill(fs)
	}
	env := vfNewEnv(t, fs, opts)
	if env.n.metrics == nil {
		t.Fatalf("metrics collector not initialised by New")
	}
	w := &vfmetWorld{t: t, tr: tr, hist: hist, kind: kind, n: env.n, env: env, fs: fs, ro: opts.ReadOnly, sum: sum}
	f := M{"kind": kind, "mode": mode, "ro": opts.ReadOnly, "maxconn": opts.MaxConnections, "negon": opts.CacheNegativeLookups,
		"dircache": opts.EnableDirCache}
	for k, v := range extra {
		f[k] = v
	}
	w.line("reset", f)
	sum.PerKind[kind]++
	return w
}

func (w *vfmetWorld) close() { w.env.Close() }

// ---------------------------------------------------------------- errors with known traits

type vfmetErr struct {
	name   string
	err    error
	traits []string // which of isStaleFileHandle / isAuthError / isResourceError the documentation says hold
}

func vfmetErrors() []vfmetErr {
	return []vfmetErr{
		{"enoent", &os.PathError{Op: "lstat", Path: "/x", Err: syscall.ENOENT}, []string{"stale"}},
		{"estale", errors.New("stale NFS file handle"), []string{"stale"}},
		{"eperm", fmt.Errorf("open /x: %w", os.ErrPermission), []string{"auth"}},
		{"eacces", &os.PathError{Op: "open", Path: "/x", Err: syscall.EACCES}, []string{"auth"}},
		{"enospc", &os.PathError{Op: "write", Path: "/x", Err: syscall.ENOSPC}, []string{"resource"}},
		{"emfile", errors.New("accept: too many open files"), []string{"resource"}},
		{"eio", &os.PathError{Op: "read", Path: "/x", Err: syscall.EIO}, []string{}},
		{"timeout", ErrTimeout, []string{}},
		{"stale+auth", errors.New("permission denied: invalid file handle"), []string{"stale", "auth"}},
		{"auth+resource", errors.New("quota exceeded: unauthorized"), []string{"auth", "resource"}},
		{"all", errors.New("EPERM on stale object: resource busy"), []string{"stale", "auth", "resource"}},
	}
}

var vfmetOpTypes = []string{"READ", "WRITE", "LOOKUP", "GETATTR", "CREATE", "REMOVE", "RENAME", "MKDIR", "RMDIR", "READDIR", "ACCESS",
	"SETATTR", "COMMIT", "READDIRPLUS", "FSSTAT", "read"}
var vfmetToTypes = []string{"READ", "WRITE", "LOOKUP", "READDIR", "CREATE", "REMOVE", "RENAME", "HANDLE", "GETATTR", ""}
var vfmetErrCats = []string{"AUTH", "ACCESS", "STALE", "RESOURCE", "RATELIMIT", "UNKNOWN", "IO"}
var vfmetTLS = []string{"hs", "hsfail", "certok", "certrej", "reuse", "v12", "v13", "vold"}

// ---------------------------------------------------------------- api level

// apiOp runs k operations of type t one after the other, each d ms long on the virtual clock.
func (w *vfmetWorld) apiOp(t string, e *vfmetErr, dms, k int) {
	for i := 0; i < k; i++ {
		done := w.n.RecordOperationStart(t)
		vfClockAdvance(time.Duration(dms) * time.Millisecond)
		if e != nil {
			done(e.err)
		} else {
			done(nil)
		}
	}
	f := M{"t": t, "fail": e != nil, "traits": []string{}, "d": dms, "k": k, "errname": ""}
	if e != nil {
		f["traits"], f["errname"] = e.traits, e.name
	}
	w.step("api", "op", f)
	w.distinct("api.op", t, e != nil, f["traits"], k > 1, w.ro)
}

type vfmetFlight struct {
	t     string
	start time.Time
	done  func(error)
}

func (w *vfmetWorld) apiRandom(rnd *rand.Rand, steps int) {
	errs := vfmetErrors()
	flights := map[int]*vfmetFlight{}
	nextFlight := 1
	conns := 0
	durs := []int{0, 1, 3, 40, 250, 1000, 4999, 5000, 5001, 9000}
	if w.ro { // under a read-only policy every failed WRITE is an access violation, whatever the error says
		for k := range errs {
			w.apiOp("WRITE", &errs[k], 1, 1)
		}
		w.apiOp("READ", &errs[2], 1, 1)
	}
	for i := 0; i < steps; i++ {
		switch p := rnd.Intn(100); {
		case p < 30: // one operation, or a batch
			t := vfmetOpTypes[rnd.Intn(len(vfmetOpTypes))]
			if rnd.Intn(3) == 0 {
				t = []string{"READ", "WRITE"}[rnd.Intn(2)]
			}
			var e *vfmetErr
			if rnd.Intn(5) < 2 {
				e = &errs[rnd.Intn(len(errs))]
			}
			k := 1
			if rnd.Intn(6) == 0 {
				k = []int{2, 19, 20, 21, 150, 400, 999, 1000, 1001}[rnd.Intn(9)]
			}
			w.apiOp(t, e, durs[rnd.Intn(len(durs))], k)
		case p < 38: // an operation starts and stays in flight
			t := vfmetOpTypes[rnd.Intn(12)]
			fl := &vfmetFlight{t: t, start: vfNow(), done: w.n.RecordOperationStart(t)}
			flights[nextFlight] = fl
			w.step("api", "opstart", M{"t": t, "id": nextFlight})
			nextFlight++
		case p < 46: // one of the operations in flight completes
			if len(flights) == 0 {
				continue
			}
			ids := make([]int, 0, len(flights))
			for id := range flights {
				ids = append(ids, id)
			}
			sort.Ints(ids)
			id := ids[rnd.Intn(len(ids))]
			fl := flights[id]
			delete(flights, id)
			vfClockAdvance(time.Duration(durs[rnd.Intn(6)]) * time.Millisecond)
			var e *vfmetErr
			if rnd.Intn(2) == 0 {
				e = &errs[rnd.Intn(len(errs))]
			}
			d := int(vfNow().Sub(fl.start) / time.Millisecond)
			f := M{"t": fl.t, "id": id, "fail": e != nil, "traits": []string{}, "d": d, "errname": ""}
			if e != nil {
				fl.done(e.err)
				f["traits"], f["errname"] = e.traits, e.name
			} else {
				fl.done(nil)
			}
			w.step("api", "opdone", f)
			w.distinct("api.opdone", fl.t, e != nil, f["traits"], w.ro)
		case p < 54:
			w.n.metrics.RecordConnection()
			conns++
			w.step("api", "conn", M{})
		case p < 61:
			w.n.metrics.RecordConnectionClosed()
			w.step("api", "close", M{"open": conns})
			w.distinct("api.close", conns > 0)
			if conns > 0 {
				conns--
			}
		case p < 64:
			w.n.metrics.RecordRejectedConnection()
			w.step("api", "reject", M{})
		case p < 69:
			w.n.metrics.RecordRateLimitExceeded()
			w.step("api", "rl", M{})
		case p < 75:
			c := vfmetErrCats[rnd.Intn(len(vfmetErrCats))]
			w.n.metrics.RecordError(c)
			w.step("api", "recerr", M{"c": c})
			w.distinct("api.recerr", c)
		case p < 81:
			t := vfmetToTypes[rnd.Intn(len(vfmetToTypes))]
			w.n.metrics.RecordTimeout(t)
			w.step("api", "timeout", M{"t": t})
			w.distinct("api.timeout", t)
		case p < 90:
			c := []string{"attr", "dir", "neg"}[rnd.Intn(3)]
			hit := rnd.Intn(2) == 0
			k := 1
			if rnd.Intn(5) == 0 {
				k = 2 + rnd.Intn(40)
			}
			for j := 0; j < k; j++ {
				vfmetCache(w.n, c, hit)
			}
			w.step("api", "cache", M{"c": c, "hit": hit, "k": k})
			w.distinct("api.cache", c, hit)
		case p < 94:
			k := vfmetTLS[rnd.Intn(len(vfmetTLS))]
			vfmetTLSCall(w.n.metrics, k)
			w.step("api", "tls", M{"k": k})
			w.distinct("api.tls", k)
		case p < 97:
			ms := []int{1, 999, 1000, 1500, 61000}[rnd.Intn(5)]
			vfClockAdvance(time.Duration(ms) * time.Millisecond)
			w.step("api", "tick", M{"ms": ms})
		default:
			// RecordLatency called directly (an operation type without a ring is ignored)
			t := []string{"READ", "WRITE", "LOOKUP"}[rnd.Intn(3)]
			d := durs[rnd.Intn(len(durs))]
			k := []int{1, 1, 25, 1000}[rnd.Intn(4)]
			for j := 0; j < k; j++ {
				w.n.metrics.RecordLatency(t, time.Duration(d)*time.Millisecond)
			}
			w.step("api", "lat", M{"t": t, "d": d, "k": k})
		}
	}
	// complete what is still in flight
	ids := make([]int, 0, len(flights))
	for id := range flights {
		ids = append(ids, id)
	}
	sort.Ints(ids)
	for _, id := range ids {
		fl := flights[id]
		fl.done(nil)
		w.step("api", "opdone", M{"t": fl.t, "id": id, "fail": false, "traits": []string{}, "d": int(vfNow().Sub(fl.start) / time.Millisecond), "errname": ""})
	}
}

func vfmetCache(n *AbsfsNFS, c string, hit bool) {
	switch {
	case c == "attr" && hit:
		n.RecordAttrCacheHit()
	case c == "attr":
		n.RecordAttrCacheMiss()
	case c == "dir" && hit:
		n.RecordDirCacheHit()
	case c == "dir":
		n.RecordDirCacheMiss()
	case hit:
		n.RecordNegativeCacheHit()
	default:
		n.RecordNegativeCacheMiss()
	}
}

func vfmetTLSCall(mc *MetricsCollector, k string) {
	switch k {
	case "hs":
		mc.RecordTLSHandshake()
	case "hsfail":
		mc.RecordTLSHandshakeFailure()
	case "certok":
		mc.RecordTLSClientCert(true)
	case "certrej":
		mc.RecordTLSClientCert(false)
	case "reuse":
		mc.RecordTLSSessionReused()
	case "v12":
		mc.RecordTLSVersion(0x0303)
	case "v13":
		mc.RecordTLSVersion(0x0304)
	default:
		mc.RecordTLSVersion(0x0301)
	}
}

// health: the windowed error rate around one half, the P95 around five seconds, and recovery through the rings
func (w *vfmetWorld) apiHealth(rnd *rand.Rand) {
	errs := vfmetErrors()
	e := &errs[6]
	w.apiOp("LOOKUP", e, 0, 1)   // 1/1 errors
	w.apiOp("LOOKUP", nil, 0, 1) // 1/2: exactly one half is healthy
	w.apiOp("GETATTR", e, 0, 1)  // 2/3
	w.apiOp("GETATTR", nil, 0, 1)
	w.apiOp("GETATTR", nil, 0, 2+rnd.Intn(3))
	slow := []string{"READ", "WRITE"}[rnd.Intn(2)]
	w.apiOp(slow, nil, 5001, 1)            // one slow sample: P95 not computed below 20 samples
	w.apiOp(slow, nil, 10, 17+rnd.Intn(2)) // 18 or 19 samples
	w.apiOp(slow, nil, 10, 1)
	w.apiOp(slow, nil, 10, 1) // 20 or 21: index 18 / 19 of the sorted ring
	w.apiOp(slow, nil, 6000, 1)
	w.apiOp(slow, nil, 6000, 1)
	w.apiOp(slow, nil, 5000, 3) // exactly the limit
	w.apiOp(slow, nil, 7000, 40+rnd.Intn(20))
	w.apiOp("LOOKUP", e, 0, 500+rnd.Intn(3))
	w.apiOp("LOOKUP", nil, 0, 400)
	w.apiOp("LOOKUP", nil, 0, 150) // the ring wraps: errors leave it
	w.apiOp(slow, nil, 2, 940+rnd.Intn(20))
	w.apiOp(slow, nil, 2, 30)
	w.apiOp(slow, e, 1, 30)
	w.apiOp("ACCESS", e, 0, 600)
}

// ---------------------------------------------------------------- ops level

func (w *vfmetWorld) attrStatus(p string) string {
	c := w.n.attrCache
	c.mu.RLock()
	defer c.mu.RUnlock()
	e, ok := c.cache[p]
	if !ok || !vfNow().Before(e.expireAt) {
		return "none"
	}
	if e.isNegative {
		return "neg"
	}
	return "pos"
}

// dirStatus: "off" (no directory cache), "hit" with the cached names, or "miss"
func (w *vfmetWorld) dirStatus(p string) (string, []string) {
	c := w.n.dirCache
	if c == nil {
		return "off", nil
	}
	c.mu.RLock()
	defer c.mu.RUnlock()
	e, ok := c.entries[p]
	if !ok || vfNow().After(e.validUntil) {
		return "miss", nil
	}
	var names []string
	for _, fi := range e.entries {
		names = append(names, fi.Name())
	}
	return "hit", names
}

func (w *vfmetWorld) exists(p string) bool {
	_, err := w.fs.Lstat(p)
	return err == nil
}

func vfmetJoin(dir, name string) string {
	if dir == "/" {
		return "/" + name
	}
	return dir + "/" + name
}

func (w *vfmetWorld) opsLookup(p string) *NFSNode {
	st := w.attrStatus(p)
	_, berr := w.fs.Lstat(p)
	ex, enoent := berr == nil, berr != nil && os.IsNotExist(berr)
	node, err := w.n.Lookup(p)
	w.step("ops", "lookup", M{"p": p, "st": st, "exists": ex, "enoent": enoent, "ok": err == nil})
	w.distinct("ops.lookup", st, ex, enoent)
	return node
}

func (w *vfmetWorld) opsGetattr(p string) {
	node := &NFSNode{SymlinkFileSystem: w.n.fs, path: p, attrs: &NFSAttrs{}}
	st := w.attrStatus(p)
	_, err := w.n.GetAttr(node)
	w.step("ops", "getattr", M{"p": p, "st": st, "ok": err == nil})
	w.distinct("ops.getattr", st, err == nil)
}

// opsReaddir: the directory's cache status, and the attribute-cache status of every entry the listing will look up
func (w *vfmetWorld) opsReaddir(dir string, plus bool) {
	dst, names := w.dirStatus(dir)
	isDir := false
	if fi, err := w.fs.Lstat(dir); err == nil && fi.IsDir() {
		isDir = true
	}
	if dst != "hit" {
		names = nil
		if isDir {
			if ents, err := w.fs.ReadDir(dir); err == nil {
				for _, e := range ents {
					names = append(names, e.Name())
				}
			}
		}
	}
	cnt := map[string]int{"pos": 0, "neg": 0, "miss": 0, "gone": 0}
	for _, nm := range names {
		p := vfmetJoin(dir, nm)
		switch st := w.attrStatus(p); {
		case st == "pos":
			cnt["pos"]++
		case st == "neg":
			cnt["neg"]++
		case w.exists(p):
			cnt["miss"]++
		default:
			cnt["gone"]++
		}
	}
	node := &NFSNode{SymlinkFileSystem: w.n.fs, path: dir, attrs: &NFSAttrs{Mode: os.ModeDir | 0755}}
	var err error
	call := "readdir"
	if plus {
		call = "readdirplus"
		_, err = w.n.ReadDirPlus(node)
	} else {
		_, err = w.n.ReadDir(node)
	}
	w.step("ops", call, M{"p": dir, "dst": dst, "isdir": isDir, "npos": cnt["pos"], "nneg": cnt["neg"], "nmiss": cnt["miss"], "ngone": cnt["gone"], "ok": err == nil})
	w.distinct("ops."+call, dst, cnt["pos"] > 0, cnt["neg"] > 0, cnt["miss"] > 0, cnt["gone"] > 0)
}

func (w *vfmetWorld) opsTimeout(t string) {
	ctx, cancel := context.WithDeadline(context.Background(), time.Now().Add(-time.Second))
	defer cancel()
	root := &NFSNode{SymlinkFileSystem: w.n.fs, path: "/", attrs: &NFSAttrs{Mode: os.ModeDir | 0755}}
	file := &NFSNode{SymlinkFileSystem: w.n.fs, path: "/f0", attrs: &NFSAttrs{Mode: 0644}}
	var err error
	switch t {
	case "LOOKUP":
		_, err = w.n.LookupWithContext(ctx, "/f0")
	case "READ":
		_, err = w.n.ReadWithContext(ctx, file, 0, 4)
	case "WRITE":
		_, err = w.n.WriteWithContext(ctx, file, 0, []byte("zz"))
	case "CREATE":
		_, err = w.n.CreateWithContext(ctx, root, "tnew", &NFSAttrs{Mode: 0644})
	case "REMOVE":
		err = w.n.RemoveWithContext(ctx, root, "f0")
	case "RENAME":
		err = w.n.RenameWithContext(ctx, root, "f0", root, "f9")
	case "READDIR":
		_, err = w.n.ReadDirWithContext(ctx, root)
	}
	w.step("ops", "timeout", M{"t": t, "timedout": errors.Is(err, ErrTimeout)})
	w.distinct("ops.timeout", t)
}

func vfmetFillTree(fs *vfsFS) {
	for i := 0; i < 4; i++ {
		fs.vfPoke(fmt.Sprintf("/f%d", i), "F", []byte("data"), "", 0644)
	}
	fs.vfPoke("/d", "D", nil, "", 0755)
	for i := 0; i < 3; i++ {
		fs.vfPoke(fmt.Sprintf("/d/e%d", i), "F", []byte("e"), "", 0644)
	}
	fs.vfPoke("/d/sub", "D", nil, "", 0755)
	fs.vfPoke("/lnk", "L", nil, "/f0", 0777)
}

func (w *vfmetWorld) opsRandom(rnd *rand.Rand, steps int) {
	paths := []string{"/f0", "/f1", "/f2", "/d", "/d/e0", "/d/e1", "/d/sub", "/lnk", "/nope", "/d/nope", "/d/gone", "/f3/x"}
	tos := []string{"LOOKUP", "READ", "WRITE", "CREATE", "REMOVE", "RENAME", "READDIR"}
	root := &NFSNode{SymlinkFileSystem: w.n.fs, path: "/", attrs: &NFSAttrs{Mode: os.ModeDir | 0755}}
	dnode := &NFSNode{SymlinkFileSystem: w.n.fs, path: "/d", attrs: &NFSAttrs{Mode: os.ModeDir | 0755}}
	for i := 0; i < steps; i++ {
		switch p := rnd.Intn(100); {
		case p < 40:
			w.opsLookup(paths[rnd.Intn(len(paths))])
		case p < 52:
			w.opsGetattr(paths[rnd.Intn(len(paths))])
		case p < 68:
			w.opsReaddir([]string{"/", "/d", "/d/sub", "/f0"}[rnd.Intn(4)], rnd.Intn(3) == 0)
		case p < 76:
			w.opsTimeout(tos[rnd.Intn(len(tos))])
		case p < 84: // the backend changes under the caches (not through absnfs): entries listed by a cached directory disappear
			if w.exists("/d/gone") {
				w.fs.Remove("/d/gone")
			} else {
				w.fs.vfPoke("/d/gone", "F", []byte("g"), "", 0644)
			}
			w.step("ops", "backend", M{})
		case p < 90: // mutations through absnfs invalidate cache entries; they may probe the caches themselves
			var err error
			what := "create"
			if w.exists("/d/new") {
				what = "remove"
				err = w.n.Remove(dnode, "new")
			} else {
				_, err = w.n.Create(dnode, "new", &NFSAttrs{Mode: 0644})
			}
			_ = root
			w.step("ops", "mutate", M{"what": what, "ok": err == nil})
		default:
			ms := []int{500, 2000, 6000, 31000}[rnd.Intn(4)]
			vfClockAdvance(time.Duration(ms) * time.Millisecond)
			w.step("ops", "tick", M{"ms": ms})
		}
	}
}

// ---------------------------------------------------------------- srv level: procedures through HandleCall

// the operation type a procedure is documented to be counted under (docs/api/metrics.md lists the eleven typed counters)
func vfmetProcType(proc uint32) string { return vfNFSProcNames[proc] }

func (w *vfmetWorld) srvCall(proc uint32, args []byte, c vfCred, rlOn bool, note string) *vfNFSReply {
	r := w.env.Do(proc, args, c)
	st := r.StatusName()
	w.step("srv", "nfs", M{"proc": vfNFSProcNames[proc], "t": vfmetProcType(proc), "status": st, "fail": !r.OK(),
		"denied": r.Raw.Denied, "limited": rlOn && st == "JUKEBOX", "note": note})
	w.distinct("srv.nfs", vfNFSProcNames[proc], st)
	return r
}

func (w *vfmetWorld) srvRandom(rnd *rand.Rand, steps int, rlOn bool) {
	root := w.env.Mount(w.t, vfRoot)
	w.step("srv", "mnt", M{"limited": false})
	fh := func(r *vfNFSReply) uint64 {
		if r.OK() {
			if v, ok := vfFH(vfGet(r.Res.Val, "object")); ok {
				return v
			}
		}
		return 0
	}
	f0 := fh(w.srvCall(NFSPROC3_LOOKUP, vfArgsDirOp(root, "f0"), vfRoot, rlOn, ""))
	d := fh(w.srvCall(NFSPROC3_LOOKUP, vfArgsDirOp(root, "d"), vfRoot, rlOn, ""))
	if f0 == 0 || d == 0 {
		w.t.Fatalf("srv: setup lookups failed")
	}
	badFlavor := vfCred{Flavor: 6, IP: "127.0.0.1", Port: 900}
	stranger := vfCred{Flavor: AUTH_SYS, UID: 1000, GID: 1000, IP: "10.9.9.9", Port: 900}
	seq := 0
	for i := 0; i < steps; i++ {
		seq++
		name := fmt.Sprintf("n%d", seq)
		switch p := rnd.Intn(100); {
		case p < 8:
			w.srvCall(NFSPROC3_GETATTR, vfArgsFH(f0), vfRoot, rlOn, "")
		case p < 12:
			w.srvCall(NFSPROC3_GETATTR, vfArgsFH(0xdead0000+uint64(seq)), vfRoot, rlOn, "stale handle")
		case p < 20:
			w.srvCall(NFSPROC3_LOOKUP, vfArgsDirOp(root, []string{"f1", "nope", "d", "f2"}[rnd.Intn(4)]), vfRoot, rlOn, "")
		case p < 24:
			w.srvCall(NFSPROC3_LOOKUP, vfArgsDirOp(f0, "x"), vfRoot, rlOn, "not a directory")
		case p < 30:
			w.srvCall(NFSPROC3_ACCESS, vfArgsAccess(f0, 0x3f), vfRoot, rlOn, "")
		case p < 38:
			w.srvCall(NFSPROC3_READ, vfArgsRead(f0, 0, 4), vfRoot, rlOn, "")
		case p < 44:
			w.srvCall(NFSPROC3_READ, vfArgsRead(f0, 0, 70000), vfRoot, rlOn, "large read")
		case p < 50:
			w.srvCall(NFSPROC3_WRITE, vfArgsWrite(f0, 0, 2, []byte("abcd")), vfRoot, rlOn, "")
		case p < 56:
			w.srvCall(NFSPROC3_CREATE, vfArgsCreate(d, name, 1, vfSattr{Mode: u32p(0644)}, [8]byte{}), vfRoot, rlOn, "")
		case p < 60:
			w.srvCall(NFSPROC3_CREATE, vfArgsCreate(d, "e0", 1, vfSattr{Mode: u32p(0644)}, [8]byte{}), vfRoot, rlOn, "exists")
		case p < 64:
			w.srvCall(NFSPROC3_MKDIR, vfArgsMkdir(d, name, vfSattr{Mode: u32p(0755)}), vfRoot, rlOn, "")
		case p < 68:
			w.srvCall(NFSPROC3_REMOVE, vfArgsDirOp(d, []string{"e1", "nope"}[rnd.Intn(2)]), vfRoot, rlOn, "")
		case p < 71:
			w.srvCall(NFSPROC3_RMDIR, vfArgsDirOp(d, "sub"), vfRoot, rlOn, "")
		case p < 75:
			w.srvCall(NFSPROC3_RENAME, vfArgsRename(root, []string{"f3", "nope"}[rnd.Intn(2)], d, name), vfRoot, rlOn, "")
		case p < 81:
			w.srvCall(NFSPROC3_READDIR, vfArgsReaddir(d, 0, [8]byte{}, 4096), vfRoot, rlOn, "")
		case p < 85:
			w.srvCall(NFSPROC3_READDIRPLUS, vfArgsReaddirplus(d, 0, [8]byte{}, 4096, 8192), vfRoot, rlOn, "")
		case p < 88:
			w.srvCall(NFSPROC3_SETATTR, vfArgsSetattr(f0, vfSattr{Mode: u32p(0600)}, nil), vfRoot, rlOn, "")
		case p < 90:
			w.srvCall(NFSPROC3_FSSTAT, vfArgsFH(root), vfRoot, rlOn, "")
		case p < 95:
			w.srvCall(NFSPROC3_GETATTR, vfArgsFH(f0), badFlavor, rlOn, "unsupported flavor")
		case p < 98:
			w.srvCall(NFSPROC3_LOOKUP, vfArgsDirOp(root, "f1"), stranger, rlOn, "address not allowed")
		default:
			var a bytes.Buffer
			xdrEncodeString(&a, "/")
			raw := w.env.Call(MOUNT_PROGRAM, MOUNT_V3, 1, a.Bytes(), vfRoot)
			lim := rlOn && raw.Err == nil && !raw.Denied && len(raw.Body) >= 4 && binary.BigEndian.Uint32(raw.Body[0:4]) == 10006
			w.step("srv", "mnt", M{"limited": lim})
			w.distinct("srv.mnt", lim)
		}
	}
}

// ---------------------------------------------------------------- srv level: the real accept loop

type vfmetTCP struct {
	w    *vfmetWorld
	srv  *Server
	port int
	evs  chan M
}

func vfmetConnPort(v interface{}) int {
	if c, ok := v.(net.Conn); ok && c != nil {
		if a, ok := c.RemoteAddr().(*net.TCPAddr); ok {
			return a.Port
		}
	}
	return 0
}

func (w *vfmetWorld) tcpStart() *vfmetTCP {
	srv, err := NewServer(ServerOptions{Name: "vfmet", Hostname: "127.0.0.1", Port: 0, UseRecordMarking: true})
	if err != nil {
		w.t.Fatalf("NewServer: %v", err)
	}
	srv.logger = log.New(io.Discard, "", 0)
	srv.SetHandler(w.n)
	x := &vfmetTCP{w: w, srv: srv, evs: make(chan M, 256)}
	hook := func(ev string, kv ...any) {
		if ev != "cm.accept" && ev != "cm.reject" && ev != "cm.unreg" {
			return
		}
		m := M{"ev": ev}
		for i := 0; i+1 < len(kv); i += 2 {
			switch kv[i] {
			case "conn":
				m["port"] = vfmetConnPort(kv[i+1])
			case "count":
				m["count"] = kv[i+1]
			}
		}
		select {
		case x.evs <- m:
		default:
		}
	}
	vfHookP.Store(&hook)
	if err := srv.Listen(); err != nil {
		w.t.Fatalf("Listen: %v", err)
	}
	x.port = srv.GetPort()
	return x
}

func (x *vfmetTCP) stop() {
	x.srv.Stop()
	vfHookP.Store(nil)
}

// waitEv waits for the connection-accounting event of the given client port
func (x *vfmetTCP) waitEv(port int, kinds ...string) M {
	deadline := time.After(5 * time.Second)
	for {
		select {
		case m := <-x.evs:
			if m["port"] == port {
				for _, k := range kinds {
					if m["ev"] == k {
						return m
					}
				}
			}
		case <-deadline:
			return nil
		}
	}
}

type vfmetClient struct {
	c    net.Conn
	port int
	xid  uint32
}

func (x *vfmetTCP) open() *vfmetClient {
	c, err := net.DialTimeout("tcp", fmt.Sprintf("127.0.0.1:%d", x.port), 2*time.Second)
	if err != nil {
		x.w.t.Fatalf("dial: %v", err)
	}
	cl := &vfmetClient{c: c, port: c.LocalAddr().(*net.TCPAddr).Port, xid: 7000}
	ev := x.waitEv(cl.port, "cm.accept", "cm.reject")
	if ev == nil {
		x.w.sum.Notes = append(x.w.sum.Notes, "VF-HOOKS-ABSENT")
		x.w.t.Fatalf("VF-HOOKS-ABSENT: no cm.accept / cm.reject event for a new connection")
	}
	accepted := ev["ev"] == "cm.accept"
	x.w.step("srv", "tcp.open", M{"accepted": accepted, "count": ev["count"]})
	x.w.distinct("srv.tcp.open", accepted)
	if !accepted {
		c.Close()
		return nil
	}
	return cl
}

func (x *vfmetTCP) closeClient(cl *vfmetClient) {
	cl.c.Close()
	ev := x.waitEv(cl.port, "cm.unreg")
	if ev == nil {
		x.w.t.Fatalf("no cm.unreg event after the client closed")
	}
	x.w.step("srv", "tcp.close", M{"count": ev["count"]})
}

func vfmetCallBytes(xid, prog, vers, proc uint32, args []byte) []byte {
	var b bytes.Buffer
	for _, v := range []uint32{xid, RPC_CALL, 2, prog, vers, proc} {
		xdrEncodeUint32(&b, v)
	}
	cred := vfAuthSysBody(1, "vf", 0, 0, nil)
	xdrEncodeUint32(&b, AUTH_SYS)
	xdrEncodeUint32(&b, uint32(len(cred)))
	b.Write(cred)
	xdrEncodeUint32(&b, 0)
	xdrEncodeUint32(&b, 0)
	b.Write(args)
	return b.Bytes()
}

// null sends one NULL call; "ok" | "limited" (MSG_DENIED) | "dead"
func (cl *vfmetClient) null() string {
	cl.xid++
	msg := vfmetCallBytes(cl.xid, NFS_PROGRAM, NFS_V3, 0, nil)
	var hdr [4]byte
	binary.BigEndian.PutUint32(hdr[:], 0x80000000|uint32(len(msg)))
	cl.c.SetDeadline(time.Now().Add(3 * time.Second))
	if _, err := cl.c.Write(append(hdr[:], msg...)); err != nil {
		return "dead"
	}
	var rec []byte
	for {
		if _, err := io.ReadFull(cl.c, hdr[:]); err != nil {
			return "dead"
		}
		m := binary.BigEndian.Uint32(hdr[:])
		frag := make([]byte, m&0x7fffffff)
		if _, err := io.ReadFull(cl.c, frag); err != nil {
			return "dead"
		}
		rec = append(rec, frag...)
		if m&0x80000000 != 0 {
			break
		}
	}
	if len(rec) < 12 || binary.BigEndian.Uint32(rec[0:4]) != cl.xid {
		return "dead"
	}
	if binary.BigEndian.Uint32(rec[8:12]) == MSG_DENIED {
		return "limited"
	}
	return "ok"
}

func (w *vfmetWorld) tcpScenario(rnd *rand.Rand, max int) {
	x := w.tcpStart()
	defer x.stop()
	var open []*vfmetClient
	steps := 10 + rnd.Intn(4)
	for i := 0; i < steps; i++ {
		switch p := rnd.Intn(10); {
		case p < 5 || len(open) == 0:
			if cl := x.open(); cl != nil {
				open = append(open, cl)
			}
		case p < 8:
			k := rnd.Intn(len(open))
			x.closeClient(open[k])
			open = append(open[:k], open[k+1:]...)
		default:
			cl := open[rnd.Intn(len(open))]
			for j := 0; j < 4; j++ {
				res := cl.null()
				w.step("srv", "tcp.null", M{"res": res, "limited": res == "limited"})
				w.distinct("srv.tcp.null", res)
			}
		}
	}
	for len(open) < max+1 { // fill up to the limit and one more: the last one is rejected
		cl := x.open()
		if cl == nil {
			break
		}
		open = append(open, cl)
	}
	for _, cl := range open {
		x.closeClient(cl)
	}
}

// ---------------------------------------------------------------- concurrent phase

type vfmetTally struct {
	Total, Err, Unk, Tot, OtherOps, OtherTo int
	Op, Cat, To, Hits, Misses, LatN         map[string]int
	Opens, Closes, Rejects, RL              int
	Results, ResultErrs                     int
}

func vfmetNewTally() *vfmetTally {
	return &vfmetTally{Op: map[string]int{}, Cat: map[string]int{}, To: map[string]int{}, Hits: map[string]int{}, Misses: map[string]int{}, LatN: map[string]int{}}
}

func (a *vfmetTally) add(b *vfmetTally) {
	a.Total += b.Total
	a.Err += b.Err
	a.Unk += b.Unk
	a.Tot += b.Tot
	a.OtherOps += b.OtherOps
	a.OtherTo += b.OtherTo
	a.Opens += b.Opens
	a.Closes += b.Closes
	a.Rejects += b.Rejects
	a.RL += b.RL
	a.Results += b.Results
	a.ResultErrs += b.ResultErrs
	for _, p := range []struct{ x, y map[string]int }{{a.Op, b.Op}, {a.Cat, b.Cat}, {a.To, b.To}, {a.Hits, b.Hits}, {a.Misses, b.Misses}, {a.LatN, b.LatN}} {
		for k, v := range p.y {
			p.x[k] += v
		}
	}
}

func vfmetFull(m map[string]int, keys []string) M {
	out := M{}
	for _, k := range keys {
		out[k] = m[k]
	}
	return out
}

func (a *vfmetTally) json() M {
	return M{"total": a.Total, "err": a.Err, "unk": a.Unk, "tot": a.Tot, "otherops": a.OtherOps, "otherto": a.OtherTo,
		"op":     vfmetFull(a.Op, vfmetOpTypes[:11]),
		"cat":    vfmetFull(a.Cat, vfmetErrCats[:5]),
		"to":     vfmetFull(a.To, vfmetToTypes[:8]),
		"hits":   vfmetFull(a.Hits, []string{"attr", "dir", "neg"}),
		"misses": vfmetFull(a.Misses, []string{"attr", "dir", "neg"}),
		"latn":   vfmetFull(a.LatN, []string{"READ", "WRITE"}),
		"opens":  a.Opens, "closes": a.Closes, "rejects": a.Rejects, "rl": a.RL, "results": a.Results, "resulterrs": a.ResultErrs}
}

func vfmetIn(s string, set []string) bool {
	for _, x := range set {
		if x == s {
			return true
		}
	}
	return false
}

// category the documentation's classification gives (read-only policy first, then stale, auth, resource)
func vfmetCategory(ro bool, t string, traits []string) string {
	switch {
	case ro && t == "WRITE":
		return "ACCESS"
	case vfmetIn("stale", traits):
		return "STALE"
	case vfmetIn("auth", traits):
		return "AUTH"
	case vfmetIn("resource", traits):
		return "RESOURCE"
	}
	return "UNKNOWN"
}

// one worker: a seeded list of api calls and real lookups; returns what it issued
func (w *vfmetWorld) concWorker(seed int64, id, calls int, lookups bool) *vfmetTally {
	rnd := rand.New(rand.NewSource(seed*1000 + int64(id)))
	errs := vfmetErrors()
	ta := vfmetNewTally()
	myConns := 0
	for i := 0; i < calls; i++ {
		switch p := rnd.Intn(100); {
		case p < 35:
			t := vfmetOpTypes[rnd.Intn(len(vfmetOpTypes))]
			var e *vfmetErr
			if rnd.Intn(3) == 0 {
				e = &errs[rnd.Intn(len(errs))]
			}
			done := w.n.RecordOperationStart(t)
			if rnd.Intn(4) == 0 {
				runtime.Gosched()
			}
			ta.Total++
			if vfmetIn(t, vfmetOpTypes[:11]) {
				ta.Op[t]++
			} else {
				ta.OtherOps++
			}
			ta.Results++
			if t == "READ" || t == "WRITE" {
				ta.LatN[t]++
			}
			if e != nil {
				done(e.err)
				ta.ResultErrs++
				ta.Err++
				if c := vfmetCategory(w.ro, t, e.traits); c == "UNKNOWN" {
					ta.Unk++
				} else {
					ta.Cat[c]++
				}
			} else {
				done(nil)
			}
		case p < 60:
			c := []string{"attr", "dir", "neg"}[rnd.Intn(3)]
			hit := rnd.Intn(2) == 0
			vfmetCache(w.n, c, hit)
			if hit {
				ta.Hits[c]++
			} else {
				ta.Misses[c]++
			}
		case p < 70:
			w.n.metrics.RecordConnection()
			myConns++
			ta.Opens++
		case p < 78:
			if myConns > 0 { // a worker only closes what it opened: the clamp at zero is never reached
				w.n.metrics.RecordConnectionClosed()
				myConns--
				ta.Closes++
			}
		case p < 81:
			w.n.metrics.RecordRejectedConnection()
			ta.Rejects++
		case p < 85:
			w.n.metrics.RecordRateLimitExceeded()
			ta.Cat["RATELIMIT"]++
			ta.RL++
		case p < 90:
			c := vfmetErrCats[rnd.Intn(len(vfmetErrCats))]
			w.n.metrics.RecordError(c)
			ta.Err++
			if vfmetIn(c, vfmetErrCats[:5]) {
				ta.Cat[c]++
			} else {
				ta.Unk++
			}
		case p < 95:
			t := vfmetToTypes[rnd.Intn(len(vfmetToTypes))]
			w.n.metrics.RecordTimeout(t)
			ta.Tot++
			if vfmetIn(t, vfmetToTypes[:8]) {
				ta.To[t]++
			} else {
				ta.OtherTo++
			}
		default:
			if lookups {
				// a real lookup: which cache counters move depends on the interleaving; the quiescence line
				// compares their sum with the number of probes (one attribute probe per Lookup)
				p := []string{"/f0", "/f1", "/nope", "/d/e0"}[rnd.Intn(4)]
				w.n.Lookup(p)
				ta.Hits["probe"]++
			}
		}
	}
	return ta
}

func (w *vfmetWorld) concurrent(seed int64, workers, calls int, lookups bool) {
	var wg sync.WaitGroup
	tallies := make([]*vfmetTally, workers)
	stop := make(chan struct{})
	var samples []M
	var sampWG sync.WaitGroup
	sampWG.Add(1)
	go func() {
		defer sampWG.Done()
		for {
			select {
			case <-stop:
				return
			default:
			}
			pm, g, healthy := vfmetProj(w.n)
			if len(samples) < 60 {
				samples = append(samples, M{"m": pm, "g": g, "healthy": healthy})
			}
			runtime.Gosched()
		}
	}()
	for i := 0; i < workers; i++ {
		wg.Add(1)
		go func(i int) {
			defer wg.Done()
			tallies[i] = w.concWorker(seed, i, calls, lookups)
		}(i)
	}
	wg.Wait()
	close(stop)
	sampWG.Wait()
	for _, s := range samples {
		s["ev"], s["hist"] = "sample", w.hist
		w.tr.Emit(s)
	}
	all := vfmetNewTally()
	for _, ta := range tallies {
		all.add(ta)
	}
	probes := all.Hits["probe"]
	delete(all.Hits, "probe")
	f := M{"issued": all.json(), "probes": probes, "workers": workers}
	w.step("conc", "quiesce", f)
	w.distinct("conc.quiesce", workers, lookups)
}

// vfmetParked reports whether some goroutine is blocked on a lock inside the function whose name is given
func vfmetParked(fn string) bool {
	buf := make([]byte, 1<<18)
	buf = buf[:runtime.Stack(buf, true)]
	for _, g := range strings.Split(string(buf), "\n\n") {
		if !strings.Contains(g, fn) {
			continue
		}
		hdr := g
		if i := strings.IndexByte(g, '\n'); i >= 0 {
			hdr = g[:i]
		}
		if strings.Contains(hdr, "Lock") || strings.Contains(hdr, "semacquire") || strings.Contains(hdr, "sync.") {
			return true
		}
	}
	return false
}

// staleRate is the directed schedule for the hit rate computed outside the mutex that stores it:
//
//	the collector's mutex is held (as a GetMetrics or RecordConnection in progress would hold it);
//	G1: RecordAttrCacheHit adds the hit, computes 1/1 from the counters (1,0) and parks at the mutex;
//	the mutex is released and, before G1 is scheduled, RecordAttrCacheMiss runs to completion on this goroutine:
//	it adds the miss, computes 1/2 from (1,1), takes the free mutex and stores 1/2;
//	G1 wakes, takes the mutex and stores its 1/1 on top.
//
// At quiescence the counters say 1 hit, 1 miss and the rate field says 1.0.
func (w *vfmetWorld) staleRate() {
	mc := w.n.metrics
	attempts, seen := 0, false
	var base *vfmetTally
	for attempts < 40 && !seen {
		attempts++
		h0, m0 := atomic.LoadUint64(&mc.attrCacheHits), atomic.LoadUint64(&mc.attrCacheMisses)
		mc.mutex.Lock()
		done := make(chan struct{})
		go func() { w.n.RecordAttrCacheHit(); close(done) }()
		parked := false
		for i := 0; i < 2000 && !parked; i++ {
			if atomic.LoadUint64(&mc.attrCacheHits) == h0+1 && vfmetParked("updateCacheHitRate") {
				parked = true
				break
			}
			time.Sleep(200 * time.Microsecond)
		}
		mc.mutex.Unlock()
		w.n.RecordAttrCacheMiss()
		<-done
		if base == nil {
			base = vfmetNewTally()
		}
		base.Hits["attr"]++
		base.Misses["attr"]++
		h, m := h0+1, m0+1
		mc.mutex.RLock()
		r := mc.metrics.CacheHitRate
		mc.mutex.RUnlock()
		if parked && r != float64(h)/float64(h+m) {
			seen = true
		}
	}
	w.step("conc", "quiesce", M{"issued": base.json(), "probes": 0, "workers": 2, "directed": "stalerate", "attempts": attempts, "seen": seen})
	w.distinct("conc.stalerate", seen)
}

// ---------------------------------------------------------------- entry points

func TestVF_Metrics(t *testing.T) {
	seed := vfSeed()
	tr := vfNewTrace(t, "metrics.ndjson")
	defer tr.Close()
	sum := &vfmetSummary{PerKind: map[string]int{}, Calls: map[string]int{}, Distinct: map[string]bool{}}
	hist := 0
	thorough := vfThorough()
	mult := 1
	if thorough {
		mult = 4
	}
	only := os.Getenv("VF_METRICS_ONLY")
	want := func(k string) bool { return only == "" || strings.Contains(","+only+",", ","+k+",") }
	next := func() int { hist++; return hist }
	steps := 0

	if want("api") {
		for i := 0; i < 3*mult; i++ {
			h := next()
			ro := i%3 == 2
			kind := "api"
			if ro {
				kind = "apiro"
			}
			w := vfmetNewWorld(t, tr, sum, h, kind, "seq", ExportOptions{ReadOnly: ro}, nil, nil)
			w.apiRandom(vfRand(seed, fmt.Sprintf("metrics-api-%d", i)), 60)
			steps += w.nsteps
			w.close()
		}
	}
	if want("health") {
		for i := 0; i < mult; i++ {
			w := vfmetNewWorld(t, tr, sum, next(), "health", "seq", ExportOptions{}, nil, nil)
			w.apiHealth(vfRand(seed, fmt.Sprintf("metrics-health-%d", i)))
			steps += w.nsteps
			w.close()
		}
	}
	if want("ops") {
		for i := 0; i < 3*mult; i++ {
			rnd := vfRand(seed, fmt.Sprintf("metrics-ops-%d", i))
			opts := ExportOptions{EnableDirCache: i%3 != 2, CacheNegativeLookups: i%2 == 0, AttrCacheTimeout: 5 * time.Second,
				NegativeCacheTimeout: 5 * time.Second, DirCacheTimeout: 10 * time.Second}
			w := vfmetNewWorld(t, tr, sum, next(), "ops", "seq", opts, vfmetFillTree, nil)
			w.opsRandom(rnd, 70)
			steps += w.nsteps
			w.close()
		}
	}
	if want("srv") {
		for i := 0; i < 2*mult; i++ {
			rnd := vfRand(seed, fmt.Sprintf("metrics-srv-%d", i))
			rlOn := i%2 == 1
			opts := ExportOptions{EnableDirCache: true, AllowedIPs: []string{"127.0.0.1"}, ReadOnly: i%4 == 2}
			if rlOn {
				rc := DefaultRateLimiterConfig()
				rc.ReadLargeOpsPerSecond, rc.ReaddirOpsPerSecond, rc.MountOpsPerMinute = 2, 2, 2
				opts.EnableRateLimiting, opts.RateLimitConfig = true, &rc
			}
			w := vfmetNewWorld(t, tr, sum, next(), "srv", "seq", opts, vfmetFillTree, M{"rl": rlOn})
			w.srvRandom(rnd, 60, rlOn)
			steps += w.nsteps
			w.close()
		}
	}
	if want("tcp") {
		for i := 0; i < mult; i++ {
			rnd := vfRand(seed, fmt.Sprintf("metrics-tcp-%d", i))
			max := 2 + rnd.Intn(2)
			rc := DefaultRateLimiterConfig()
			rc.PerConnectionRequestsPerSecond, rc.PerConnectionBurstSize = 1, 5
			opts := ExportOptions{MaxConnections: max, EnableRateLimiting: true, RateLimitConfig: &rc, IdleTimeout: time.Hour}
			w := vfmetNewWorld(t, tr, sum, next(), "tcp", "seq", opts, vfmetFillTree, M{"rl": true})
			w.tcpScenario(rnd, max)
			steps += w.nsteps
			w.close()
		}
	}
	if want("conc") {
		for i := 0; i < 2*mult; i++ {
			opts := ExportOptions{CacheNegativeLookups: true, ReadOnly: i%2 == 1}
			w := vfmetNewWorld(t, tr, sum, next(), "conc", "conc", opts, vfmetFillTree, nil)
			w.concurrent(seed+int64(i), 3+i%3, 110, true)
			steps += w.nsteps
			w.close()
		}
		w := vfmetNewWorld(t, tr, sum, next(), "stalerate", "conc", ExportOptions{}, nil, nil)
		w.staleRate()
		steps += w.nsteps
		w.close()
	}
	keys := make([]string, 0, len(sum.Distinct))
	for k := range sum.Distinct {
		keys = append(keys, k)
	}
	sort.Strings(keys)
	vfWriteJSON(t, "metrics.summary.json", M{"histories": hist, "steps": steps, "lines": tr.n, "per_kind": sum.PerKind, "calls": sum.Calls,
		"distinct": len(keys), "distinct_keys": keys, "notes": sum.Notes})
}

// TestVF_MetricsRace: writers of every counter next to readers of the snapshot, for the race detector.
func TestVF_MetricsRace(t *testing.T) {
	fs := vfNewFS()
	vfmetFillTree(fs)
	env := vfNewEnv(t, fs, ExportOptions{CacheNegativeLookups: true})
	defer env.Close()
	n := env.n
	only := os.Getenv("VF_METRICS_RACE")
	var wg sync.WaitGroup
	stop := make(chan struct{})
	run := func(name string, f func()) {
		if only != "" && !strings.Contains(","+only+",", ","+name+",") {
			return
		}
		wg.Add(1)
		go func() {
			defer wg.Done()
			for {
				select {
				case <-stop:
					return
				default:
					f()
				}
			}
		}()
	}
	expired, cancel := context.WithDeadline(context.Background(), time.Now().Add(-time.Second))
	defer cancel()
	badFlavor := vfCred{Flavor: 6, IP: "127.0.0.1", Port: 900}
	// writers the pinned tree really has: an expired lookup (RecordTimeout), a refused credential through HandleCall (RecordError)
	run("wired-timeout", func() { n.LookupWithContext(expired, "/f0") })
	run("wired-auth", func() {
		ac, cred := badFlavor.authCtx()
		call := &RPCCall{Header: RPCMsgHeader{Xid: 1, MsgType: RPC_CALL, RPCVersion: 2, Program: NFS_PROGRAM, Version: NFS_V3, Procedure: NFSPROC3_NULL},
			Credential: cred, Verifier: RPCVerifier{Body: []byte{}}}
		ac.Credential = &call.Credential
		env.h.HandleCall(call, bytes.NewReader(nil), ac)
	})
	run("op", func() { n.RecordOperationStart("READ")(nil) })
	run("operr", func() { n.RecordOperationStart("LOOKUP")(ErrTimeout) })
	for k := 0; k < 4; k++ {
		run("conn", func() { n.metrics.RecordConnection(); n.metrics.RecordConnectionClosed() })
	}
	run("cache", func() { n.RecordAttrCacheHit(); n.RecordNegativeCacheMiss() })
	run("timeout", func() { n.metrics.RecordTimeout("READ") })
	run("lookup", func() { n.Lookup("/f0"); n.Lookup("/nope") })
	for k := 0; k < 3; k++ {
		run("get", func() { _ = n.GetMetrics() })
	}
	run("health", func() { _ = n.IsHealthy() })
	ms := 1000
	if vfThorough() {
		ms = 4000
	}
	time.Sleep(time.Duration(vfEnvInt("VF_METRICS_RACE_MS", ms)) * time.Millisecond)
	close(stop)
	wg.Wait()
	m := n.GetMetrics()
	fmt.Printf("VFMET-RACE-DONE total=%d\n", m.TotalOperations)
}

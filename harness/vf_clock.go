package absnfs

// vf_clock.go: the virtual clock behind the check-time rewrite of time.Now() / time.Since()
// in rate_limiter.go and cache.go (DESIGN.md 2.5; vflib build_harness(clock_files=[...])).
// Shared by the rate-limiter and the cache families; it contains only the clock and one
// optional observer of clock reads (nil unless a driver installs it).

import (
	"sync"
	"sync/atomic"
	"time"
)

// vfClockHook, when set, is called by vfNow before the clock is read, outside the clock's own
// mutex and on the goroutine that reads the clock.  A driver uses it as a schedule point: the
// rewritten code reads the clock inside its critical sections (the expiry tests of the caches),
// so a hook that parks the caller there holds that section open while other goroutines are
// started (vf_lrucache.go).  Nothing is installed by default.
var vfClockHook atomic.Pointer[func()]

var vfClock = struct {
	mu  sync.Mutex
	now time.Time
}{now: time.Unix(1_700_000_000, 0)}

// vfNow is what the rewritten files call instead of time.Now().
func vfNow() time.Time {
	if h := vfClockHook.Load(); h != nil {
		(*h)()
	}
	vfClock.mu.Lock()
	defer vfClock.mu.Unlock()
	return vfClock.now
}

// vfClockSet sets the virtual time.
func vfClockSet(t time.Time) {
	vfClock.mu.Lock()
	vfClock.now = t
	vfClock.mu.Unlock()
}

// vfClockAdvance moves the virtual time forward by d.
func vfClockAdvance(d time.Duration) {
	vfClock.mu.Lock()
	vfClock.now = vfClock.now.Add(d)
	vfClock.mu.Unlock()
}

package absnfs

// vf_readdir.go: driver for C26 (specs/Readdir).
//
//   TestVF_Readdir : for seeded directories over the vfs backend (0..300 entries, name lengths
//   1..255, files / directories / symlinks, every cache configuration) a client lists the
//   directory with READDIR and READDIRPLUS through the real handlers, following the returned
//   cookies (and cookie verifier) to eof, for counts from 0 upward: the fixed list below, the
//   grid of all k-entry reply sizes +-1 (and those plus the code's margins), random values,
//   and listings that change count and procedure from call to call. One ndjson line per call:
//   procedure, cookie, count, dircount, status, length of the encoded resok (reply body minus
//   the status word), eof, and for every returned entry the index of its name in the
//   directory (0 = not a name of the directory), name length, fileid token, cookie,
//   presence of attributes and handle length. The directory itself (name lengths, fileids
//   from LOOKUP and from GETATTR as tokens) is logged once per history. The harness decides
//   nothing; ReaddirTrace does.
//
//   History 0 is the directed reproducer of finding F18 (six 251-byte names; READDIR count
//   0, 64, 200, 400; READDIRPLUS maxcount 0, 300), history 1 the one of F18c (names that
//   contain ".." or a backslash).

import (
	"fmt"
	"math/rand"
	"sort"
	"strings"
	"testing"
	"time"
)

const vfrdCap = 1<<30 - 1

func vfrdCapU(v uint64) int {
	if v > vfrdCap {
		return vfrdCap
	}
	return int(v)
}

const vfrdAlpha = "abcdefghijklmnopqrstuvwxyzABCDEFGHIJKLMNOPQRSTUVWXYZ0123456789"

// vfrdNamer hands out distinct names of a requested length (the next longer one when the
// alphabet is exhausted for that length).
type vfrdNamer struct{ next map[int]int }

func (nm *vfrdNamer) name(l int) string {
	for ; ; l++ {
		k := nm.next[l]
		cap := 1
		for i := 0; i < l && cap <= 1<<24; i++ {
			cap *= len(vfrdAlpha)
		}
		if k >= cap {
			continue
		}
		nm.next[l] = k + 1
		b := make([]byte, l)
		for i := l - 1; i >= 0; i-- {
			b[i] = vfrdAlpha[k%len(vfrdAlpha)]
			k /= len(vfrdAlpha)
		}
		return string(b)
	}
}

type vfrdEnt struct {
	Len int    `json:"len"`
	K   string `json:"k"`
	Fl  int    `json:"fl"`  // fileid token from LOOKUP (0 = LOOKUP failed)
	Fg  int    `json:"fg"`  // fileid token from GETATTR on the looked-up handle (0 = none)
	Nm  string `json:"nm"`  // first bytes of the name (for the reader)
	Odd bool   `json:"odd"` // the name contains ".." or a backslash
}

type vfrdHist struct {
	t      *testing.T
	tr     *vfTrace
	env    *vfEnv
	fs     *vfsFS
	dh     uint64
	names  []string       // directory's names in backend order
	index  map[string]int // name -> 1-based index
	ents   []vfrdEnt
	fidTok map[uint64]int
	r      *rand.Rand
	// summary
	listings, calls, eofs, multi int
}

func (h *vfrdHist) tok(v uint64) int {
	if t, ok := h.fidTok[v]; ok {
		return t
	}
	t := len(h.fidTok) + 1
	h.fidTok[v] = t
	return t
}

func vfrdShort(s string) string {
	if len(s) > 12 {
		return s[:12]
	}
	return s
}

// ids looks every name up through the server and logs the fileids LOOKUP and GETATTR report.
func (h *vfrdHist) ids() {
	fl, fg := make([]int, len(h.names)), make([]int, len(h.names))
	for i, n := range h.names {
		rep := h.env.Do(NFSPROC3_LOOKUP, vfArgsDirOp(h.dh, n), vfRoot)
		if !rep.OK() {
			continue
		}
		if a, ok := rep.Res.Val["obj"].(M); ok {
			fl[i] = h.tok(vfU(a["fileid"]))
		}
		if oh, ok := vfFH(rep.Res.Val["object"]); ok {
			g := h.env.Do(NFSPROC3_GETATTR, vfArgsFH(oh), vfRoot)
			if g.OK() {
				fg[i] = h.tok(vfU(vfGet(g.Res.Val, "obj", "fileid")))
			}
		}
	}
	h.tr.Emit(M{"ev": "ids", "fl": fl, "fg": fg})
}

type vfrdStep struct {
	proc     uint32
	count    uint32
	dircount uint32
}

// list runs one listing: calls follow the returned cookies until eof, an error, a reply that
// makes no progress, or too many calls. plan(k) gives procedure and counts of the k-th call.
func (h *vfrdHist) list(mode string, plan func(k int) vfrdStep) {
	h.listings++
	h.tr.Emit(M{"ev": "list", "mode": mode})
	var cookie uint64
	var verf [8]byte
	why := "maxcalls"
	ncalls := 0
	for k := 0; k < len(h.names)+6; k++ {
		st := plan(k)
		var rep *vfNFSReply
		pname := "READDIR"
		if st.proc == NFSPROC3_READDIRPLUS {
			pname = "READDIRPLUS"
			rep = h.env.Do(st.proc, vfArgsReaddirplus(h.dh, cookie, verf, st.dircount, st.count), vfRoot)
		} else {
			rep = h.env.Do(st.proc, vfArgsReaddir(h.dh, cookie, verf, st.count), vfRoot)
		}
		h.calls++
		ncalls++
		line := M{"ev": "call", "proc": pname, "ck": vfrdCapU(cookie), "count": vfrdCapU(uint64(st.count)),
			"dircount": vfrdCapU(uint64(st.dircount)), "st": rep.StatusName(), "size": 0, "eof": false, "attrs": false,
			"trail": 0, "ents": []M{}}
		if rep.Raw.Body != nil && len(rep.Raw.Body) >= 4 {
			line["size"] = len(rep.Raw.Body) - 4
		}
		if !rep.OK() {
			h.tr.Emit(line)
			why = "status"
			break
		}
		line["trail"] = rep.Res.Trailing
		line["eof"] = rep.Res.Val["eof"] == true
		line["attrs"] = rep.Res.Val["dir"] != nil
		if v, ok := rep.Res.Val["cookieverf"].([]byte); ok && len(v) == 8 {
			copy(verf[:], v)
		}
		raw, _ := rep.Res.Val["entries"].([]interface{})
		ents := make([]M, 0, len(raw))
		for _, e := range raw {
			em := e.(M)
			name, _ := em["name"].(string)
			ck := vfU(em["cookie"])
			ent := M{"i": h.index[name], "len": len(name), "fid": h.tok(vfU(em["fileid"])), "ck": vfrdCapU(ck), "ha": false, "fh": -1}
			if h.index[name] == 0 {
				ent["nm"] = vfrdShort(name)
			}
			if st.proc == NFSPROC3_READDIRPLUS {
				ent["ha"] = em["attr"] != nil
				if fh, ok := em["fh"].([]byte); ok {
					ent["fh"] = len(fh)
				}
			}
			ents = append(ents, ent)
			cookie = ck
		}
		line["ents"] = ents
		h.tr.Emit(line)
		if line["eof"] == true {
			why = "eof"
			h.eofs++
			break
		}
		if len(ents) == 0 {
			why = "noprogress"
			break
		}
	}
	if ncalls >= 3 && why == "eof" {
		h.multi++
	}
	h.tr.Emit(M{"ev": "end", "why": why, "calls": ncalls})
}

func (h *vfrdHist) fixed(proc uint32, count uint32) {
	mode := "READDIR"
	if proc == NFSPROC3_READDIRPLUS {
		mode = "READDIRPLUS"
	}
	dc := []uint32{0, 1, 100, count, 1 << 20}[h.r.Intn(5)]
	h.list(mode, func(int) vfrdStep { return vfrdStep{proc, count, dc} })
}

// vfrdSizes: XDR sizes as the client computes them to choose interesting counts (inputs only).
func vfrdEntrySize(plus bool, l int) int {
	s := 24 + (l+3)&^3
	if plus {
		s += 88 + 16
	}
	return s
}

// grid returns counts around every k-entry reply size starting at any entry (bounded).
func (h *vfrdHist) grid(plus bool) []uint32 {
	seen := map[uint32]bool{}
	var out []uint32
	add := func(v int) {
		if v >= 0 && !seen[uint32(v)] {
			seen[uint32(v)] = true
			out = append(out, uint32(v))
		}
	}
	margin := 100
	if plus {
		margin = 200
	}
	starts := []int{0}
	if len(h.names) > 1 {
		starts = append(starts, 1+h.r.Intn(len(h.names)-1))
	}
	for _, s := range starts {
		size := 104
		for k := 0; k <= 6 && s+k <= len(h.names); k++ {
			for _, d := range []int{-1, 0, 1} {
				add(size + d)
				add(size + margin + d - 4)
			}
			if s+k < len(h.names) {
				size += vfrdEntrySize(plus, len(h.names[s+k]))
			}
		}
	}
	return out
}

var vfrdFixedCounts = []uint32{0, 1, 19, 20, 50, 64, 100, 103, 104, 105, 127, 128, 131, 132, 133, 136, 200, 227, 228, 229, 255, 256, 300, 383, 384,
	400, 455, 456, 457, 512, 1024, 4096, 8192, 32768, 65536, 1 << 20, 1<<31 - 1, 1 << 31, 1<<32 - 1}

func vfrdKinds(r *rand.Rand) string {
	switch x := r.Intn(10); {
	case x < 7:
		return "F"
	case x < 9:
		return "D"
	}
	return "L"
}

type vfrdCfg struct {
	Dir   bool   `json:"dir"`
	Neg   bool   `json:"neg"`
	TTL   string `json:"ttl"`
	ACS   int    `json:"acs"` // attribute cache size (0 = default)
	Root  bool   `json:"root"`
	IdsAt string `json:"idsat"`
	Prof  string `json:"prof"`
}

func vfrdHistory(t *testing.T, tr *vfTrace, hno int, seed int64, perHist int) *vfrdHist {
	r := vfRand(seed, fmt.Sprintf("readdir-%d", hno))
	fs := vfNewFS()
	cfg := vfrdCfg{Dir: hno%2 == 1, Neg: hno%3 == 0, TTL: []string{"min", "def"}[(hno/2)%2], Root: hno%7 == 4, IdsAt: []string{"first", "last"}[(hno/3)%2]}
	if hno%5 == 3 {
		cfg.ACS = 2
	}
	base := "/d"
	if cfg.Root {
		base = ""
	} else {
		fs.vfPoke("/d", "D", nil, "", 0755)
		fs.vfPoke("/other", "F", []byte("o"), "", 0644)
	}
	nm := &vfrdNamer{next: map[int]int{}}
	var names []string
	kinds := map[string]string{}
	addName := func(n, k string) {
		names = append(names, n)
		kinds[n] = k
		switch k {
		case "D":
			fs.vfPoke(base+"/"+n, "D", nil, "", 0755)
		case "L":
			fs.vfPoke(base+"/"+n, "L", nil, "nowhere", 0777)
		default:
			fs.vfPoke(base+"/"+n, "F", []byte("data"), "", 0644)
		}
	}
	thorough := vfThorough()
	switch {
	case hno == 0:
		cfg.Prof = "F18"
		for i := 0; i < 6; i++ {
			addName(nm.name(251), "F")
		}
	case hno == 1:
		cfg.Prof = "oddnames"
		for _, n := range []string{"a", "a..b", "b\\c", "...", "..a", "z", "m.", ".n", "p.q"} {
			addName(n, "F")
		}
	case hno == 2:
		cfg.Prof = "empty"
	default:
		sizes := []int{1, 2, 3, 4, 6, 9, 14, 25, 40}
		if thorough {
			sizes = append(sizes, 64, 100, 180, 255, 300)
		}
		n := sizes[(hno-3)%len(sizes)]
		cfg.Prof = []string{"short", "long", "mixed", "every", "edge"}[r.Intn(5)]
		step := 1 + r.Intn(97)
		for i := 0; i < n; i++ {
			var l int
			switch cfg.Prof {
			case "short":
				l = 1 + r.Intn(4)
			case "long":
				l = 248 + r.Intn(8)
			case "mixed":
				l = 1 + r.Intn(255)
			case "every":
				l = 1 + (i*step+hno)%255
			default:
				l = []int{1, 3, 4, 5, 68, 69, 96, 97, 254, 255}[r.Intn(10)]
			}
			addName(nm.name(l), vfrdKinds(r))
		}
	}
	sort.Strings(names) // the vfs backend lists in byte order
	opts := ExportOptions{CacheNegativeLookups: cfg.Neg, EnableDirCache: cfg.Dir, MaxWorkers: 2, AttrCacheSize: cfg.ACS}
	if cfg.TTL == "min" {
		opts.AttrCacheTimeout = time.Nanosecond
		opts.NegativeCacheTimeout = time.Nanosecond
		opts.DirCacheTimeout = time.Nanosecond
	}
	env := vfNewEnv(t, fs, opts)
	h := &vfrdHist{t: t, tr: tr, env: env, fs: fs, names: names, index: map[string]int{}, fidTok: map[uint64]int{}, r: r, ents: []vfrdEnt{}}
	for i, n := range names {
		h.index[n] = i + 1
		h.ents = append(h.ents, vfrdEnt{Len: len(n), K: kinds[n], Nm: vfrdShort(n), Odd: strings.Contains(n, "..") || strings.Contains(n, "\\")})
	}
	root := env.Mount(t, vfRoot)
	h.dh = root
	if !cfg.Root {
		rep := env.Do(NFSPROC3_LOOKUP, vfArgsDirOp(root, "d"), vfRoot)
		dh, ok := vfFH(rep.Res.Val["object"])
		if !rep.OK() || !ok {
			t.Fatalf("LOOKUP /d failed: %s", rep.StatusName())
		}
		h.dh = dh
	}
	odd := 0
	for _, n := range names {
		if strings.Contains(n, "..") || strings.Contains(n, "\\") {
			odd++
		}
	}
	tr.Emit(M{"ev": "reset", "hist": hno, "seed": seed, "cfg": cfg, "n": len(names), "dir": h.ents, "odd": odd})
	if cfg.IdsAt == "first" {
		h.ids()
	}
	switch {
	case hno == 0:
		for _, c := range []uint32{0, 64, 200, 400} {
			h.fixed(NFSPROC3_READDIR, c)
		}
		for _, c := range []uint32{0, 300} {
			h.fixed(NFSPROC3_READDIRPLUS, c)
		}
		for _, c := range []uint32{379, 380, 381, 655, 656, 657, 1760, 8192} {
			h.fixed(NFSPROC3_READDIR, c)
		}
		for _, c := range []uint32{487, 488, 489, 688, 872, 4096} {
			h.fixed(NFSPROC3_READDIRPLUS, c)
		}
	case hno == 1 || hno == 2:
		for _, c := range []uint32{0, 50, 104, 132, 400, 4096} {
			h.fixed(NFSPROC3_READDIR, c)
			h.fixed(NFSPROC3_READDIRPLUS, c)
		}
	default:
		// candidate counts: fixed list + grid, sampled down to the per-history budget
		type pc struct {
			proc  uint32
			count uint32
		}
		var cand []pc
		for _, proc := range []uint32{NFSPROC3_READDIR, NFSPROC3_READDIRPLUS} {
			for _, c := range vfrdFixedCounts {
				cand = append(cand, pc{proc, c})
			}
			for _, c := range h.grid(proc == NFSPROC3_READDIRPLUS) {
				cand = append(cand, pc{proc, c})
			}
		}
		r.Shuffle(len(cand), func(i, j int) { cand[i], cand[j] = cand[j], cand[i] })
		budget := perHist
		if len(names) > 60 {
			budget = perHist / 3
		}
		nmixed := budget / 5
		if budget > len(cand) {
			budget = len(cand)
		}
		for _, c := range cand[:budget] {
			h.fixed(c.proc, c.count)
		}
		// listings that change procedure and count from call to call
		g0, g1 := h.grid(false), h.grid(true)
		for m := 0; m < nmixed; m++ {
			h.list("mixed", func(int) vfrdStep {
				if r.Intn(2) == 0 {
					return vfrdStep{NFSPROC3_READDIR, g0[r.Intn(len(g0))], 0}
				}
				c := g1[r.Intn(len(g1))]
				return vfrdStep{NFSPROC3_READDIRPLUS, c, []uint32{0, c, 512}[r.Intn(3)]}
			})
		}
	}
	if cfg.IdsAt == "last" {
		h.ids()
	}
	env.Close()
	return h
}

func TestVF_Readdir(t *testing.T) {
	seed := vfSeed()
	nh := vfEnvInt("VF_HIST", 14)
	per := vfEnvInt("VF_LISTINGS", 30)
	tr := vfNewTrace(t, "readdir.ndjson")
	defer tr.Close()
	tot := M{"histories": 0, "listings": 0, "calls": 0, "eof": 0, "nontrivial": 0}
	var samples []M
	for hno := 0; hno < nh; hno++ {
		h := vfrdHistory(t, tr, hno, seed, per)
		tot["histories"] = tot["histories"].(int) + 1
		tot["listings"] = tot["listings"].(int) + h.listings
		tot["calls"] = tot["calls"].(int) + h.calls
		tot["eof"] = tot["eof"].(int) + h.eofs
		tot["nontrivial"] = tot["nontrivial"].(int) + h.multi
		if len(samples) < 3 {
			samples = append(samples, M{"hist": hno, "entries": len(h.names), "listings": h.listings, "calls": h.calls})
		}
	}
	tot["samples"] = samples
	vfWriteJSON(t, "readdir.summary.json", tot)
}

package absnfs

// vf_common.go: shared harness plumbing (package absnfs, injected by -overlay; never in /repo).
//  - environment (seed, tier, output dir), ndjson trace writer
//  - construction of a server over a backend without TCP (HandleCall level)
//  - XDR argument builders for every NFSv3 / MOUNT procedure
//  - a schema-driven XDR reply decoder (RFC 1813 result types)

import (
	"bytes"
	"encoding/binary"
	"encoding/json"
	"fmt"
	"io"
	"log"
	"math/rand"
	"os"
	"path/filepath"
	"strconv"
	"strings"
	"testing"
	"time"

	"github.com/absfs/absfs"
)

// ---------------------------------------------------------------- environment

func vfSeed() int64 {
	s, err := strconv.ParseInt(os.Getenv("VERIF_SEED"), 10, 64)
	if err != nil {
		return 1
	}
	return s
}

func vfTier() string {
	if os.Getenv("VERIF_TIER") == "thorough" {
		return "thorough"
	}
	return "quick"
}

func vfThorough() bool { return vfTier() == "thorough" }

func vfEnvInt(name string, def int) int {
	if v, err := strconv.Atoi(os.Getenv(name)); err == nil {
		return v
	}
	return def
}

func vfOutDir(t testing.TB) string {
	d := os.Getenv("VF_OUT")
	if d == "" {
		d = t.TempDir()
	}
	return d
}

// vfTrace writes one JSON object per line.
type vfTrace struct {
	f   *os.File
	w   *bytes.Buffer
	n   int
	err error
}

func vfNewTrace(t testing.TB, name string) *vfTrace {
	f, err := os.Create(filepath.Join(vfOutDir(t), name))
	if err != nil {
		t.Fatalf("trace: %v", err)
	}
	return &vfTrace{f: f, w: &bytes.Buffer{}}
}

func (tr *vfTrace) Emit(v interface{}) {
	b, err := json.Marshal(v)
	if err != nil {
		tr.err = err
		panic(fmt.Sprintf("trace marshal: %v (%#v)", err, v))
	}
	tr.w.Write(b)
	tr.w.WriteByte('\n')
	tr.n++
	if tr.w.Len() > 1<<20 {
		tr.f.Write(tr.w.Bytes())
		tr.w.Reset()
	}
}

func (tr *vfTrace) Close() {
	tr.f.Write(tr.w.Bytes())
	tr.f.Close()
}

// vfWriteJSON writes a summary file next to the traces.
func vfWriteJSON(t testing.TB, name string, v interface{}) {
	b, err := json.Marshal(v)
	if err != nil {
		t.Fatalf("summary marshal: %v", err)
	}
	if err := os.WriteFile(filepath.Join(vfOutDir(t), name), b, 0644); err != nil {
		t.Fatalf("summary: %v", err)
	}
}

type M = map[string]interface{}

// ---------------------------------------------------------------- server without TCP

type vfEnv struct {
	n   *AbsfsNFS
	srv *Server
	h   *NFSProcedureHandler
	fs  *vfsFS // nil when a foreign backend is used
	log *bytes.Buffer
	xid uint32
}

// vfNewEnv builds AbsfsNFS + Server + procedure handler over the backend, no listener.
func vfNewEnv(t testing.TB, backend absfs.SymlinkFileSystem, opts ExportOptions) *vfEnv {
	n, err := New(backend, opts)
	if err != nil {
		t.Fatalf("New: %v", err)
	}
	lb := &bytes.Buffer{}
	n.logger = log.New(lb, "", 0)
	srv, err := NewServer(ServerOptions{Name: "vf", Hostname: "127.0.0.1"})
	if err != nil {
		t.Fatalf("NewServer: %v", err)
	}
	srv.logger = log.New(lb, "", 0)
	srv.SetHandler(n)
	e := &vfEnv{n: n, srv: srv, h: &NFSProcedureHandler{server: srv}, log: lb, xid: 1000}
	if v, ok := backend.(*vfsFS); ok {
		e.fs = v
	}
	return e
}

func (e *vfEnv) Close() {
	e.n.Close()
}

// vfCred describes the caller.
type vfCred struct {
	Flavor uint32
	UID    uint32
	GID    uint32
	Aux    []uint32
	IP     string
	Port   int
	Raw    []byte // if non-nil, used as the credential body verbatim
}

var vfRoot = vfCred{Flavor: AUTH_SYS, UID: 0, GID: 0, IP: "127.0.0.1", Port: 1000}

func vfAuthSysBody(stamp uint32, machine string, uid, gid uint32, aux []uint32) []byte {
	var b bytes.Buffer
	xdrEncodeUint32(&b, stamp)
	xdrEncodeString(&b, machine)
	xdrEncodeUint32(&b, uid)
	xdrEncodeUint32(&b, gid)
	xdrEncodeUint32(&b, uint32(len(aux)))
	for _, g := range aux {
		xdrEncodeUint32(&b, g)
	}
	return b.Bytes()
}

func (c vfCred) authCtx() (*AuthContext, RPCCredential) {
	body := c.Raw
	if body == nil && c.Flavor == AUTH_SYS {
		body = vfAuthSysBody(1, "vf", c.UID, c.GID, c.Aux)
	}
	if body == nil {
		body = []byte{}
	}
	cred := RPCCredential{Flavor: c.Flavor, Body: body}
	ip := c.IP
	if ip == "" {
		ip = "127.0.0.1"
	}
	return &AuthContext{ClientIP: ip, ClientPort: c.Port, Credential: &cred}, cred
}

// vfRaw is the outcome of one HandleCall.
type vfRaw struct {
	Xid     uint32
	Err     error     // HandleCall returned an error (timeout)
	Reply   *RPCReply // as returned
	Wire    []byte    // EncodeRPCReply output
	Body    []byte    // procedure results (after accept_stat) when accepted/SUCCESS
	Denied  bool
	Accept  uint32
	Elapsed time.Duration
}

// Call sends one call through HandleCall exactly as the connection loop would.
func (e *vfEnv) Call(prog, vers, proc uint32, args []byte, c vfCred) *vfRaw {
	e.xid++
	ac, cred := c.authCtx()
	call := &RPCCall{Header: RPCMsgHeader{Xid: e.xid, MsgType: RPC_CALL, RPCVersion: 2, Program: prog, Version: vers, Procedure: proc},
		Credential: cred, Verifier: RPCVerifier{Body: []byte{}}}
	ac.Credential = &call.Credential
	t0 := time.Now()
	rep, err := e.h.HandleCall(call, bytes.NewReader(args), ac)
	r := &vfRaw{Xid: e.xid, Err: err, Reply: rep, Elapsed: time.Since(t0)}
	if err != nil || rep == nil {
		return r
	}
	var w bytes.Buffer
	if encErr := EncodeRPCReply(&w, rep); encErr != nil {
		r.Err = encErr
		return r
	}
	r.Wire = w.Bytes()
	vfParseRPCReply(r)
	return r
}

// vfParseRPCReply splits an encoded reply into header fields and the result body.
func vfParseRPCReply(r *vfRaw) {
	b := r.Wire
	if len(b) < 12 {
		return
	}
	stat := binary.BigEndian.Uint32(b[8:12])
	if stat == MSG_DENIED {
		r.Denied = true
		return
	}
	if len(b) < 24 {
		return
	}
	vlen := int(binary.BigEndian.Uint32(b[16:20]))
	off := 20 + (vlen+3)&^3
	if len(b) < off+4 {
		return
	}
	r.Accept = binary.BigEndian.Uint32(b[off : off+4])
	r.Body = b[off+4:]
}

func (e *vfEnv) NFS(proc uint32, args []byte, c vfCred) *vfRaw {
	return e.Call(NFS_PROGRAM, NFS_V3, proc, args, c)
}

// Mount returns the root handle via MOUNT MNT "/".
func (e *vfEnv) Mount(t testing.TB, c vfCred) uint64 {
	var a bytes.Buffer
	xdrEncodeString(&a, "/")
	r := e.Call(MOUNT_PROGRAM, MOUNT_V3, 1, a.Bytes(), c)
	if r.Err != nil || r.Denied || len(r.Body) < 16 || binary.BigEndian.Uint32(r.Body[0:4]) != 0 {
		t.Fatalf("MNT failed: %+v", r)
	}
	return binary.BigEndian.Uint64(r.Body[8:16])
}

// MountPath sends MNT for dirpath; ok is false when the server refused it.
func (e *vfEnv) MountPath(dirpath string, c vfCred) (uint64, bool) {
	var a bytes.Buffer
	xdrEncodeString(&a, dirpath)
	r := e.Call(MOUNT_PROGRAM, MOUNT_V3, 1, a.Bytes(), c)
	if r.Err != nil || r.Denied || len(r.Body) < 16 || binary.BigEndian.Uint32(r.Body[0:4]) != 0 {
		return 0, false
	}
	return binary.BigEndian.Uint64(r.Body[8:16]), true
}

// ---------------------------------------------------------------- argument builders

type vfSattr struct {
	Mode     *uint32
	UID      *uint32
	GID      *uint32
	Size     *uint64
	AtimeHow uint32 // 0,1,2
	MtimeHow uint32
	Atime    [2]uint32
	Mtime    [2]uint32
}

func u32p(v uint32) *uint32 { return &v }
func u64p(v uint64) *uint64 { return &v }

func vfEncSattr(b *bytes.Buffer, s vfSattr) {
	opt32 := func(p *uint32) {
		if p != nil {
			xdrEncodeUint32(b, 1)
			xdrEncodeUint32(b, *p)
		} else {
			xdrEncodeUint32(b, 0)
		}
	}
	opt32(s.Mode)
	opt32(s.UID)
	opt32(s.GID)
	if s.Size != nil {
		xdrEncodeUint32(b, 1)
		xdrEncodeUint64(b, *s.Size)
	} else {
		xdrEncodeUint32(b, 0)
	}
	xdrEncodeUint32(b, s.AtimeHow)
	if s.AtimeHow == 2 {
		xdrEncodeUint32(b, s.Atime[0])
		xdrEncodeUint32(b, s.Atime[1])
	}
	xdrEncodeUint32(b, s.MtimeHow)
	if s.MtimeHow == 2 {
		xdrEncodeUint32(b, s.Mtime[0])
		xdrEncodeUint32(b, s.Mtime[1])
	}
}

func vfEncOpaque(b *bytes.Buffer, data []byte) {
	xdrEncodeUint32(b, uint32(len(data)))
	b.Write(data)
	if pad := (4 - len(data)%4) % 4; pad > 0 {
		b.Write(make([]byte, pad))
	}
}

func vfArgsFH(fh uint64) []byte {
	var b bytes.Buffer
	xdrEncodeFileHandle(&b, fh)
	return b.Bytes()
}

func vfArgsDirOp(fh uint64, name string) []byte {
	var b bytes.Buffer
	xdrEncodeFileHandle(&b, fh)
	vfEncOpaque(&b, []byte(name))
	return b.Bytes()
}

func vfArgsSetattr(fh uint64, s vfSattr, guard *[2]uint32) []byte {
	var b bytes.Buffer
	xdrEncodeFileHandle(&b, fh)
	vfEncSattr(&b, s)
	if guard != nil {
		xdrEncodeUint32(&b, 1)
		xdrEncodeUint32(&b, guard[0])
		xdrEncodeUint32(&b, guard[1])
	} else {
		xdrEncodeUint32(&b, 0)
	}
	return b.Bytes()
}

func vfArgsAccess(fh uint64, mask uint32) []byte {
	var b bytes.Buffer
	xdrEncodeFileHandle(&b, fh)
	xdrEncodeUint32(&b, mask)
	return b.Bytes()
}

func vfArgsRead(fh uint64, off uint64, count uint32) []byte {
	var b bytes.Buffer
	xdrEncodeFileHandle(&b, fh)
	xdrEncodeUint64(&b, off)
	xdrEncodeUint32(&b, count)
	return b.Bytes()
}

func vfArgsWrite(fh uint64, off uint64, stable uint32, data []byte) []byte {
	var b bytes.Buffer
	xdrEncodeFileHandle(&b, fh)
	xdrEncodeUint64(&b, off)
	xdrEncodeUint32(&b, uint32(len(data)))
	xdrEncodeUint32(&b, stable)
	vfEncOpaque(&b, data)
	return b.Bytes()
}

// how: 0 UNCHECKED, 1 GUARDED, 2 EXCLUSIVE
func vfArgsCreate(fh uint64, name string, how uint32, s vfSattr, verf [8]byte) []byte {
	var b bytes.Buffer
	xdrEncodeFileHandle(&b, fh)
	vfEncOpaque(&b, []byte(name))
	xdrEncodeUint32(&b, how)
	if how == 2 {
		b.Write(verf[:])
	} else {
		vfEncSattr(&b, s)
	}
	return b.Bytes()
}

func vfArgsMkdir(fh uint64, name string, s vfSattr) []byte {
	var b bytes.Buffer
	xdrEncodeFileHandle(&b, fh)
	vfEncOpaque(&b, []byte(name))
	vfEncSattr(&b, s)
	return b.Bytes()
}

func vfArgsSymlink(fh uint64, name string, s vfSattr, target string) []byte {
	var b bytes.Buffer
	xdrEncodeFileHandle(&b, fh)
	vfEncOpaque(&b, []byte(name))
	vfEncSattr(&b, s)
	vfEncOpaque(&b, []byte(target))
	return b.Bytes()
}

func vfArgsRename(fh1 uint64, n1 string, fh2 uint64, n2 string) []byte {
	var b bytes.Buffer
	xdrEncodeFileHandle(&b, fh1)
	vfEncOpaque(&b, []byte(n1))
	xdrEncodeFileHandle(&b, fh2)
	vfEncOpaque(&b, []byte(n2))
	return b.Bytes()
}

func vfArgsLink(fh uint64, dir uint64, name string) []byte {
	var b bytes.Buffer
	xdrEncodeFileHandle(&b, fh)
	xdrEncodeFileHandle(&b, dir)
	vfEncOpaque(&b, []byte(name))
	return b.Bytes()
}

func vfArgsMknod(fh uint64, name string, ftype uint32) []byte {
	var b bytes.Buffer
	xdrEncodeFileHandle(&b, fh)
	vfEncOpaque(&b, []byte(name))
	xdrEncodeUint32(&b, ftype)
	return b.Bytes()
}

func vfArgsReaddir(fh uint64, cookie uint64, verf [8]byte, count uint32) []byte {
	var b bytes.Buffer
	xdrEncodeFileHandle(&b, fh)
	xdrEncodeUint64(&b, cookie)
	b.Write(verf[:])
	xdrEncodeUint32(&b, count)
	return b.Bytes()
}

func vfArgsReaddirplus(fh uint64, cookie uint64, verf [8]byte, dircount, maxcount uint32) []byte {
	var b bytes.Buffer
	xdrEncodeFileHandle(&b, fh)
	xdrEncodeUint64(&b, cookie)
	b.Write(verf[:])
	xdrEncodeUint32(&b, dircount)
	xdrEncodeUint32(&b, maxcount)
	return b.Bytes()
}

func vfArgsCommit(fh uint64, off uint64, count uint32) []byte {
	return vfArgsRead(fh, off, count)
}

// ---------------------------------------------------------------- schema-driven XDR decoder

// A schema type is one of:
//
//	"u32" "u64" "bool" "string" "opaque" "fh" "verf8"
//	["struct", [[name, T], ...]]   ["opt", T]   ["list", T]   ["ref", name]
//
// A procedure result is {"ok": T, "fail": T}, chosen by the leading status word.
type vfSchema struct {
	Types map[string]interface{}            `json:"types"`
	Procs map[string]map[string]interface{} `json:"procs"`
}

type vfDec struct {
	b   []byte
	pos int
	err error
	sch *vfSchema
}

func (d *vfDec) u32() uint32 {
	if d.err != nil {
		return 0
	}
	if d.pos+4 > len(d.b) {
		d.err = io.ErrUnexpectedEOF
		return 0
	}
	v := binary.BigEndian.Uint32(d.b[d.pos:])
	d.pos += 4
	return v
}

func (d *vfDec) u64() uint64 {
	hi := d.u32()
	lo := d.u32()
	return uint64(hi)<<32 | uint64(lo)
}

func (d *vfDec) opaque(max int) []byte {
	n := int(d.u32())
	if d.err != nil {
		return nil
	}
	if max > 0 && n > max {
		d.err = fmt.Errorf("opaque length %d exceeds %d", n, max)
		return nil
	}
	pn := (n + 3) &^ 3
	if d.pos+pn > len(d.b) {
		d.err = io.ErrUnexpectedEOF
		return nil
	}
	v := d.b[d.pos : d.pos+n]
	for _, p := range d.b[d.pos+n : d.pos+pn] {
		if p != 0 {
			d.err = fmt.Errorf("non-zero XDR padding")
		}
	}
	d.pos += pn
	return v
}

func (d *vfDec) value(t interface{}) interface{} {
	if d.err != nil {
		return nil
	}
	switch tt := t.(type) {
	case string:
		switch tt {
		case "u32":
			return uint64(d.u32())
		case "u64":
			return d.u64()
		case "bool":
			v := d.u32()
			if v > 1 && d.err == nil {
				d.err = fmt.Errorf("bool value %d", v)
			}
			return v == 1
		case "string":
			return string(d.opaque(0))
		case "opaque":
			return d.opaque(0)
		case "fh":
			return d.opaque(64)
		case "verf8":
			if d.pos+8 > len(d.b) {
				d.err = io.ErrUnexpectedEOF
				return nil
			}
			v := d.b[d.pos : d.pos+8]
			d.pos += 8
			return v
		}
		d.err = fmt.Errorf("unknown schema type %q", tt)
		return nil
	case []interface{}:
		switch tt[0].(string) {
		case "ref":
			return d.value(d.sch.Types[tt[1].(string)])
		case "struct":
			out := M{}
			for _, f := range tt[1].([]interface{}) {
				ff := f.([]interface{})
				out[ff[0].(string)] = d.value(ff[1])
				if d.err != nil {
					return out
				}
			}
			return out
		case "opt":
			present := d.u32()
			if d.err != nil {
				return nil
			}
			if present > 1 {
				d.err = fmt.Errorf("optional discriminant %d", present)
				return nil
			}
			if present == 0 {
				return nil
			}
			return d.value(tt[1])
		case "array":
			n := int(d.u32())
			out := []interface{}{}
			for i := 0; i < n && d.err == nil; i++ {
				if i > 1<<16 {
					d.err = fmt.Errorf("array too long")
					break
				}
				out = append(out, d.value(tt[1]))
			}
			return out
		case "list":
			out := []interface{}{}
			for {
				more := d.u32()
				if d.err != nil {
					return out
				}
				if more > 1 {
					d.err = fmt.Errorf("list discriminant %d", more)
					return out
				}
				if more == 0 {
					return out
				}
				out = append(out, d.value(tt[1]))
				if d.err != nil {
					return out
				}
				if len(out) > 1<<20 {
					d.err = fmt.Errorf("list too long")
					return out
				}
			}
		}
	}
	d.err = fmt.Errorf("bad schema node %#v", t)
	return nil
}

// vfResult is a decoded procedure result.
type vfResult struct {
	Status   uint32
	Val      M     // decoded fields
	Err      error // decoding error (short, bad discriminant, ...)
	Trailing int   // bytes left after the result
}

// Decode decodes body as the result of proc ("NFS3.LOOKUP", "MOUNT3.MNT", ...).
func (s *vfSchema) Decode(proc string, body []byte) *vfResult {
	p, ok := s.Procs[proc]
	if !ok {
		return &vfResult{Err: fmt.Errorf("no schema for %s", proc)}
	}
	d := &vfDec{b: body, sch: s}
	res := &vfResult{}
	if v, void := p["void"]; void && v == true {
		res.Trailing = len(body)
		res.Val = M{}
		return res
	}
	res.Status = d.u32()
	if d.err != nil {
		res.Err = d.err
		return res
	}
	var t interface{}
	if res.Status == 0 {
		t = p["ok"]
	} else {
		t = p["fail"]
	}
	v := d.value(t)
	if m, ok := v.(M); ok {
		res.Val = m
	} else {
		res.Val = M{"v": v}
	}
	res.Err = d.err
	res.Trailing = len(d.b) - d.pos
	return res
}

func st(fields ...interface{}) interface{} {
	var fs []interface{}
	for i := 0; i < len(fields); i += 2 {
		fs = append(fs, []interface{}{fields[i], fields[i+1]})
	}
	return []interface{}{"struct", fs}
}
func ref(n string) interface{}      { return []interface{}{"ref", n} }
func opt(t interface{}) interface{} { return []interface{}{"opt", t} }
func lst(t interface{}) interface{} { return []interface{}{"list", t} }

// vfBuiltinSchema is RFC 1813's result types (used by the core checks; C14 cross-checks it
// against the schema exported from specs/ReplyShape).
func vfBuiltinSchema() *vfSchema {
	nfstime := st("sec", "u32", "nsec", "u32")
	s := &vfSchema{Types: map[string]interface{}{}, Procs: map[string]map[string]interface{}{}}
	s.Types["nfstime3"] = nfstime
	s.Types["fattr3"] = st("type", "u32", "mode", "u32", "nlink", "u32", "uid", "u32", "gid", "u32", "size", "u64", "used", "u64",
		"rdev1", "u32", "rdev2", "u32", "fsid", "u64", "fileid", "u64", "atime", ref("nfstime3"), "mtime", ref("nfstime3"), "ctime", ref("nfstime3"))
	s.Types["wcc_attr"] = st("size", "u64", "mtime", ref("nfstime3"), "ctime", ref("nfstime3"))
	s.Types["post_op_attr"] = opt(ref("fattr3"))
	s.Types["pre_op_attr"] = opt(ref("wcc_attr"))
	s.Types["wcc_data"] = st("before", ref("pre_op_attr"), "after", ref("post_op_attr"))
	s.Types["post_op_fh3"] = opt("fh")
	poa, wcc := ref("post_op_attr"), ref("wcc_data")
	pr := func(name string, ok, fail interface{}) {
		s.Procs[name] = map[string]interface{}{"ok": ok, "fail": fail}
	}
	empty := st()
	s.Procs["NFS3.NULL"] = map[string]interface{}{"void": true}
	pr("NFS3.GETATTR", st("obj", ref("fattr3")), empty)
	pr("NFS3.SETATTR", st("obj_wcc", wcc), st("obj_wcc", wcc))
	pr("NFS3.LOOKUP", st("object", "fh", "obj", poa, "dir", poa), st("dir", poa))
	pr("NFS3.ACCESS", st("obj", poa, "access", "u32"), st("obj", poa))
	pr("NFS3.READLINK", st("obj", poa, "data", "string"), st("obj", poa))
	pr("NFS3.READ", st("obj", poa, "count", "u32", "eof", "bool", "data", "opaque"), st("obj", poa))
	pr("NFS3.WRITE", st("obj_wcc", wcc, "count", "u32", "committed", "u32", "verf", "verf8"), st("obj_wcc", wcc))
	newobj := st("object", ref("post_op_fh3"), "obj", poa, "dir_wcc", wcc)
	pr("NFS3.CREATE", newobj, st("dir_wcc", wcc))
	pr("NFS3.MKDIR", newobj, st("dir_wcc", wcc))
	pr("NFS3.SYMLINK", newobj, st("dir_wcc", wcc))
	pr("NFS3.MKNOD", newobj, st("dir_wcc", wcc))
	pr("NFS3.REMOVE", st("dir_wcc", wcc), st("dir_wcc", wcc))
	pr("NFS3.RMDIR", st("dir_wcc", wcc), st("dir_wcc", wcc))
	pr("NFS3.RENAME", st("fromdir_wcc", wcc, "todir_wcc", wcc), st("fromdir_wcc", wcc, "todir_wcc", wcc))
	pr("NFS3.LINK", st("obj", poa, "linkdir_wcc", wcc), st("obj", poa, "linkdir_wcc", wcc))
	entry := st("fileid", "u64", "name", "string", "cookie", "u64")
	pr("NFS3.READDIR", st("dir", poa, "cookieverf", "verf8", "entries", lst(entry), "eof", "bool"), st("dir", poa))
	entryp := st("fileid", "u64", "name", "string", "cookie", "u64", "attr", poa, "fh", ref("post_op_fh3"))
	pr("NFS3.READDIRPLUS", st("dir", poa, "cookieverf", "verf8", "entries", lst(entryp), "eof", "bool"), st("dir", poa))
	pr("NFS3.FSSTAT", st("obj", poa, "tbytes", "u64", "fbytes", "u64", "abytes", "u64", "tfiles", "u64", "ffiles", "u64", "afiles", "u64", "invarsec", "u32"), st("obj", poa))
	pr("NFS3.FSINFO", st("obj", poa, "rtmax", "u32", "rtpref", "u32", "rtmult", "u32", "wtmax", "u32", "wtpref", "u32", "wtmult", "u32",
		"dtpref", "u32", "maxfilesize", "u64", "time_delta", ref("nfstime3"), "properties", "u32"), st("obj", poa))
	pr("NFS3.PATHCONF", st("obj", poa, "linkmax", "u32", "name_max", "u32", "no_trunc", "bool", "chown_restricted", "bool",
		"case_insensitive", "bool", "case_preserving", "bool"), st("obj", poa))
	pr("NFS3.COMMIT", st("file_wcc", wcc, "verf", "verf8"), st("file_wcc", wcc))
	s.Procs["MOUNT3.NULL"] = map[string]interface{}{"void": true}
	pr("MOUNT3.MNT", st("fhandle", "fh", "auth_flavors", []interface{}{"array", "u32"}), empty)
	return s
}

var vfNFSProcNames = map[uint32]string{0: "NULL", 1: "GETATTR", 2: "SETATTR", 3: "LOOKUP", 4: "ACCESS", 5: "READLINK", 6: "READ", 7: "WRITE",
	8: "CREATE", 9: "MKDIR", 10: "SYMLINK", 11: "MKNOD", 12: "REMOVE", 13: "RMDIR", 14: "RENAME", 15: "LINK", 16: "READDIR",
	17: "READDIRPLUS", 18: "FSSTAT", 19: "FSINFO", 20: "PATHCONF", 21: "COMMIT"}

var vfNFSStatNames = map[uint32]string{0: "OK", 1: "PERM", 2: "NOENT", 5: "IO", 6: "NXIO", 13: "ACCES", 17: "EXIST", 18: "XDEV", 19: "NODEV", 20: "NOTDIR",
	21: "ISDIR", 22: "INVAL", 27: "FBIG", 28: "NOSPC", 30: "ROFS", 31: "MLINK", 63: "NAMETOOLONG", 66: "NOTEMPTY", 69: "DQUOT", 70: "STALE", 71: "REMOTE",
	10001: "BADHANDLE", 10002: "NOT_SYNC", 10003: "BAD_COOKIE", 10004: "NOTSUPP", 10005: "TOOSMALL", 10006: "SERVERFAULT", 10007: "BADTYPE", 10008: "JUKEBOX"}

func vfStatName(s uint32) string {
	if n, ok := vfNFSStatNames[s]; ok {
		return n
	}
	return "X" + strconv.FormatUint(uint64(s), 10)
}

var vfSch = vfBuiltinSchema()

// NFSDecoded is an NFS call with decoded result.
type vfNFSReply struct {
	Raw *vfRaw
	Res *vfResult
}

func (r *vfNFSReply) OK() bool {
	return r.Raw.Err == nil && !r.Raw.Denied && r.Raw.Accept == SUCCESS && r.Res != nil && r.Res.Err == nil && r.Res.Status == 0
}

func (r *vfNFSReply) StatusName() string {
	switch {
	case r.Raw.Err != nil:
		return "RPCERR"
	case r.Raw.Denied:
		return "DENIED"
	case r.Raw.Accept != SUCCESS:
		return "ACCEPT" + strconv.Itoa(int(r.Raw.Accept))
	case r.Res == nil || r.Res.Err != nil:
		return "UNDECODABLE"
	}
	return vfStatName(r.Res.Status)
}

// Do issues an NFSv3 call and decodes its result with the schema.
func (e *vfEnv) Do(proc uint32, args []byte, c vfCred) *vfNFSReply {
	raw := e.NFS(proc, args, c)
	out := &vfNFSReply{Raw: raw}
	if raw.Err == nil && !raw.Denied && raw.Accept == SUCCESS {
		out.Res = vfSch.Decode("NFS3."+vfNFSProcNames[proc], raw.Body)
	}
	return out
}

// helpers to dig values out of decoded results
func vfGet(m M, path ...string) interface{} {
	var cur interface{} = m
	for _, k := range path {
		mm, ok := cur.(M)
		if !ok {
			return nil
		}
		cur = mm[k]
	}
	return cur
}

func vfFH(v interface{}) (uint64, bool) {
	b, ok := v.([]byte)
	if !ok || len(b) != 8 {
		return 0, false
	}
	return binary.BigEndian.Uint64(b), true
}

func vfU(v interface{}) uint64 {
	if u, ok := v.(uint64); ok {
		return u
	}
	return 0
}

var vfTypeNames = map[uint64]string{1: "REG", 2: "DIR", 3: "BLK", 4: "CHR", 5: "LNK", 6: "SOCK", 7: "FIFO"}

// ---------------------------------------------------------------- misc

func vfRand(seed int64, salt string) *rand.Rand {
	h := int64(1469598103934665603)
	for _, c := range salt {
		h = (h ^ int64(c)) * 1099511628211
	}
	return rand.New(rand.NewSource(seed*7919 + h))
}

func vfPathSeq(p string) []string {
	p = strings.Trim(p, "/")
	if p == "" {
		return []string{}
	}
	return strings.Split(p, "/")
}

package absnfs

// vf_connmgr.go: drivers for C17 (specs/ConnMgr), real TCP over loopback.
//
//   TestVF_ConnMgr : histories of concurrent connection opens / pings / closes / idle periods with
//                    Server.Stop, AbsfsNFS.Close and Unexport at random moments and repeated, on servers
//                    started with Server.Listen (record marking) and with AbsfsNFS.Export (raw framing);
//                    goroutine census (runtime.Stack) before Listen and after Stop.
//
// The harness records; it never judges.  Events: vhook call sites under connMutex (cm.accept / cm.reject /
// cm.unreg with the count), cm.reap, cl.start, sv.stop.*; client-side observations (send, reply, dead,
// close); the driver's own calls (st.call / st.ret, cx.call / cx.ret with the handle and cache counts
// read in-package); census lines.  Real-time observations carry "timed": true and are only counted by the
// check when they reproduce.

import (
	"bytes"
	"encoding/binary"
	"fmt"
	"io"
	"log"
	"math/rand"
	"net"
	"runtime"
	"strings"
	"sync"
	"sync/atomic"
	"testing"
	"time"
)

type vfcmWorld struct {
	t      *testing.T
	mu     sync.Mutex
	ev     []M
	ports  map[int]int // client port -> c
	dup    bool        // a client port was reused inside the history: the history is void
	n      *AbsfsNFS
	srv    *Server
	fs     *vfsFS
	port   int
	raw    bool // Export()-started server: no record marking
	max    int
	idleMs int
	conns  map[int]*vfcmClient
	base   map[string]int // census before Listen
	// backend gate: which connection looks a name up (one name per connection), how long the backend holds it
	nameConn map[string]int
	hold     map[string]time.Duration
	entered  chan int
	exited   chan int
	// accept gate (stopgate scenario): the accept loop is held right after Accept returned a connection
	holdAccept int32         // how many of the next accepted connections to hold (atomic)
	acceptHeld chan struct{} // signalled when one is being held
	acceptGo   chan struct{} // closed to let them go
}

// vfcmManualListen: the next world starts its accept loop over a listener whose connections can be held between
// Accept and registerConnection (what Server.Listen does, minus TLS, with the listener wrapped)
var vfcmManualListen bool

type vfcmGateListener struct {
	net.Listener
	w *vfcmWorld
}

func (l *vfcmGateListener) Accept() (net.Conn, error) {
	c, err := l.Listener.Accept()
	if err != nil {
		return nil, err
	}
	return &vfcmGateConn{Conn: c, w: l.w}, nil
}

type vfcmGateConn struct {
	net.Conn
	w    *vfcmWorld
	once sync.Once
}

// RemoteAddr is the first thing the accept loop asks of a new connection: the gate sits there
func (c *vfcmGateConn) RemoteAddr() net.Addr {
	c.once.Do(func() {
		if atomic.AddInt32(&c.w.holdAccept, -1) >= 0 {
			c.w.acceptHeld <- struct{}{}
			<-c.w.acceptGo
		} else {
			atomic.AddInt32(&c.w.holdAccept, 1)
		}
	})
	return c.Conn.RemoteAddr()
}

var vfcmCur struct {
	sync.Mutex
	w *vfcmWorld
}

func (w *vfcmWorld) emit(m M) {
	w.mu.Lock()
	w.ev = append(w.ev, m)
	w.mu.Unlock()
}

func vfcmHook(ev string, kv ...any) {
	vfcmCur.Lock()
	w := vfcmCur.w
	vfcmCur.Unlock()
	if w == nil {
		return
	}
	arg := func(k string) interface{} {
		for i := 0; i+1 < len(kv); i += 2 {
			if kv[i] == k {
				return kv[i+1]
			}
		}
		return nil
	}
	switch ev {
	case "cm.accept", "cm.reject", "cm.unreg":
		cnt, _ := arg("count").(int)
		m := M{"ev": ev, "port": vfcmConnKey(arg("conn")), "count": cnt}
		if mx, ok := arg("max").(int); ok {
			m["max"] = mx
		}
		w.emit(m)
	case "cm.reap", "cl.start":
		w.emit(M{"ev": ev, "port": vfcmConnKey(arg("conn"))})
	case "sv.stop.cancel", "sv.stop.closed":
		w.emit(M{"ev": ev})
	case "sv.stop.returned":
		ok, _ := arg("ok").(bool)
		w.emit(M{"ev": ev, "ok": ok})
	}
}

// vfcmConnKey identifies a connection by the client's address and port (clients come from several loopback addresses)
func vfcmConnKey(v interface{}) int {
	if c, ok := v.(net.Conn); ok && c != nil {
		if a, ok := c.RemoteAddr().(*net.TCPAddr); ok {
			return vfcmAddrKey(a)
		}
	}
	return 0
}

func vfcmAddrKey(a *net.TCPAddr) int {
	k := a.Port
	if ip := a.IP.To4(); ip != nil {
		k += 100000 * int(ip[3])
	}
	return k
}

// vfcmCensus counts goroutines by role from the stacks of all goroutines.
func vfcmCensus() map[string]int {
	buf := make([]byte, 1<<20)
	for {
		n := runtime.Stack(buf, true)
		if n < len(buf) {
			buf = buf[:n]
			break
		}
		buf = make([]byte, 2*len(buf))
	}
	out := map[string]int{"acc": 0, "conn": 0, "idle": 0, "req": 0}
	for _, g := range strings.Split(string(buf), "\n\n") {
		switch {
		case strings.Contains(g, "absnfs.(*Server).acceptLoop("):
			out["acc"]++
		case strings.Contains(g, "absnfs.(*Server).handleConnectionLoop("), strings.Contains(g, "absnfs.(*Server).acceptLoop.func"):
			out["conn"]++ // the connection goroutine: its loop, or the closure around it (deferred unregister, wg.Done)
		case strings.Contains(g, "absnfs.(*Server).idleConnectionCleanupLoop("):
			out["idle"]++
		case strings.Contains(g, "absnfs.(*NFSProcedureHandler).HandleCall.func1("):
			out["req"]++
		}
	}
	return out
}

func (w *vfcmWorld) census(when string) {
	c := vfcmCensus()
	// a goroutine that has called wg.Done may need an instant to leave: re-count a few times and keep the minimum
	for i := 0; i < 5 && c["acc"]+c["conn"]+c["idle"] > w.base["acc"]+w.base["conn"]+w.base["idle"]; i++ {
		time.Sleep(20 * time.Millisecond)
		c2 := vfcmCensus()
		for k, v := range c2 {
			if v < c[k] {
				c[k] = v
			}
		}
	}
	w.emit(M{"ev": "census", "when": when, "acc": c["acc"] - w.base["acc"], "conn": c["conn"] - w.base["conn"],
		"idle": c["idle"] - w.base["idle"], "req": c["req"] - w.base["req"]})
}

// ---------------------------------------------------------------- client

type vfcmClient struct {
	c    int
	conn net.Conn
	port int
	raw  bool
	xid  uint32
	dead bool
}

func (w *vfcmWorld) dial(c int) *vfcmClient { return w.dialFrom(c, "127.0.0.1") }

// dialFrom connects from the given loopback address (all of 127/8 is local)
func (w *vfcmWorld) dialFrom(c int, from string) *vfcmClient {
	w.emit(M{"ev": "cn.dial", "c": c})
	d := net.Dialer{Timeout: 2 * time.Second, LocalAddr: &net.TCPAddr{IP: net.ParseIP(from)}}
	conn, err := d.Dial("tcp", fmt.Sprintf("127.0.0.1:%d", w.port))
	if err != nil {
		w.emit(M{"ev": "cn.dialed", "c": c, "ok": false})
		return nil
	}
	cl := &vfcmClient{c: c, conn: conn, port: vfcmAddrKey(conn.LocalAddr().(*net.TCPAddr)), raw: w.raw, xid: uint32(c) * 1000}
	w.mu.Lock()
	if _, used := w.ports[cl.port]; used {
		w.dup = true
	}
	w.ports[cl.port] = c
	w.conns[c] = cl
	w.ev = append(w.ev, M{"ev": "cn.dialed", "c": c, "ok": true})
	w.mu.Unlock()
	return cl
}

// ping sends one NULL call (or the given call) and waits for its reply: "reply" | "dead" | "silent"
func (cl *vfcmClient) roundtrip(prog, vers, proc uint32, args []byte, wait time.Duration) (string, []byte) {
	cl.xid++
	msg := vfpcCallBytes(cl.xid, prog, vers, proc, args)
	cl.conn.SetDeadline(time.Now().Add(wait))
	if !cl.raw {
		var hdr [4]byte
		binary.BigEndian.PutUint32(hdr[:], 0x80000000|uint32(len(msg)))
		msg = append(hdr[:], msg...)
	}
	if _, err := cl.conn.Write(msg); err != nil {
		return "dead", nil
	}
	if cl.raw {
		// raw framing: a NULL reply is exactly 24 bytes (xid, REPLY, MSG_ACCEPTED, verifier flavor, length 0, SUCCESS)
		b := make([]byte, 24)
		if _, err := io.ReadFull(cl.conn, b); err != nil {
			if ne, ok := err.(net.Error); ok && ne.Timeout() {
				return "silent", nil
			}
			return "dead", nil
		}
		if binary.BigEndian.Uint32(b[0:4]) != cl.xid {
			return "dead", nil
		}
		return "reply", b
	}
	var rec []byte
	for {
		var hdr [4]byte
		if _, err := io.ReadFull(cl.conn, hdr[:]); err != nil {
			if ne, ok := err.(net.Error); ok && ne.Timeout() {
				return "silent", nil
			}
			return "dead", nil
		}
		m := binary.BigEndian.Uint32(hdr[:])
		frag := make([]byte, m&0x7fffffff)
		if _, err := io.ReadFull(cl.conn, frag); err != nil {
			return "dead", nil
		}
		rec = append(rec, frag...)
		if m&0x80000000 != 0 {
			break
		}
	}
	if len(rec) < 12 || binary.BigEndian.Uint32(rec[0:4]) != cl.xid {
		return "dead", nil
	}
	return "reply", rec
}

func (w *vfcmWorld) ping(cl *vfcmClient, wait time.Duration) bool {
	if cl == nil || cl.dead {
		return false
	}
	w.emit(M{"ev": "cl.send", "c": cl.c, "res": false})
	res, _ := cl.roundtrip(NFS_PROGRAM, NFS_V3, 0, nil, wait)
	if res == "reply" {
		w.emit(M{"ev": "cl.reply", "c": cl.c})
		return true
	}
	cl.dead = true
	w.emit(M{"ev": "cl.dead", "c": cl.c, "how": res})
	return false
}

// lookup populates handles and caches through the wire (record-marking servers only)
func (w *vfcmWorld) lookup(cl *vfcmClient, root uint64, name string) bool {
	if cl == nil || cl.dead || cl.raw {
		return false
	}
	w.mu.Lock()
	w.nameConn[name] = cl.c
	w.mu.Unlock()
	w.emit(M{"ev": "cl.send", "c": cl.c, "res": true})
	res, _ := cl.roundtrip(NFS_PROGRAM, NFS_V3, NFSPROC3_LOOKUP, vfArgsDirOp(root, name), 3*time.Second)
	if res == "reply" {
		w.emit(M{"ev": "cl.reply", "c": cl.c})
		return true
	}
	cl.dead = true
	w.emit(M{"ev": "cl.dead", "c": cl.c, "how": res})
	return false
}

func (w *vfcmWorld) closeClient(cl *vfcmClient) {
	if cl == nil {
		return
	}
	w.emit(M{"ev": "cl.close", "c": cl.c})
	cl.conn.Close()
}

// ---------------------------------------------------------------- world

func vfcmNewWorld(t *testing.T, max, idleMs int, exported bool) *vfcmWorld {
	return vfcmNewWorldOpt(t, max, idleMs, exported, nil)
}

// vfcmNewWorldOpt: opt may adjust the export options (address filter, rate limiting)
func vfcmNewWorldOpt(t *testing.T, max, idleMs int, exported bool, opt func(*ExportOptions)) *vfcmWorld {
	w := &vfcmWorld{t: t, ports: map[int]int{}, conns: map[int]*vfcmClient{}, max: max, idleMs: idleMs, raw: exported,
		nameConn: map[string]int{}, hold: map[string]time.Duration{}, entered: make(chan int, 16), exited: make(chan int, 16),
		acceptHeld: make(chan struct{}, 8), acceptGo: make(chan struct{})}
	w.fs = vfNewFS()
	for i := 0; i < 13; i++ {
		w.fs.vfPoke(fmt.Sprintf("/g%d", i), "file", []byte("x"), "", 0644)
	}
	// the backend gate reports which connection has a request executing in the backend (be.enter / be.exit) and
	// holds it there for as long as the scenario asks; set once, before anything runs
	w.fs.Gate = func(op, p string) {
		if op != "Lstat" || !strings.HasPrefix(p, "/g") {
			return
		}
		w.mu.Lock()
		c, ok := w.nameConn[p[1:]]
		d := w.hold[p[1:]]
		if ok {
			w.ev = append(w.ev, M{"ev": "be.enter", "c": c})
		}
		w.mu.Unlock()
		if !ok {
			return
		}
		select {
		case w.entered <- c:
		default:
		}
		if d > 0 {
			time.Sleep(d)
		}
		w.emit(M{"ev": "be.exit", "c": c})
		select {
		case w.exited <- c:
		default:
		}
	}
	w.fs.vfPoke("/d", "D", nil, "", 0755)
	w.fs.vfPoke("/d/x", "file", []byte("y"), "", 0644)
	eo := ExportOptions{Squash: "root", MaxConnections: max, IdleTimeout: time.Duration(idleMs) * time.Millisecond,
		EnableDirCache: true, MaxWorkers: 8}
	if opt != nil {
		opt(&eo)
	}
	n, err := New(w.fs, eo)
	if err != nil {
		t.Fatalf("New: %v", err)
	}
	n.logger = log.New(io.Discard, "", 0)
	w.n = n
	w.base = vfcmCensus()
	vfcmCur.Lock()
	vfcmCur.w = w
	vfcmCur.Unlock()
	if exported {
		if err := n.Export("/", 0); err != nil {
			t.Fatalf("Export: %v", err)
		}
		w.srv = n.exportServer
		w.srv.logger = log.New(io.Discard, "", 0)
	} else {
		srv, err := NewServer(ServerOptions{Name: "vf", Hostname: "127.0.0.1", Port: 0, UseRecordMarking: true})
		if err != nil {
			t.Fatalf("NewServer: %v", err)
		}
		srv.logger = log.New(io.Discard, "", 0)
		srv.SetHandler(n)
		if vfcmManualListen {
			vfcmManualListen = false
			ln, err := net.Listen("tcp", "127.0.0.1:0")
			if err != nil {
				t.Fatalf("listen: %v", err)
			}
			srv.listener = &vfcmGateListener{Listener: ln, w: w}
			srv.options.Port = ln.Addr().(*net.TCPAddr).Port
			ph := &NFSProcedureHandler{server: srv}
			srv.wg.Add(2)
			go func() { defer srv.wg.Done(); srv.idleConnectionCleanupLoop() }()
			go func() { defer srv.wg.Done(); srv.acceptLoop(ph) }()
		} else if err := srv.Listen(); err != nil {
			t.Fatalf("Listen: %v", err)
		}
		w.srv = srv
	}
	w.port = w.srv.GetPort()
	w.emit(M{"ev": "sv.listen"})
	return w
}

// localUse allocates handles and fills caches through the handler itself (no TCP)
func (w *vfcmWorld) localUse() {
	e := &vfEnv{n: w.n, srv: w.srv, h: &NFSProcedureHandler{server: w.srv}, fs: w.fs, log: &bytes.Buffer{}, xid: 50}
	root := e.Mount(w.t, vfRoot)
	for i := 0; i < 4; i++ {
		e.Do(NFSPROC3_LOOKUP, vfArgsDirOp(root, fmt.Sprintf("g%d", i)), vfRoot)
	}
	r := e.Do(NFSPROC3_LOOKUP, vfArgsDirOp(root, "d"), vfRoot)
	if fh, ok := vfcmLookupFH(r); ok {
		e.Do(NFSPROC3_READDIR, vfArgsReaddir(fh, 0, [8]byte{}, 4096), vfRoot)
	}
	h, a, d := w.resources()
	w.emit(M{"ev": "local.use", "handles": h, "attr": a, "dir": d})
}

func (w *vfcmWorld) resources() (int, int, int) {
	h := w.n.fileMap.Count()
	a := 0
	if w.n.attrCache != nil {
		a = w.n.attrCache.Size()
	}
	d := 0
	if w.n.dirCache != nil {
		d = w.n.dirCache.Size()
	}
	return h, a, d
}

func (w *vfcmWorld) stop(k int) {
	w.emit(M{"ev": "st.call", "k": k})
	t0 := time.Now()
	err := w.srv.Stop()
	w.emit(M{"ev": "st.ret", "k": k, "ok": err == nil, "ms": int(time.Since(t0) / time.Millisecond)})
	w.census("after.stop")
}

func (w *vfcmWorld) nfsCall(j int, api string) {
	w.emit(M{"ev": "cx.call", "j": j, "api": api})
	var err error
	panicked := false
	func() {
		defer func() {
			if r := recover(); r != nil {
				panicked = true
			}
		}()
		if api == "close" {
			err = w.n.Close()
		} else {
			err = w.n.Unexport()
		}
	}()
	h, a, d := w.resources()
	w.emit(M{"ev": "cx.ret", "j": j, "api": api, "err": err != nil, "panic": panicked, "handles": h, "attr": a, "dir": d})
}

// afterStop probes every connection the clients still hold and tries a new one
func (w *vfcmWorld) afterStop() {
	w.mu.Lock()
	var cls []*vfcmClient
	for _, cl := range w.conns {
		cls = append(cls, cl)
	}
	w.mu.Unlock()
	for _, cl := range cls {
		if cl.dead {
			continue
		}
		res, _ := cl.roundtrip(NFS_PROGRAM, NFS_V3, 0, nil, 300*time.Millisecond)
		w.emit(M{"ev": "cl.probe", "c": cl.c, "served": res == "reply"})
		cl.dead = true
	}
	conn, err := net.DialTimeout("tcp", fmt.Sprintf("127.0.0.1:%d", w.port), 500*time.Millisecond)
	served := false
	if err == nil {
		cl := &vfcmClient{c: 99, conn: conn, raw: w.raw, xid: 99000}
		res, _ := cl.roundtrip(NFS_PROGRAM, NFS_V3, 0, nil, 300*time.Millisecond)
		served = res == "reply"
		conn.Close()
	}
	w.emit(M{"ev": "cl.newconn", "served": served})
	w.census("after.stop")
}

func (w *vfcmWorld) flush(tr *vfTrace, reset M) (int, bool) {
	vfcmCur.Lock()
	vfcmCur.w = nil
	vfcmCur.Unlock()
	w.mu.Lock()
	defer w.mu.Unlock()
	if w.dup {
		return 0, false
	}
	// annotate: first reply and last answered send of every connection (the interval in which the client
	// has proof that the server was serving the connection)
	firstReply, lastAns, lastSend := map[int]int{}, map[int]int{}, map[int]int{}
	for i, e := range w.ev {
		switch e["ev"] {
		case "cl.send":
			lastSend[e["c"].(int)] = i
		case "cl.reply":
			c := e["c"].(int)
			if _, ok := firstReply[c]; !ok {
				firstReply[c] = i
			}
			lastAns[c] = lastSend[c]
		}
	}
	tr.Emit(reset)
	n := 1
	for i, e := range w.ev {
		if p, ok := e["port"]; ok {
			c, known := w.ports[p.(int)]
			if !known {
				continue
			}
			delete(e, "port")
			e["c"] = c
		}
		switch e["ev"] {
		case "cl.reply":
			// the interval of proven service starts at the first reply if a later request was answered too
			c := e["c"].(int)
			la, ok := lastAns[c]
			e["first"] = firstReply[c] == i && ok && la > i
		case "cl.send":
			c := e["c"].(int)
			la, ok := lastAns[c]
			e["lastans"] = ok && la == i && la > firstReply[c]
			// will this request be seen inside the backend (be.enter before the connection's next client event)?
			slow := false
			for _, f := range w.ev[i+1:] {
				if f["c"] == c && (f["ev"] == "cl.reply" || f["ev"] == "cl.dead" || f["ev"] == "cl.send") {
					break
				}
				if f["c"] == c && f["ev"] == "be.enter" {
					slow = true
					break
				}
			}
			e["slow"] = slow
		}
		tr.Emit(e)
		n++
	}
	return n, true
}

// ---------------------------------------------------------------- scenarios

func TestVF_ConnMgr(t *testing.T) {
	vfpsRequireHooks(t)
	hook := vfcmHook
	vfHookP.Store(&hook)
	defer vfHookP.Store(nil)
	seed := vfSeed()
	nh := vfEnvInt("VF_HIST", 10)
	only := vfEnvInt("VF_ONLY", -1)
	tr := vfNewTrace(t, "cm.ndjson")
	defer tr.Close()
	hist, events, nontrivial, void := 0, 0, 0, 0
	var samples []M
	kinds := []string{"limit", "idle", "random", "export", "stopbusy", "stoprace", "closebusy", "managed", "midcall", "acl", "stopgate"}
	// accepts racing with Stop are a matter of microseconds: a batch of additional (cheap) stoprace histories follows
	extra := vfEnvInt("VF_STOPRACE", 6)
	for h := 0; h < nh+extra; h++ {
		if only >= 0 && h != only {
			continue
		}
		kind := kinds[h%len(kinds)]
		if h >= nh {
			kind = "stoprace"
		}
		rnd := vfRand(seed, fmt.Sprintf("cm%d", h))
		var w *vfcmWorld
		var reset M
		rejects, reaps := 0, 0
		switch kind {
		case "limit":
			w, reset = vfcmLimit(t, h, rnd)
		case "idle":
			w, reset = vfcmIdle(t, h, rnd)
		case "export":
			w, reset = vfcmExport(t, h, rnd)
		case "managed":
			w, reset = vfcmManaged(t, h, rnd)
		case "stoprace":
			w, reset = vfcmStopRace(t, h, rnd)
		case "stopbusy":
			w, reset = vfcmStopBusy(t, h, rnd)
		case "closebusy":
			w, reset = vfcmCloseBusy(t, h, rnd)
		case "midcall":
			w, reset = vfcmMidCall(t, h, rnd)
		case "acl":
			w, reset = vfcmACL(t, h, rnd)
		case "stopgate":
			w, reset = vfcmStopGate(t, h, rnd)
		default:
			w, reset = vfcmRandom(t, h, rnd)
		}
		for _, e := range w.ev {
			switch e["ev"] {
			case "cm.reject":
				rejects++
			case "cm.reap":
				reaps++
			}
		}
		n, ok := w.flush(tr, reset)
		if !ok {
			void++
			continue
		}
		hist++
		events += n
		if rejects > 0 || reaps > 0 {
			nontrivial++
		}
		if len(samples) < 2 {
			samples = append(samples, M{"kind": kind, "reset": reset, "events": n})
		}
	}
	vfWriteJSON(t, "cm.summary.json", M{"histories": hist, "events": events, "nontrivial": nontrivial, "void": void, "samples": samples})
}

func vfcmReset(h int, kind string, w *vfcmWorld, exported bool) M {
	return M{"ev": "reset", "hist": h, "kind": kind, "max": w.max, "idle_ms": w.idleMs, "exported": exported}
}

// limit: more clients than MaxConnections, each pinging several times, sequential and then concurrent
func vfcmLimit(t *testing.T, h int, rnd *rand.Rand) (*vfcmWorld, M) {
	max := 1 + rnd.Intn(3)
	w := vfcmNewWorld(t, max, 300000, false)
	var held []*vfcmClient
	for c := 1; c <= max+2; c++ {
		cl := w.dial(c)
		if w.ping(cl, 2*time.Second) {
			w.ping(cl, 2*time.Second)
		}
		held = append(held, cl)
	}
	// every holder pings again: the ones that were accepted are served at the same time
	for _, cl := range held {
		w.ping(cl, 2*time.Second)
	}
	// one leaves, a newcomer must find room once the departure has been noticed
	for _, cl := range held {
		if cl != nil && !cl.dead {
			w.closeClient(cl)
			cl.dead = true
			w.waitUnreg(cl, 2*time.Second)
			break
		}
	}
	cl := w.dial(max + 3)
	if w.ping(cl, 2*time.Second) {
		w.ping(cl, 2*time.Second)
	}
	var wg sync.WaitGroup
	for c := max + 4; c <= max+7; c++ {
		wg.Add(1)
		go func(c int) {
			defer wg.Done()
			cl := w.dial(c)
			for k := 0; k < 3; k++ {
				if !w.ping(cl, 2*time.Second) {
					break
				}
			}
		}(c)
	}
	wg.Wait()
	w.stop(1)
	w.afterStop()
	w.stop(2)
	w.census("after.stop")
	w.nfsCall(1, "close")
	return w, vfcmReset(h, "limit", w, false)
}

// counted reports whether the server has counted the connection (cm.accept logged for it)
func (w *vfcmWorld) counted(cl *vfcmClient) bool {
	w.mu.Lock()
	defer w.mu.Unlock()
	for _, e := range w.ev {
		if e["ev"] == "cm.accept" && e["port"] == cl.port {
			return true
		}
	}
	return false
}

// waitUnreg waits (bounded) for the hook event that uncounts the connection; a real-time observation
func (w *vfcmWorld) waitUnreg(cl *vfcmClient, d time.Duration) {
	deadline := time.Now().Add(d)
	seen := false
	for !seen && time.Now().Before(deadline) {
		w.mu.Lock()
		for _, e := range w.ev {
			if e["ev"] == "cm.unreg" && e["port"] == cl.port {
				seen = true
			}
		}
		w.mu.Unlock()
		if !seen {
			time.Sleep(2 * time.Millisecond)
		}
	}
	w.emit(M{"ev": "unreg.wait", "c": cl.c, "seen": seen, "timed": true, "ms": int(d / time.Millisecond)})
}

// idle: IdleTimeout 100 ms; one connection stays silent for more than a second, one keeps talking
func vfcmIdle(t *testing.T, h int, rnd *rand.Rand) (*vfcmWorld, M) {
	// rate limiting is on with a budget of 4 requests that never refills: the last thing that happens on the
	// connection "limited" is a call the limiter refuses (idle reaping x rate limiting)
	w := vfcmNewWorldOpt(t, 5, 100, false, func(eo *ExportOptions) {
		eo.EnableRateLimiting = true
		eo.RateLimitConfig = vfpsLimiterConfig(4)
	})
	quiet := w.dial(1)
	w.ping(quiet, 2*time.Second)
	never := w.dial(2) // never sends anything
	limited := w.dial(4)
	for k := 0; k < 4; k++ { // the budget is gone after the third of these
		w.ping(limited, 2*time.Second)
	}
	busy := w.dial(3)
	t0 := time.Now()
	for time.Since(t0) < 1100*time.Millisecond {
		if !w.ping(busy, 2*time.Second) {
			break
		}
		time.Sleep(30 * time.Millisecond)
	}
	for _, cl := range []*vfcmClient{quiet, never, limited} {
		if cl == nil {
			continue
		}
		// still open after > 1 s of silence? (a reply proves it is still served)
		res, _ := cl.roundtrip(NFS_PROGRAM, NFS_V3, 0, nil, 500*time.Millisecond)
		w.emit(M{"ev": "idle.check", "c": cl.c, "idle_ms": int(time.Since(t0) / time.Millisecond), "open": res == "reply", "timed": true})
		cl.dead = true
	}
	w.closeClient(busy)
	w.stop(1)
	w.afterStop()
	w.nfsCall(1, "unexport")
	w.nfsCall(2, "close")
	return w, vfcmReset(h, "idle", w, false)
}

// random: clients come and go concurrently; Stop (possibly twice at once) at a random moment
func vfcmRandom(t *testing.T, h int, rnd *rand.Rand) (*vfcmWorld, M) {
	max := 1 + rnd.Intn(3)
	idle := []int{100, 300000}[rnd.Intn(2)]
	w := vfcmNewWorld(t, max, idle, false)
	w.localUse()
	nc := 4 + rnd.Intn(4)
	type plan struct{ delay, pings, gap, linger int }
	plans := make([]plan, nc+1)
	for c := 1; c <= nc; c++ {
		plans[c] = plan{rnd.Intn(40), 1 + rnd.Intn(4), rnd.Intn(12), rnd.Intn(3)}
	}
	stopAt := 10 + rnd.Intn(60)
	double := rnd.Intn(2) == 0
	var wg sync.WaitGroup
	for c := 1; c <= nc; c++ {
		wg.Add(1)
		go func(c int) {
			defer wg.Done()
			p := plans[c]
			time.Sleep(time.Duration(p.delay) * time.Millisecond)
			cl := w.dial(c)
			for k := 0; k < p.pings; k++ {
				if !w.ping(cl, 2*time.Second) {
					return
				}
				time.Sleep(time.Duration(p.gap) * time.Millisecond)
			}
			switch p.linger {
			case 0:
				w.closeClient(cl)
				cl.dead = true
			case 1:
				time.Sleep(150 * time.Millisecond) // go idle
				w.ping(cl, 2*time.Second)
			}
		}(c)
	}
	time.Sleep(time.Duration(stopAt) * time.Millisecond)
	var sg sync.WaitGroup
	sg.Add(1)
	go func() { defer sg.Done(); w.stop(1) }()
	if double {
		sg.Add(1)
		go func() { defer sg.Done(); w.stop(2) }()
	}
	sg.Wait()
	wg.Wait()
	w.afterStop()
	w.stop(3)
	w.census("after.stop")
	api := []string{"close", "unexport"}[rnd.Intn(2)]
	w.nfsCall(1, api)
	w.nfsCall(2, api)
	w.nfsCall(3, "close")
	return w, vfcmReset(h, "random", w, false)
}

// stoprace: connections are being opened while Stop runs
func vfcmStopRace(t *testing.T, h int, rnd *rand.Rand) (*vfcmWorld, M) {
	w := vfcmNewWorld(t, 8, 300000, false)
	var wg sync.WaitGroup
	delays := make([]int, 9)
	for c := 1; c <= 8; c++ {
		delays[c] = rnd.Intn(3000)
	}
	for c := 1; c <= 8; c++ {
		wg.Add(1)
		go func(c int) {
			defer wg.Done()
			time.Sleep(time.Duration(delays[c]) * time.Microsecond)
			cl := w.dial(c)
			for k := 0; k < 3; k++ {
				if !w.ping(cl, time.Second) {
					return
				}
			}
		}(c)
	}
	time.Sleep(time.Duration(500+rnd.Intn(2500)) * time.Microsecond)
	w.stop(1)
	wg.Wait()
	w.afterStop()
	w.stop(2)
	w.census("after.stop")
	w.nfsCall(1, "close")
	return w, vfcmReset(h, "stoprace", w, false)
}

// stopbusy: Stop is called while requests are being served (the backend takes 300 ms for them, far below Stop's
// 5 s patience): Stop has to wait for their connection goroutines
func vfcmStopBusy(t *testing.T, h int, rnd *rand.Rand) (*vfcmWorld, M) {
	w := vfcmNewWorld(t, 4, 300000, false)
	nb := 2 + rnd.Intn(2)
	for c := 1; c <= nb; c++ {
		w.hold[fmt.Sprintf("g%d", c)] = 300 * time.Millisecond
	}
	e := &vfEnv{n: w.n, srv: w.srv, h: &NFSProcedureHandler{server: w.srv}, fs: w.fs, log: &bytes.Buffer{}, xid: 50}
	root := e.Mount(t, vfRoot)
	var wg sync.WaitGroup
	for c := 1; c <= nb; c++ {
		cl := w.dial(c)
		w.ping(cl, 2*time.Second)
		wg.Add(1)
		go func(c int, cl *vfcmClient) {
			defer wg.Done()
			w.lookup(cl, root, fmt.Sprintf("g%d", c))
		}(c, cl)
	}
	for c := 1; c <= nb; c++ {
		select {
		case <-w.entered:
		case <-time.After(5 * time.Second):
			t.Fatalf("stopbusy: a request did not reach the backend")
		}
	}
	w.stop(1)
	wg.Wait()
	w.afterStop()
	w.stop(2)
	w.nfsCall(1, "close")
	w.nfsCall(2, "close")
	return w, vfcmReset(h, "stopbusy", w, false)
}

// closebusy: the application runs its own Server and calls Close while a request is executing in the worker pool
// (the backend holds it for 300 ms); Close waits for the pool, so what that request allocates is released too.
// Nothing is sent after Close has been called.
func vfcmCloseBusy(t *testing.T, h int, rnd *rand.Rand) (*vfcmWorld, M) {
	w := vfcmNewWorld(t, 4, 300000, false)
	nb := 1 + rnd.Intn(2)
	e := &vfEnv{n: w.n, srv: w.srv, h: &NFSProcedureHandler{server: w.srv}, fs: w.fs, log: &bytes.Buffer{}, xid: 50}
	root := e.Mount(t, vfRoot)
	hh, a, d := w.resources()
	w.emit(M{"ev": "local.use", "handles": hh, "attr": a, "dir": d})
	var wg sync.WaitGroup
	for c := 1; c <= nb; c++ {
		w.hold[fmt.Sprintf("g%d", c)] = time.Duration(250+rnd.Intn(150)) * time.Millisecond
		cl := w.dial(c)
		w.ping(cl, 2*time.Second)
		wg.Add(1)
		go func(c int, cl *vfcmClient) {
			defer wg.Done()
			w.lookup(cl, root, fmt.Sprintf("g%d", c))
		}(c, cl)
	}
	for c := 1; c <= nb; c++ {
		select {
		case <-w.entered:
		case <-time.After(5 * time.Second):
			t.Fatalf("closebusy: a request did not reach the backend")
		}
	}
	w.nfsCall(1, "close")
	wg.Wait()
	w.nfsCall(2, "close")
	w.stop(1)
	w.afterStop()
	w.nfsCall(3, []string{"close", "unexport"}[rnd.Intn(2)])
	return w, vfcmReset(h, "closebusy", w, false)
}

// midcall: MaxConnections 1, IdleTimeout 1 s (the cleanup pass runs every 0.5 s from Listen on). The connection is
// used at 0.3 s, quiet for 0.8 s (not idle for longer than IdleTimeout), and at 1.1 s sends a call that the backend
// holds for 0.8 s (shorter than IdleTimeout). While the call executes other clients keep trying to connect: the
// connection in the middle of its call is being served, so none of them may be. (A server that measures idleness
// from the last reply only sees 1.2 s of silence at the 1.5 s pass; one that stamps the arrival of a call would
// need the call to overrun by more than 0.6 s before a pass could find it idle.)
func vfcmMidCall(t *testing.T, h int, rnd *rand.Rand) (*vfcmWorld, M) {
	w := vfcmNewWorld(t, 1, 1000, false)
	t0 := time.Now() // Listen has just returned
	e := &vfEnv{n: w.n, srv: w.srv, h: &NFSProcedureHandler{server: w.srv}, fs: w.fs, log: &bytes.Buffer{}, xid: 50}
	root := e.Mount(t, vfRoot)
	hh, a, d := w.resources()
	w.emit(M{"ev": "local.use", "handles": hh, "attr": a, "dir": d})
	w.hold["g1"] = 800 * time.Millisecond
	c1 := w.dial(1)
	w.ping(c1, 2*time.Second)
	time.Sleep(time.Until(t0.Add(300 * time.Millisecond)))
	w.ping(c1, 2*time.Second)
	time.Sleep(time.Until(t0.Add(1100 * time.Millisecond)))
	done := make(chan struct{})
	go func() {
		defer close(done)
		w.lookup(c1, root, "g1")
	}()
	select {
	case <-w.entered:
	case <-time.After(3 * time.Second):
	}
	// keep trying for as long as the request is in the backend (whatever the client of connection 1 sees meanwhile)
	c := 2
	giveUp := time.After(3 * time.Second)
loop:
	for {
		select {
		case <-w.exited:
			break loop
		case <-giveUp:
			break loop
		default:
		}
		cl := w.dial(c)
		if w.ping(cl, time.Second) {
			w.ping(cl, time.Second)
			w.ping(cl, time.Second)
		}
		if cl != nil {
			w.closeClient(cl)
			cl.dead = true
		}
		c++
		if c > 10 {
			break
		}
		time.Sleep(80 * time.Millisecond)
	}
	<-done
	w.ping(c1, time.Second)
	w.stop(1)
	w.afterStop()
	w.nfsCall(1, "close")
	return w, vfcmReset(h, "midcall", w, false)
}

// stopgate: Accept has handed one or two connections to the accept loop, which is held before it registers them;
// Stop cancels, closes the listener and closes the registered connections; then the accept loop goes on: the late
// connections are registered after Stop has closed everything it knew of. Stop must still leave nothing served.
func vfcmStopGate(t *testing.T, h int, rnd *rand.Rand) (*vfcmWorld, M) {
	vfcmManualListen = true
	w := vfcmNewWorld(t, 4, 300000, false)
	c1 := w.dial(1)
	w.ping(c1, 2*time.Second)
	w.ping(c1, 2*time.Second)
	atomic.StoreInt32(&w.holdAccept, 1)
	late := w.dial(2)
	select {
	case <-w.acceptHeld:
	case <-time.After(5 * time.Second):
		t.Fatalf("stopgate: the accept loop did not pick the connection up")
	}
	stopped := make(chan struct{})
	go func() { defer close(stopped); w.stop(1) }()
	// wait until Stop has closed the connections it knew of
	deadline := time.Now().Add(5 * time.Second)
	for {
		w.mu.Lock()
		seen := false
		for _, e := range w.ev {
			if e["ev"] == "sv.stop.closed" {
				seen = true
			}
		}
		w.mu.Unlock()
		if seen || time.Now().After(deadline) {
			break
		}
		time.Sleep(200 * time.Microsecond)
	}
	close(w.acceptGo)
	<-stopped
	// the late connection: is it still answered?
	if late != nil {
		w.emit(M{"ev": "cl.send", "c": late.c, "res": false})
		res, _ := late.roundtrip(NFS_PROGRAM, NFS_V3, 0, nil, 500*time.Millisecond)
		if res == "reply" {
			w.emit(M{"ev": "cl.reply", "c": late.c})
		} else {
			late.dead = true
			w.emit(M{"ev": "cl.dead", "c": late.c, "how": res})
		}
	}
	w.afterStop()
	w.stop(2)
	w.nfsCall(1, "close")
	return w, vfcmReset(h, "stopgate", w, false)
}

// acl: AllowedIPs admits 127.0.0.1 only; attempts from other loopback addresses are turned away. They are not
// accepted connections: they must not hold a MaxConnections slot once they have ended, and clients from the
// allowed address keep finding room (address filter x connection limit).
func vfcmACL(t *testing.T, h int, rnd *rand.Rand) (*vfcmWorld, M) {
	max := 2 + rnd.Intn(2)
	w := vfcmNewWorldOpt(t, max, 300000, false, func(eo *ExportOptions) { eo.AllowedIPs = []string{"127.0.0.1"} })
	c := 1
	first := w.dial(c)
	w.ping(first, 2*time.Second)
	w.ping(first, 2*time.Second)
	for k := 0; k < max+1; k++ { // more refused attempts than there are slots
		c++
		cl := w.dialFrom(c, fmt.Sprintf("127.0.0.%d", 2+rnd.Intn(3)))
		w.ping(cl, time.Second)
		if cl != nil && w.counted(cl) {
			w.waitUnreg(cl, 2*time.Second) // it has ended (the server closed it): it must not stay counted
		}
		if cl != nil {
			cl.dead = true
		}
	}
	// allowed clients fill the remaining slots and one more is turned away at the limit
	for k := 0; k < max; k++ {
		c++
		cl := w.dial(c)
		if w.ping(cl, 2*time.Second) {
			w.ping(cl, 2*time.Second)
		}
	}
	w.ping(first, 2*time.Second)
	w.stop(1)
	w.afterStop()
	w.nfsCall(1, "close")
	return w, vfcmReset(h, "acl", w, false)
}

// export: the server AbsfsNFS.Export starts (raw framing); Close / Unexport must stop it, release every handle
// and empty the caches; repeated calls
func vfcmExport(t *testing.T, h int, rnd *rand.Rand) (*vfcmWorld, M) {
	w := vfcmNewWorld(t, 3, 300000, true)
	w.localUse()
	var cls []*vfcmClient
	for c := 1; c <= 3; c++ {
		cl := w.dial(c)
		w.ping(cl, 2*time.Second)
		w.ping(cl, 2*time.Second)
		cls = append(cls, cl)
	}
	first := []string{"close", "unexport"}[rnd.Intn(2)]
	w.emit(M{"ev": "st.call", "k": 11}) // the Stop that Close / Unexport issue on the export server
	w.nfsCall(1, first)
	w.afterStop()
	w.nfsCall(2, first)
	w.nfsCall(3, []string{"close", "unexport"}[rnd.Intn(2)])
	w.census("after.stop")
	return w, vfcmReset(h, "export", w, true)
}

// managed: the application runs its own Server; handles and caches are filled through the wire; after Stop the
// handler is closed / unexported, repeatedly
func vfcmManaged(t *testing.T, h int, rnd *rand.Rand) (*vfcmWorld, M) {
	w := vfcmNewWorld(t, 4, 300000, false)
	e := &vfEnv{n: w.n, srv: w.srv, h: &NFSProcedureHandler{server: w.srv}, fs: w.fs, log: &bytes.Buffer{}, xid: 50}
	root := e.Mount(t, vfRoot)
	for c := 1; c <= 3; c++ {
		cl := w.dial(c)
		w.ping(cl, 2*time.Second)
		for i := 0; i < 3; i++ {
			w.lookup(cl, root, fmt.Sprintf("g%d", (c+i)%6))
		}
	}
	hh, a, d := w.resources()
	w.emit(M{"ev": "local.use", "handles": hh, "attr": a, "dir": d})
	w.stop(1)
	w.afterStop()
	order := [][]string{{"unexport", "unexport", "close", "close"}, {"close", "close", "unexport"}, {"close", "unexport", "close"}}[rnd.Intn(3)]
	for j, api := range order {
		w.nfsCall(j+1, api)
	}
	w.stop(2)
	w.census("after.stop")
	return w, vfcmReset(h, "managed", w, false)
}

func vfcmLookupFH(r *vfNFSReply) (uint64, bool) {
	if r == nil || r.Res == nil || r.Res.Val == nil {
		return 0, false
	}
	return vfFH(vfGet(r.Res.Val, "object"))
}

package absnfs

// vf_ratelimit.go: drivers for C18 / C19 (specs/RateLimiter).  rate_limiter.go is compiled with
// time.Now()/time.Since() redirected to the virtual clock of vf_clock.go (overlay rewrite at
// check time), so every refill is a function of the ticks (250 ms) this file advances.
//
//   TestVF_RateLimitAPI  : seeded timing sequences at RateLimiter.AllowRequest / AllowOperation /
//                          CleanupConnection over several IPs, connections and operation types
//   TestVF_RateLimitNFS  : the same limiter reached through the READ / WRITE / READDIR /
//                          READDIRPLUS / MNT handlers (EnableRateLimiting), HandleCall level
//   TestVF_RateLimitConn : AllowRequest reached through server.go handleConnectionLoop over
//                          in-memory connections with record marking
//
// Every line carries the virtual time in ticks, the key (ip, conn, op), the decision, the
// decision of a twin instance that received the same calls but never reaches its cleanup
// interval, and the in-package bucket contents (tokens x 16) after the call.  The harness
// records; RateLimiterTrace decides.

import (
	"bytes"
	"encoding/binary"
	"fmt"
	"io"
	"math"
	"math/rand"
	"net"
	"sort"
	"sync/atomic"
	"testing"
	"time"
)

const vfRLTick = 250 * time.Millisecond
const vfRLNever = 1000 * time.Hour // cleanup interval of the twin

// vfRLParams is the configuration of one history (tokens per second / burst; CI in ticks).
type vfRLParams struct {
	G, IpR, IpB, ConnR, ConnB, RL, WL, RD, MountPM, CI int
	FhIP, FhG                                          int // file handle quota (0 = none)
}

func (p vfRLParams) config(ci time.Duration) RateLimiterConfig {
	return RateLimiterConfig{
		GlobalRequestsPerSecond:        p.G,
		PerIPRequestsPerSecond:         p.IpR,
		PerIPBurstSize:                 p.IpB,
		PerConnectionRequestsPerSecond: p.ConnR,
		PerConnectionBurstSize:         p.ConnB,
		ReadLargeOpsPerSecond:          p.RL,
		WriteLargeOpsPerSecond:         p.WL,
		ReaddirOpsPerSecond:            p.RD,
		MountOpsPerMinute:              p.MountPM,
		FileHandlesPerIP:               p.FhIP,
		FileHandlesGlobal:              p.FhG,
		CleanupInterval:                ci,
	}
}

var vfRLOps = []OperationType{OpTypeReadLarge, OpTypeWriteLarge, OpTypeReaddir, OpTypeMount}

// vfRLCfgJSON is the configuration as the spec needs it: the rates the *configuration* asks for
// (1/4 token per second), the bursts the configuration names, and for the operation types,
// and the global bucket, whose bursts are not configurable, the bursts the limiter chose
// (in-package read).
func vfRLCfgJSON(p vfRLParams, rl *RateLimiter) M {
	opB := M{}
	for _, o := range vfRLOps {
		opB[string(o)] = rl.perOperationLimiter.bursts[o]
	}
	rl.globalLimiter.mu.Lock()
	gB := int(rl.globalLimiter.maxTokens)
	rl.globalLimiter.mu.Unlock()
	return M{"G": p.G, "gB": gB, "ipR4": 4 * p.IpR, "ipB": p.IpB, "connR4": 4 * p.ConnR, "connB": p.ConnB,
		"opR4": M{string(OpTypeReadLarge): 4 * p.RL, string(OpTypeWriteLarge): 4 * p.WL,
			string(OpTypeReaddir): 4 * p.RD, string(OpTypeMount): p.MountPM / 15},
		"opB": opB, "ci": p.CI, "fhIP": p.FhIP, "fhG": p.FhG}
}

type vfRLBucket struct {
	K    string `json:"k"`
	Tok  int64  `json:"tok"`
	Last int64  `json:"last"`
}

type vfRLOpBucket struct {
	IP   string `json:"ip"`
	Op   string `json:"op"`
	Tok  int64  `json:"tok"`
	Last int64  `json:"last"`
}

// vfRLProj projects the limiter (in-package read): tokens x 16 and lastRefill in ticks since base.
type vfRLProj struct {
	base    time.Time
	inexact int
}

func (pr *vfRLProj) ticks(t time.Time) int64 {
	d := t.Sub(pr.base)
	if d%vfRLTick != 0 {
		pr.inexact++
	}
	return int64(d / vfRLTick)
}

func (pr *vfRLProj) bucket(tb *TokenBucket) (int64, int64) {
	tb.mu.Lock()
	defer tb.mu.Unlock()
	v := tb.tokens * 16
	f := math.Floor(v)
	if f != v || math.IsNaN(v) || math.IsInf(v, 0) || math.Abs(v) > 1e9 {
		pr.inexact++
		if !(math.Abs(v) <= 1e9) {
			f = 999999999
		}
	}
	return int64(f), pr.ticks(tb.lastRefill)
}

func vfRLState(rl *RateLimiter, base time.Time) M {
	pr := &vfRLProj{base: base}
	gt, gl := pr.bucket(rl.globalLimiter)
	ips := []vfRLBucket{}
	rl.perIPLimiter.mu.RLock()
	for ip, tb := range rl.perIPLimiter.limiters {
		t, l := pr.bucket(tb)
		ips = append(ips, vfRLBucket{ip, t, l})
	}
	iplc := pr.ticks(rl.perIPLimiter.lastCleanup)
	rl.perIPLimiter.mu.RUnlock()
	sort.Slice(ips, func(i, j int) bool { return ips[i].K < ips[j].K })
	conns := []vfRLBucket{}
	rl.perConnectionLimiter.Range(func(k, v interface{}) bool {
		t, l := pr.bucket(v.(*TokenBucket))
		conns = append(conns, vfRLBucket{k.(string), t, l})
		return true
	})
	sort.Slice(conns, func(i, j int) bool { return conns[i].K < conns[j].K })
	ops := []vfRLOpBucket{}
	pol := rl.perOperationLimiter
	pol.mu.RLock()
	for ip, m := range pol.limiters {
		for o, tb := range m {
			t, l := pr.bucket(tb)
			ops = append(ops, vfRLOpBucket{ip, string(o), t, l})
		}
	}
	oplc := pr.ticks(pol.lastCleanup)
	pol.mu.RUnlock()
	sort.Slice(ops, func(i, j int) bool {
		if ops[i].IP != ops[j].IP {
			return ops[i].IP < ops[j].IP
		}
		return ops[i].Op < ops[j].Op
	})
	type fhc struct {
		K string `json:"k"`
		N int    `json:"n"`
	}
	fhs := []fhc{}
	rl.fileHandlesMu.Lock()
	fhg := rl.fileHandlesGlobal
	rl.fileHandlesPerIP.Range(func(k, v interface{}) bool {
		fhs = append(fhs, fhc{k.(string), v.(int)})
		return true
	})
	rl.fileHandlesMu.Unlock()
	sort.Slice(fhs, func(i, j int) bool { return fhs[i].K < fhs[j].K })
	return M{"g": M{"tok": gt, "last": gl}, "ip": ips, "conn": conns, "op": ops, "iplc": iplc, "oplc": oplc,
		"fh": M{"g": fhg, "ip": fhs}, "inexact": pr.inexact}
}

func vfRLBuckets(st M) int {
	return len(st["ip"].([]vfRLBucket)) + len(st["op"].([]vfRLOpBucket))
}

// vfRLHist is one history being recorded: the limiter under test, its twin, the clock base.
type vfRLHist struct {
	tr       *vfTrace
	rl, twin func() *RateLimiter // read at every step (the handler levels own the instances)
	base     time.Time
	level    string
	// measured for the evidence
	refusedExceeding, admittedAfter, cleaned bool
	lastBuckets                              int
	sample                                   []M
	keep                                     bool
}

func (h *vfRLHist) now() int64 { return int64(vfNow().Sub(h.base) / vfRLTick) }

func (h *vfRLHist) reset(hist int, p vfRLParams, extra M) {
	m := M{"ev": "reset", "hist": hist, "level": h.level, "t": h.now(), "cfg": vfRLCfgJSON(p, h.rl()),
		"ip": "-", "conn": "-", "op": "-", "dec": true, "decn": true, "rlx": 0, "st": vfRLState(h.rl(), h.base)}
	for k, v := range extra {
		m[k] = v
	}
	h.tr.Emit(m)
	h.lastBuckets = 0
	if h.keep {
		h.sample = append(h.sample, M{"cfg": m["cfg"]})
	}
}

// emit logs one call. rlx is the increment of the RateLimitExceeded metric (handler levels).
func (h *vfRLHist) emit(ev, ip, conn, op string, dec, decn bool, rlx int, extra M) {
	st := vfRLState(h.rl(), h.base)
	m := M{"ev": ev, "t": h.now(), "ip": ip, "conn": conn, "op": op, "dec": dec, "decn": decn, "rlx": rlx, "st": st}
	for k, v := range extra {
		m[k] = v
	}
	h.tr.Emit(m)
	if nb := vfRLBuckets(st); nb < h.lastBuckets {
		h.cleaned = true
		h.lastBuckets = nb
	} else {
		h.lastBuckets = nb
	}
	if ev == "req" || ev == "op" || ev == "free" {
		if !dec {
			h.refusedExceeding = true
		} else if h.refusedExceeding {
			h.admittedAfter = true
		}
	}
	if h.keep && len(h.sample) < 40 {
		h.sample = append(h.sample, M{"t": m["t"], "ev": ev, "ip": ip, "conn": conn, "op": op, "dec": dec})
	}
}

func (h *vfRLHist) nontrivial() bool { return h.refusedExceeding && h.admittedAfter && h.cleaned }

func vfRLAdvance(ticks int) { vfClockAdvance(time.Duration(ticks) * vfRLTick) }

func vfRLPick(r *rand.Rand, xs ...int) int { return xs[r.Intn(len(xs))] }

// vfRLRandomParams draws small limits so that every stage refuses often within a short history.
func vfRLRandomParams(r *rand.Rand) vfRLParams {
	return vfRLParams{
		G:       vfRLPick(r, 0, 1, 2, 3, 4, 4, 6, 8, 50),
		IpR:     vfRLPick(r, 0, 1, 1, 2, 3),
		IpB:     vfRLPick(r, 0, 1, 2, 2, 3, 5),
		ConnR:   vfRLPick(r, 0, 0, 1, 1, 2),
		ConnB:   vfRLPick(r, 0, 1, 1, 2, 3),
		RL:      vfRLPick(r, 0, 1, 2),
		WL:      vfRLPick(r, 0, 1, 2),
		RD:      vfRLPick(r, 0, 1, 3),
		MountPM: vfRLPick(r, 0, 15, 15, 30, 45, 60, 120),
		CI:      vfRLPick(r, 0, 0, 1, 2, 4, 8, 1200),
		FhIP:    vfRLPick(r, 0, 1, 2, 3, 10000),
		FhG:     vfRLPick(r, 0, 2, 4, 5, 1000000),
	}
}

func vfRLGap(r *rand.Rand) int {
	return vfRLPick(r, 0, 0, 0, 0, 0, 1, 1, 1, 2, 2, 3, 4, 5, 8, 16, 40)
}

// compliant spacing (ticks) for a client subject to rates r4a, r4b (0 = not subject / rate 0)
func vfRLSpacing(r4s ...int) int {
	gap := 1
	for _, r4 := range r4s {
		if r4 > 0 {
			if g := (16 + r4 - 1) / r4; g > gap {
				gap = g
			}
		}
	}
	return gap
}

// ---------------------------------------------------------------- API level

func TestVF_RateLimitAPI(t *testing.T) {
	seed := vfSeed()
	nh := vfEnvInt("VF_HIST", 120)
	steps := vfEnvInt("VF_STEPS", 60)
	tr := vfNewTrace(t, "ratelimit_api.ndjson")
	defer tr.Close()
	nontrivial := 0
	var samples []M
	for hi := 0; hi < nh; hi++ {
		r := vfRand(seed, fmt.Sprintf("rlapi%d", hi))
		p := vfRLRandomParams(r)
		directed := hi%40 == 0 // directed reproducer of F11 (regression scenario once fixed)
		if directed {
			p = vfRLParams{G: 2, IpR: 1, IpB: 1, ConnR: 0, ConnB: 0, RL: 1, WL: 1, RD: 1, MountPM: 15, CI: vfRLPick(r, 0, 1200), FhIP: 2, FhG: 3}
		}
		vfRLAdvance(4 + r.Intn(4))
		base := vfNow()
		rl := NewRateLimiter(p.config(time.Duration(p.CI) * vfRLTick))
		twin := NewRateLimiter(p.config(vfRLNever))
		h := &vfRLHist{tr: tr, rl: func() *RateLimiter { return rl }, twin: func() *RateLimiter { return twin }, base: base, level: "api", keep: hi < 2}
		h.reset(hi, p, M{"directed": directed})
		req := func(ip, conn string) bool {
			d, dn := rl.AllowRequest(ip, conn), twin.AllowRequest(ip, conn)
			x := 0
			if !d {
				x = 1
			}
			h.emit("req", ip, conn, "-", d, dn, x, nil)
			return d
		}
		op := func(ip string, o OperationType) {
			d, dn := rl.AllowOperation(ip, o), twin.AllowOperation(ip, o)
			x := 0
			if !d {
				x = 1
			}
			h.emit("op", ip, "-", string(o), d, dn, x, nil)
		}
		if directed {
			// the abusive address spends the whole global budget on requests its own per-IP limit
			// refuses; the other address, which has sent nothing yet, is then refused although only
			// one request was ever admitted
			req("ipA", "a1")
			req("ipA", "a1")
			req("ipA", "a1")
			req("ipB", "b1")
			vfRLAdvance(2)
			req("ipA", "a1")
			req("ipB", "b1")
			vfRLAdvance(4)
			req("ipB", "b1")
		}
		// clients: connection -> address; one address hammers, one paces itself, one is random
		type client struct {
			ip, conn string
			next     int64
		}
		nconn := 0
		newConn := func(ip string) *client {
			nconn++
			return &client{ip: ip, conn: fmt.Sprintf("k%d", nconn)}
		}
		ips := []string{"ip1", "ip2", "ip3"}
		r.Shuffle(len(ips), func(i, j int) { ips[i], ips[j] = ips[j], ips[i] })
		abuse := []*client{newConn(ips[0]), newConn(ips[0])}
		good := newConn(ips[1])
		other := []*client{newConn(ips[2]), newConn(ips[2]), abuse[1]}
		spacing := int64(vfRLSpacing(4*p.IpR, 4*p.ConnR))
		opSpacing := map[OperationType]int64{OpTypeReadLarge: int64(vfRLSpacing(4 * p.RL)), OpTypeWriteLarge: int64(vfRLSpacing(4 * p.WL)),
			OpTypeReaddir: int64(vfRLSpacing(4 * p.RD)), OpTypeMount: int64(vfRLSpacing(p.MountPM / 15))}
		goodOpNext := map[OperationType]int64{}
		for s := 0; s < steps; s++ {
			vfRLAdvance(vfRLGap(r))
			x := r.Intn(100)
			switch {
			case x < 30: // the abusive client sends a volley
				c := abuse[r.Intn(2)]
				for k := 1 + r.Intn(4); k > 0; k-- {
					req(c.ip, c.conn)
				}
			case x < 55: // the compliant client sends when its own limits allow
				if h.now() >= good.next {
					req(good.ip, good.conn)
					good.next = h.now() + spacing
				} else {
					c := other[r.Intn(len(other))]
					req(c.ip, c.conn)
				}
			case x < 68:
				c := other[r.Intn(len(other))]
				req(c.ip, c.conn)
			case x < 80: // operations from the abusive address
				o := vfRLOps[r.Intn(len(vfRLOps))]
				for k := 1 + r.Intn(4); k > 0; k-- {
					op(ips[0], o)
				}
			case x < 84: // the file handle quota of the same object (no handler uses it in the pinned tree)
				ip := ips[r.Intn(len(ips))]
				if r.Intn(3) > 0 {
					d := rl.AllocateFileHandle(ip)
					twin.AllocateFileHandle(ip)
					h.emit("fhalloc", ip, "-", "-", d, d, 0, nil)
				} else {
					rl.ReleaseFileHandle(ip)
					twin.ReleaseFileHandle(ip)
					h.emit("fhrel", ip, "-", "-", true, true, 0, nil)
				}
			case x < 92: // operations from the compliant address, paced per type
				o := vfRLOps[r.Intn(len(vfRLOps))]
				if h.now() >= goodOpNext[o] {
					op(good.ip, o)
					goodOpNext[o] = h.now() + opSpacing[o]
				} else {
					op(ips[2], o)
				}
			default: // a connection ends; its successor gets a fresh id (ids are never reused)
				i := r.Intn(len(other))
				c := other[i]
				rl.CleanupConnection(c.conn)
				twin.CleanupConnection(c.conn)
				h.emit("close", c.ip, c.conn, "-", true, true, 0, nil)
				nc := newConn(c.ip)
				other[i] = nc
				if c == abuse[1] {
					abuse[1] = nc
				}
			}
		}
		if h.nontrivial() {
			nontrivial++
		}
		if h.keep {
			samples = append(samples, M{"level": "api", "calls": h.sample})
		}
	}
	vfWriteJSON(t, "ratelimit_api.summary.json", M{"histories": nh, "steps": steps, "nontrivial": nontrivial, "lines": tr.n, "samples": samples})
}

// ---------------------------------------------------------------- handler level

type vfRLSide struct {
	env      *vfEnv
	root, fh uint64
}

func vfRLNewSide(t *testing.T, p vfRLParams, ci time.Duration) *vfRLSide {
	fs := vfNewFS()
	fs.vfPoke("/f", "F", bytes.Repeat([]byte("x"), 4096), "", 0644)
	fs.vfPoke("/d", "D", nil, "", 0755)
	fs.vfPoke("/d/a", "F", []byte("a"), "", 0644)
	cfg := p.config(ci)
	env := vfNewEnv(t, fs, ExportOptions{EnableRateLimiting: true, RateLimitConfig: &cfg, MaxWorkers: 2})
	if env.n.rateLimiter.Load() == nil {
		t.Fatalf("rate limiter not installed by New with EnableRateLimiting")
	}
	s := &vfRLSide{env: env}
	for _, x := range []struct {
		p string
		h *uint64
	}{{"/", &s.root}, {"/f", &s.fh}} {
		node, err := env.n.Lookup(x.p)
		if err != nil {
			t.Fatalf("lookup %s: %v", x.p, err)
		}
		*x.h = env.n.fileMap.Allocate(node)
	}
	return s
}

// vfRLHandlerCall issues one request; returns (refused by the limiter, status text, metric increment).
func (s *vfRLSide) call(t *testing.T, proc string, ip string, big []byte) (bool, string, int) {
	cred := vfCred{Flavor: AUTH_SYS, IP: ip, Port: 900}
	before := atomic.LoadUint64(&s.env.n.metrics.metrics.RateLimitExceeded)
	var refused bool
	var status string
	if proc == "MNT" {
		var a bytes.Buffer
		xdrEncodeString(&a, "/")
		raw := s.env.Call(MOUNT_PROGRAM, MOUNT_V3, 1, a.Bytes(), cred)
		if raw.Err != nil || raw.Denied || raw.Accept != SUCCESS || len(raw.Body) < 4 {
			t.Fatalf("MNT: no mount reply: %+v", raw)
		}
		st := binary.BigEndian.Uint32(raw.Body[0:4])
		status = fmt.Sprintf("MNT%d", st)
		refused = st == 10006 // MNT3ERR_SERVERFAULT is what the handler uses for "busy"
	} else {
		var rep *vfNFSReply
		switch proc {
		case "READ_LARGE":
			rep = s.env.Do(NFSPROC3_READ, vfArgsRead(s.fh, 0, 65537), cred)
		case "READ_LARGE2":
			rep = s.env.Do(NFSPROC3_READ, vfArgsRead(s.fh, 0, 1<<20), cred)
		case "READ_64K":
			rep = s.env.Do(NFSPROC3_READ, vfArgsRead(s.fh, 0, 65536), cred)
		case "READ_SMALL":
			rep = s.env.Do(NFSPROC3_READ, vfArgsRead(s.fh, 0, 512), cred)
		case "WRITE_LARGE":
			rep = s.env.Do(NFSPROC3_WRITE, vfArgsWrite(s.fh, 0, 0, big), cred)
		case "WRITE_64K":
			rep = s.env.Do(NFSPROC3_WRITE, vfArgsWrite(s.fh, 0, 0, big[:65536]), cred)
		case "WRITE_SMALL":
			rep = s.env.Do(NFSPROC3_WRITE, vfArgsWrite(s.fh, 0, 0, big[:16]), cred)
		case "READDIR":
			rep = s.env.Do(NFSPROC3_READDIR, vfArgsReaddir(s.root, 0, [8]byte{}, 4096), cred)
		case "READDIRPLUS":
			rep = s.env.Do(NFSPROC3_READDIRPLUS, vfArgsReaddirplus(s.root, 0, [8]byte{}, 4096, 32768), cred)
		case "GETATTR":
			rep = s.env.Do(NFSPROC3_GETATTR, vfArgsFH(s.fh), cred)
		default:
			t.Fatalf("unknown proc %s", proc)
		}
		if rep.Raw.Err != nil || rep.Raw.Denied || rep.Raw.Accept != SUCCESS {
			t.Fatalf("%s: no NFS reply: %+v", proc, rep.Raw)
		}
		status = rep.StatusName()
		// "try again later" in either spelling is a refusal; anything else went past the limiter
		refused = rep.Res != nil && (rep.Res.Status == NFSERR_DELAY || rep.Res.Status == NFSERR_JUKEBOX)
	}
	return refused, status, int(atomic.LoadUint64(&s.env.n.metrics.metrics.RateLimitExceeded) - before)
}

var vfRLProcOp = map[string]string{"READ_LARGE": "read_large", "READ_LARGE2": "read_large", "WRITE_LARGE": "write_large",
	"READDIR": "readdir", "READDIRPLUS": "readdir", "MNT": "mount"}

func TestVF_RateLimitNFS(t *testing.T) {
	seed := vfSeed()
	nh := vfEnvInt("VF_HIST", 16)
	steps := vfEnvInt("VF_STEPS", 50)
	tr := vfNewTrace(t, "ratelimit_nfs.ndjson")
	defer tr.Close()
	big := bytes.Repeat([]byte("w"), 65537)
	nontrivial := 0
	var samples []M
	procs := []string{"READ_LARGE", "READ_LARGE", "READ_LARGE2", "WRITE_LARGE", "WRITE_LARGE", "READDIR", "READDIRPLUS", "MNT", "MNT",
		"READ_64K", "READ_SMALL", "WRITE_64K", "WRITE_SMALL", "GETATTR"}
	for hi := 0; hi < nh; hi++ {
		r := vfRand(seed, fmt.Sprintf("rlnfs%d", hi))
		p := vfRLRandomParams(r)
		p.G, p.IpR, p.IpB = 1000, 1000, 1000 // AllowRequest is not on this path
		vfRLAdvance(4 + r.Intn(4))
		base := vfNow()
		a := vfRLNewSide(t, p, time.Duration(p.CI)*vfRLTick)
		b := vfRLNewSide(t, p, vfRLNever)
		h := &vfRLHist{tr: tr, rl: func() *RateLimiter { return a.env.n.rateLimiter.Load() }, twin: func() *RateLimiter { return b.env.n.rateLimiter.Load() },
			base: base, level: "nfs", keep: hi < 1}
		h.reset(hi, p, M{"directed": false})
		ips := []string{"10.0.0.1", "10.0.0.2", "10.0.0.3"}
		// the last address paces itself per operation type; the first hammers
		goodNext := map[string]int64{}
		spacing := map[string]int64{"read_large": int64(vfRLSpacing(4 * p.RL)), "write_large": int64(vfRLSpacing(4 * p.WL)),
			"readdir": int64(vfRLSpacing(4 * p.RD)), "mount": int64(vfRLSpacing(p.MountPM / 15))}
		for s := 0; s < steps; s++ {
			vfRLAdvance(vfRLGap(r))
			proc := procs[r.Intn(len(procs))]
			opn, limited := vfRLProcOp[proc]
			ip := ips[r.Intn(2)]
			reps := 1
			if x := r.Intn(100); x < 30 && limited {
				if h.now() >= goodNext[opn] {
					ip = ips[2]
					goodNext[opn] = h.now() + spacing[opn]
				}
			} else if x < 60 {
				ip = ips[0]
				reps = 1 + r.Intn(4)
			}
			for ; reps > 0; reps-- {
				ref, status, rlx := a.call(t, proc, ip, big)
				refn, _, _ := b.call(t, proc, ip, big)
				ev := "op"
				if !limited {
					ev, opn = "free", "none"
				}
				h.emit(ev, ip, "-", opn, !ref, !refn, rlx, M{"proc": proc, "status": status})
			}
		}
		if h.nontrivial() {
			nontrivial++
		}
		if h.keep {
			samples = append(samples, M{"level": "nfs", "calls": h.sample})
		}
		a.env.Close()
		b.env.Close()
	}
	vfWriteJSON(t, "ratelimit_nfs.summary.json", M{"histories": nh, "steps": steps, "nontrivial": nontrivial, "lines": tr.n, "samples": samples})
}

// ---------------------------------------------------------------- connection level

// vfRLConn gives the server side of an in-memory pipe a TCP remote address.
type vfRLConn struct {
	net.Conn
	remote *net.TCPAddr
}

func (c *vfRLConn) RemoteAddr() net.Addr { return c.remote }

// vfRLLink is one client connection into handleConnectionLoop of one server.
type vfRLLink struct {
	cli  net.Conn
	done chan struct{}
	id   string
	xid  uint32
}

func vfRLDial(t *testing.T, e *vfEnv, ip string, port int) *vfRLLink {
	cli, srvSide := net.Pipe()
	before := e.srv.nextConnID.Load()
	l := &vfRLLink{cli: cli, done: make(chan struct{}), xid: 7000}
	go func() {
		e.srv.handleConnectionWithRecordMarking(&vfRLConn{Conn: srvSide, remote: &net.TCPAddr{IP: net.ParseIP(ip), Port: port}}, e.h)
		close(l.done)
	}()
	for i := 0; e.srv.nextConnID.Load() == before; i++ {
		if i > 5000 {
			t.Fatalf("connection loop did not start")
		}
		time.Sleep(time.Millisecond)
	}
	l.id = fmt.Sprintf("conn-%d", before+1)
	return l
}

// null sends NFS NULL with AUTH_SYS root and returns whether the reply is MSG_DENIED.
func (l *vfRLLink) null(t *testing.T) bool {
	l.xid++
	var b bytes.Buffer
	for _, w := range []uint32{l.xid, RPC_CALL, 2, NFS_PROGRAM, NFS_V3, NFSPROC3_NULL, AUTH_SYS} {
		xdrEncodeUint32(&b, w)
	}
	vfEncOpaque(&b, vfAuthSysBody(1, "vf", 0, 0, nil))
	xdrEncodeUint32(&b, 0)
	xdrEncodeUint32(&b, 0)
	l.cli.SetDeadline(time.Now().Add(20 * time.Second))
	var hdr [4]byte
	binary.BigEndian.PutUint32(hdr[:], 0x80000000|uint32(b.Len()))
	if _, err := l.cli.Write(append(hdr[:], b.Bytes()...)); err != nil {
		t.Fatalf("conn %s: write: %v", l.id, err)
	}
	if _, err := io.ReadFull(l.cli, hdr[:]); err != nil {
		t.Fatalf("conn %s: read reply header: %v", l.id, err)
	}
	n := binary.BigEndian.Uint32(hdr[:]) & 0x7fffffff
	rep := make([]byte, n)
	if _, err := io.ReadFull(l.cli, rep); err != nil || n < 12 {
		t.Fatalf("conn %s: read reply (%d bytes): %v", l.id, n, err)
	}
	if binary.BigEndian.Uint32(rep[0:4]) != l.xid || binary.BigEndian.Uint32(rep[4:8]) != RPC_REPLY {
		t.Fatalf("conn %s: not the reply to xid %d: % x", l.id, l.xid, rep[:12])
	}
	return binary.BigEndian.Uint32(rep[8:12]) == MSG_DENIED
}

func (l *vfRLLink) close(t *testing.T) {
	l.cli.Close()
	select {
	case <-l.done:
	case <-time.After(20 * time.Second):
		t.Fatalf("conn %s: loop did not end", l.id)
	}
}

func TestVF_RateLimitConn(t *testing.T) {
	seed := vfSeed()
	nh := vfEnvInt("VF_HIST", 16)
	steps := vfEnvInt("VF_STEPS", 40)
	tr := vfNewTrace(t, "ratelimit_conn.ndjson")
	defer tr.Close()
	nontrivial := 0
	var samples []M
	for hi := 0; hi < nh; hi++ {
		r := vfRand(seed, fmt.Sprintf("rlconn%d", hi))
		p := vfRLRandomParams(r)
		directed := hi%8 == 0
		if directed {
			p = vfRLParams{G: 3, IpR: 2, IpB: 1, ConnR: 1, ConnB: 1, RL: 1, WL: 1, RD: 1, MountPM: 15, CI: vfRLPick(r, 0, 1200), FhIP: 10000, FhG: 1000000}
		}
		vfRLAdvance(4 + r.Intn(4))
		base := vfNow()
		a := vfRLNewSide(t, p, time.Duration(p.CI)*vfRLTick)
		b := vfRLNewSide(t, p, vfRLNever)
		h := &vfRLHist{tr: tr, rl: func() *RateLimiter { return a.env.n.rateLimiter.Load() }, twin: func() *RateLimiter { return b.env.n.rateLimiter.Load() },
			base: base, level: "conn", keep: hi < 1}
		h.reset(hi, p, M{"directed": directed})
		type pair struct {
			ip   string
			a, b *vfRLLink
			next int64
		}
		port := 900
		dial := func(ip string) *pair {
			port++
			pa, pb := vfRLDial(t, a.env, ip, port), vfRLDial(t, b.env, ip, port)
			if pa.id != pb.id {
				t.Fatalf("twin connection ids differ: %s %s", pa.id, pb.id)
			}
			return &pair{ip: ip, a: pa, b: pb}
		}
		send := func(c *pair) {
			before := atomic.LoadUint64(&a.env.n.metrics.metrics.RateLimitExceeded)
			den := c.a.null(t)
			rlx := int(atomic.LoadUint64(&a.env.n.metrics.metrics.RateLimitExceeded) - before)
			denn := c.b.null(t)
			h.emit("req", c.ip, c.a.id, "-", !den, !denn, rlx, M{"proc": "NULL"})
		}
		abuse := []*pair{dial("10.0.0.1"), dial("10.0.0.1")}
		good := dial("10.0.0.2")
		other := []*pair{dial("10.0.0.3"), abuse[1]}
		all := func() []*pair { return append([]*pair{abuse[0], good}, other...) }
		if directed {
			// one connection exceeds its per-connection limit; the requests it is refused have
			// already been charged to the global budget the compliant address shares
			for i := 0; i < 4; i++ {
				send(abuse[0])
			}
			send(good)
			vfRLAdvance(4)
			send(abuse[0])
			send(good)
		}
		spacing := int64(vfRLSpacing(4*p.IpR, 4*p.ConnR))
		for s := 0; s < steps; s++ {
			vfRLAdvance(vfRLGap(r))
			x := r.Intn(100)
			switch {
			case x < 40:
				c := abuse[r.Intn(2)]
				for k := 1 + r.Intn(4); k > 0; k-- {
					send(c)
				}
			case x < 70:
				if h.now() >= good.next {
					send(good)
					good.next = h.now() + spacing
				} else {
					send(other[r.Intn(len(other))])
				}
			case x < 90:
				send(other[r.Intn(len(other))])
			default: // the connection ends (loop exit -> CleanupConnection), a new one replaces it
				i := r.Intn(len(other))
				c := other[i]
				c.a.close(t)
				c.b.close(t)
				h.emit("close", c.ip, c.a.id, "-", true, true, 0, nil)
				nc := dial(c.ip)
				other[i] = nc
				if c == abuse[1] {
					abuse[1] = nc
				}
			}
		}
		for _, c := range all() {
			c.a.close(t)
			c.b.close(t)
		}
		if h.refusedExceeding && h.admittedAfter {
			nontrivial++
		}
		if h.keep {
			samples = append(samples, M{"level": "conn", "calls": h.sample})
		}
		a.env.Close()
		b.env.Close()
	}
	vfWriteJSON(t, "ratelimit_conn.summary.json", M{"histories": nh, "steps": steps, "nontrivial": nontrivial, "lines": tr.n, "samples": samples})
}

package absnfs

// vf_core3.go: directed cache-transparency probes appended to the "ns" profile of the core
// driver. The shapes come from the counterexamples TLC finds on specs/Core/Namespace.tla when an
// invalidation is missing: something about a path is cached (positive attributes, a negative
// entry, a directory listing), then the path or one of its ancestors is changed by each of the
// mutators, then the cached thing is asked for again. Every (cached thing x mutation) pair is
// run under several cache configurations; CoreTrace decides as for any other history.

import (
	"fmt"
	"syscall"
	"testing"
)

// handleOf returns a handle the client holds for path p (0 if none).
func (c *vfcClient) handleOf(p ...string) uint64 {
	var found uint64
	for _, h := range c.hs {
		q := c.hp[h]
		if len(q) != len(p) {
			continue
		}
		same := true
		for i := range q {
			if q[i] != p[i] {
				same = false
			}
		}
		if same {
			found = h
		}
	}
	return found
}

// fresh looks name up through dir so that the client holds a current handle for it.
func (c *vfcClient) fresh(dir uint64, name string) uint64 {
	c.lookup(dir, name)
	return c.handleOf(append(append([]string{}, c.hp[dir]...), name)...)
}

func (c *vfcClient) probeDir(dir uint64, names ...string) {
	if dir == 0 {
		return
	}
	for _, n := range names {
		c.lookup(dir, n)
	}
	c.readdir(dir, false)
	c.readdir(dir, true)
	for _, n := range names {
		c.lookup(dir, n)
	}
}

func vfcDirectedCfgs() []vfcCfg {
	return []vfcCfg{
		{Neg: true, Dir: true, TTL: "def", Profile: "ns"},
		{Neg: false, Dir: false, TTL: "def", Profile: "ns"},
		{Neg: true, Dir: false, TTL: "def", Profile: "ns"},
		{Neg: false, Dir: true, TTL: "def", Profile: "ns"},
		{Neg: true, Dir: true, TTL: "min", Profile: "ns"},
	}
}

// vfcStaleHandleData: see family 3b in vfcDirected.
func vfcStaleHandleData(c *vfcClient, R uint64) {
	fileMode := vfSattr{Mode: u32p(0644)}
	c.create(R, "old", 0, fileMode, "")
	ho := c.handleOf("old")
	c.write(ho, "small", 0, []byte{1, 2, 3, 4, 5, 6, 7, 8, 9, 10}, 2)
	c.create(R, "new", 0, fileMode, "")
	c.write(c.handleOf("new"), "small", 0, []byte{7, 7, 7}, 2)
	c.getattr(ho)
	c.remove(R, "old")
	c.rename(R, "new", R, "old")
	c.setattr(ho, vfSattr{Size: u64p(10)}) // the size the old object had
	c.read(ho, "small", 0, 16)
	c.getattr(ho)
	c.write(ho, "small", 1, []byte{9}, 2)
	c.read(ho, "small", 0, 16)
	c.lookup(R, "old")
	c.read(c.handleOf("old"), "small", 0, 16)
}

// vfcThroughLink: family 5. Something about a target (file or directory) is cached, then a
// request through the handle of a symbolic link that resolves to it is made (SETATTR mode / size,
// WRITE, chown). Whether the server refuses it, applies it to the link or lets the backend follow
// the link is left open by CoreOps; whatever it did, what is reported for the target afterwards
// must agree with the backend.
func vfcThroughLink(c *vfcClient, R uint64) {
	fileMode := vfSattr{Mode: u32p(0644)}
	dirMode := vfSattr{Mode: u32p(0755)}
	c.create(R, "f", 0, fileMode, "")
	f := c.handleOf("f")
	c.write(f, "small", 0, []byte{1, 2, 3, 4, 5, 6}, 2)
	c.mkdir(R, "d", dirMode)
	c.symlink(R, "lf", "f", vfSattr{})
	c.symlink(R, "ld", "d", vfSattr{})
	c.symlink(R, "ll", "lf", vfSattr{}) // a link to a link
	look := func() {
		for _, nm := range []string{"f", "d", "lf", "ld", "ll"} {
			c.lookup(R, nm)
		}
		c.getattr(f)
		c.getattr(c.handleOf("d"))
		c.read(f, "small", 0, 16)
		c.readdir(R, true)
	}
	look()
	lf, ld, ll := c.handleOf("lf"), c.handleOf("ld"), c.handleOf("ll")
	c.setattr(ld, vfSattr{Mode: u32p(0700)})
	look()
	c.setattr(lf, vfSattr{Mode: u32p(0600)})
	look()
	c.setattr(lf, vfSattr{Size: u64p(2)})
	look()
	c.write(lf, "small", 1, []byte{9, 9, 9, 9, 9, 9, 9, 9}, 2)
	look()
	c.setattr(ll, vfSattr{Mode: u32p(0640), Size: u64p(4)})
	look()
	c.setattr(lf, vfSattr{Size: u64p(12)})
	look()
	c.setattr(ld, vfSattr{Mode: u32p(0)})
	look()
	c.setattr(lf, vfSattr{Mode: u32p(0)})
	look()
}

// vfcBigRead: family 6. Transfer sizes above 4096 that are not a multiple of 4096 (what FSINFO
// advertises is rounded, what READ serves is not) and files larger than the transfer size: the
// count of every READ is min(requested, transfer size, size - offset) and eof says whether the
// end was reached.
func vfcBigRead(c *vfcClient, R uint64, T int) {
	c.snap = 1 << 14
	c.create(R, "f", 0, vfSattr{Mode: u32p(0644)}, "")
	f := c.handleOf("f")
	size := T + T/5
	pat := make([]byte, size)
	for i := range pat {
		pat[i] = byte(1 + i%251)
	}
	for off := 0; off < size; off += T / 2 {
		end := off + T/2
		if end > size {
			end = size
		}
		c.write(f, "small", uint64(off), pat[off:end], 2)
	}
	for _, rd := range [][2]int{{0, size}, {0, T}, {0, T + 1}, {0, T - 1}, {0, 4097}, {0, T - T%4096}, {0, T - T%4096 + 1},
		{7, T}, {size - T, T}, {size - T + 1, T}, {size - 10, T}, {size, T}, {0, 1 << 20}} {
		c.read(f, "small", uint64(rd[0]), uint32(rd[1]))
	}
	c.getattr(f)
}

// vfcDirectedData runs the data-path probes (appended to the "data" profile).
func vfcDirectedData(t *testing.T, tr *vfTrace, firstHist int, seed int64) int {
	n := 0
	for _, cfg := range []vfcCfg{{TTL: "def", Neg: true, Dir: true, Profile: "data"}, {TTL: "min", Profile: "data"}, {TTL: "def", T: 4, Profile: "data"}} {
		c := vfcNewClient(t, tr, cfg, firstHist+n, seed)
		vfcStaleHandleData(c, c.hs[0])
		c.flush()
		c.env.Close()
		n++
		c = vfcNewClient(t, tr, cfg, firstHist+n, seed)
		vfcThroughLink(c, c.hs[0])
		c.flush()
		c.env.Close()
		n++
	}
	for _, T := range []int{5000, 8191} {
		c := vfcNewClient(t, tr, vfcCfg{TTL: "def", T: T, Profile: "data"}, firstHist+n, seed)
		vfcBigRead(c, c.hs[0], T)
		c.flush()
		c.env.Close()
		n++
	}
	return n
}

// vfcDirected runs the probe families; returns the number of histories written.
func vfcDirected(t *testing.T, tr *vfTrace, firstHist int, seed int64) int {
	n := 0
	run := func(cfg vfcCfg, f func(c *vfcClient, R uint64)) {
		c := vfcNewClient(t, tr, cfg, firstHist+n, seed)
		f(c, c.hs[0])
		c.flush()
		c.env.Close()
		n++
	}
	dirMode := vfSattr{Mode: u32p(0755)}
	fileMode := vfSattr{Mode: u32p(0644)}
	for _, cfg := range vfcDirectedCfgs() {
		// ---- family 1: something below directory a is cached, then a itself is replaced
		for _, cached := range []string{"posF", "posD", "neg", "listing"} {
			for _, change := range []string{"away+mkdir", "away+onto", "rmdir+mkdir", "rmdir+onto"} {
				cached, change := cached, change
				run(cfg, func(c *vfcClient, R uint64) {
					c.mkdir(R, "a", dirMode)
					a := c.handleOf("a")
					switch cached {
					case "posF":
						c.create(a, "c", 0, fileMode, "")
					case "posD":
						c.mkdir(a, "c", dirMode)
					case "listing":
						c.create(a, "c", 0, fileMode, "")
						c.create(a, "e", 0, fileMode, "")
					}
					c.probeDir(a, "c", "e") // fills attribute / negative / directory caches
					if change[:5] == "rmdir" {
						for _, nm := range []string{"c", "e"} {
							if c.kindAt([]string{"a", nm}) == "D" {
								c.rmdir(a, nm)
							} else if c.kindAt([]string{"a", nm}) != "" {
								c.remove(a, nm)
							}
						}
						c.lookup(a, "c") // the removal is cached too (negative entry) where enabled
						c.rmdir(R, "a")
					} else {
						c.rename(R, "a", R, "z")
					}
					if change[len(change)-5:] == "mkdir" {
						c.mkdir(R, "a", dirMode)
					} else {
						// another directory, whose contents differ from what was cached, takes the name
						c.mkdir(R, "b", dirMode)
						b := c.handleOf("b")
						if cached == "neg" || cached == "listing" {
							c.create(b, "c", 0, fileMode, "")
						}
						if cached == "posF" {
							c.mkdir(b, "c", dirMode)
						}
						c.create(b, "n", 0, fileMode, "")
						c.rename(R, "b", R, "a")
					}
					a2 := c.fresh(R, "a")
					c.probeDir(a2, "c", "e", "n")
					if c.kindAt([]string{"z"}) == "D" {
						c.probeDir(c.fresh(R, "z"), "c", "e")
					}
				})
			}
		}
		// ---- family 1b: the listing of a NESTED directory is cached while its parent's is not, then
		// the parent is renamed away and both are made again
		run(cfg, func(c *vfcClient, R uint64) {
			c.mkdir(R, "a", dirMode)
			a := c.handleOf("a")
			c.mkdir(a, "s", dirMode)
			s1 := c.handleOf("a", "s")
			c.create(s1, "f", 0, fileMode, "")
			c.readdir(s1, false)
			c.readdir(s1, true)
			c.lookup(s1, "f")
			c.rename(R, "a", R, "z")
			c.mkdir(R, "a", dirMode)
			a2 := c.fresh(R, "a")
			c.mkdir(a2, "s", dirMode)
			s2 := c.fresh(a2, "s")
			c.probeDir(s2, "f", "g")
			c.probeDir(c.fresh(c.fresh(R, "z"), "s"), "f")
		})
		// ---- family 3b: a handle outlives its object and the name is re-populated by RENAME; a
		// request through the old handle may fail, but may not report success without its effect
		run(cfg, vfcStaleHandleData)
		// ---- family 5: requests through the handle of a link whose target's attributes are cached
		run(cfg, vfcThroughLink)
		// ---- family 2: the listing of a directory is cached, then every mutator changes its entries
		run(cfg, func(c *vfcClient, R uint64) {
			c.mkdir(R, "a", dirMode)
			c.mkdir(R, "b", dirMode)
			a, b := c.handleOf("a"), c.handleOf("b")
			c.create(b, "g", 0, fileMode, "")
			c.mkdir(b, "h", dirMode)
			c.create(b, "k", 0, fileMode, "")
			both := func() {
				c.readdir(a, false)
				c.readdir(b, false)
				c.readdir(a, true)
				c.readdir(b, true)
			}
			both()
			c.create(a, "n1", 0, fileMode, "")
			both()
			c.mkdir(a, "n2", dirMode)
			both()
			c.symlink(a, "n3", "n1", vfSattr{})
			both()
			c.rename(b, "g", a, "f") // cross-directory, into a
			both()
			c.lookup(a, "f")
			c.lookup(b, "g")
			c.rename(a, "n1", b, "m") // cross-directory, out of a
			both()
			c.rename(a, "f", a, "f2") // within a
			both()
			c.rename(b, "h", a, "h") // a directory moves across
			both()
			c.remove(a, "f2")
			both()
			c.rmdir(a, "n2")
			both()
			c.remove(a, "n3")
			both()
			c.rename(b, "k", b, "m") // over an existing file
			both()
		})
		// ---- family 3: an object's own attributes are cached, then it is altered or replaced
		run(cfg, func(c *vfcClient, R uint64) {
			c.create(R, "f", 0, fileMode, "")
			f := c.handleOf("f")
			c.write(f, "small", 0, []byte{1, 2, 3, 4, 5}, 2)
			c.symlink(R, "l", "f", vfSattr{})
			c.mkdir(R, "d", dirMode)
			look := func() {
				for _, nm := range []string{"f", "l", "d", "e"} {
					c.lookup(R, nm)
				}
				c.readdir(R, true)
			}
			look()
			c.write(f, "small", 3, []byte{9, 9, 9, 9, 9, 9}, 2)
			look()
			c.setattr(f, vfSattr{Mode: u32p(0600)})
			look()
			c.setattr(f, vfSattr{Size: u64p(2)})
			look()
			// unusual mode words: bits above the 16-bit POSIX mode, setuid/sticky
			for _, m := range []uint32{0x80000644, 0x40000600, 0x10644, 07644} {
				c.setattr(f, vfSattr{Mode: u32p(m)})
				c.getattr(f)
				c.lookup(f, "x") // the handle of a regular file must still be one
				c.readdir(f, false)
				look()
			}
			c.setattr(c.handleOf("d"), vfSattr{Mode: u32p(0700)})
			look()
			c.rename(R, "l", R, "f") // a symlink replaces the file
			look()
			c.remove(R, "f")
			c.mkdir(R, "f", dirMode) // ... and a directory takes the name
			look()
			c.rename(R, "d", R, "e")
			c.create(R, "d", 1, fileMode, "") // a file takes the directory's old name
			look()
			c.probeDir(c.fresh(R, "e"), "c")
		})
	}
	// ---- family 7: the k-th mutating backend operation of a namespace request fails once (EIO,
	// EPERM, ENOSPC). A request that reports failure must leave the tree as it was, and whatever it
	// reports, the caches must agree with the backend afterwards (the probes that follow).
	for _, cfg := range []vfcCfg{{Neg: true, Dir: true, TTL: "def", Profile: "ns"}, {Neg: false, Dir: false, TTL: "def", Profile: "ns"}} {
		for mi, mut := range []string{"create", "createx", "mkdir", "symlink", "remove", "rmdir", "rename", "renameover"} {
			for k := int64(1); k <= 3; k++ {
				for _, nonroot := range []bool{false, true} {
					if nonroot && mi > 3 {
						continue // ownership is only recorded by the creating procedures
					}
					mut, k, nonroot := mut, k, nonroot
					errno := []syscall.Errno{syscall.EIO, syscall.EPERM, syscall.ENOSPC}[(mi+int(k))%3]
					hit := false
					run(cfg, func(c *vfcClient, R uint64) {
						c.mkdir(R, "a", vfSattr{Mode: u32p(0777)})
						a := c.handleOf("a")
						c.create(a, "old", 0, vfSattr{Mode: u32p(0666)}, "")
						c.mkdir(a, "od", vfSattr{Mode: u32p(0777)})
						c.create(a, "o2", 0, vfSattr{Mode: u32p(0666)}, "")
						c.probeDir(a, "n", "old", "od", "o2", "new")
						if nonroot {
							c.cred = vfCred{Flavor: AUTH_SYS, UID: 1000, GID: 1000, IP: "127.0.0.1", Port: 1000}
						}
						c.flush()
						c.fs.SetFaultAt(k, errno)
						switch mut {
						case "create":
							c.create(a, "n", 0, vfSattr{Mode: u32p(0600)}, "")
						case "createx":
							c.create(a, "n", 1, vfSattr{Mode: u32p(0640), Size: u64p(0)}, "")
						case "mkdir":
							c.mkdir(a, "n", vfSattr{Mode: u32p(0700)})
						case "symlink":
							c.symlink(a, "n", "old", vfSattr{})
						case "remove":
							c.remove(a, "old")
						case "rmdir":
							c.rmdir(a, "od")
						case "rename":
							c.rename(a, "old", a, "new")
						case "renameover":
							c.rename(a, "old", a, "o2")
						}
						if c.fs.FaultHit() {
							hit = true
							c.pending["nsfault"] = true
						}
						c.cred = vfRoot
						c.probeDir(a, "n", "old", "od", "o2", "new")
						// a retry of the same request must be judged like any first attempt
						switch mut {
						case "create", "createx":
							c.create(a, "n", 1, vfSattr{Mode: u32p(0600)}, "")
						case "mkdir":
							c.mkdir(a, "n", vfSattr{Mode: u32p(0700)})
						case "symlink":
							c.symlink(a, "n", "old", vfSattr{})
						}
						c.probeDir(a, "n", "old", "od", "o2", "new")
					})
					_ = hit
				}
			}
		}
	}
	// ---- family 4: another client's read-only requests land between two backend operations of a
	// mutating request (deterministic interleaving at every backend-operation boundary); what
	// they cached must not survive the mutation
	for _, cfg := range []vfcCfg{{Neg: true, Dir: true, TTL: "def", Profile: "ns"}, {Neg: false, Dir: false, TTL: "def", Profile: "ns"}} {
		for _, mut := range []string{"create", "mkdir", "symlink", "remove", "rename", "write", "setattr"} {
			for k := 1; k <= 8; k++ {
				mut, k := mut, k
				reached := false
				run(cfg, func(c *vfcClient, R uint64) {
					c.mkdir(R, "a", dirMode)
					a := c.handleOf("a")
					c.create(a, "old", 0, fileMode, "")
					c.write(c.handleOf("a", "old"), "small", 0, []byte{7, 7, 7}, 2)
					c.probeDir(a, "n", "old", "new")
					c.flush()
					count := 0
					c.fs.Gate = func(op, p string) {
						count++
						if count != k {
							return
						}
						reached = true
						g := c.fs.Gate
						c.fs.Gate = nil
						// the other client: not logged (its replies may see the intermediate state)
						for _, nm := range []string{"n", "old", "new"} {
							c.env.Do(NFSPROC3_LOOKUP, vfArgsDirOp(a, nm), vfRoot)
						}
						c.env.Do(NFSPROC3_READDIRPLUS, vfArgsReaddirplus(a, 0, [8]byte{}, 65536, 1<<20), vfRoot)
						c.env.Do(NFSPROC3_READDIR, vfArgsReaddir(a, 0, [8]byte{}, 1<<20), vfRoot)
						c.fs.TakeCalls()
						c.fs.Gate = g
					}
					switch mut {
					case "create":
						c.create(a, "n", 1, vfSattr{Mode: u32p(0600)}, "")
					case "mkdir":
						c.mkdir(a, "n", vfSattr{Mode: u32p(0700)})
					case "symlink":
						c.symlink(a, "n", "old", vfSattr{})
					case "remove":
						c.remove(a, "old")
					case "rename":
						c.rename(a, "old", a, "new")
					case "write":
						c.write(c.handleOf("a", "old"), "small", 2, []byte{1, 2, 3, 4, 5, 6}, 2)
					case "setattr":
						c.setattr(c.handleOf("a", "old"), vfSattr{Mode: u32p(0600), Size: u64p(1)})
					}
					if reached {
						// the outcome of the interleaved request itself is judged like any other;
						// its calls list misses what the nested requests took, which only matters
						// to profiles that judge backend calls
					}
					c.fs.Gate = nil
					c.probeDir(a, "n", "old", "new")
				})
				if !reached {
					break // the request has fewer than k backend operations
				}
			}
		}
	}
	_ = fmt.Sprint
	return n
}

package absnfs

// vf_workerpool.go: driver for C20 (specs/WorkerPool).
//
//   TestVF_WorkerPoolRun : applies environment schedules (file $VF_WP_SCHED, written by
//       checks/C20.py from TLC-generated behaviours of WorkerPoolGen, from the directed
//       reproducers and from the seeded stress generator) to real WorkerPool objects and
//       records, per history, the hook events of worker_pool.go (vhook, build tag verif)
//       together with the call/return events of the submitters, of Stop and of Resize and the
//       start/end of every task body.  The harness decides nothing: WorkerPoolTrace (ideal
//       level) and WorkerPoolLV (impl level) decide on the recorded log.
//
// Environment steps of a schedule:
//   {"a":"submit","k":K,"via":"wait"|"exec"}  start the goroutine of submitter K (SubmitWait /
//                                             ExecuteWithWorker); with pauses it stops at wp.chk
//   {"a":"rel","who":"S<K>"|"stop"|"resize"}  let a paused goroutine run to its next pause point
//   {"a":"open","k":K}                        open the gate the body of task K is blocked on
//   {"a":"stop"}  {"a":"resize","n":N}        start the goroutine calling Stop / Resize(N)
//   {"a":"sleep"}                             let real time pass: longer than every configured
//                                             tuning timeout (the pool hangs off a real AbsfsNFS made
//                                             by New with all Timeouts set to $VF_WP_TMO_MS)
// After every step the driver waits until the pool has settled (no event for a quiet period and
// no submitter inside Submit's 50 ms send); a step that does not apply is recorded as "skip".
// The verdict never depends on how faithfully a schedule was followed.

import (
	"encoding/json"
	"fmt"
	"io"
	"log"
	"os"
	"runtime"
	"sort"
	"strings"
	"sync"
	"sync/atomic"
	"testing"
	"time"
)

type vfwpStep struct {
	A      string `json:"a"`
	K      int    `json:"k"`
	N      int    `json:"n"`
	Via    string `json:"via"`
	Who    string `json:"who"`
	ExpWho string `json:"expwho"` // directed schedules: wait until role ExpWho has logged ExpEv
	ExpEv  string `json:"expev"`
}

type vfwpSched struct {
	Name   string     `json:"name"`
	W0     int        `json:"w0"`
	W1     int        `json:"w1"`     // size the schedule's Resize asks for (recorded for the trace specs)
	Pauses bool       `json:"pauses"` // controllable goroutines stop at the pause points
	Settle bool       `json:"settle"` // wait for quiescence after every step
	Auto   bool       `json:"auto"`   // task bodies open their own gate after a short random delay
	BodyUS int        `json:"bodyus"` // auto: upper bound of that delay in microseconds (default 300)
	Steps  []vfwpStep `json:"steps"`
}

var vfwpPausePoints = map[string]bool{"wp.chk": true, "wp.stop.cas": true, "wp.stop.cancelled": true,
	"wp.rs.begin": true, "wp.rs.drained": true, "wp.rs.swapped": true, "wp.rs.started": true}

func vfwpGoid() int64 {
	var b [40]byte
	n := runtime.Stack(b[:], false)
	var id int64
	for _, c := range b[10:n] { // "goroutine 123 [running]:"
		if c < '0' || c > '9' {
			break
		}
		id = id*10 + int64(c-'0')
	}
	return id
}

// stale goroutines of earlier histories in this process (their late events are dropped)
var vfwpStale sync.Map

type vfwpRun struct {
	mu       sync.Mutex
	sc       *vfwpSched
	pool     *WorkerPool
	nfs      *AbsfsNFS
	log      []M
	last     time.Time
	roles    map[int64]string
	nw       int
	rc2k     map[chan interface{}]int
	rcOf     map[int]chan interface{}
	paused   map[string]chan struct{}
	lastEv   map[string]string
	pausing  bool
	subSt    map[int]string // called | chk | send | enq | rej | ret
	gates    map[int]chan struct{}
	gateOpen map[int]bool
	started  map[int]bool
	ended    map[int]bool
	stopSt   string // none | called | ret
	resizeSt string // none | called | ret | panic
	rnd      uint64
	dead     bool
	hooks    int
	alive    int // worker goroutines started (wp.start) minus exited (wp.exit)
}

func (r *vfwpRun) ev(name, g string) M {
	return M{"ev": name, "g": g, "k": 0, "w": 0, "n": 0, "s": "", "b": false}
}

// add appends an event; caller holds r.mu
func (r *vfwpRun) add(e M) {
	if r.dead {
		return // the history has been closed by its "end" event
	}
	r.log = append(r.log, e)
	r.last = time.Now()
	r.lastEv[e["g"].(string)] = e["ev"].(string)
}

func (r *vfwpRun) emit(e M) {
	r.mu.Lock()
	r.add(e)
	r.mu.Unlock()
}

func (r *vfwpRun) role() string {
	g := vfwpGoid()
	r.mu.Lock()
	defer r.mu.Unlock()
	return r.roles[g]
}

func (r *vfwpRun) setRole(name string) {
	g := vfwpGoid()
	r.mu.Lock()
	r.roles[g] = name
	r.mu.Unlock()
}

func vfwpInt(v any) int {
	switch x := v.(type) {
	case int:
		return x
	case int32:
		return int(x)
	case int64:
		return int(x)
	}
	return 0
}

// handler receives every vhook event of worker_pool.go
func (r *vfwpRun) handler(name string, kv ...any) {
	g := vfwpGoid()
	if _, old := vfwpStale.Load(g); old {
		return
	}
	r.mu.Lock()
	if r.dead {
		r.mu.Unlock()
		return
	}
	r.hooks++
	role := r.roles[g]
	if role == "" {
		// only worker goroutines are unknown to the driver
		if !strings.HasPrefix(name, "wp.take") && !strings.HasPrefix(name, "wp.exit") &&
			!strings.HasPrefix(name, "wp.done") && !strings.HasPrefix(name, "wp.deliver") {
			r.mu.Unlock()
			return
		}
		r.nw++
		role = fmt.Sprintf("W%d", r.nw)
		r.roles[g] = role
	}
	e := r.ev(name, role)
	var rc chan interface{}
	for i := 0; i+1 < len(kv); i += 2 {
		key, _ := kv[i].(string)
		switch key {
		case "w":
			e["w"] = vfwpInt(kv[i+1])
		case "n":
			e["n"] = vfwpInt(kv[i+1])
		case "new":
			e["n"] = vfwpInt(kv[i+1])
		case "old":
			e["k"] = vfwpInt(kv[i+1])
		case "why":
			e["s"], _ = kv[i+1].(string)
		case "was", "sent":
			e["b"], _ = kv[i+1].(bool)
		case "rc":
			rc, _ = kv[i+1].(chan interface{})
		}
	}
	if strings.HasPrefix(role, "S") {
		k := 0
		fmt.Sscanf(role[1:], "%d", &k)
		e["k"] = k
		switch name {
		case "wp.chk":
			r.subSt[k] = "chk"
		case "wp.enq":
			r.subSt[k] = "enq"
			if rc != nil {
				r.rc2k[rc] = k
				r.rcOf[k] = rc
			}
		case "wp.rej":
			r.subSt[k] = "rej"
		}
	} else if rc != nil {
		// the submitter's own wp.enq event (which tells us whose channel this is) may be logged later
		e["_rc"] = rc
	}
	switch name {
	case "wp.start":
		r.alive += vfwpInt(e["n"])
	case "wp.exit":
		r.alive--
	}
	r.add(e)
	var ch chan struct{}
	if r.pausing && vfwpPausePoints[name] && (role == "stop" || role == "resize" || strings.HasPrefix(role, "S")) {
		ch = make(chan struct{})
		r.paused[role] = ch
	} else if name == "wp.chk" {
		r.subSt[vfwpInt(e["k"])] = "send"
	}
	r.mu.Unlock()
	if ch != nil {
		<-ch
	}
}

func (r *vfwpRun) next() uint64 { // xorshift, caller holds r.mu or is the driver
	r.rnd ^= r.rnd << 13
	r.rnd ^= r.rnd >> 7
	r.rnd ^= r.rnd << 17
	return r.rnd
}

func vfwpTok(k int) int { return 1000 + k }

func (r *vfwpRun) body(k int) func() interface{} {
	return func() interface{} {
		role := r.role()
		if strings.HasPrefix(role, "S") || role == "" {
			// ExecuteWithWorker's fallback: the submitter runs the task itself
			e := r.ev("body.self", role)
			e["k"] = k
			r.emit(e)
			return vfwpTok(k)
		}
		r.mu.Lock()
		e := r.ev("body.start", role)
		e["k"] = k
		r.add(e)
		r.started[k] = true
		gate := r.gates[k]
		var d time.Duration
		if r.sc.Auto && !r.gateOpen[k] {
			o := r.ev("gate.open", "env")
			o["k"] = k
			r.add(o)
			r.gateOpen[k] = true
			close(gate)
			span := uint64(300)
			if r.sc.BodyUS > 0 {
				span = uint64(r.sc.BodyUS)
			}
			d = time.Duration(r.next()%span) * time.Microsecond
		}
		r.mu.Unlock()
		if d > 0 {
			time.Sleep(d)
		}
		<-gate
		r.mu.Lock()
		e = r.ev("body.end", role)
		e["k"] = k
		r.add(e)
		r.ended[k] = true
		r.mu.Unlock()
		return vfwpTok(k)
	}
}

func vfwpClassify(v interface{}, k int) string {
	if v == nil {
		return "nil"
	}
	if i, ok := v.(int); ok && i == vfwpTok(k) {
		return "tok"
	}
	return "other"
}

func (r *vfwpRun) submit(k int, via string) {
	r.mu.Lock()
	if _, dup := r.subSt[k]; dup || k <= 0 {
		s := r.ev("skip", "env")
		s["k"] = k
		s["s"] = "submit"
		r.add(s)
		r.mu.Unlock()
		return
	}
	e := r.ev("sub.call", fmt.Sprintf("S%d", k))
	e["k"], e["s"] = k, via
	r.add(e)
	r.subSt[k] = "called"
	r.gates[k] = make(chan struct{})
	r.mu.Unlock()
	go func() {
		role := fmt.Sprintf("S%d", k)
		r.setRole(role)
		ret := r.ev("sub.ret", role)
		ret["k"], ret["via"] = k, via
		defer func() {
			if p := recover(); p != nil {
				ret["s"], ret["b"] = "panic", false
				ret["msg"] = fmt.Sprint(p)
			}
			r.mu.Lock()
			r.subSt[k] = "ret"
			r.add(ret)
			r.mu.Unlock()
		}()
		if via == "exec" {
			v := r.nfs.ExecuteWithWorker(r.body(k))
			ret["s"], ret["b"] = vfwpClassify(v, k), true
		} else {
			v, ok := r.pool.SubmitWait(r.body(k))
			ret["s"], ret["b"] = vfwpClassify(v, k), ok
		}
	}()
}

func (r *vfwpRun) callStop() {
	r.mu.Lock()
	if r.stopSt != "none" {
		s := r.ev("skip", "env")
		s["s"] = "stop"
		r.add(s)
		r.mu.Unlock()
		return
	}
	r.stopSt = "called"
	r.add(r.ev("stop.call", "stop"))
	r.mu.Unlock()
	go func() {
		r.setRole("stop")
		r.pool.Stop()
		r.mu.Lock()
		r.stopSt = "ret"
		r.add(r.ev("stop.ret", "stop"))
		r.mu.Unlock()
	}()
}

func (r *vfwpRun) callResize(n int) {
	r.mu.Lock()
	if r.resizeSt != "none" {
		s := r.ev("skip", "env")
		s["s"] = "resize"
		r.add(s)
		r.mu.Unlock()
		return
	}
	r.resizeSt = "called"
	e := r.ev("resize.call", "resize")
	e["n"] = n
	r.add(e)
	r.mu.Unlock()
	go func() {
		r.setRole("resize")
		ret := r.ev("resize.ret", "resize")
		ret["s"] = "ok"
		st := "ret"
		defer func() {
			if p := recover(); p != nil {
				ret["s"], st = "panic", "panic"
				ret["msg"] = fmt.Sprint(p)
			}
			r.mu.Lock()
			r.resizeSt = st
			r.add(ret)
			r.mu.Unlock()
		}()
		r.pool.Resize(n)
	}()
}

func (r *vfwpRun) release(who string) {
	r.mu.Lock()
	ch := r.paused[who]
	if ch == nil {
		s := r.ev("skip", "env")
		s["s"] = "rel " + who
		r.add(s)
		r.mu.Unlock()
		return
	}
	delete(r.paused, who)
	if strings.HasPrefix(who, "S") && r.lastEv[who] == "wp.chk" {
		k := 0
		fmt.Sscanf(who[1:], "%d", &k)
		r.subSt[k] = "send"
	}
	r.last = time.Now()
	r.mu.Unlock()
	close(ch)
}

func (r *vfwpRun) open(k int) {
	r.mu.Lock()
	if !r.started[k] || r.gateOpen[k] {
		s := r.ev("skip", "env")
		s["k"], s["s"] = k, "open"
		r.add(s)
		r.mu.Unlock()
		return
	}
	o := r.ev("gate.open", "env")
	o["k"] = k
	r.add(o)
	r.gateOpen[k] = true
	ch := r.gates[k]
	r.mu.Unlock()
	close(ch)
}

// busyLocked: some goroutine is known to be on its way to its next event without needing
// anything from the environment (a submitter before its first hook or inside the timed send)
func (r *vfwpRun) busyLocked() bool {
	for k, st := range r.subSt {
		if st == "send" {
			return true
		}
		if st == "called" && r.paused[fmt.Sprintf("S%d", k)] == nil {
			return true
		}
	}
	return false
}

func (r *vfwpRun) settle(quiet, limit time.Duration, st *vfwpStep) {
	t0 := time.Now()
	if st != nil && st.ExpWho != "" {
		// directed schedule: wait for the named event first
		for time.Since(t0) < 500*time.Millisecond {
			r.mu.Lock()
			ok := r.lastEv[st.ExpWho] == st.ExpEv
			r.mu.Unlock()
			if ok {
				break
			}
			time.Sleep(100 * time.Microsecond)
		}
	}
	for {
		r.mu.Lock()
		idle := time.Since(r.last)
		busy := r.busyLocked()
		r.mu.Unlock()
		if idle >= quiet && !busy {
			return
		}
		if time.Since(t0) > limit {
			return
		}
		time.Sleep(200 * time.Microsecond)
	}
}

// finish: free-run to the end, then decide which submitters are blocked for good
func (r *vfwpRun) finish(t *testing.T, grace, stall time.Duration) (end M) {
	r.mu.Lock()
	r.pausing = false
	for who, ch := range r.paused {
		delete(r.paused, who)
		if strings.HasPrefix(who, "S") {
			k := 0
			fmt.Sscanf(who[1:], "%d", &k)
			if r.subSt[k] == "chk" {
				r.subSt[k] = "send"
			}
		}
		close(ch)
	}
	r.last = time.Now()
	r.mu.Unlock()
	// One loop: gates of started bodies are opened as they appear; the history ends when the pool is
	// structurally quiescent (no body running, no submitter on its way to a hook, Stop and Resize returned -
	// or nothing at all has moved for `stall`) AND no event has been logged for the quiet period, which is
	// `grace` when a submitter has not returned (any event, e.g. a worker that wakes up late and takes the
	// task after all, starts the wait again).  "Nothing was ever delivered" is told from "delivered but the
	// goroutine has not run yet" by looking at the result channel.
	t0 := time.Now()
	stalled := false
	var blocked []int
	for {
		r.mu.Lock()
		for k := range r.started {
			if !r.gateOpen[k] {
				o := r.ev("gate.open", "env")
				o["k"] = k
				r.add(o)
				r.gateOpen[k] = true
				close(r.gates[k])
			}
		}
		idle := time.Since(r.last)
		quiet := !r.busyLocked()
		for k := range r.started {
			if !r.ended[k] {
				quiet = false
			}
		}
		blocked = blocked[:0]
		slow := false
		for k, st := range r.subSt {
			if st == "called" || st == "chk" || st == "send" {
				quiet = false
			}
			if st != "ret" {
				blocked = append(blocked, k)
				if rc := r.rcOf[k]; rc != nil && len(rc) > 0 {
					slow = true
				}
			}
		}
		callsDone := r.stopSt != "called" && r.resizeSt != "called"
		alive := r.alive
		r.mu.Unlock()
		need := 30 * time.Millisecond
		if len(blocked) > 0 {
			need = grace
			if alive > 0 {
				need = stall // a worker that is still there could yet wake up and serve the task
			}
		}
		if quiet && !slow && callsDone && idle >= need {
			break
		}
		if quiet && !slow && !callsDone && idle > stall {
			stalled = true // Stop or Resize never returned and nothing moves any more
			break
		}
		if time.Since(t0) > stall+10*time.Second {
			t.Fatalf("history %q did not reach quiescence (undriveable or machine too slow, not a verdict)", r.sc.Name)
		}
		time.Sleep(300 * time.Microsecond)
	}
	sort.Ints(blocked)
	r.mu.Lock()
	end = M{"ev": "end", "g": "env", "k": 0, "w": 0, "n": 0, "s": "", "b": stalled,
		"bl": append([]int{}, blocked...), "stop": r.stopSt, "resize": r.resizeSt}
	r.log = append(r.log, end)
	r.dead = true
	r.mu.Unlock()
	return end
}

// cleanup after the history has been recorded: nothing here is part of the trace
func (r *vfwpRun) cleanup() {
	r.mu.Lock()
	for g, role := range r.roles {
		if role != "env" {
			vfwpStale.Store(g, true)
		}
	}
	rcs := []chan interface{}{}
	for k, rc := range r.rcOf {
		if r.subSt[k] != "ret" {
			rcs = append(rcs, rc)
		}
	}
	r.mu.Unlock()
	for _, rc := range rcs {
		select {
		case rc <- nil:
		default:
		}
	}
	done := make(chan struct{})
	go func() {
		defer func() { recover(); close(done) }()
		r.nfs.Close() // stops the pool
		r.pool.wg.Wait()
	}()
	select {
	case <-done:
	case <-time.After(300 * time.Millisecond):
	}
}

// vfwpTimeouts: every configurable timeout is set to the same small value, so that anything in the
// pool (or between ExecuteWithWorker and the pool) that consults the tuning timeouts acts within a
// "sleep" step of a schedule.
func vfwpTimeouts() (*TimeoutConfig, time.Duration) {
	d := time.Duration(vfEnvInt("VF_WP_TMO_MS", 20)) * time.Millisecond
	return &TimeoutConfig{ReadTimeout: d, WriteTimeout: d, LookupTimeout: d, ReaddirTimeout: d, CreateTimeout: d,
		RemoveTimeout: d, RenameTimeout: d, HandleTimeout: d, DefaultTimeout: d}, d
}

func vfwpRunOne(t *testing.T, sc *vfwpSched, seed uint64) []M {
	r := &vfwpRun{sc: sc, last: time.Now(), roles: map[int64]string{}, rc2k: map[chan interface{}]int{},
		rcOf: map[int]chan interface{}{}, paused: map[string]chan struct{}{}, lastEv: map[string]string{},
		pausing: sc.Pauses, subSt: map[int]string{}, gates: map[int]chan struct{}{}, gateOpen: map[int]bool{},
		started: map[int]bool{}, ended: map[int]bool{}, stopSt: "none", resizeSt: "none", rnd: seed | 1}
	fn := r.handler
	vfHookP.Store(&fn)
	r.setRole("env")
	// the pool under test is the one a real AbsfsNFS creates and starts (New), reached through
	// ExecuteWithWorker exactly as handleConnectionLoop reaches it
	tmo, tmoD := vfwpTimeouts()
	nfs, err := New(vfNewFS(), ExportOptions{MaxWorkers: sc.W0, Timeouts: tmo})
	if err != nil {
		t.Fatalf("New: %v", err)
	}
	nfs.logger = log.New(io.Discard, "", 0)
	r.nfs = nfs
	r.pool = nfs.workerPool
	if r.pool == nil || r.pool.maxWorkers != sc.W0 {
		t.Fatalf("New did not create a worker pool of %d workers", sc.W0)
	}
	quiet := time.Duration(vfEnvInt("VF_WP_QUIET_US", 1500)) * time.Microsecond
	for i := range sc.Steps {
		st := &sc.Steps[i]
		switch st.A {
		case "submit":
			via := st.Via
			if via == "" {
				via = "wait"
			}
			r.submit(st.K, via)
		case "rel":
			r.release(st.Who)
		case "open":
			r.open(st.K)
		case "stop":
			r.callStop()
		case "resize":
			r.callResize(st.N)
		case "sleep":
			// time passes: well beyond every configured timeout
			e := r.ev("tick", "env")
			e["n"] = int(3 * tmoD / time.Millisecond)
			r.emit(e)
			time.Sleep(3*tmoD + 10*time.Millisecond)
		default:
			t.Fatalf("unknown schedule step %q", st.A)
		}
		if sc.Settle {
			r.settle(quiet, 250*time.Millisecond, st)
		} else {
			r.mu.Lock()
			d := time.Duration(r.next()%120) * time.Microsecond
			r.mu.Unlock()
			if d > 20*time.Microsecond {
				time.Sleep(d)
			} else {
				runtime.Gosched()
			}
		}
	}
	grace := time.Duration(vfEnvInt("VF_WP_GRACE_MS", 150)) * time.Millisecond
	r.finish(t, grace, 1500*time.Millisecond)
	r.mu.Lock()
	for _, e := range r.log {
		if rc, ok := e["_rc"].(chan interface{}); ok {
			e["k"] = r.rc2k[rc]
			delete(e, "_rc")
		}
	}
	r.mu.Unlock()
	r.cleanup()
	noop := func(string, ...any) {}
	vfHookP.Store(&noop)
	return r.log
}

var vfwpHooked int32

func TestVF_WorkerPoolRun(t *testing.T) {
	path := os.Getenv("VF_WP_SCHED")
	raw, err := os.ReadFile(path)
	if err != nil {
		t.Fatalf("schedule file: %v", err)
	}
	var scheds []vfwpSched
	if err := json.Unmarshal(raw, &scheds); err != nil {
		t.Fatalf("schedule file: %v", err)
	}
	out := os.Getenv("VF_WP_TRACE")
	if out == "" {
		out = "workerpool.ndjson"
	}
	tr := vfNewTrace(t, out)
	defer tr.Close()
	seed := uint64(vfSeed())
	nontrivial, hooks := 0, 0
	for h := range scheds {
		sc := &scheds[h]
		if sc.W0 <= 0 {
			sc.W0 = 1
		}
		lg := vfwpRunOne(t, sc, seed*2654435761+uint64(h)*40503+1)
		tr.Emit(M{"ev": "reset", "g": "env", "k": 0, "w": sc.W1, "n": sc.W0, "s": sc.Name, "b": false, "h": h})
		queuedAtClose := false
		inq := 0
		for _, e := range lg {
			switch e["ev"] {
			case "wp.enq", "wp.rs.requeue":
				inq++
			case "wp.take", "wp.rs.drain", "wp.stop.drain":
				inq--
			case "wp.stop.closed":
				if inq > 0 {
					queuedAtClose = true
				}
			}
			if s, _ := e["ev"].(string); strings.HasPrefix(s, "wp.") {
				hooks++
			}
			tr.Emit(e)
		}
		if queuedAtClose {
			nontrivial++
		}
	}
	if hooks == 0 {
		t.Fatalf("no hook event was received: the vhook call sites of proposed/hooks_workerpool.patch are absent from worker_pool.go")
	}
	atomic.StoreInt32(&vfwpHooked, 1)
	vfWriteJSON(t, out+".summary.json", M{"histories": len(scheds), "nontrivial": nontrivial, "hook_events": hooks})
}

package absnfs

// vf_startup.go: driver for C28 (specs/Startup).
//
//   TestVF_Startup : starts a server through every public start-up path
//                    (AbsfsNFS.Export, Server.Listen with and without UseRecordMarking,
//                    Server.StartWithPortmapper) x option combinations (port 0 / explicit free
//                    port, debug on/off, read-only on/off) and runs, over real TCP, the
//                    session of a minimal conformant ONC RPC client: NULL, MNT "/", GETATTR of
//                    the mounted handle, every call record-marked (RFC 1831 section 10) in one
//                    fragment, two fragments, or header and body in separate segments, with
//                    xid 0 / small / bit 31 set, AUTH_NONE or AUTH_SYS.
//
// The client below is written against RFC 1831/1813 only; it does not use the repository's
// codec.  The harness records what it saw; specs/Startup/StartupTrace.tla decides.

import (
	"encoding/binary"
	"errors"
	"fmt"
	"io"
	"net"
	"os"
	"strings"
	"testing"
	"time"
)

// ---------------------------------------------------------------- minimal conformant client

type vfsuReply struct {
	Framed   bool `json:"framed"`   // reply arrived as a record (fragment header, last-fragment bit)
	XidOK    bool `json:"xid_ok"`   // first word equals the xid of the call
	MType    int  `json:"mtype"`    // msg_type (1 = REPLY)
	RStat    int  `json:"rstat"`    // reply_stat (0 = MSG_ACCEPTED)
	AStat    int  `json:"astat"`    // accept_stat (0 = SUCCESS)
	Status   int  `json:"status"`   // first result word (nfsstat3 / mountstat3), -1 if absent
	FHLen    int  `json:"fhlen"`    // MNT: length of the returned handle
	FType    int  `json:"ftype"`    // GETATTR: fattr3.type
	Port     int  `json:"port"`     // PMAP_GETPORT: returned port
	Trailing int  `json:"trailing"` // bytes after the decoded result
	Len      int  `json:"len"`      // bytes of the reply message
}

func vfsuNoReply() vfsuReply {
	return vfsuReply{MType: -1, RStat: -1, AStat: -1, Status: -1, FHLen: -1, FType: -1, Port: -1, Trailing: -1}
}

type vfsuClient struct {
	addr string
	conn net.Conn
	wait time.Duration
}

func (c *vfsuClient) ensure() error {
	if c.conn != nil {
		return nil
	}
	conn, err := net.DialTimeout("tcp", c.addr, 10*time.Second)
	if err != nil {
		return err
	}
	c.conn = conn
	return nil
}

func (c *vfsuClient) drop() {
	if c.conn != nil {
		c.conn.Close()
		c.conn = nil
	}
}

func vfsuCallMsg(xid, prog, vers, proc uint32, sys bool, args []byte) []byte {
	b := make([]byte, 0, 96+len(args))
	w := func(v uint32) { b = binary.BigEndian.AppendUint32(b, v) }
	w(xid)
	w(0) // CALL
	w(2) // RPC version
	w(prog)
	w(vers)
	w(proc)
	if sys {
		w(1)  // AUTH_SYS
		w(20) // body length
		w(7)  // stamp
		w(0)  // machine name ""
		w(0)  // uid
		w(0)  // gid
		w(0)  // no auxiliary gids
	} else {
		w(0)
		w(0)
	}
	w(0) // verifier AUTH_NONE
	w(0)
	return append(b, args...)
}

// frame: 1 = one fragment, one write; 2 = two fragments; 3 = one fragment, header and body in
// separate TCP segments; 4 = one fragment, body split across two segments; 5 = two fragments
// dribbled in 5-byte segments. 0 = no record marking at all (raw probe).
// (TCP_NODELAY is on by default in Go, so every Write is a segment; the pauses keep them apart.)
func (c *vfsuClient) send(msg []byte, frame int) error {
	c.conn.SetWriteDeadline(time.Now().Add(10 * time.Second))
	hdr := func(last bool, n int) []byte {
		v := uint32(n)
		if last {
			v |= 0x80000000
		}
		return binary.BigEndian.AppendUint32(nil, v)
	}
	switch frame {
	case 0:
		_, err := c.conn.Write(msg)
		return err
	case 2:
		k := (len(msg) / 8) * 4
		out := append(hdr(false, k), msg[:k]...)
		out = append(out, hdr(true, len(msg)-k)...)
		out = append(out, msg[k:]...)
		_, err := c.conn.Write(out)
		return err
	case 3:
		if _, err := c.conn.Write(hdr(true, len(msg))); err != nil {
			return err
		}
		time.Sleep(15 * time.Millisecond)
		_, err := c.conn.Write(msg)
		return err
	case 4: // one fragment whose body reaches the server in two TCP segments
		k := len(msg) / 2
		if _, err := c.conn.Write(append(hdr(true, len(msg)), msg[:k]...)); err != nil {
			return err
		}
		time.Sleep(20 * time.Millisecond)
		_, err := c.conn.Write(msg[k:])
		return err
	case 5: // two fragments, the whole byte stream dribbled in 5-byte segments (headers split too)
		k := (len(msg) / 8) * 4
		out := append(hdr(false, k), msg[:k]...)
		out = append(out, hdr(true, len(msg)-k)...)
		out = append(out, msg[k:]...)
		for len(out) > 0 {
			n := 5
			if n > len(out) {
				n = len(out)
			}
			if _, err := c.conn.Write(out[:n]); err != nil {
				return err
			}
			out = out[n:]
			time.Sleep(2 * time.Millisecond)
		}
		return nil
	default:
		_, err := c.conn.Write(append(hdr(true, len(msg)), msg...))
		return err
	}
}

func vfsuClassify(err error) string {
	var ne net.Error
	if errors.As(err, &ne) && ne.Timeout() {
		return "timeout"
	}
	return "closed" // EOF, ECONNRESET, EPIPE
}

// recvRecord reads one record-marked message.
func (c *vfsuClient) recvRecord() ([]byte, string) {
	c.conn.SetReadDeadline(time.Now().Add(c.wait))
	var rec []byte
	for {
		var h [4]byte
		if _, err := io.ReadFull(c.conn, h[:]); err != nil {
			return rec, vfsuClassify(err)
		}
		v := binary.BigEndian.Uint32(h[:])
		n := int(v & 0x7fffffff)
		if n > 1<<20 {
			return rec, "garbage" // no reply of this session is that large: not a fragment header
		}
		frag := make([]byte, n)
		if _, err := io.ReadFull(c.conn, frag); err != nil {
			if len(rec)+n > 0 {
				return rec, "garbage" // a header promised bytes that never came
			}
			return rec, vfsuClassify(err)
		}
		rec = append(rec, frag...)
		if v&0x80000000 != 0 {
			return rec, "reply"
		}
	}
}

// recvRaw reads an un-framed reply (whatever arrives within the wait).
func (c *vfsuClient) recvRaw() ([]byte, string) {
	c.conn.SetReadDeadline(time.Now().Add(c.wait))
	buf := make([]byte, 4096)
	n, err := io.ReadAtLeast(c.conn, buf, 24)
	if err != nil && n == 0 {
		return nil, vfsuClassify(err)
	}
	if n < 24 {
		return buf[:n], "garbage"
	}
	return buf[:n], "reply"
}

// vfsuParse decodes an RPC reply message for procedure proc.
func vfsuParse(msg []byte, xid uint32, proc string, framed bool) (vfsuReply, []byte) {
	r := vfsuNoReply()
	r.Framed = framed
	r.Len = len(msg)
	word := func(i int) (uint32, bool) {
		if len(msg) < 4*(i+1) {
			return 0, false
		}
		return binary.BigEndian.Uint32(msg[4*i:]), true
	}
	if v, ok := word(0); ok {
		r.XidOK = v == xid
	}
	if v, ok := word(1); ok {
		r.MType = int(v & 0xffff)
	}
	if v, ok := word(2); ok {
		r.RStat = int(v & 0xffff)
	}
	if r.RStat != 0 {
		return r, nil
	}
	// verifier
	vl, ok := word(4)
	if !ok || vl > 400 {
		return r, nil
	}
	i := 5 + int(vl+3)/4
	v, ok := word(i)
	if !ok {
		return r, nil
	}
	r.AStat = int(v & 0xffff)
	body := msg[4*(i+1):]
	if r.AStat != 0 {
		r.Trailing = len(body)
		return r, nil
	}
	bw := func(j int) (uint32, bool) {
		if len(body) < 4*(j+1) {
			return 0, false
		}
		return binary.BigEndian.Uint32(body[4*j:]), true
	}
	var fh []byte
	switch proc {
	case "NULL":
		r.Trailing = len(body)
	case "MNT":
		if s, ok := bw(0); ok {
			r.Status = int(s & 0xffff)
			if s == 0 {
				if n, ok := bw(1); ok && n <= 64 && len(body) >= 8+int(n+3)/4*4 {
					r.FHLen = int(n)
					fh = body[8 : 8+n]
					rest := body[8+int(n+3)/4*4:]
					if cnt, ok2 := func() (uint32, bool) {
						if len(rest) < 4 {
							return 0, false
						}
						return binary.BigEndian.Uint32(rest), true
					}(); ok2 && cnt <= 16 && len(rest) >= 4+4*int(cnt) {
						r.Trailing = len(rest) - 4 - 4*int(cnt)
					}
				}
			} else {
				r.Trailing = len(body) - 4
			}
		}
	case "GETATTR":
		if s, ok := bw(0); ok {
			r.Status = int(s & 0xffff)
			if s == 0 {
				if ft, ok := bw(1); ok && len(body) >= 4+84 {
					r.FType = int(ft & 0xffff)
					r.Trailing = len(body) - 4 - 84
				}
			} else {
				r.Trailing = len(body) - 4
			}
		}
	case "PMAP_GETPORT":
		if p, ok := bw(0); ok {
			r.Port = int(p & 0xfffff)
			r.Trailing = len(body) - 4
		}
	}
	return r, fh
}

// call performs one record-marked call; reconnects first if the connection is gone.
func (c *vfsuClient) call(xid, prog, vers, proc uint32, name string, sys bool, args []byte, frame int) (string, vfsuReply, []byte) {
	if err := c.ensure(); err != nil {
		return "connfail", vfsuNoReply(), nil
	}
	if err := c.send(vfsuCallMsg(xid, prog, vers, proc, sys, args), frame); err != nil {
		c.drop()
		return "closed", vfsuNoReply(), nil
	}
	var msg []byte
	var outcome string
	if frame == 0 {
		msg, outcome = c.recvRaw()
	} else {
		msg, outcome = c.recvRecord()
	}
	if outcome != "reply" {
		c.drop()
		return outcome, vfsuNoReply(), nil
	}
	r, fh := vfsuParse(msg, xid, name, frame != 0)
	return outcome, r, fh
}

// ---------------------------------------------------------------- start-up paths

type vfsuScenario struct {
	Path  string // Export | ListenRM | ListenRaw | SWP
	Port  string // zero | explicit
	Debug bool
	RO    bool
	Xidc  string // zero | small | high
	Frame int
	Sys   bool
}

func vfsuFreePort(t testing.TB) int {
	l, err := net.Listen("tcp", "127.0.0.1:0")
	if err != nil {
		t.Fatalf("cannot find a free port: %v", err)
	}
	p := l.Addr().(*net.TCPAddr).Port
	l.Close()
	return p
}

// vfsuAddr is where a client connects: the host the listener is bound to and the port the
// caller asked for (explicit port) or, for port 0, the port the listener reports.
func vfsuAddr(a net.Addr, port int) string {
	ta, ok := a.(*net.TCPAddr)
	if !ok {
		return a.String()
	}
	if port == 0 {
		port = ta.Port
	}
	return net.JoinHostPort(ta.IP.String(), fmt.Sprint(port))
}

func vfsuXid(class string, i int) uint32 {
	switch class {
	case "zero":
		return 0
	case "high":
		return 0x80000000 | uint32(0x1000+i)
	}
	return uint32(0x100 + i)
}

func vfsuPort111Busy() bool {
	l, err := net.Listen("tcp", ":111")
	if err != nil {
		return true
	}
	l.Close()
	return false
}

type vfsuStarted struct {
	addr   string
	pmap   string
	port   int
	rm     bool
	stop   func()
	err    error
	skip   bool
	reason string
}

func vfsuStart(t testing.TB, sc vfsuScenario) *vfsuStarted {
	fs := vfNewFS()
	fs.vfPoke("/hello.txt", "F", []byte("hello"), "", 0644)
	n, err := New(fs, ExportOptions{ReadOnly: sc.RO})
	if err != nil {
		t.Fatalf("New: %v", err)
	}
	port := 0
	if sc.Port == "explicit" {
		port = vfsuFreePort(t)
	}
	st := &vfsuStarted{}
	switch sc.Path {
	case "Export":
		if err := n.Export("/", port); err != nil {
			st.err = err
			n.Close()
			return st
		}
		srv := n.exportServer
		st.addr = vfsuAddr(srv.listener.Addr(), port)
		st.port = srv.GetPort()
		st.rm = srv.options.UseRecordMarking
		st.stop = func() { n.Close() }
	case "ListenRM", "ListenRaw", "SWP":
		srv, err := NewServer(ServerOptions{Name: "vf", Port: port, Hostname: "127.0.0.1", Debug: sc.Debug,
			UseRecordMarking: sc.Path == "ListenRM"})
		if err != nil {
			t.Fatalf("NewServer: %v", err)
		}
		srv.logger.SetOutput(io.Discard) // Debug=true still runs every debug branch; the text is not kept
		srv.SetHandler(n)
		if sc.Path == "SWP" {
			if vfsuPort111Busy() {
				st.skip, st.reason = true, "port 111 cannot be bound"
				n.Close()
				return st
			}
			err = srv.StartWithPortmapper()
			if err == nil && srv.portmapper != nil && srv.portmapper.listener != nil {
				st.pmap = fmt.Sprintf("127.0.0.1:%d", srv.portmapper.listener.Addr().(*net.TCPAddr).Port)
			}
		} else {
			err = srv.Listen()
		}
		if err != nil {
			if sc.Path == "SWP" && strings.Contains(err.Error(), "failed to start portmapper") {
				// the portmapper's own listener could not be set up (port 111 taken between the probe
				// and the call, or not permitted): environmental, never a verdict
				st.skip, st.reason = true, "port 111 cannot be bound: "+err.Error()
			} else {
				st.err = err
			}
			n.Close()
			return st
		}
		st.addr = vfsuAddr(srv.listener.Addr(), port)
		if port == 0 {
			// the documented way to learn an OS-assigned port
			st.addr = vfsuAddr(srv.listener.Addr(), srv.GetPort())
		}
		st.port = srv.GetPort()
		st.rm = srv.options.UseRecordMarking
		st.stop = func() { srv.Stop(); n.Close() }
	}
	return st
}

func vfsuScenarios(thorough bool) []vfsuScenario {
	var out []vfsuScenario
	xidcs := []string{"small", "high", "zero"}
	i := int(vfSeed() % 9) // the seed shifts which client variation meets which path
	if i < 0 {
		i = -i
	}
	add := func(path, port string, debug, ro bool) {
		c, j := i%3, i/3 // rotate the client variation so that every path meets every class
		out = append(out, vfsuScenario{Path: path, Port: port, Debug: debug, RO: ro,
			Xidc: xidcs[(c+j)%3], Frame: 1 + (c+2*j)%3, Sys: (i+j)%2 == 0})
		i++
	}
	reps := 1
	if thorough {
		reps = 6 // every (xid class, framing, auth) combination meets every path
	}
	for r := 0; r < reps; r++ {
		for _, port := range []string{"zero", "explicit"} {
			for _, b := range []bool{false, true} {
				add("Export", port, false, b)
				add("ListenRM", port, b, false)
				add("SWP", port, b, false)
			}
		}
		add("ListenRM", "zero", false, true)
		add("ListenRaw", "zero", false, false)
		add("ListenRaw", "explicit", true, false)
	}
	return out
}

func TestVF_Startup(t *testing.T) {
	tr := vfNewTrace(t, "startup.ndjson")
	defer tr.Close()
	scs := vfsuScenarios(vfThorough())
	if only := os.Getenv("VF_SU_ONLY"); only != "" {
		var f []vfsuScenario
		for _, s := range scs {
			if s.Path == only {
				f = append(f, s)
			}
		}
		scs = f
	}
	var samples []M
	skipped := []string{}
	nontrivial := 0
	for hno, sc := range scs {
		t0 := time.Now()
		st := vfsuStart(t, sc)
		errs := ""
		if st.err != nil {
			errs = st.err.Error()
		}
		started := st.err == nil && !st.skip
		tr.Emit(M{"ev": "reset", "hist": hno, "path": sc.Path, "port": sc.Port, "debug": sc.Debug, "ro": sc.RO,
			"started": started, "skip": st.skip, "err": errs, "reason": st.reason, "rm": st.rm,
			"xidc": sc.Xidc, "frame": sc.Frame, "sys": sc.Sys})
		if st.skip {
			skipped = append(skipped, sc.Path+": "+st.reason)
		}
		if !started {
			continue
		}
		var hist []M
		frame := sc.Frame
		emitCall := func(k int, proc string, xid uint32, outcome string, r vfsuReply) {
			m := M{"ev": "call", "k": k, "proc": proc, "frag": frame, "xidc": sc.Xidc, "sys": sc.Sys, "outcome": outcome, "r": r}
			tr.Emit(m)
			hist = append(hist, M{"proc": proc, "outcome": outcome, "astat": r.AStat, "status": r.Status})
		}
		// 1. raw probe on its own connection. The xid 0x7fffffff makes a record-marking server
		// see a 2 GiB fragment header and drop the connection at once, so both answers are quick.
		probe := &vfsuClient{addr: st.addr, wait: 20 * time.Second}
		po, pr, _ := probe.call(0x7fffffff, NFS_PROGRAM, NFS_V3, 0, "NULL", false, nil, 0)
		probe.drop()
		tr.Emit(M{"ev": "rawprobe", "outcome": po, "r": pr})
		// 2. the conformant session: once with the scenario's framing, once more with a framing in
		// which a fragment reaches the server in several TCP segments (every path meets both)
		session := func() {
			nfsAddr := st.addr
			if sc.Path == "SWP" && st.pmap != "" {
				pc := &vfsuClient{addr: st.pmap, wait: 20 * time.Second}
				args := make([]byte, 0, 16)
				for _, v := range []uint32{NFS_PROGRAM, NFS_V3, 6, 0} {
					args = binary.BigEndian.AppendUint32(args, v)
				}
				xid := vfsuXid(sc.Xidc, 9)
				o, r, _ := pc.call(xid, 100000, 2, 3, "PMAP_GETPORT", false, args, frame)
				pc.drop()
				emitCall(0, "PMAP_GETPORT", xid, o, r)
				if o == "reply" && r.Port > 0 {
					nfsAddr = fmt.Sprintf("127.0.0.1:%d", r.Port)
				}
			}
			wait := 20 * time.Second // generous: the machine may be loaded; failing paths fail at once (connection closed)
			if sc.Xidc == "zero" && !st.rm {
				wait = 1200 * time.Millisecond // a raw decoder swallows the shifted header and then blocks
			}
			cl := &vfsuClient{addr: nfsAddr, wait: wait}
			xid := vfsuXid(sc.Xidc, 1)
			o, r, _ := cl.call(xid, NFS_PROGRAM, NFS_V3, 0, "NULL", false, nil, frame) // NULL goes out with AUTH_NONE
			emitCall(1, "NULL", xid, o, r)
			xid = vfsuXid(sc.Xidc, 2)
			margs := []byte{0, 0, 0, 1, '/', 0, 0, 0}
			o, r, fh := cl.call(xid, MOUNT_PROGRAM, MOUNT_V3, 1, "MNT", sc.Sys, margs, frame)
			emitCall(2, "MNT", xid, o, r)
			xid = vfsuXid(sc.Xidc, 3)
			if fh == nil {
				emitCall(3, "GETATTR", xid, "nohandle", vfsuNoReply())
			} else {
				gargs := binary.BigEndian.AppendUint32(nil, uint32(len(fh)))
				gargs = append(gargs, fh...)
				for len(gargs)%4 != 0 {
					gargs = append(gargs, 0)
				}
				o, r, _ = cl.call(xid, NFS_PROGRAM, NFS_V3, 1, "GETATTR", sc.Sys, gargs, frame)
				emitCall(3, "GETATTR", xid, o, r)
				if o == "reply" && r.Status == 0 {
					nontrivial++
				}
			}
			cl.drop()
		}
		session()
		frame = 4 + hno%2
		session()
		t1 := time.Now()
		st.stop()
		if os.Getenv("VF_SU_TIMING") != "" {
			t.Logf("%s %s xid=%s frame=%d: session %v stop %v", sc.Path, sc.Port, sc.Xidc, sc.Frame, t1.Sub(t0), time.Since(t1))
		}
		if len(samples) < 3 || (sc.Path == "Export" && len(samples) < 4) {
			samples = append(samples, M{"path": sc.Path, "port": sc.Port, "debug": sc.Debug, "frame": sc.Frame, "xid": sc.Xidc, "session": hist})
		}
	}
	vfWriteJSON(t, "startup.summary.json", M{"histories": len(scs), "lines": tr.n, "nontrivial": nontrivial,
		"skipped": skipped, "samples": samples})
}

package absnfs

// vf_config.go: driver for C24 (specs/Config).
//
//   TestVF_Config      : replays the update sequences TLC generated (specs/Config/ConfigGen.tla,
//                        file $VF_CFG_VECTORS) against a live AbsfsNFS: New() with the first
//                        template's classes, then every UpdateExportOptions / UpdateTuningOptions /
//                        UpdatePolicyOptions of the sequence.  After construction and after every
//                        update it logs GetExportOptions() abstracted to the spec's classes (plus the
//                        concrete numbers), the sizes in force inside the attribute cache and the
//                        worker pool, and the outcome of LOOKUP, READ (16 KiB) and WRITE (100 bytes)
//                        issued through the real procedure handler (vfEnv).
//   TestVF_ConfigChild : one directed history run in a child process, for the states in which the
//                        next request takes the process down (negative TransferSize, nil Timeouts);
//                        the parent records the crash as the outcome of the probe.
//
// The classes: "def" = the value a reference New(fs, ExportOptions{}) reports, "p1"/"p2" = two
// positive values from the table below, "zero", "neg".  The harness contains no rule about what
// an update should do; it records.

import (
	"bufio"
	"encoding/json"
	"fmt"
	"os"
	"os/exec"
	"reflect"
	"strings"
	"testing"
	"time"
)

// positive values per field (p1, p2); every one differs from the construction default
var vfcfNum = map[string][2]int64{
	"TransferSize": {4096, 8192}, "AttrCacheSize": {50, 70}, "DirCacheMaxEntries": {30, 40}, "DirCacheMaxDirSize": {300, 400},
	"MaxWorkers": {3, 5}, "MaxConnections": {7, 9}, "SendBufferSize": {16384, 32768}, "ReceiveBufferSize": {16384, 32768},
	"AttrCacheTimeout": {int64(7 * time.Second), int64(11 * time.Second)}, "NegativeCacheTimeout": {int64(3 * time.Second), int64(4 * time.Second)},
	"DirCacheTimeout": {int64(13 * time.Second), int64(17 * time.Second)}, "IdleTimeout": {int64(90 * time.Second), int64(150 * time.Second)},
}

var vfcfNF = []string{"TransferSize", "AttrCacheTimeout", "AttrCacheSize", "NegativeCacheTimeout", "DirCacheTimeout", "DirCacheMaxEntries",
	"DirCacheMaxDirSize", "MaxWorkers", "MaxConnections", "IdleTimeout", "SendBufferSize", "ReceiveBufferSize"}

// T_<x> is TimeoutConfig.<x>Timeout
var vfcfTF = []string{"T_Read", "T_Write", "T_Lookup", "T_Readdir", "T_Create", "T_Remove", "T_Rename", "T_Handle", "T_Default"}

func vfcfTName(f string) string { return strings.TrimPrefix(f, "T_") + "Timeout" }

func vfcfTVal(f string, k int) int64 { // p1 / p2 of a timeout sub-field
	idx := 0
	for i, n := range vfcfTF {
		if n == f {
			idx = i
		}
	}
	return int64(time.Duration(41+2*idx+20*k) * time.Second)
}

func vfcfConcrete(f, class string) int64 {
	var p [2]int64
	if strings.HasPrefix(f, "T_") {
		p = [2]int64{vfcfTVal(f, 0), vfcfTVal(f, 1)}
	} else {
		p = vfcfNum[f]
	}
	isDur := strings.HasPrefix(f, "T_") || strings.HasSuffix(f, "Timeout")
	switch class {
	case "p1":
		return p[0]
	case "p2":
		return p[1]
	case "neg":
		if isDur {
			return -int64(time.Second)
		}
		return -1
	}
	return 0
}

func vfcfClass(f string, v, def int64) string {
	var p [2]int64
	if strings.HasPrefix(f, "T_") {
		p = [2]int64{vfcfTVal(f, 0), vfcfTVal(f, 1)}
	} else {
		p = vfcfNum[f]
	}
	switch {
	case v == def:
		return "def"
	case v == p[0]:
		return "p1"
	case v == p[1]:
		return "p2"
	case v == 0:
		return "zero"
	case v < 0:
		return "neg"
	}
	return "other"
}

// vfcfUpd is an update template as the spec writes it.
type vfcfUpd struct {
	Kind   string            `json:"kind"`
	N      map[string]string `json:"n"`
	TP     string            `json:"tp"`
	T      map[string]string `json:"t"`
	Log    string            `json:"log"`
	RLC    string            `json:"rlc"`
	RO     string            `json:"ro"`
	MaxFS  string            `json:"maxfs"`
	Squash string            `json:"squash"`
}

type vfcfStep struct {
	TI       int             `json:"ti"`
	U        vfcfUpd         `json:"u"`
	Rejected bool            `json:"rejected"`
	Expect   json.RawMessage `json:"expect"`
}

type vfcfVector struct {
	Seq   []int      `json:"seq"`
	Steps []vfcfStep `json:"steps"`
}

func vfcfLog(class string) *LogConfig {
	switch class {
	case "l1":
		return &LogConfig{Level: "error", Format: "text", Output: "stderr"}
	case "l2":
		return &LogConfig{Level: "warn", Format: "text", Output: "stderr"}
	}
	return nil
}

func vfcfRLC(class string) *RateLimiterConfig {
	switch class {
	case "r1":
		c := DefaultRateLimiterConfig()
		c.GlobalRequestsPerSecond = 777
		return &c
	case "r2": // a partially filled struct: New() keeps such a struct as it is given
		return &RateLimiterConfig{GlobalRequestsPerSecond: 555}
	}
	return nil
}

func vfcfMaxFS(class string) int64 {
	switch class {
	case "neg":
		return -1
	case "pos":
		return 1 << 20
	}
	return 0
}

func vfcfSetInt(structPtr interface{}, field string, v int64) {
	reflect.ValueOf(structPtr).Elem().FieldByName(field).SetInt(v)
}

func vfcfTimeouts(u vfcfUpd, base *TimeoutConfig) *TimeoutConfig {
	tc := &TimeoutConfig{}
	if base != nil {
		*tc = *base
	}
	for _, f := range vfcfTF {
		if g := u.T[f]; g != "keep" && g != "" {
			vfcfSetInt(tc, vfcfTName(f), vfcfConcrete(f, g))
		}
	}
	return tc
}

// vfcfExportOptions builds the whole-struct form (New and UpdateExportOptions).
func vfcfExportOptions(u vfcfUpd) ExportOptions {
	o := ExportOptions{ReadOnly: u.RO == "T", MaxFileSize: vfcfMaxFS(u.MaxFS), Log: vfcfLog(u.Log), RateLimitConfig: vfcfRLC(u.RLC)}
	switch u.Squash {
	case "same":
		o.Squash = "root"
	case "other":
		o.Squash = "all"
	case "case": // the current mode in another spelling
		o.Squash = "ROOT"
	}
	for _, f := range vfcfNF {
		vfcfSetInt(&o, f, vfcfConcrete(f, u.N[f]))
	}
	if u.TP == "set" {
		o.Timeouts = vfcfTimeouts(u, nil)
	}
	return o
}

// vfcfApply performs the update call; returns the error of the call (nil for tuning).
func vfcfApply(n *AbsfsNFS, u vfcfUpd) error {
	switch u.Kind {
	case "export":
		return n.UpdateExportOptions(vfcfExportOptions(u))
	case "tuning":
		n.UpdateTuningOptions(func(t *TuningOptions) {
			for _, f := range vfcfNF {
				if g := u.N[f]; g != "keep" {
					vfcfSetInt(t, f, vfcfConcrete(f, g))
				}
			}
			switch u.TP {
			case "nil":
				t.Timeouts = nil
			case "set":
				t.Timeouts = vfcfTimeouts(u, t.Timeouts)
			}
			switch u.Log {
			case "nil":
				t.Log = nil
			case "l1", "l2":
				t.Log = vfcfLog(u.Log)
			}
		})
		return nil
	}
	p := PolicyOptions{ReadOnly: u.RO == "T", MaxFileSize: vfcfMaxFS(u.MaxFS), RateLimitConfig: vfcfRLC(u.RLC)}
	switch u.Squash {
	case "same":
		p.Squash = "root"
	case "other":
		p.Squash = "all"
	case "case":
		p.Squash = "ROOT"
	}
	return n.UpdatePolicyOptions(p)
}

// vfcfProject abstracts GetExportOptions() to the spec's classes (ref = a freshly constructed
// default instance's report) and returns the concrete numbers as well.
func vfcfProject(o, ref ExportOptions) (M, M) {
	nm, tm, conc := M{}, M{}, M{}
	ov, rv := reflect.ValueOf(o), reflect.ValueOf(ref)
	for _, f := range vfcfNF {
		v := ov.FieldByName(f).Int()
		nm[f] = vfcfClass(f, v, rv.FieldByName(f).Int())
		if strings.HasSuffix(f, "Timeout") {
			conc[f] = v / int64(time.Millisecond)
		} else {
			conc[f] = v
		}
	}
	for _, f := range vfcfTF {
		if o.Timeouts == nil {
			tm[f] = "nilptr"
			continue
		}
		v := reflect.ValueOf(*o.Timeouts).FieldByName(vfcfTName(f)).Int()
		tm[f] = vfcfClass(f, v, reflect.ValueOf(*ref.Timeouts).FieldByName(vfcfTName(f)).Int())
		conc[f] = v / int64(time.Millisecond)
	}
	lg := "nil"
	if o.Log != nil {
		switch o.Log.Level {
		case "error":
			lg = "l1"
		case "warn":
			lg = "l2"
		default:
			lg = "other"
		}
	}
	rl := "nil"
	if o.RateLimitConfig != nil {
		switch {
		case *o.RateLimitConfig == DefaultRateLimiterConfig():
			rl = "def"
		case o.RateLimitConfig.GlobalRequestsPerSecond == 777:
			rl = "r1"
		case *o.RateLimitConfig == RateLimiterConfig{GlobalRequestsPerSecond: 555}:
			rl = "r2"
		default:
			rl = "other"
		}
	}
	ro := "F"
	if o.ReadOnly {
		ro = "T"
	}
	mf := "zero"
	if o.MaxFileSize < 0 {
		mf = "neg"
	} else if o.MaxFileSize > 0 {
		mf = "pos"
	}
	return M{"n": nm, "t": tm, "log": lg, "rlc": rl, "ro": ro, "maxfs": mf, "squash": vfcfSquash(o.Squash)}, conc
}

// vfcfSquash reports the mode, not its spelling.
func vfcfSquash(s string) string {
	switch strings.ToLower(s) {
	case "root":
		return "root"
	case "all":
		return "all"
	}
	return "other:" + s
}

type vfcfInst struct {
	env  *vfEnv
	root uint64
	big  uint64
	w    uint64
}

const vfcfBigSize = 20000
const vfcfReadCount = 16384

func vfcfNewInst(t testing.TB, o ExportOptions) *vfcfInst {
	fs := vfNewFS()
	data := make([]byte, vfcfBigSize)
	for i := range data {
		data[i] = byte('a' + i%23)
	}
	fs.vfPoke("/big", "F", data, "", 0644)
	fs.vfPoke("/w", "F", []byte{}, "", 0644)
	o.Squash = "root"
	env := vfNewEnv(t, fs, o)
	in := &vfcfInst{env: env}
	in.root = env.Mount(t, vfRoot)
	for _, nm := range []string{"big", "w"} {
		rep := env.Do(NFSPROC3_LOOKUP, vfArgsDirOp(in.root, nm), vfRoot)
		if !rep.OK() {
			t.Fatalf("setup LOOKUP %s: %s", nm, rep.StatusName())
		}
		h, _ := vfFH(vfGet(rep.Res.Val, "object"))
		if nm == "big" {
			in.big = h
		} else {
			in.w = h
		}
	}
	return in
}

// probes issues LOOKUP, READ, WRITE through the real handler. When the state in force would take
// the process down (negative transfer size: slice bounds / makeslice panic in the request
// goroutine; nil Timeouts: nil dereference in HandleCall) the probes are not issued here; the
// directed child-process histories observe that crash for real.
func (in *vfcfInst) probes() M { return in.probesG(true) }

func (in *vfcfInst) probesG(guard bool) M {
	tn := in.env.n.tuning.Load()
	if !guard {
		tn = &TuningOptions{Timeouts: &TimeoutConfig{}, TransferSize: 1}
	}
	if tn.Timeouts == nil {
		return M{"lookup": "notrun", "read": "notrun", "readcls": "none", "readn": 0, "write": "notrun", "writen": 0, "why": "Timeouts nil in force"}
	}
	io := M{"why": ""}
	rep := in.env.Do(NFSPROC3_LOOKUP, vfArgsDirOp(in.root, "big"), vfRoot)
	io["lookup"] = rep.StatusName()
	if tn.TransferSize < 0 {
		io["read"], io["readcls"], io["readn"], io["write"], io["writen"], io["why"] = "notrun", "none", 0, "notrun", 0, "negative TransferSize in force"
		return io
	}
	rep = in.env.Do(NFSPROC3_READ, vfArgsRead(in.big, 0, vfcfReadCount), vfRoot)
	io["read"] = rep.StatusName()
	io["readcls"], io["readn"] = "none", 0
	if rep.OK() {
		d, _ := vfGet(rep.Res.Val, "data").([]byte)
		io["readn"] = len(d)
		switch len(d) {
		case vfcfReadCount:
			io["readcls"] = "full"
		case int(vfcfNum["TransferSize"][0]):
			io["readcls"] = "p1"
		case int(vfcfNum["TransferSize"][1]):
			io["readcls"] = "p2"
		case 0:
			io["readcls"] = "zero"
		default:
			io["readcls"] = "other"
		}
	}
	buf := make([]byte, 100)
	for i := range buf {
		buf[i] = 'w'
	}
	rep = in.env.Do(NFSPROC3_WRITE, vfArgsWrite(in.w, 0, 2, buf), vfRoot)
	io["write"] = rep.StatusName()
	io["writen"] = 0
	if rep.OK() {
		io["writen"] = int(vfU(vfGet(rep.Res.Val, "count")))
	}
	return io
}

func (in *vfcfInst) inforce(ref ExportOptions) M {
	_, amax := in.env.n.attrCache.Stats()
	wmax, _, _ := in.env.n.workerPool.Stats()
	return M{"attr": vfcfClass("AttrCacheSize", int64(amax), int64(ref.AttrCacheSize)),
		"workers": vfcfClass("MaxWorkers", int64(wmax), int64(ref.MaxWorkers)), "attr_n": amax, "workers_n": wmax}
}

func vfcfRef(t testing.TB) ExportOptions {
	n, err := New(vfNewFS(), ExportOptions{})
	if err != nil {
		t.Fatalf("New: %v", err)
	}
	defer n.Close()
	return n.GetExportOptions()
}

// vfcfRun replays one vector; step 0 is the construction. emit receives each line.
func vfcfRun(t testing.TB, hist int, vec vfcfVector, ref ExportOptions, emit func(M)) (nonPlain bool) {
	cons := vec.Steps[0].U
	cons.Kind, cons.Squash = "export", "same"
	if cons.TP == "keep" {
		cons.TP = "nil"
	}
	in := vfcfNewInst(t, vfcfExportOptions(cons))
	defer in.env.Close()
	cfg, conc := vfcfProject(in.env.n.GetExportOptions(), ref)
	emit(M{"ev": "reset", "hist": hist, "ti": vec.Steps[0].TI, "u": cons, "rejected": false, "hung": false, "err": "", "cfg": cfg, "ts": conc["TransferSize"],
		"inforce": in.inforce(ref), "io": in.probes()})
	step := func(ti int, u vfcfUpd) (M, bool, bool) {
		err, hung := vfcfApplyWatched(in.env.n, u)
		es := ""
		if err != nil {
			es = err.Error()
			nonPlain = true
		}
		if hung {
			es = "update call did not return within the watchdog time"
			vfcfHangs++
		}
		cfg, conc = vfcfProject(in.env.n.GetExportOptions(), ref)
		io := in.probes()
		emit(M{"ev": "upd", "hist": hist, "ti": ti, "u": u, "rejected": err != nil, "hung": hung, "err": es, "cfg": cfg, "ts": conc["TransferSize"],
			"inforce": in.inforce(ref), "io": io})
		return io, hung, err != nil
	}
	for _, st := range vec.Steps[1:] {
		io, hung, rejected := step(st.TI, st.U)
		if hung {
			return nonPlain // every later update call on this instance would block as well
		}
		wedged := func(io M) bool {
			// the server answers as if a policy drain never ended; that is on record, and the hang of the
			// next update call has been observed twice in this run already: stop this history here
			return io["lookup"] == "JUKEBOX" && vfcfHangs >= 2
		}
		if wedged(io) {
			return nonPlain
		}
		if rejected {
			// serviceability after a rejected update: besides the three requests just issued, a further
			// update that must be accepted (the policy in force, written back through UpdatePolicyOptions)
			io, hung, _ = step(-1, vfcfSamePolicy(cfg))
			if hung || wedged(io) {
				return nonPlain
			}
		}
	}
	return nonPlain
}

// vfcfSamePolicy is an UpdatePolicyOptions call that restates the policy in force.
func vfcfSamePolicy(cfg M) vfcfUpd {
	u := vfcfUpd{Kind: "policy", N: map[string]string{}, TP: "keep", T: map[string]string{}, Log: "keep", RLC: "nil",
		RO: cfg["ro"].(string), MaxFS: cfg["maxfs"].(string), Squash: "same"}
	if r, _ := cfg["rlc"].(string); r == "r1" || r == "r2" {
		u.RLC = r
	}
	for _, f := range vfcfNF {
		u.N[f] = "keep"
	}
	for _, f := range vfcfTF {
		u.T[f] = "keep"
	}
	return u
}

// vfcfHangs counts update calls that did not return (run-wide).
var vfcfHangs int

// vfcfApplyWatched performs the update under a watchdog: an update call that does not return is an
// observation (the goroutine is abandoned), not a harness failure.
func vfcfApplyWatched(n *AbsfsNFS, u vfcfUpd) (error, bool) {
	ch := make(chan error, 1)
	go func() { ch <- vfcfApply(n, u) }()
	select {
	case err := <-ch:
		return err, false
	case <-time.After(vfcfWatchdog):
		return nil, true
	}
}

const vfcfWatchdog = 6 * time.Second

func vfcfReadVectors(t testing.TB) []vfcfVector {
	p := os.Getenv("VF_CFG_VECTORS")
	if p == "" {
		t.Fatalf("VF_CFG_VECTORS not set")
	}
	f, err := os.Open(p)
	if err != nil {
		t.Fatalf("vectors: %v", err)
	}
	defer f.Close()
	var out []vfcfVector
	sc := bufio.NewScanner(f)
	sc.Buffer(make([]byte, 1<<20), 1<<26)
	for sc.Scan() {
		if len(strings.TrimSpace(sc.Text())) == 0 {
			continue
		}
		var v vfcfVector
		if err := json.Unmarshal(sc.Bytes(), &v); err != nil {
			t.Fatalf("vector line: %v", err)
		}
		out = append(out, v)
	}
	return out
}

// a template usable as construction options / whole-struct update needs every field named
func vfcfWhole(u vfcfUpd) bool { return u.Kind == "export" }

func TestVF_Config(t *testing.T) {
	vecs := vfcfReadVectors(t)
	ref := vfcfRef(t)
	tr := vfNewTrace(t, "config.ndjson")
	defer tr.Close()
	hist, nontrivial, skipped := 0, 0, 0
	var samples []M
	for _, v := range vecs {
		// the first template of the sequence supplies the construction options when it is a
		// whole struct; otherwise the instance is built with ExportOptions{} (all defaults)
		steps := v.Steps
		if !vfcfWhole(steps[0].U) {
			blank := vfcfUpd{Kind: "export", N: map[string]string{}, TP: "nil", T: map[string]string{}, Log: "nil", RLC: "nil", RO: "F", MaxFS: "zero", Squash: "same"}
			for _, f := range vfcfNF {
				blank.N[f] = "zero"
			}
			for _, f := range vfcfTF {
				blank.T[f] = "keep"
			}
			steps = append([]vfcfStep{{TI: 0, U: blank}}, steps...)
		}
		if steps[0].U.Squash == "other" || steps[0].U.Squash == "case" {
			steps[0].U.Squash = "same" // New() itself takes any valid mode; the instance is always built with "root"
		}
		var lines []M
		np := vfcfRun(t, hist, vfcfVector{Seq: v.Seq, Steps: steps}, ref, func(m M) {
			tr.Emit(m)
			lines = append(lines, m)
		})
		if np && len(steps) > 2 {
			nontrivial++
		}
		if len(samples) < 2 && len(steps) == 3 {
			var ops []M
			for _, m := range lines {
				ops = append(ops, M{"ev": m["ev"], "kind": m["u"].(vfcfUpd).Kind, "rejected": m["rejected"], "TransferSize": m["ts"], "io": m["io"]})
			}
			samples = append(samples, M{"seq": v.Seq, "steps": ops})
		}
		hist++
	}
	// ---- directed child-process histories: the probe that takes the process down
	crash := []M{}
	for _, c := range []struct{ name, kind, probe string }{
		{"export-neg-transfer-read", "export", "read"}, {"tuning-neg-transfer-write", "tuning", "write"}, {"tuning-nil-timeouts-lookup", "nilt", "lookup"}} {
		out := vfOutDir(t) + "/config_child_" + c.name + ".json"
		os.Remove(out)
		cmd := exec.Command(os.Args[0], "-test.run", "^TestVF_ConfigChild$", "-test.count=1")
		cmd.Env = append(os.Environ(), "VF_CFG_CHILD="+c.kind+":"+c.probe, "VF_CFG_CHILD_OUT="+out)
		b, err := cmd.CombinedOutput()
		res := M{"name": c.name, "exit_ok": err == nil, "panic": strings.Contains(string(b), "panic:") || strings.Contains(string(b), "fatal error:")}
		raw, rerr := os.ReadFile(out)
		if rerr != nil {
			skipped++
			res["note"] = "child wrote no pre-state: " + fmt.Sprint(rerr)
			crash = append(crash, res)
			continue
		}
		var pre M
		json.Unmarshal(raw, &pre)
		// the child wrote the line it was about to complete, with the probe marked "pending";
		// if it survived it rewrote the line with the real outcome
		io := pre["io"].(map[string]interface{})
		for _, k := range []string{"lookup", "read", "write"} {
			if io[k] == "pending" {
				if err != nil {
					io[k] = "crash"
				} else {
					io[k] = "notrun"
				}
			}
		}
		pre["hist"] = hist
		tr.Emit(pre["reset"])
		delete(pre, "reset")
		tr.Emit(pre)
		hist++
		res["io"] = io
		crash = append(crash, res)
	}
	vfWriteJSON(t, "config.summary.json", M{"histories": hist, "lines": tr.n, "nontrivial": nontrivial, "vectors": len(vecs),
		"crash_children": crash, "child_skipped": skipped, "samples": samples})
}

// TestVF_ConfigChild runs in a child process: one update that leaves a state in which the next
// request panics in a goroutine nobody recovers; the line is written before the probe.
func TestVF_ConfigChild(t *testing.T) {
	spec := os.Getenv("VF_CFG_CHILD")
	if spec == "" {
		t.Skip("child only")
	}
	parts := strings.SplitN(spec, ":", 2)
	kind, probe := parts[0], parts[1]
	ref := vfcfRef(t)
	blank := vfcfUpd{Kind: "export", N: map[string]string{}, TP: "nil", T: map[string]string{}, Log: "nil", RLC: "nil", RO: "F", MaxFS: "zero", Squash: "same"}
	keepN, keepT := map[string]string{}, map[string]string{}
	for _, f := range vfcfNF {
		blank.N[f] = "zero"
		keepN[f] = "keep"
	}
	for _, f := range vfcfTF {
		blank.T[f] = "keep"
		keepT[f] = "keep"
	}
	in := vfcfNewInst(t, vfcfExportOptions(blank))
	cfg, conc := vfcfProject(in.env.n.GetExportOptions(), ref)
	reset := M{"ev": "reset", "hist": 0, "ti": 0, "u": blank, "rejected": false, "hung": false, "err": "", "cfg": cfg, "ts": conc["TransferSize"], "inforce": in.inforce(ref), "io": in.probes()}
	var u vfcfUpd
	switch kind {
	case "export":
		u = blank
		u.N = map[string]string{}
		for _, f := range vfcfNF {
			u.N[f] = "p1"
		}
		u.N["TransferSize"] = "neg"
		u.RLC = "r1"
	case "tuning":
		u = vfcfUpd{Kind: "tuning", N: keepN, TP: "keep", T: keepT, Log: "keep", RLC: "keep", RO: "keep", MaxFS: "keep", Squash: "keep"}
		u.N["TransferSize"] = "neg"
	default:
		u = vfcfUpd{Kind: "tuning", N: keepN, TP: "nil", T: keepT, Log: "keep", RLC: "keep", RO: "keep", MaxFS: "keep", Squash: "keep"}
	}
	err := vfcfApply(in.env.n, u)
	es := ""
	if err != nil {
		es = err.Error()
	}
	cfg, conc = vfcfProject(in.env.n.GetExportOptions(), ref)
	io := M{"lookup": "notrun", "read": "notrun", "readcls": "none", "readn": 0, "write": "notrun", "writen": 0, "why": "child: " + spec}
	if probe != "lookup" { // LOOKUP does not touch the transfer size: issue it for real first
		io["lookup"] = in.env.Do(NFSPROC3_LOOKUP, vfArgsDirOp(in.root, "big"), vfRoot).StatusName()
	}
	io[probe] = "pending"
	line := M{"ev": "upd", "hist": 0, "ti": 0, "u": u, "rejected": err != nil, "hung": false, "err": es, "cfg": cfg, "ts": conc["TransferSize"], "inforce": in.inforce(ref), "io": io, "reset": reset}
	write := func() {
		b, _ := json.Marshal(line)
		os.WriteFile(os.Getenv("VF_CFG_CHILD_OUT"), b, 0644)
	}
	write()
	switch probe {
	case "read":
		in.env.Do(NFSPROC3_READ, vfArgsRead(in.big, 0, vfcfReadCount), vfRoot)
	case "write":
		in.env.Do(NFSPROC3_WRITE, vfArgsWrite(in.w, 0, 2, make([]byte, 100)), vfRoot)
	default:
		in.env.Do(NFSPROC3_LOOKUP, vfArgsDirOp(in.root, "big"), vfRoot)
	}
	time.Sleep(50 * time.Millisecond) // a panic in the request goroutine kills the process about now
	// still alive: the state is harmless in this tree; run the three probes for real
	line["io"] = in.probesG(false)
	write()
}

package absnfs

// vf_wire.go: C13 driver (specs/Wire). Replays the vectors TLC wrote (WireGen) on the real
// encoders/decoders and record-marking reader/writer, adds seeded random payloads and
// fragmentations, and logs what the code did. The harness decides nothing: WireTrace does.
//
//   TestVF_WireVectors : VF_VECTORS (ndjson from TLC) -> $VF_OUT/wire.ndjson, wire.summary.json

import (
	"bufio"
	"bytes"
	"encoding/binary"
	"encoding/json"
	"errors"
	"fmt"
	"io"
	"math/rand"
	"os"
	"runtime"
	"strings"
	"testing"
)

// ---------------------------------------------------------------- helpers

type vfwW struct {
	H int `json:"h"`
	L int `json:"l"`
}

func (w vfwW) u32() uint32 { return uint32(w.H)<<16 | uint32(w.L) }
func vfwWOf(v uint32) vfwW { return vfwW{H: int(v >> 16), L: int(v & 0xffff)} }

func vfwInts(b []byte) []int {
	out := make([]int, len(b))
	for i, x := range b {
		out[i] = int(x)
	}
	return out
}

func vfwBytes(v []int) []byte {
	out := make([]byte, len(v))
	for i, x := range v {
		out[i] = byte(x)
	}
	return out
}

func vfwU32Bytes(v uint32) []int {
	var b [4]byte
	binary.BigEndian.PutUint32(b[:], v)
	return vfwInts(b[:])
}

// vfwClass classifies a decoder error coarsely (impl-level information only; the verdict uses ok / not ok).
func vfwClass(err error) string {
	if err == nil {
		return "ok"
	}
	if errors.Is(err, io.EOF) || errors.Is(err, io.ErrUnexpectedEOF) {
		return "short"
	}
	s := err.Error()
	switch {
	case strings.Contains(s, "not enough data"), strings.Contains(s, "empty AUTH_SYS"):
		return "short"
	case strings.Contains(s, "exceeds"), strings.Contains(s, "too many"):
		return "reject_limit"
	case strings.Contains(s, "NUL"):
		return "reject_nul"
	case strings.Contains(s, "invalid handle length"):
		return "reject_len"
	case strings.Contains(s, "expected RPC call"):
		return "reject_type"
	}
	return "reject"
}

// vfwAlloc runs f and returns the bytes of heap allocation it caused (TotalAlloc delta).
func vfwAlloc(f func()) int {
	var m0, m1 runtime.MemStats
	runtime.ReadMemStats(&m0)
	f()
	runtime.ReadMemStats(&m1)
	d := m1.TotalAlloc - m0.TotalAlloc
	if d > 1<<30-1 {
		d = 1<<30 - 1
	}
	return int(d)
}

// vfwAllocMin repeats the measurement and keeps the minimum (background allocation is noise upward only).
func vfwAllocMin(n int, f func()) int {
	best := -1
	for i := 0; i < n; i++ {
		a := vfwAlloc(f)
		if best < 0 || a < best {
			best = a
		}
	}
	return best
}

// vfwFill returns n seeded pseudo-random bytes without NUL (usable as string contents).
func vfwFill(r *rand.Rand, n int) []byte {
	b := make([]byte, n)
	for i := range b {
		b[i] = byte(1 + r.Intn(255))
	}
	return b
}

type vfwVec struct {
	T     string `json:"t"`
	K     string `json:"k"`
	Val   []int  `json:"val"`
	Bytes []int  `json:"bytes"`
	In    []int  `json:"in"`
	W     vfwW   `json:"w"`
	Avail int    `json:"avail"`
	Lim   int    `json:"lim"`
	Max   int    `json:"max"`
	Mf    int    `json:"mf"`
	Data  []int  `json:"data"`
	Frags []struct {
		W vfwW `json:"w"`
		D int  `json:"d"`
	} `json:"frags"`
	Exp struct {
		Out  string `json:"out"`
		Used int    `json:"used"`
	} `json:"exp"`
}

func vfwEmptyCall() M {
	e := []int{}
	return M{"xid": e, "mtype": e, "rpcvers": e, "prog": e, "vers": e, "proc": e, "cflavor": e, "cbody": e, "vflavor": e, "vbody": e}
}

func vfwEmptyAuth() M {
	e := []int{}
	return M{"stamp": e, "machine": e, "uid": e, "gid": e, "gids": [][]int{}}
}

// vfwGuardLine runs one replay step; a panic of the code under test becomes a trace line of its own
// (a panic is an observation the trace spec judges, not a failure of the harness).
func vfwGuardLine(what M, f func() M) (line M) {
	defer func() {
		if r := recover(); r != nil {
			msg := fmt.Sprint(r)
			if len(msg) > 200 {
				msg = msg[:200]
			}
			wb, _ := json.Marshal(what) // as text: the fields differ from step to step
			if len(wb) > 400 {
				wb = wb[:400]
			}
			line = M{"ev": "panic", "what": string(wb), "msg": msg}
		}
	}()
	return f()
}

// ---------------------------------------------------------------- one decode

// vfwDecode runs the real decoder of kind k on input and returns the trace fields.
func vfwDecode(k string, in []byte) M {
	m := M{"val": []int{}, "cval": vfwEmptyCall(), "aval": vfwEmptyAuth(), "used": 0, "usedk": true}
	var err error
	switch k {
	case "str":
		var s string
		r := bytes.NewReader(in)
		m["alloc"] = vfwAllocMin(2, func() { r.Reset(in); s, err = xdrDecodeString(r) })
		m["used"] = len(in) - r.Len()
		if err == nil {
			m["val"] = vfwInts([]byte(s))
		}
	case "fh":
		var h uint64
		r := bytes.NewReader(in)
		m["alloc"] = vfwAllocMin(2, func() { r.Reset(in); h, err = xdrDecodeFileHandle(r) })
		m["used"] = len(in) - r.Len()
		if err == nil {
			var b [8]byte
			binary.BigEndian.PutUint64(b[:], h)
			m["val"] = vfwInts(b[:])
		}
	case "call":
		var c *RPCCall
		r := bytes.NewReader(in)
		m["alloc"] = vfwAllocMin(2, func() { r.Reset(in); c, err = DecodeRPCCall(r) })
		m["used"] = len(in) - r.Len()
		if err == nil {
			m["cval"] = M{"xid": vfwU32Bytes(c.Header.Xid), "mtype": vfwU32Bytes(c.Header.MsgType), "rpcvers": vfwU32Bytes(c.Header.RPCVersion),
				"prog": vfwU32Bytes(c.Header.Program), "vers": vfwU32Bytes(c.Header.Version), "proc": vfwU32Bytes(c.Header.Procedure),
				"cflavor": vfwU32Bytes(c.Credential.Flavor), "cbody": vfwInts(c.Credential.Body),
				"vflavor": vfwU32Bytes(c.Verifier.Flavor), "vbody": vfwInts(c.Verifier.Body)}
		}
	case "authsys":
		var a *AuthSysCredential
		m["alloc"] = vfwAllocMin(2, func() { a, err = ParseAuthSysCredential(in) })
		m["usedk"] = false // the parser does not report how much of the body it consumed
		if err == nil {
			g := [][]int{}
			for _, x := range a.AuxGIDs {
				g = append(g, vfwU32Bytes(x))
			}
			m["aval"] = M{"stamp": vfwU32Bytes(a.Stamp), "machine": vfwInts([]byte(a.MachineName)), "uid": vfwU32Bytes(a.UID),
				"gid": vfwU32Bytes(a.GID), "gids": g}
		}
	default:
		panic("vfwDecode: kind " + k)
	}
	m["out"] = vfwClass(err)
	return m
}

// ---------------------------------------------------------------- length classes

// vfwCls builds the input for a declared-length vector: everything up to the length word is well
// formed, the length word is w, `avail` bytes follow (seeded random), and when the payload is complete
// the rest of the structure follows so that "ok" is reachable.
func vfwCls(r *rand.Rand, v *vfwVec) M {
	w := v.W.u32()
	pay := vfwFill(r, v.Avail)
	exact := !(v.W.H >= 16384) && v.Avail == (int(w)+3)&^3
	var in bytes.Buffer
	m := M{"ev": "cls", "k": v.K, "w": v.W, "avail": v.Avail, "lim": v.Lim, "used": 0, "eq": false}
	var err error
	switch v.K {
	case "str":
		xdrEncodeUint32(&in, w)
		in.Write(pay)
		if exact { // zero the padding
			copy(in.Bytes()[4+int(w):], make([]byte, 3))
		}
		rd := bytes.NewReader(in.Bytes())
		var s string
		m["alloc"] = vfwAllocMin(3, func() { rd.Reset(in.Bytes()); s, err = xdrDecodeString(rd) })
		m["used"] = in.Len() - rd.Len()
		m["eq"] = err == nil && s == string(pay[:vfwMin(int(w), len(pay))])
	case "fh":
		xdrEncodeUint32(&in, w)
		in.Write(pay)
		rd := bytes.NewReader(in.Bytes())
		var h uint64
		m["alloc"] = vfwAllocMin(3, func() { rd.Reset(in.Bytes()); h, err = xdrDecodeFileHandle(rd) })
		m["used"] = in.Len() - rd.Len()
		m["eq"] = err == nil && len(pay) >= 8 && h == binary.BigEndian.Uint64(pay[:8])
	case "cred", "verf":
		for _, x := range []uint32{77, 0, 2, NFS_PROGRAM, 3, 1} {
			xdrEncodeUint32(&in, x)
		}
		if v.K == "verf" {
			xdrEncodeUint32(&in, AUTH_NONE)
			xdrEncodeUint32(&in, 0)
		}
		xdrEncodeUint32(&in, AUTH_SYS)
		xdrEncodeUint32(&in, w)
		hdr := in.Len()
		in.Write(pay)
		if exact && v.K == "cred" {
			xdrEncodeUint32(&in, AUTH_NONE)
			xdrEncodeUint32(&in, 0)
		}
		rd := bytes.NewReader(in.Bytes())
		var c *RPCCall
		m["alloc"] = vfwAllocMin(3, func() { rd.Reset(in.Bytes()); c, err = DecodeRPCCall(rd) })
		m["used"] = in.Len() - rd.Len() - hdr
		if err == nil {
			got := c.Credential.Body
			if v.K == "verf" {
				got = c.Verifier.Body
			}
			m["eq"] = bytes.Equal(got, pay[:vfwMin(int(w), len(pay))])
			if v.K == "cred" {
				m["used"] = in.Len() - rd.Len() - hdr - 8
			}
		}
	case "machine":
		xdrEncodeUint32(&in, 1)
		xdrEncodeUint32(&in, w)
		in.Write(pay)
		if exact {
			for i := 0; i < 3; i++ {
				xdrEncodeUint32(&in, 0) // uid, gid, no gids
			}
		}
		var a *AuthSysCredential
		m["alloc"] = vfwAllocMin(3, func() { a, err = ParseAuthSysCredential(in.Bytes()) })
		m["eq"] = err == nil && a.MachineName == string(pay[:vfwMin(int(w), len(pay))])
	case "gids":
		xdrEncodeUint32(&in, 1)
		xdrEncodeString(&in, "vf")
		xdrEncodeUint32(&in, 1000)
		xdrEncodeUint32(&in, 100)
		xdrEncodeUint32(&in, w)
		in.Write(pay)
		var a *AuthSysCredential
		m["alloc"] = vfwAllocMin(3, func() { a, err = ParseAuthSysCredential(in.Bytes()) })
		if err == nil && len(a.AuxGIDs) == int(w) {
			ok := true
			for i, g := range a.AuxGIDs {
				ok = ok && g == binary.BigEndian.Uint32(pay[4*i:])
			}
			m["eq"] = ok
		}
	default:
		panic("vfwCls: kind " + v.K)
	}
	m["out"] = vfwClass(err)
	return m
}

func vfwMin(a, b int) int {
	if a < b {
		return a
	}
	return b
}

// ---------------------------------------------------------------- record marking

type vfwFrag struct {
	W vfwW `json:"w"`
	D int  `json:"d"`
}

// vfwRml feeds the real reader a stream described by fragment headers and the number of data bytes
// present after each; contents are seeded random; returns the trace line.
func vfwRml(r *rand.Rand, max int, frags []vfwFrag) M {
	var in bytes.Buffer
	var want []byte
	for _, f := range frags {
		xdrEncodeUint32(&in, f.W.u32())
		d := vfwFill(r, f.D)
		in.Write(d)
		want = append(want, d...)
	}
	var rec []byte
	var err error
	stream := in.Bytes()
	alloc := vfwAllocMin(2, func() {
		rm := NewRecordMarkingReader(bytes.NewReader(stream))
		rm.MaxRecordSize = max
		rec, err = rm.ReadRecord()
	})
	return M{"ev": "rml", "max": max, "frags": frags, "out": vfwClass(err), "reclen": len(rec), "eq": err == nil && bytes.Equal(rec, want), "alloc": alloc}
}

// ---------------------------------------------------------------- driver

func TestVF_WireVectors(t *testing.T) {
	seed := vfSeed()
	vp := os.Getenv("VF_VECTORS")
	f, err := os.Open(vp)
	if err != nil {
		t.Fatalf("vectors: %v", err)
	}
	defer f.Close()
	tr := vfNewTrace(t, "wire.ndjson")
	defer tr.Close()
	r := vfRand(seed, "wire")
	counts := map[string]int{}
	var samples []M
	sc := bufio.NewScanner(f)
	sc.Buffer(make([]byte, 1<<20), 1<<24)
	tr.Emit(M{"ev": "reset", "seed": int(seed % (1 << 30))})
	for sc.Scan() {
		var v vfwVec
		if err := json.Unmarshal(sc.Bytes(), &v); err != nil {
			t.Fatalf("vector %q: %v", sc.Text(), err)
		}
		counts[v.T+"."+v.K]++
		line := vfwGuardLine(M{"t": v.T, "k": v.K, "in": v.In, "w": v.W, "avail": v.Avail, "val": v.Val}, func() M {
			var line M
			switch v.T {
			case "enc":
				var b bytes.Buffer
				switch v.K {
				case "str":
					xdrEncodeString(&b, string(vfwBytes(v.Val)))
				case "fh":
					xdrEncodeFileHandle(&b, binary.BigEndian.Uint64(vfwBytes(v.Val)))
				default:
					t.Fatalf("enc kind %s", v.K)
				}
				line = M{"ev": "enc", "k": v.K, "val": v.Val, "got": vfwInts(b.Bytes())}
			case "dec":
				line = vfwDecode(v.K, vfwBytes(v.In))
				line["ev"], line["k"], line["in"] = "dec", v.K, v.In
			case "cls":
				line = vfwCls(r, &v)
			case "rml":
				fr := make([]vfwFrag, len(v.Frags))
				for i, x := range v.Frags {
					fr[i] = vfwFrag{x.W, x.D}
				}
				line = vfwRml(r, v.Max, fr)
			case "rmb":
				in := vfwBytes(v.In)
				rd := bytes.NewReader(in)
				rm := NewRecordMarkingReader(rd)
				rm.MaxRecordSize = v.Max
				rec, err := rm.ReadRecord()
				line = M{"ev": "rmb", "max": v.Max, "in": v.In, "out": vfwClass(err), "rec": vfwInts(rec), "used": len(in) - rd.Len()}
				if err == nil && rd.Len() > 0 { // a second record on the same reader (buffer reuse)
					rec2, err2 := rm.ReadRecord()
					line["out2"], line["rec2"], line["used2"], line["has2"] = vfwClass(err2), vfwInts(rec2), len(in)-rd.Len(), true
				} else {
					line["out2"], line["rec2"], line["used2"], line["has2"] = "none", []int{}, 0, false
				}
			case "rmw":
				var b bytes.Buffer
				w := NewRecordMarkingWriterWithSize(&b, v.Mf)
				werr := w.WriteRecord(vfwBytes(v.Data))
				rm := NewRecordMarkingReader(bytes.NewReader(b.Bytes()))
				back, berr := rm.ReadRecord()
				line = M{"ev": "rmw", "mf": v.Mf, "data": v.Data, "got": vfwInts(b.Bytes()), "werr": werr != nil, "back": vfwInts(back), "backok": berr == nil}
			default:
				t.Fatalf("vector type %s", v.T)
			}
			return line
		})
		line["src"] = "tlc"
		tr.Emit(line)
		if len(samples) < 3 && (v.T == "cls" || v.T == "rmb") && r.Intn(10) == 0 {
			samples = append(samples, line)
		}
	}
	if err := sc.Err(); err != nil {
		t.Fatalf("vectors: %v", err)
	}
	nvec := tr.n - 1

	// ---- seeded random contents (content fidelity is sampled here, not decided by TLC)
	nrnd := vfEnvInt("VF_RANDOM", 300)
	nontrivial := 0
	for i := 0; i < nrnd; i++ {
		n := r.Intn(41)
		val := make([]byte, n)
		r.Read(val)
		if i%4 != 0 { // most strings without NUL so that they must round-trip
			for j := range val {
				if val[j] == 0 {
					val[j] = 0x80
				}
			}
		}
		var b bytes.Buffer
		xdrEncodeString(&b, string(val))
		tr.Emit(M{"ev": "enc", "k": "str", "val": vfwInts(val), "got": vfwInts(b.Bytes()), "src": "rnd"})
		in := append([]byte{}, b.Bytes()...)
		switch r.Intn(3) {
		case 0:
			in = append(in, vfwFill(r, 1+r.Intn(6))...)
		case 1:
			in = in[:r.Intn(len(in)+1)]
		}
		line := vfwGuardLine(M{"t": "dec", "k": "str", "in": vfwInts(in)}, func() M { return vfwDecode("str", in) })
		if line["ev"] != "panic" {
			line["ev"], line["k"], line["in"] = "dec", "str", vfwInts(in)
		}
		line["src"] = "rnd"
		tr.Emit(line)
		// a call header around random credential / verifier bodies
		var cb bytes.Buffer
		hdr := []uint32{r.Uint32(), 0, 2, r.Uint32(), r.Uint32(), r.Uint32(), r.Uint32()}
		for _, x := range hdr {
			xdrEncodeUint32(&cb, x)
		}
		vfEncOpaque(&cb, vfwFill(r, r.Intn(30)))
		xdrEncodeUint32(&cb, r.Uint32())
		vfEncOpaque(&cb, vfwFill(r, r.Intn(12)))
		in = cb.Bytes()
		if r.Intn(3) == 0 {
			in = in[:r.Intn(len(in)+1)]
		} else if r.Intn(2) == 0 {
			in = append(in, vfwFill(r, 5)...)
		}
		in2 := in
		line = vfwGuardLine(M{"t": "dec", "k": "call", "in": vfwInts(in2)}, func() M { return vfwDecode("call", in2) })
		if line["ev"] != "panic" {
			line["ev"], line["k"], line["in"] = "dec", "call", vfwInts(in2)
		}
		line["src"] = "rnd"
		tr.Emit(line)
		// an AUTH_SYS body
		gids := make([]uint32, r.Intn(18))
		for j := range gids {
			gids[j] = r.Uint32()
		}
		ab := vfAuthSysBody(r.Uint32(), string(vfwFill(r, r.Intn(20))), r.Uint32(), r.Uint32(), gids)
		if r.Intn(3) == 0 {
			ab = ab[:r.Intn(len(ab)+1)]
		}
		line = vfwGuardLine(M{"t": "dec", "k": "authsys", "in": vfwInts(ab)}, func() M { return vfwDecode("authsys", ab) })
		if line["ev"] != "panic" {
			line["ev"], line["k"], line["in"] = "dec", "authsys", vfwInts(ab)
		}
		line["src"] = "rnd"
		tr.Emit(line)
		nontrivial++
	}
	// long strings with random contents at and around the limit
	for _, n := range []int{100, 1001, 4095, 8190, 8191, 8192, 8193, 20000} {
		for _, miss := range []int{0, 1} {
			pad := (n + 3) &^ 3
			v := vfwVec{K: "str", W: vfwWOf(uint32(n)), Avail: pad - miss, Lim: MAX_XDR_STRING_LENGTH}
			line := vfwGuardLine(M{"t": "cls", "k": "str", "w": v.W, "avail": v.Avail}, func() M { return vfwCls(r, &v) })
			line["src"] = "rnd"
			tr.Emit(line)
		}
	}
	// random fragmentations of random records, small limit and the real 1 MiB limit
	nfr := vfEnvInt("VF_FRAGS", 120)
	for i := 0; i < nfr; i++ {
		max := []int{64, 1000, DefaultMaxRecordSize}[i%3]
		total := r.Intn(max + max/8 + 1)
		if i%7 == 0 {
			total = max - 1 + r.Intn(3)
		}
		var frags []vfwFrag
		left := total
		for left > 0 || len(frags) == 0 {
			n := left
			if r.Intn(3) > 0 && left > 0 {
				n = r.Intn(left + 1)
			}
			if r.Intn(6) == 0 {
				n = 0
			}
			left -= n
			last := left == 0 && r.Intn(4) > 0
			h := uint32(n)
			if last {
				h |= LastFragmentFlag
			}
			d := n
			if r.Intn(25) == 0 && n > 0 {
				d = r.Intn(n) // stream ends inside this fragment
			}
			frags = append(frags, vfwFrag{vfwWOf(h), d})
			if d < n || last || len(frags) > 60 {
				break
			}
		}
		line := vfwGuardLine(M{"t": "rml", "k": "", "frags": frags}, func() M { return vfwRml(r, max, frags) })
		line["src"] = "rnd"
		tr.Emit(line)
		nontrivial++
	}
	// the writer on large records: header sequence and write-then-read identity
	for i := 0; i < vfEnvInt("VF_WRITES", 24); i++ {
		n := []int{0, 1, 1000, 65536, DefaultMaxFragmentSize - 1, DefaultMaxFragmentSize}[i%6] + r.Intn(2)*r.Intn(4000)
		if n > DefaultMaxRecordSize {
			n = DefaultMaxRecordSize
		}
		mf := []int{1 << 20, 512, 4096, 65536, 1}[i%5]
		if n/mf > 3000 { // keep the header list loggable
			mf = n/3000 + 1
		}
		data := vfwFill(r, n)
		var b bytes.Buffer
		w := NewRecordMarkingWriterWithSize(&b, mf)
		werr := w.WriteRecord(data)
		// pick the headers out of the stream the writer produced
		hdrs := []vfwW{}
		s := b.Bytes()
		wellFormed := true
		var payload []byte
		for p := 0; p < len(s); {
			if p+4 > len(s) {
				wellFormed = false
				break
			}
			h := binary.BigEndian.Uint32(s[p:])
			hdrs = append(hdrs, vfwWOf(h))
			l := int(h &^ LastFragmentFlag)
			if p+4+l > len(s) {
				wellFormed = false
				break
			}
			payload = append(payload, s[p+4:p+4+l]...)
			p += 4 + l
		}
		rm := NewRecordMarkingReader(bytes.NewReader(s))
		back, berr := rm.ReadRecord()
		tr.Emit(M{"ev": "rmwl", "mf": mf, "len": n, "hdrs": hdrs, "werr": werr != nil, "framed": wellFormed, "eq": bytes.Equal(payload, data),
			"backok": berr == nil && bytes.Equal(back, data), "src": "rnd"})
	}
	vfWriteJSON(t, "wire.summary.json", M{"vectors": nvec, "lines": tr.n, "by_kind": counts, "random": nrnd, "nontrivial": nontrivial + nvec, "samples": samples})
}

package absnfs

// vf_lrucache.go: drivers for C21 (specs/LRUCache).
//   TestVF_LRUSeq  : directed and seeded sequential histories at the AttrCache / DirCache API
//                    under the virtual clock (vf_clock.go + check-time rewrite of cache.go);
//                    every line carries the operation, its result and the full projected cache
//                    (entries, expiry ticks, the access list front to back, capacity, TTLs,
//                    negative switch).  Values handed to Put and values returned by Get are
//                    modified by the caller afterwards (copy isolation).
//   TestVF_LRUConc : directed interleavings (a second call placed exactly between the two critical
//                    sections of a Get, driven through the clock-read hook of vf_clock.go, no
//                    change to cache.go) and then 2-3 goroutines x 3 calls on one cache, all run
//                    under -race; call / ret events, clock ticks, the cache before and after.
// The harness records; TLC decides (LRUCacheTrace, LRUCacheLin).

import (
	"os"
	"reflect"
	"runtime"
	"sort"
	"strings"
	"sync"
	"sync/atomic"
	"testing"
	"time"
)

var vfLRUBase = time.Unix(1_700_000_000, 0)

const vfLRUTick = time.Second

type vfLRUEnt struct {
	K   []string `json:"k"`
	V   string   `json:"v"`
	Neg bool     `json:"neg"`
	Exp int      `json:"exp"`
}

type vfLRUState struct {
	Ent   []vfLRUEnt `json:"ent"`
	Order [][]string `json:"order"`
	Cap   int        `json:"cap"`
	TTL   int        `json:"ttl"`
	NTTL  int        `json:"nttl"`
	NegOn bool       `json:"negon"`
}

type vfLRUOp struct {
	Op string   `json:"op"`
	K  []string `json:"k"`
	V  string   `json:"v"`
	N  int      `json:"n"`
	En bool     `json:"en"`
}

type vfLRURes struct {
	Hit bool   `json:"hit"`
	V   string `json:"v"`
	Neg bool   `json:"neg"`
}

func vfLRUComps(p string) []string {
	p = strings.Trim(p, "/")
	if p == "" {
		return []string{}
	}
	return strings.Split(p, "/")
}

func vfLRUPath(k []string) string { return "/" + strings.Join(k, "/") }

func vfLRUNowTick() int { return int(vfNow().Sub(vfLRUBase) / vfLRUTick) }

func vfLRUTickOf(t time.Time) int {
	d := t.Sub(vfLRUBase)
	if d < 0 {
		return -1
	}
	return int(d / vfLRUTick)
}

// ---------------------------------------------------------------- value tokens

func vfLRUAttrProto(tok string) *NFSAttrs {
	var a *NFSAttrs
	switch tok {
	case "v1":
		a = &NFSAttrs{Mode: 0644, Size: 11, FileId: 101, Uid: 1, Gid: 2}
		a.SetMtime(vfLRUBase.Add(-100 * time.Second))
		a.SetAtime(vfLRUBase.Add(-50 * time.Second))
	case "v2":
		a = &NFSAttrs{Mode: os.ModeDir | 0755, Size: 22, FileId: 202, Uid: 3, Gid: 4}
		a.SetMtime(vfLRUBase.Add(-200 * time.Second))
		a.SetAtime(vfLRUBase.Add(-150 * time.Second))
	default: // "v3"
		a = &NFSAttrs{Mode: os.ModeSymlink | 0777, Size: 33, FileId: 303, Uid: 5, Gid: 6}
		a.SetMtime(vfLRUBase.Add(-300 * time.Second))
		a.SetAtime(vfLRUBase.Add(-250 * time.Second))
	}
	a.Refresh()
	return a
}

func vfLRUAttrTok(a *NFSAttrs) string {
	if a == nil {
		return "corrupt"
	}
	for _, tok := range []string{"v1", "v2", "v3"} {
		p := vfLRUAttrProto(tok)
		if a.Mode == p.Mode && a.Size == p.Size && a.FileId == p.FileId && a.Uid == p.Uid && a.Gid == p.Gid &&
			a.Mtime().Equal(p.Mtime()) && a.Atime().Equal(p.Atime()) {
			return tok
		}
	}
	return "corrupt"
}

// vfLRUScribble is what a caller does to an object it owns.
func vfLRUScribble(a *NFSAttrs) {
	a.Mode ^= 0007
	a.Size += 1000
	a.FileId += 1000
	a.Uid += 1000
	a.Gid += 1000
	a.SetMtime(a.Mtime().Add(time.Hour))
	a.SetAtime(a.Atime().Add(time.Hour))
}

type vfLRUInfo struct{ name string }

func (i vfLRUInfo) Name() string       { return i.name }
func (i vfLRUInfo) Size() int64        { return 0 }
func (i vfLRUInfo) Mode() os.FileMode  { return 0644 }
func (i vfLRUInfo) ModTime() time.Time { return vfLRUBase }
func (i vfLRUInfo) IsDir() bool        { return false }
func (i vfLRUInfo) Sys() interface{}   { return nil }

const vfLRUMaxDirSize = 3

var vfLRUDirNames = map[string][]string{"d0": {}, "d1": {"x", "y"}, "d2": {"z"}, "d3": {"u", "v", "w"}, "big": {"p", "q", "r", "s"}}

func vfLRUDirProto(tok string) []os.FileInfo {
	out := []os.FileInfo{}
	for _, n := range vfLRUDirNames[tok] {
		out = append(out, vfLRUInfo{n})
	}
	return out
}

func vfLRUDirTok(l []os.FileInfo) string {
	names := make([]string, 0, len(l))
	for _, fi := range l {
		v, ok := fi.(vfLRUInfo)
		if !ok {
			return "corrupt"
		}
		names = append(names, v.name)
	}
	j := strings.Join(names, ",")
	for tok, ns := range vfLRUDirNames {
		if strings.Join(ns, ",") == j {
			return tok
		}
	}
	return "corrupt"
}

func vfLRUDirScribble(l []os.FileInfo) {
	for i := range l {
		l[i] = vfLRUInfo{"SCRIBBLED"}
	}
}

// ---------------------------------------------------------------- one cache, either kind

type vfLRUCache struct {
	kind string
	ac   *AttrCache
	dc   *DirCache
}

func vfLRUNew(kind string, capN, ttl int) *vfLRUCache {
	c := &vfLRUCache{kind: kind}
	if kind == "attr" {
		c.ac = NewAttrCache(time.Duration(ttl)*vfLRUTick, capN)
	} else {
		c.dc = NewDirCache(time.Duration(ttl)*vfLRUTick, capN, vfLRUMaxDirSize)
	}
	return c
}

// vfLRUTreeMethod: InvalidateTree(root) exists only in trees that carry the RENAME fix; it is
// reached by name so that the harness also builds against a tree without it (then no "invtree"
// operation is generated).
func vfLRUTreeMethod(c *vfLRUCache) reflect.Value {
	if c.kind == "attr" {
		return reflect.ValueOf(c.ac).MethodByName("InvalidateTree")
	}
	return reflect.ValueOf(c.dc).MethodByName("InvalidateTree")
}

func vfLRUHasTree() bool {
	return vfLRUTreeMethod(vfLRUNew("attr", 1, 1)).IsValid() && vfLRUTreeMethod(vfLRUNew("dir", 1, 1)).IsValid()
}

// apply performs one API call; the caller's own objects are modified after the call.
func (c *vfLRUCache) apply(o vfLRUOp) vfLRURes {
	res := vfLRURes{V: "-"}
	p := vfLRUPath(o.K)
	switch o.Op {
	case "tick":
		vfClockAdvance(time.Duration(o.N) * vfLRUTick)
	case "get":
		if c.kind == "attr" {
			a, ok := c.ac.Get(p)
			res.Hit = ok
			if ok && a == nil {
				res.Neg = true
			} else if ok {
				res.V = vfLRUAttrTok(a)
				vfLRUScribble(a)
			}
		} else {
			l, ok := c.dc.Get(p)
			res.Hit = ok
			if ok {
				res.V = vfLRUDirTok(l)
				vfLRUDirScribble(l)
			}
		}
	case "put":
		if c.kind == "attr" {
			a := vfLRUAttrProto(o.V)
			c.ac.Put(p, a)
			vfLRUScribble(a)
		} else {
			l := vfLRUDirProto(o.V)
			c.dc.Put(p, l)
			vfLRUDirScribble(l)
		}
	case "putneg":
		c.ac.PutNegative(p)
	case "inv":
		if c.kind == "attr" {
			c.ac.Invalidate(p)
		} else {
			c.dc.Invalidate(p)
		}
	case "invneg":
		c.ac.InvalidateNegativeInDir(p)
	case "invtree":
		vfLRUTreeMethod(c).Call([]reflect.Value{reflect.ValueOf(p)})
	case "resize":
		if c.kind == "attr" {
			c.ac.Resize(o.N)
		} else {
			c.dc.Resize(o.N)
		}
	case "updatettl":
		if c.kind == "attr" {
			c.ac.UpdateTTL(time.Duration(o.N) * vfLRUTick)
		} else {
			c.dc.UpdateTTL(time.Duration(o.N) * vfLRUTick)
		}
	case "clear":
		if c.kind == "attr" {
			c.ac.Clear()
		} else {
			c.dc.Clear()
		}
	case "configneg":
		c.ac.ConfigureNegativeCaching(o.En, time.Duration(o.N)*vfLRUTick)
	default:
		panic("vf_lrucache: unknown op " + o.Op)
	}
	return res
}

// state projects the cache (in-package read under the cache's own lock).
func (c *vfLRUCache) state() vfLRUState {
	st := vfLRUState{Ent: []vfLRUEnt{}, Order: [][]string{}}
	if c.kind == "attr" {
		a := c.ac
		a.mu.RLock()
		defer a.mu.RUnlock()
		for k, e := range a.cache {
			ent := vfLRUEnt{K: vfLRUComps(k), Neg: e.isNegative, Exp: vfLRUTickOf(e.expireAt)}
			switch {
			case e.isNegative && e.attrs == nil:
				ent.V = "-"
			case !e.isNegative && e.attrs != nil:
				ent.V = vfLRUAttrTok(e.attrs)
			default:
				ent.V = "corrupt"
			}
			st.Ent = append(st.Ent, ent)
		}
		for el := a.accessList.Front(); el != nil; el = el.Next() {
			s, _ := el.Value.(string)
			st.Order = append(st.Order, vfLRUComps(s))
		}
		st.Cap, st.TTL, st.NTTL, st.NegOn = a.maxSize, int(a.ttl/vfLRUTick), int(a.negativeTTL/vfLRUTick), a.enableNegative
	} else {
		d := c.dc
		d.mu.RLock()
		defer d.mu.RUnlock()
		for k, e := range d.entries {
			st.Ent = append(st.Ent, vfLRUEnt{K: vfLRUComps(k), V: vfLRUDirTok(e.entries), Exp: vfLRUTickOf(e.validUntil)})
		}
		for el := d.accessList.Front(); el != nil; el = el.Next() {
			s, _ := el.Value.(string)
			st.Order = append(st.Order, vfLRUComps(s))
		}
		st.Cap, st.TTL = d.maxEntries, int(d.timeout/vfLRUTick)
	}
	sort.Slice(st.Ent, func(i, j int) bool { return vfLRUPath(st.Ent[i].K) < vfLRUPath(st.Ent[j].K) })
	return st
}

func vfLRUMk(op, path, v string, n int, en bool) vfLRUOp {
	return vfLRUOp{Op: op, K: vfLRUComps(path), V: v, N: n, En: en}
}

// ---------------------------------------------------------------- sequential histories

type vfLRUHist struct {
	kind string
	capN int
	ttl  int
	ops  []vfLRUOp
	name string
}

// vfLRUDirected: the scenarios named in DESIGN.md 5/C21 (both caches where they apply).
func vfLRUDirected() []vfLRUHist {
	g := func(p string) vfLRUOp { return vfLRUMk("get", p, "-", 0, false) }
	put := func(p, v string) vfLRUOp { return vfLRUMk("put", p, v, 0, false) }
	pn := func(p string) vfLRUOp { return vfLRUMk("putneg", p, "-", 0, false) }
	inv := func(p string) vfLRUOp { return vfLRUMk("inv", p, "-", 0, false) }
	invn := func(p string) vfLRUOp { return vfLRUMk("invneg", p, "-", 0, false) }
	tick := func(n int) vfLRUOp { return vfLRUMk("tick", "/", "-", n, false) }
	rs := func(n int) vfLRUOp { return vfLRUMk("resize", "/", "-", n, false) }
	ut := func(n int) vfLRUOp { return vfLRUMk("updatettl", "/", "-", n, false) }
	cn := func(en bool, n int) vfLRUOp { return vfLRUMk("configneg", "/", "-", n, en) }
	clr := vfLRUMk("clear", "/", "-", 0, false)
	var out []vfLRUHist
	// F13 reproducer: a negative entry is still cached, and served, after negative caching is switched off
	out = append(out, vfLRUHist{"attr", 3, 4, []vfLRUOp{cn(true, 3), pn("/a"), put("/b", "v1"), g("/a"), cn(false, 0), g("/a"), g("/b"),
		pn("/ab"), g("/ab"), tick(1), g("/a"), cn(true, 0), g("/a"), tick(2), g("/a")}, "negative-disable"})
	// capacity reached by negative entries; a negative entry replaced by a positive one and back
	out = append(out, vfLRUHist{"attr", 2, 3, []vfLRUOp{cn(true, 2), pn("/a"), pn("/b"), put("/ab", "v1"), g("/a"), g("/b"), g("/ab"),
		pn("/ab"), g("/ab"), put("/ab", "v2"), g("/ab"), pn("/a/b"), g("/b"), g("/ab"), g("/a/b"), tick(2), g("/a/b"), g("/ab")}, "negative-capacity"})
	// direct children only: /a vs /ab, root, grandchildren
	out = append(out, vfLRUHist{"attr", 12, 9, []vfLRUOp{cn(true, 9), pn("/"), pn("/a"), pn("/ab"), pn("/abc"), pn("/a/b"), pn("/a/ab"), pn("/a/b/c"), pn("/b"),
		put("/a/x", "v1"), invn("/a"), g("/a/b"), g("/a/ab"), g("/ab"), g("/abc"), g("/a/b/c"), g("/a/x"), invn("/a/b"), g("/a/b/c"),
		pn("/a/b"), pn("/ab/c"), invn("/"), g("/a"), g("/ab"), g("/abc"), g("/b"), g("/"), g("/a/b"), g("/ab/c"), invn("/ab"), g("/ab/c"), invn("/nope"), inv("/a/b"), g("/a/b")}, "children"})
	for _, kind := range []string{"attr", "dir"} {
		v1, v2, v3 := "v1", "v2", "v3"
		if kind == "dir" {
			v1, v2, v3 = "d1", "d2", "d3"
		}
		// LRU order: Get refreshes, Put of an existing key refreshes, eviction takes the back
		out = append(out, vfLRUHist{kind, 3, 9, []vfLRUOp{put("/a", v1), put("/b", v2), put("/ab", v3), g("/a"), put("/a/b", v1), g("/b"), g("/a"), g("/ab"),
			put("/ab", v2), put("/b", v1), g("/a"), g("/a/b"), g("/ab"), put("/", v3), g("/ab"), g("/b"), g("/"), g("/a")}, "lru-order"})
		// Resize: shrink evicts from the back, grow keeps, non-positive means the default
		out = append(out, vfLRUHist{kind, 4, 9, []vfLRUOp{put("/a", v1), put("/b", v2), put("/ab", v3), put("/a/b", v1), g("/b"), rs(2), g("/a"), g("/ab"), g("/a/b"), g("/b"),
			rs(2), rs(3), put("/", v2), put("/a", v3), g("/a/b"), rs(1), g("/a"), g("/"), rs(0), put("/b", v1), put("/ab", v1), g("/a"), rs(-5), rs(1), g("/ab"), g("/b")}, "resize"})
		// TTL: expiry boundary, expired entry dropped by Get, UpdateTTL is not retroactive, non-positive TTL
		out = append(out, vfLRUHist{kind, 3, 2, []vfLRUOp{put("/a", v1), tick(1), g("/a"), put("/b", v2), tick(1), g("/a"), g("/a"), g("/b"), tick(1), g("/a"), g("/b"), tick(1), g("/b"),
			put("/a", v1), ut(5), tick(2), g("/a"), put("/b", v1), tick(1), g("/a"), g("/b"), ut(1), tick(3), g("/b"), put("/ab", v2), tick(1), g("/b"), g("/ab"), tick(1), g("/b"), g("/ab"),
			ut(0), put("/a", v3), tick(4), g("/a"), tick(1), g("/a"), tick(5), g("/a"), tick(1), g("/a")}, "ttl"})
		// expired entries still occupy room and are evicted in recency order; Clear
		out = append(out, vfLRUHist{kind, 2, 1, []vfLRUOp{put("/a", v1), tick(2), put("/b", v2), put("/ab", v3), g("/a"), g("/b"), g("/ab"), clr, g("/b"), put("/a", v2), clr, clr, put("/b", v1), g("/b"), g("/a"),
			inv("/b"), inv("/b"), g("/b"), put("/a", v1), put("/a", v2), g("/a"), put("/b", v3), put("/ab", v1), g("/a"), g("/b")}, "expired-room-clear"})
	}
	if vfLRUHasTree() {
		invt := func(p string) vfLRUOp { return vfLRUMk("invtree", p, "-", 0, false) }
		// InvalidateTree: the directory itself and everything below it, positive and negative; /ab and /abc are not below /a
		out = append(out, vfLRUHist{"attr", 12, 9, []vfLRUOp{cn(true, 9), put("/a", "v1"), pn("/a/b"), put("/a/b/c", "v2"), pn("/ab"), put("/abc", "v1"), put("/b", "v2"), pn("/"),
			invt("/a"), g("/a"), g("/a/b"), g("/a/b/c"), g("/ab"), g("/abc"), g("/b"), g("/"), invt("/nope"), g("/b"), put("/a/b", "v1"), invt("/a/b/c"), g("/a/b"), invt("/"), g("/b"), g("/ab"), g("/a/b")}, "tree"})
		out = append(out, vfLRUHist{"dir", 12, 9, []vfLRUOp{put("/a", "d1"), put("/a/b", "d2"), put("/a/b/c", "d3"), put("/ab", "d1"), put("/abc", "d2"), put("/", "d0"),
			invt("/a"), g("/a"), g("/a/b"), g("/a/b/c"), g("/ab"), g("/abc"), g("/"), put("/a/b", "d1"), invt("/a/b/c"), g("/a/b"), invt("/"), g("/ab"), g("/")}, "tree"})
	}
	// DirCache refuses listings longer than maxDirSize (also over an existing entry); empty listing is a value
	out = append(out, vfLRUHist{"dir", 2, 5, []vfLRUOp{put("/a", "big"), g("/a"), put("/a", "d1"), put("/a", "big"), g("/a"), put("/b", "d0"), g("/b"), put("/ab", "d3"), put("/b", "big"), g("/a"), g("/b"), g("/ab")}, "oversize"})
	return out
}

func vfLRURandomHist(seed int64, h int) vfLRUHist {
	r := vfRand(seed, "lruseq"+string(rune('A'+h%26))+string(rune('a'+h/26%26))+string(rune('0'+h/676%10)))
	kind := "attr"
	if h%3 == 2 {
		kind = "dir"
	}
	pool := []string{"/", "/a", "/b", "/ab", "/abc", "/a/b", "/a/ab", "/ab/a", "/a/b/c", "/b/a"}
	r.Shuffle(len(pool), func(i, j int) { pool[i], pool[j] = pool[j], pool[i] })
	keys := pool[:3+r.Intn(3)]
	dirs := []string{"/", "/a", "/a", "/ab", "/a/b", "/b"}
	vals := []string{"v1", "v2", "v3"}
	if kind == "dir" {
		vals = []string{"d0", "d1", "d2", "d3", "big"}
	}
	steps := vfEnvInt("VF_STEPS", 40)
	hasTree := vfLRUHasTree()
	hh := vfLRUHist{kind: kind, capN: 1 + r.Intn(4), ttl: 2 + r.Intn(3), name: "random"}
	key := func() string { return keys[r.Intn(len(keys))] }
	if kind == "attr" && r.Intn(4) > 0 {
		hh.ops = append(hh.ops, vfLRUMk("configneg", "/", "-", r.Intn(4), true))
	}
	for len(hh.ops) < steps {
		x := r.Intn(100)
		switch {
		case x < 32:
			hh.ops = append(hh.ops, vfLRUMk("get", key(), "-", 0, false))
		case x < 58:
			hh.ops = append(hh.ops, vfLRUMk("put", key(), vals[r.Intn(len(vals))], 0, false))
		case x < 67:
			if kind == "attr" {
				hh.ops = append(hh.ops, vfLRUMk("putneg", key(), "-", 0, false))
			} else {
				hh.ops = append(hh.ops, vfLRUMk("get", key(), "-", 0, false))
			}
		case x < 79:
			n := 1
			if r.Intn(5) == 0 {
				n = 2 + r.Intn(2)
			}
			hh.ops = append(hh.ops, vfLRUMk("tick", "/", "-", n, false))
		case x < 84:
			if hasTree && r.Intn(3) == 0 {
				hh.ops = append(hh.ops, vfLRUMk("invtree", dirs[r.Intn(len(dirs))], "-", 0, false))
			} else {
				hh.ops = append(hh.ops, vfLRUMk("inv", key(), "-", 0, false))
			}
		case x < 89:
			if kind == "attr" {
				hh.ops = append(hh.ops, vfLRUMk("invneg", dirs[r.Intn(len(dirs))], "-", 0, false))
			} else {
				hh.ops = append(hh.ops, vfLRUMk("inv", key(), "-", 0, false))
			}
		case x < 93:
			n := 1 + r.Intn(5)
			if r.Intn(12) == 0 {
				n = -r.Intn(2)
			}
			hh.ops = append(hh.ops, vfLRUMk("resize", "/", "-", n, false))
		case x < 96:
			n := 1 + r.Intn(3)
			if r.Intn(10) == 0 {
				n = 0
			}
			hh.ops = append(hh.ops, vfLRUMk("updatettl", "/", "-", n, false))
		case x < 97:
			hh.ops = append(hh.ops, vfLRUMk("clear", "/", "-", 0, false))
		default:
			if kind == "attr" {
				hh.ops = append(hh.ops, vfLRUMk("configneg", "/", "-", r.Intn(4), r.Intn(3) > 0))
			} else {
				hh.ops = append(hh.ops, vfLRUMk("get", key(), "-", 0, false))
			}
		}
	}
	return hh
}

func TestVF_LRUSeq(t *testing.T) {
	seed := vfSeed()
	nh := vfEnvInt("VF_HIST", 300)
	tr := vfNewTrace(t, "lru_seq.ndjson")
	defer tr.Close()
	hists := vfLRUDirected()
	ndirected := len(hists)
	for h := 0; h < nh; h++ {
		hists = append(hists, vfLRURandomHist(seed, h))
	}
	nontrivial := 0
	var samples []M
	for hi, hh := range hists {
		vfClockSet(vfLRUBase)
		c := vfLRUNew(hh.kind, hh.capN, hh.ttl)
		tr.Emit(M{"ev": "reset", "c": hh.kind, "hist": hi, "name": hh.name, "now": vfLRUNowTick(), "st": c.state()})
		hit, evicted, expired := false, false, false
		for _, o := range hh.ops {
			pre := c.state()
			now := vfLRUNowTick()
			res := c.apply(o)
			post := c.state()
			tr.Emit(M{"ev": "op", "o": o, "r": res, "now": vfLRUNowTick(), "st": post})
			if o.Op == "get" && res.Hit {
				hit = true
			}
			if o.Op == "get" && !res.Hit {
				for _, e := range pre.Ent {
					if vfLRUPath(e.K) == vfLRUPath(o.K) && now > e.Exp {
						expired = true
					}
				}
			}
			if (o.Op == "put" || o.Op == "putneg") && len(pre.Ent) >= pre.Cap && len(post.Ent) == len(pre.Ent) {
				found := false
				for _, e := range pre.Ent {
					if vfLRUPath(e.K) == vfLRUPath(o.K) {
						found = true
					}
				}
				if !found {
					evicted = true
				}
			}
		}
		if hit && evicted && expired {
			nontrivial++
		}
		if hi == 0 || hi == ndirected {
			samples = append(samples, M{"kind": hh.kind, "name": hh.name, "cap": hh.capN, "ttl": hh.ttl, "ops": hh.ops})
		}
	}
	vfWriteJSON(t, "lru_seq.summary.json", M{"has_invalidate_tree": vfLRUHasTree(), "histories": len(hists), "directed": ndirected, "nontrivial": nontrivial, "lines": tr.n, "samples": samples})
}

// ---------------------------------------------------------------- directed interleavings

// vfLRUTryRLock reports whether a reader could enter now; with a reader parked inside the cache it
// is false exactly when a writer has queued behind that reader (sync.RWMutex: a queued writer
// already holds the writers' mutex, so it runs before any Lock() the parked reader issues later).
func (c *vfLRUCache) vfLRUTryRLock() bool {
	if c.kind == "attr" {
		if c.ac.mu.TryRLock() {
			c.ac.mu.RUnlock()
			return true
		}
		return false
	}
	if c.dc.mu.TryRLock() {
		c.dc.mu.RUnlock()
		return true
	}
	return false
}

// vfLRUInterpose runs `outer` (a Get) on goroutine 1 and places `inner` (goroutine 2) between
// outer's first and second critical section.  Get reads the clock for its expiry test while it
// holds the read lock: the clock-read hook parks it there; inner is started and, being a writer,
// queues on the cache's lock (or completes, if it only reads); outer is released, leaves its read
// section, and its second section (recency update / removal of the expired entry) can only take
// the write lock after inner.  The log gets call/ret events like any concurrent history; which
// interleaving happened is not told to TLC, it has to find one.  Returns whether outer parked.
func vfLRUInterpose(t *testing.T, c *vfLRUCache, outer, inner vfLRUOp, logEv func(M)) bool {
	var armed int32 = 1
	parked := make(chan struct{})
	resume := make(chan struct{})
	hook := func() {
		if atomic.CompareAndSwapInt32(&armed, 1, 0) {
			close(parked)
			<-resume
		}
	}
	vfClockHook.Store(&hook)
	defer vfClockHook.Store(nil)
	done1, done2 := make(chan struct{}), make(chan struct{})
	logEv(M{"ev": "call", "g": 1, "o": outer})
	go func() {
		res := c.apply(outer)
		logEv(M{"ev": "ret", "g": 1, "r": res})
		close(done1)
	}()
	didPark := false
	select {
	case <-parked:
		didPark = true
	case <-done1: // the call never read the clock (key not cached): inner simply runs afterwards
		atomic.StoreInt32(&armed, 0)
	}
	if inner.Op == "tick" {
		vfClockAdvance(time.Duration(inner.N) * vfLRUTick)
		logEv(M{"ev": "tick", "g": 2, "n": inner.N})
		close(done2)
	} else {
		logEv(M{"ev": "call", "g": 2, "o": inner})
		go func() {
			res := c.apply(inner)
			logEv(M{"ev": "ret", "g": 2, "r": res})
			close(done2)
		}()
	}
	if didPark {
		deadline := time.Now().Add(10 * time.Second)
	wait:
		for {
			select {
			case <-done2:
				break wait
			default:
			}
			if !c.vfLRUTryRLock() {
				break // inner is queued as a writer behind the parked Get
			}
			if time.Now().After(deadline) {
				t.Fatalf("vf_lrucache: interposed call %v neither finished nor queued on the cache lock", inner)
			}
			runtime.Gosched()
		}
		close(resume)
	}
	<-done1
	<-done2
	return didPark
}

type vfLRUProbe struct {
	kind      string
	capN, ttl int
	prefix    []vfLRUOp
	outer     vfLRUOp
	inner     vfLRUOp
	after     []vfLRUOp
	name      string
}

// vfLRUProbes enumerates: cache kind x state of the looked-up entry (fresh, expired, at the expiry
// instant, negative fresh / expired) x room (spare capacity, or full with the entry least recently
// used) x the call placed between the two sections of the Get.
func vfLRUProbes(hasTree bool) []vfLRUProbe {
	const k, other, fresh = "/a", "/ab", "/a/b"
	var out []vfLRUProbe
	for _, kind := range []string{"attr", "dir"} {
		v1, v2 := "v1", "v2"
		states := []string{"fresh", "expired", "boundary", "negfresh", "negexpired"}
		if kind == "dir" {
			v1, v2 = "d1", "d2"
			states = states[:3]
		}
		inners := []vfLRUOp{
			vfLRUMk("put", k, v2, 0, false), vfLRUMk("put", fresh, v2, 0, false), vfLRUMk("inv", k, "-", 0, false),
			vfLRUMk("clear", "/", "-", 0, false), vfLRUMk("resize", "/", "-", 1, false), vfLRUMk("get", k, "-", 0, false),
			vfLRUMk("tick", "/", "-", 1, false), vfLRUMk("updatettl", "/", "-", 1, false),
		}
		if kind == "attr" {
			inners = append(inners, vfLRUMk("putneg", k, "-", 0, false), vfLRUMk("putneg", fresh, "-", 0, false),
				vfLRUMk("configneg", "/", "-", 0, false), vfLRUMk("invneg", "/", "-", 0, false))
		}
		if hasTree {
			inners = append(inners, vfLRUMk("invtree", k, "-", 0, false))
		}
		for _, st := range states {
			for _, full := range []bool{false, true} {
				for _, in := range inners {
					p := vfLRUProbe{kind: kind, capN: 3, ttl: 2, name: st, outer: vfLRUMk("get", k, "-", 0, false), inner: in}
					if kind == "attr" {
						nttl := 2
						if st == "negexpired" {
							nttl = 1
						}
						p.prefix = append(p.prefix, vfLRUMk("configneg", "/", "-", nttl, true))
					}
					switch st {
					case "fresh":
						p.prefix = append(p.prefix, vfLRUMk("put", k, v1, 0, false))
					case "expired":
						p.prefix = append(p.prefix, vfLRUMk("put", k, v1, 0, false), vfLRUMk("tick", "/", "-", 3, false))
					case "boundary":
						p.prefix = append(p.prefix, vfLRUMk("put", k, v1, 0, false), vfLRUMk("tick", "/", "-", 2, false))
					case "negfresh":
						p.prefix = append(p.prefix, vfLRUMk("putneg", k, "-", 0, false))
					case "negexpired":
						p.prefix = append(p.prefix, vfLRUMk("putneg", k, "-", 0, false), vfLRUMk("tick", "/", "-", 2, false))
					}
					if full {
						p.capN = 2
						p.name += "-full"
						p.prefix = append(p.prefix, vfLRUMk("put", other, v1, 0, false)) // the looked-up entry is now least recently used
					}
					p.after = []vfLRUOp{vfLRUMk("get", k, "-", 0, false), vfLRUMk("get", other, "-", 0, false), vfLRUMk("get", fresh, "-", 0, false)}
					out = append(out, p)
				}
			}
		}
	}
	return out
}

// vfLRURunProbes emits one history per probe; returns (histories, histories in which the Get parked).
func vfLRURunProbes(t *testing.T, tr *vfTrace, samples *[]M) (int, int) {
	probes := vfLRUProbes(vfLRUHasTree())
	parkedN := 0
	for i, p := range probes {
		vfClockSet(vfLRUBase)
		c := vfLRUNew(p.kind, p.capN, p.ttl)
		for _, o := range p.prefix {
			c.apply(o)
		}
		var mu sync.Mutex
		events := []M{{"ev": "reset", "c": p.kind, "hist": 100000 + i, "name": "probe-" + p.name, "G": 2, "now": vfLRUNowTick(), "st": c.state()}}
		logEv := func(e M) {
			mu.Lock()
			events = append(events, e)
			mu.Unlock()
		}
		if vfLRUInterpose(t, c, p.outer, p.inner, logEv) {
			parkedN++
		}
		for _, o := range p.after {
			logEv(M{"ev": "call", "g": 1, "o": o})
			res := c.apply(o)
			logEv(M{"ev": "ret", "g": 1, "r": res})
		}
		events = append(events, M{"ev": "final", "now": vfLRUNowTick(), "st": c.state()})
		for _, e := range events {
			tr.Emit(e)
		}
		if i == 1 {
			*samples = append(*samples, M{"kind": p.kind, "probe": p.name, "prefix": p.prefix, "get": p.outer, "between_its_sections": p.inner, "then": p.after})
		}
	}
	return len(probes), parkedN
}

// ---------------------------------------------------------------- concurrent histories

func TestVF_LRUConc(t *testing.T) {
	seed := vfSeed()
	nh := vfEnvInt("VF_HIST", 300)
	tr := vfNewTrace(t, "lru_conc.ndjson")
	defer tr.Close()
	overlapped := 0
	hasTree := vfLRUHasTree()
	var samples []M
	nprobes, nparked := vfLRURunProbes(t, tr, &samples)
	overlapped += nparked
	for h := 0; h < nh; h++ {
		r := vfRand(seed, "lruconc"+string(rune('A'+h%26))+string(rune('a'+h/26%26))+string(rune('0'+h/676%10)))
		kind := "attr"
		if h%3 == 2 {
			kind = "dir"
		}
		keys := []string{"/a", "/a/b", "/ab", "/"}[:2+r.Intn(3)]
		key := func() string { return keys[r.Intn(len(keys))] }
		vals := []string{"v1", "v2"}
		if kind == "dir" {
			vals = []string{"d1", "d2", "big"}
		}
		vfClockSet(vfLRUBase)
		c := vfLRUNew(kind, 1+r.Intn(3), 1+r.Intn(2))
		// sequential prefix (not validated here; the reset line carries the cache it leaves)
		if kind == "attr" && r.Intn(3) > 0 {
			c.apply(vfLRUMk("configneg", "/", "-", 1+r.Intn(2), true))
		}
		for i, n := 0, r.Intn(5); i < n; i++ {
			switch x := r.Intn(10); {
			case x < 5:
				c.apply(vfLRUMk("put", key(), vals[r.Intn(2)], 0, false))
			case x < 7 && kind == "attr":
				c.apply(vfLRUMk("putneg", key(), "-", 0, false))
			case x < 8:
				c.apply(vfLRUMk("get", key(), "-", 0, false))
			default:
				c.apply(vfLRUMk("tick", "/", "-", 1, false))
			}
		}
		G := 2 + r.Intn(2)
		const rounds = 3
		plan := make([][]vfLRUOp, G)
		for g := 0; g < G; g++ {
			for i := 0; i < rounds; i++ {
				var o vfLRUOp
				switch x := r.Intn(100); {
				case x < 34:
					o = vfLRUMk("get", key(), "-", 0, false)
				case x < 58:
					o = vfLRUMk("put", key(), vals[r.Intn(len(vals))], 0, false)
				case x < 68:
					if kind == "attr" {
						o = vfLRUMk("putneg", key(), "-", 0, false)
					} else {
						o = vfLRUMk("get", key(), "-", 0, false)
					}
				case x < 76:
					if hasTree && r.Intn(3) == 0 {
						o = vfLRUMk("invtree", []string{"/", "/a", "/ab"}[r.Intn(3)], "-", 0, false)
					} else {
						o = vfLRUMk("inv", key(), "-", 0, false)
					}
				case x < 82:
					o = vfLRUMk("tick", "/", "-", 1, false)
				case x < 88:
					o = vfLRUMk("resize", "/", "-", 1+r.Intn(3), false)
				case x < 91:
					o = vfLRUMk("updatettl", "/", "-", 1+r.Intn(2), false)
				case x < 93:
					o = vfLRUMk("clear", "/", "-", 0, false)
				default:
					if kind == "attr" {
						if r.Intn(2) == 0 {
							o = vfLRUMk("configneg", "/", "-", r.Intn(3), r.Intn(2) == 0)
						} else {
							o = vfLRUMk("invneg", []string{"/", "/a"}[r.Intn(2)], "-", 0, false)
						}
					} else {
						o = vfLRUMk("get", key(), "-", 0, false)
					}
				}
				plan[g] = append(plan[g], o)
			}
		}
		barrier := r.Intn(4) > 0 // most histories start each round together
		var mu sync.Mutex
		events := []M{{"ev": "reset", "c": kind, "hist": h, "G": G, "now": vfLRUNowTick(), "st": c.state()}}
		var arrived [rounds]int32
		var wg sync.WaitGroup
		start := make(chan struct{})
		for g := 0; g < G; g++ {
			wg.Add(1)
			go func(g int) {
				defer wg.Done()
				<-start
				for i, o := range plan[g] {
					if o.Op == "tick" {
						if barrier {
							atomic.AddInt32(&arrived[i], 1)
						}
						// the clock moves and the event is logged in one step of the log
						mu.Lock()
						vfClockAdvance(time.Duration(o.N) * vfLRUTick)
						events = append(events, M{"ev": "tick", "g": g + 1, "n": o.N})
						mu.Unlock()
						continue
					}
					mu.Lock()
					events = append(events, M{"ev": "call", "g": g + 1, "o": o})
					mu.Unlock()
					if barrier {
						atomic.AddInt32(&arrived[i], 1)
						for spin := 0; atomic.LoadInt32(&arrived[i]) < int32(G) && spin < 200000; spin++ {
						}
					}
					res := c.apply(o)
					mu.Lock()
					events = append(events, M{"ev": "ret", "g": g + 1, "r": res})
					mu.Unlock()
				}
			}(g)
		}
		close(start)
		wg.Wait()
		events = append(events, M{"ev": "final", "now": vfLRUNowTick(), "st": c.state()})
		// did two calls overlap in the log?
		open := 0
		ov := false
		for _, e := range events {
			switch e["ev"] {
			case "call":
				open++
				if open > 1 {
					ov = true
				}
			case "ret":
				open--
			}
		}
		if ov {
			overlapped++
		}
		for _, e := range events {
			tr.Emit(e)
		}
		if h < 2 {
			samples = append(samples, M{"kind": kind, "G": G, "plan": plan})
		}
	}
	vfWriteJSON(t, "lru_conc.summary.json", M{"histories": nh + nprobes, "probes": nprobes, "probes_interposed": nparked, "overlapped": overlapped, "lines": tr.n, "samples": samples})
}

package absnfs

// vf_pathguard.go: driver for C07 (specs/PathGuard). It sends adversarial names, symlink targets
// and mount paths through the real handlers over the recording vfs backend and logs, per request,
// what was sent (as TOKEN strings), the reply status, every backend call with its path arguments
// exactly as the backend received them (split at '/', hex-encoded) and the backend tree. It
// classifies nothing: which token strings are valid names / acceptable targets, and whether a
// logged path is allowed, is decided by specs/PathGuard/PathGuardTrace.tla.
//
// The bytes a token denotes are not known to this file either: the table is read from the JSON
// file named by VF_PG_TOKENS, which TLC writes from PathGuard!DumpSpec (PathGuardOps!TokHex).

import (
	"bytes"
	"encoding/binary"
	"encoding/hex"
	"encoding/json"
	"fmt"
	"math/rand"
	"os"
	"strings"
	"testing"
	"time"
)

type vfpgTable struct {
	Core  []string          `json:"core"`
	Extra []string          `json:"extra"`
	Long  [][]string        `json:"long"`
	Hex   map[string]string `json:"hex"`
	raw   map[string][]byte
}

func vfpgLoadTable(t testing.TB) *vfpgTable {
	p := os.Getenv("VF_PG_TOKENS")
	if p == "" {
		t.Fatalf("VF_PG_TOKENS not set (the token table is dumped by TLC from specs/PathGuard)")
	}
	b, err := os.ReadFile(p)
	if err != nil {
		t.Fatalf("token table: %v", err)
	}
	tb := &vfpgTable{}
	if err := json.Unmarshal(b, tb); err != nil {
		t.Fatalf("token table: %v", err)
	}
	tb.raw = map[string][]byte{}
	for k, v := range tb.Hex {
		x, err := hex.DecodeString(v)
		if err != nil {
			t.Fatalf("token %s: %v", k, err)
		}
		tb.raw[k] = x
	}
	for _, k := range append(append([]string{}, tb.Core...), tb.Extra...) {
		if _, ok := tb.raw[k]; !ok {
			t.Fatalf("token %s has no bytes in the table", k)
		}
	}
	if len(tb.Core) < 2 {
		t.Fatalf("token table: core alphabet too small")
	}
	return tb
}

func (tb *vfpgTable) bytes(v []string) string {
	var b bytes.Buffer
	for _, k := range v {
		b.Write(tb.raw[k])
	}
	return b.String()
}

// all token strings over the core alphabet of length 0..n, shortest first
func (tb *vfpgTable) enumerate(n int) [][]string {
	out := [][]string{{}}
	prev := [][]string{{}}
	for l := 1; l <= n; l++ {
		var cur [][]string
		for _, p := range prev {
			for _, k := range tb.Core {
				cur = append(cur, append(append([]string{}, p...), k))
			}
		}
		out = append(out, cur...)
		prev = cur
	}
	return out
}

func vfpgHexAll(c []string) []string {
	out := make([]string, len(c))
	for i, s := range c {
		out[i] = hex.EncodeToString([]byte(s))
	}
	return out
}

// vfpgSplit presents a raw string the way PathGuardOps!SplitPath reads it: one leading '/' is the
// "absolute" flag, the rest is split at '/'; "" and "/" have no components.
func vfpgSplit(p string) (bool, []string) {
	abs := strings.HasPrefix(p, "/")
	rest := p
	if abs {
		rest = p[1:]
	}
	if rest == "" {
		return abs, []string{}
	}
	return abs, strings.Split(rest, "/")
}

type vfpgCfg struct {
	Neg bool   `json:"neg"`
	Dir bool   `json:"dir"`
	TTL string `json:"ttl"`
	// Exp: the name the export is published under (AbsfsNFS.Export's mountPath), as a token string;
	// empty = never exported under a name. It names the root of the exported tree and is not a path
	// inside it, so MNT vectors that start with it must reach the backend like any other path.
	Exp []string `json:"exp"`
}

type vfpgClient struct {
	t        testing.TB
	env      *vfEnv
	fs       *vfsFS
	tr       *vfTrace
	tb       *vfpgTable
	hp       map[uint64][]string // handle value -> path components it was issued for (raw strings)
	base     []vfNode
	baseKey  string
	n        int
	last     *vfNFSReply
	lastFH   uint64
	lastHas  bool
	seen     map[string]bool // distinct (slot, vector) pairs that are not plain letters
	reqs     int
	restores int
	exp      []string // export name of this history (token string), empty if none
	expMnt   int
}

func (c *vfpgClient) tree() []M {
	out := []M{}
	for _, n := range c.fs.Snapshot(0) {
		e := M{"p": vfpgHexAll(n.P), "k": n.K, "ta": false, "tc": []string{}, "th": ""}
		if n.K == "L" {
			abs, comps := vfpgSplit(n.T)
			e["ta"], e["tc"], e["th"] = abs, vfpgHexAll(comps), hex.EncodeToString([]byte(n.T))
		}
		out = append(out, e)
	}
	return out
}

func (c *vfpgClient) treeKey() string {
	var b strings.Builder
	for _, n := range c.fs.Snapshot(0) {
		fmt.Fprintf(&b, "%q|%s|%q\n", n.P, n.K, n.T)
	}
	return b.String()
}

func vfpgNewClient(t testing.TB, tr *vfTrace, tb *vfpgTable, cfg vfpgCfg, hist int, seed int64) *vfpgClient {
	fs := vfNewFS()
	opts := ExportOptions{CacheNegativeLookups: cfg.Neg, EnableDirCache: cfg.Dir, MaxWorkers: 2}
	if cfg.TTL == "min" {
		opts.AttrCacheTimeout = time.Nanosecond
		opts.NegativeCacheTimeout = time.Nanosecond
		opts.DirCacheTimeout = time.Nanosecond
	}
	env := vfNewEnv(t, fs, opts)
	if cfg.Exp == nil {
		cfg.Exp = []string{}
	}
	if len(cfg.Exp) > 0 {
		// what Export(name, port) records (Export itself also opens a TCP listener, which these
		// histories do not need: they go through HandleCall)
		env.n.mountPath = tb.bytes(cfg.Exp)
	}
	c := &vfpgClient{t: t, env: env, fs: fs, tr: tr, tb: tb, hp: map[uint64][]string{}, seen: map[string]bool{}, exp: cfg.Exp}
	tr.Emit(M{"ev": "reset", "hist": hist, "seed": int(seed % (1 << 30)), "cfg": cfg, "tree": c.tree()})
	return c
}

// vfpgReq describes one request for the log.
type vfpgReq struct {
	proc, slot                   string
	h, h2                        uint64
	hasH, hasH2                  bool
	nm, nm2, tgt, mp             []string
	hasNm, hasNm2, hasTgt, hasMp bool
}

func vfpgTok(v []string) []string {
	if v == nil {
		return []string{}
	}
	return v
}

// log writes the line of one finished request.
func (c *vfpgClient) log(q vfpgReq, st string, ok bool, calls []vfCall, rl M) {
	c.n++
	c.reqs++
	hp := func(has bool, h uint64) []string {
		if !has {
			return []string{}
		}
		return vfpgHexAll(c.hp[h])
	}
	bc := []M{}
	for _, cl := range calls {
		abs, comps := vfpgSplit(cl.Path)
		abs2, comps2 := vfpgSplit(cl.Path2)
		bc = append(bc, M{"op": cl.Op, "abs": abs, "c": vfpgHexAll(comps), "has2": cl.Path2 != "" || cl.Op == "Rename" || cl.Op == "Symlink",
			"abs2": abs2, "c2": vfpgHexAll(comps2), "err": cl.Err})
	}
	if rl == nil {
		rl = M{"has": false, "abs": false, "c": []string{}, "hex": ""}
	}
	c.tr.Emit(M{"ev": "req", "n": c.n, "proc": q.proc, "slot": q.slot,
		"hash": q.hasH, "h": hp(q.hasH, q.h), "hasnm": q.hasNm, "nm": vfpgTok(q.nm),
		"hash2": q.hasH2, "h2": hp(q.hasH2, q.h2), "hasnm2": q.hasNm2, "nm2": vfpgTok(q.nm2),
		"hastgt": q.hasTgt, "tgt": vfpgTok(q.tgt), "hasmp": q.hasMp, "mp": vfpgTok(q.mp),
		"st": st, "ok": ok, "calls": bc, "rl": rl, "tree": c.tree()})
}

// nfs performs one NFSv3 request and logs it.
func (c *vfpgClient) nfs(q vfpgReq, proc uint32, args []byte) *vfNFSReply {
	c.fs.TakeCalls()
	rep := c.env.Do(proc, args, vfRoot)
	calls := c.fs.TakeCalls()
	var rl M
	if proc == NFSPROC3_READLINK && rep.OK() {
		if s, ok := rep.Res.Val["data"].(string); ok {
			abs, comps := vfpgSplit(s)
			rl = M{"has": true, "abs": abs, "c": vfpgHexAll(comps), "hex": hex.EncodeToString([]byte(s))}
		}
	}
	c.log(q, rep.StatusName(), rep.OK(), calls, rl)
	c.last = rep
	c.lastHas = false
	if rep.OK() {
		if fh, ok := vfFH(vfGet(rep.Res.Val, "object")); ok {
			c.lastFH, c.lastHas = fh, true
		}
	}
	return rep
}

// hold remembers the path a handle value was first issued for (a value the client already holds
// keeps denoting the path it was issued for).
func (c *vfpgClient) hold(h uint64, p []string) {
	if _, ok := c.hp[h]; !ok {
		c.hp[h] = append([]string{}, p...)
	}
}

func (c *vfpgClient) child(h uint64, name string) []string {
	return append(append([]string{}, c.hp[h]...), name)
}

func (c *vfpgClient) mount(mp []string) {
	var a bytes.Buffer
	vfEncOpaque(&a, []byte(c.tb.bytes(mp)))
	c.fs.TakeCalls()
	r := c.env.Call(MOUNT_PROGRAM, MOUNT_V3, 1, a.Bytes(), vfRoot)
	calls := c.fs.TakeCalls()
	st, ok := "RPCERR", false
	switch {
	case r.Err != nil:
	case r.Denied:
		st = "DENIED"
	case r.Accept != SUCCESS:
		st = fmt.Sprintf("ACCEPT%d", r.Accept)
	case len(r.Body) < 4:
		st = "UNDECODABLE"
	default:
		s := binary.BigEndian.Uint32(r.Body[0:4])
		st, ok = fmt.Sprintf("MNT%d", s), s == 0
	}
	c.log(vfpgReq{proc: "MNT", slot: "MNT", mp: mp, hasMp: true}, st, ok, calls, nil)
}

func (c *vfpgClient) dirop(proc uint32, name, slot string, h uint64, nm []string) *vfNFSReply {
	return c.nfs(vfpgReq{proc: name, slot: slot, h: h, hasH: true, nm: nm, hasNm: true}, proc, vfArgsDirOp(h, c.tb.bytes(nm)))
}

func (c *vfpgClient) lookup(slot string, h uint64, nm []string) *vfNFSReply {
	rep := c.dirop(NFSPROC3_LOOKUP, "LOOKUP", slot, h, nm)
	return rep
}

func (c *vfpgClient) create(slot string, h uint64, nm []string, how uint32) *vfNFSReply {
	return c.nfs(vfpgReq{proc: "CREATE", slot: slot, h: h, hasH: true, nm: nm, hasNm: true}, NFSPROC3_CREATE,
		vfArgsCreate(h, c.tb.bytes(nm), how, vfSattr{Mode: u32p(0644)}, [8]byte{1, 2, 3}))
}

func (c *vfpgClient) mkdir(slot string, h uint64, nm []string) *vfNFSReply {
	return c.nfs(vfpgReq{proc: "MKDIR", slot: slot, h: h, hasH: true, nm: nm, hasNm: true}, NFSPROC3_MKDIR,
		vfArgsMkdir(h, c.tb.bytes(nm), vfSattr{Mode: u32p(0755)}))
}

func (c *vfpgClient) symlink(slot string, h uint64, nm, tgt []string) *vfNFSReply {
	return c.nfs(vfpgReq{proc: "SYMLINK", slot: slot, h: h, hasH: true, nm: nm, hasNm: true, tgt: tgt, hasTgt: true}, NFSPROC3_SYMLINK,
		vfArgsSymlink(h, c.tb.bytes(nm), vfSattr{}, c.tb.bytes(tgt)))
}

func (c *vfpgClient) rename(slot string, h1 uint64, n1 []string, h2 uint64, n2 []string) *vfNFSReply {
	return c.nfs(vfpgReq{proc: "RENAME", slot: slot, h: h1, hasH: true, nm: n1, hasNm: true, h2: h2, hasH2: true, nm2: n2, hasNm2: true}, NFSPROC3_RENAME,
		vfArgsRename(h1, c.tb.bytes(n1), h2, c.tb.bytes(n2)))
}

func (c *vfpgClient) link(slot string, fh, dir uint64, nm []string) *vfNFSReply {
	return c.nfs(vfpgReq{proc: "LINK", slot: slot, h: fh, hasH: true, h2: dir, hasH2: true, nm2: nm, hasNm2: true}, NFSPROC3_LINK,
		vfArgsLink(fh, dir, c.tb.bytes(nm)))
}

func (c *vfpgClient) readlink(slot string, h uint64) *vfNFSReply {
	return c.nfs(vfpgReq{proc: "READLINK", slot: slot, h: h, hasH: true}, NFSPROC3_READLINK, vfArgsFH(h))
}

// sync logs the tree after the harness itself changed the backend.
func (c *vfpgClient) sync(why string) {
	c.tr.Emit(M{"ev": "sync", "why": why, "tree": c.tree()})
}

// setBase remembers the current tree as the one every vector starts from.
func (c *vfpgClient) setBase() {
	c.base = c.fs.Snapshot(0)
	c.baseKey = c.treeKey()
}

// restore puts the backend back to the base tree (directly, not through the server) when a
// request changed it, and drops the server's caches so that they describe the restored tree.
func (c *vfpgClient) restore() {
	if c.treeKey() == c.baseKey {
		return
	}
	for _, n := range c.fs.Snapshot(0) {
		if len(n.P) == 1 {
			c.fs.RemoveAll("/" + n.P[0])
		}
	}
	for _, n := range c.base {
		if len(n.P) == 0 {
			continue
		}
		c.fs.vfPoke("/"+strings.Join(n.P, "/"), n.K, nil, n.T, os.FileMode(n.Perm))
	}
	c.fs.TakeCalls()
	c.env.n.attrCache.Clear()
	if c.env.n.dirCache != nil {
		c.env.n.dirCache.Clear()
	}
	if c.treeKey() != c.baseKey {
		c.t.Fatalf("pathguard harness: could not restore the base tree")
	}
	c.restores++
	c.sync("restore")
}

// the pool of (valid) names the preceding history is built from; all are token strings, so the
// exhaustive vectors hit existing entries as well as missing ones
var vfpgPool = [][]string{{"a"}, {"a", "a"}, {"dot", "a"}, {"F5"}, {"a", "dot", "a"}, {"F250", "F5"}, {"b"}, {"a", "sp", "b"}, {"uni"}, {"ff"}, {"col", "a"}, {"a", "dot"}}

type vfpgTree struct {
	dirs  []uint64              // root, depth 1, depth 2
	file  uint64                // a regular file (used as a directory handle and as LINK's file)
	lnk   uint64                // a symbolic link (used as a directory handle)
	kids  map[uint64][][]string // directory handle -> names (token strings) of its entries
	fresh []string              // a name that exists nowhere in the base tree
}

func (c *vfpgClient) must(rep *vfNFSReply, what string) uint64 {
	if !rep.OK() || !c.lastHas {
		c.t.Fatalf("pathguard harness: preceding history: %s failed (%s)", what, rep.StatusName())
	}
	return c.lastFH
}

// build makes the preceding history through the server: directories at depth 1 and 2, files and
// links at depth 0..2, then plants links whose targets the server would never create.
func (c *vfpgClient) build(r *rand.Rand) *vfpgTree {
	root := c.env.Mount(c.t, vfRoot)
	c.hold(root, []string{})
	c.fs.TakeCalls()
	perm := r.Perm(len(vfpgPool))
	pick := func(i int) []string { return vfpgPool[perm[i%len(perm)]] }
	tr := &vfpgTree{kids: map[uint64][][]string{}, fresh: []string{"b", "dot", "b"}}
	nm := func(i int) string { return c.tb.bytes(pick(i)) }
	d1 := c.must(c.mkdir("PRE", root, pick(0)), "MKDIR")
	c.hold(d1, c.child(root, nm(0)))
	f1 := c.must(c.create("PRE", root, pick(1), 1), "CREATE")
	c.hold(f1, c.child(root, nm(1)))
	l1 := c.must(c.symlink("PRE", root, pick(2), pick(0)), "SYMLINK")
	c.hold(l1, c.child(root, nm(2)))
	d2 := c.must(c.mkdir("PRE", d1, pick(3)), "MKDIR")
	c.hold(d2, c.child(d1, nm(3)))
	f2 := c.must(c.create("PRE", d1, pick(4), 0), "CREATE")
	c.hold(f2, c.child(d1, nm(4)))
	f3 := c.must(c.create("PRE", d2, pick(5), 2), "CREATE")
	c.hold(f3, c.child(d2, nm(5)))
	l3 := c.must(c.symlink("PRE", d2, pick(6), []string{"a", "sl", "b"}), "SYMLINK")
	c.hold(l3, c.child(d2, nm(6)))
	e2 := c.must(c.mkdir("PRE", d2, pick(7)), "MKDIR") // an empty directory for RMDIR
	c.hold(e2, c.child(d2, nm(7)))
	e0 := c.must(c.mkdir("PRE", root, pick(8)), "MKDIR")
	c.hold(e0, c.child(root, nm(8)))
	tr.dirs = []uint64{root, d1, d2}
	tr.file, tr.lnk = f1, l1
	tr.kids[root] = [][]string{pick(1), pick(2), pick(8), pick(0)}
	tr.kids[d1] = [][]string{pick(4), pick(3)}
	tr.kids[d2] = [][]string{pick(5), pick(6), pick(7)}
	// planted links (not through the server): targets the server must neither create nor, when
	// relative with "..", hand out
	c.fs.vfPoke("/"+nm(9), "L", nil, "..", 0777)
	c.fs.vfPoke("/"+nm(0)+"/"+nm(10), "L", nil, "a/../b", 0777)
	c.fs.vfPoke("/"+nm(0)+"/"+nm(3)+"/"+nm(11), "L", nil, "/abs", 0777)
	tr.kids[root] = append(tr.kids[root], pick(9))
	tr.kids[d1] = append(tr.kids[d1], pick(10))
	tr.kids[d2] = append(tr.kids[d2], pick(11))
	c.sync("plant")
	c.setBase()
	return tr
}

func (c *vfpgClient) note(slot string, v []string) {
	for _, k := range v {
		if k != "a" && k != "b" {
			c.seen[slot+" "+strings.Join(v, ",")] = true
			return
		}
	}
}

// vector sends the token string v in every name-taking argument slot.
func (c *vfpgClient) vector(tr *vfpgTree, v []string, i int, r *rand.Rand) {
	dir := func(k int) uint64 {
		if r.Intn(10) == 0 {
			if r.Intn(2) == 0 {
				return tr.file
			}
			return tr.lnk
		}
		return tr.dirs[(i+k)%len(tr.dirs)]
	}
	existing := func(h uint64) []string {
		if ks := tr.kids[h]; len(ks) > 0 {
			return ks[(i/3)%len(ks)]
		}
		return []string{"a"}
	}
	okTargets := [][]string{{"a"}, {"a", "sl", "b"}, {"dot", "sl", "a"}, {"b", "dot", "dot", "b"}}
	step := func(slot string, f func()) {
		c.note(slot, v)
		f()
		c.restore()
	}
	step("LOOKUP", func() {
		h := dir(0)
		if rep := c.lookup("LOOKUP", h, v); rep.OK() && c.lastHas {
			// a handle obtained with this name: remember what it was issued for and use it once
			fh := c.lastFH
			c.hold(fh, c.child(h, c.tb.bytes(v)))
			c.nfs(vfpgReq{proc: "GETATTR", slot: "USE", h: fh, hasH: true}, NFSPROC3_GETATTR, vfArgsFH(fh))
			if o, ok := rep.Res.Val["obj"].(M); ok && o != nil && vfU(o["type"]) == 5 {
				c.readlink("READLINK_FOUND", fh) // an existing link (created through the server or planted)
			}
		}
	})
	step("CREATE", func() { c.create("CREATE", dir(1), v, uint32(i%3)) })
	step("MKDIR", func() { c.mkdir("MKDIR", dir(2), v) })
	step("SYMLINK_NAME", func() { c.symlink("SYMLINK_NAME", dir(3), v, okTargets[i%len(okTargets)]) })
	step("SYMLINK_TARGET", func() {
		h := dir(4)
		if rep := c.symlink("SYMLINK_TARGET", h, tr.fresh, v); rep.OK() && c.lastHas {
			c.hold(c.lastFH, c.child(h, c.tb.bytes(tr.fresh)))
			c.readlink("READLINK_CREATED", c.lastFH)
		}
	})
	step("MKNOD", func() {
		h := dir(5)
		c.nfs(vfpgReq{proc: "MKNOD", slot: "MKNOD", h: h, hasH: true, nm: v, hasNm: true}, NFSPROC3_MKNOD, vfArgsMknod(h, c.tb.bytes(v), 6))
	})
	step("REMOVE", func() { c.dirop(NFSPROC3_REMOVE, "REMOVE", "REMOVE", dir(6), v) })
	step("RMDIR", func() { c.dirop(NFSPROC3_RMDIR, "RMDIR", "RMDIR", dir(7), v) })
	step("RENAME_FROM", func() { c.rename("RENAME_FROM", dir(8), v, dir(9), tr.fresh) })
	step("RENAME_TO", func() {
		h := dir(10)
		c.rename("RENAME_TO", h, existing(h), dir(11), v)
	})
	step("LINK", func() { c.link("LINK", tr.file, dir(12), v) })
	step("MNT", func() {
		c.mount(v)
		c.mount(append([]string{"sl"}, v...))
		if len(c.exp) > 0 {
			// mount paths that begin with the export's published name: the name itself followed
			// directly by the vector (no component boundary), and with a boundary
			c.note("MNT_EXPORT", v)
			c.mount(append(append([]string{}, c.exp...), v...))
			c.mount(append(append(append([]string{}, c.exp...), "sl"), v...))
			c.expMnt += 2
		}
	})
}

// both sends two adversarial strings in the two-string procedures.
func (c *vfpgClient) both(tr *vfpgTree, v, w []string, i int) {
	h1, h2 := tr.dirs[i%3], tr.dirs[(i+1)%3]
	c.note("RENAME_BOTH", append(append([]string{}, v...), w...))
	c.rename("RENAME_BOTH", h1, v, h2, w)
	c.restore()
	c.symlink("SYMLINK_BOTH", h1, v, w)
	c.restore()
}

func vfpgConfigs() []vfpgCfg {
	return []vfpgCfg{{TTL: "min"}, {TTL: "def", Neg: true, Dir: true, Exp: []string{"sl", "a"}}, {TTL: "min", Neg: true},
		{TTL: "def", Dir: true, Exp: []string{"sl", "b", "sl", "a", "a"}}, {TTL: "min", Exp: []string{"sl", "F5"}}}
}

// TestVF_PathGuard writes pathguard.ndjson and pathguard.summary.json.
//
//	VF_PG_LEN      longest exhaustively enumerated token string (3 quick, 4 thorough)
//	VF_PG_RANDOM   number of seeded random token strings (core + extra alphabet, 1..7 tokens)
//	VF_PG_CHUNK    vectors per history
//	VF_PG_TLEN     longest planted READLINK target over {a, dot, sl} (4 quick, 5 thorough)
func TestVF_PathGuard(t *testing.T) {
	seed := vfSeed()
	tb := vfpgLoadTable(t)
	maxLen := vfEnvInt("VF_PG_LEN", 3)
	nRandom := vfEnvInt("VF_PG_RANDOM", 120)
	chunk := vfEnvInt("VF_PG_CHUNK", 40)
	tLen := vfEnvInt("VF_PG_TLEN", 4)
	tr := vfNewTrace(t, "pathguard.ndjson")
	defer tr.Close()

	vectors := tb.enumerate(maxLen)
	nExh := len(vectors)
	vectors = append(vectors, tb.Long...)
	all := append(append([]string{}, tb.Core...), tb.Extra...)
	rr := vfRand(seed, "pathguard-random")
	var randoms [][]string
	for k := 0; k < nRandom; k++ {
		n := 1 + rr.Intn(7)
		v := make([]string, n)
		for j := range v {
			v[j] = all[rr.Intn(len(all))]
		}
		randoms = append(randoms, v)
	}
	vectors = append(vectors, randoms...)
	// the order in which vectors meet handles and configurations depends on the seed
	rr.Shuffle(len(vectors), func(a, b int) { vectors[a], vectors[b] = vectors[b], vectors[a] })

	cfgs := vfpgConfigs()
	hist, reqs, restores, expMnt := 0, 0, 0, 0
	seen := map[string]bool{}
	var samples []M
	finish := func(c *vfpgClient) {
		reqs += c.reqs
		restores += c.restores
		expMnt += c.expMnt
		for k := range c.seen {
			seen[k] = true
		}
		c.env.Close()
	}
	for lo := 0; lo < len(vectors); lo += chunk {
		hi := lo + chunk
		if hi > len(vectors) {
			hi = len(vectors)
		}
		r := vfRand(seed, fmt.Sprintf("pathguard-%d", hist))
		c := vfpgNewClient(t, tr, tb, cfgs[hist%len(cfgs)], hist, seed)
		tree := c.build(r)
		for i := lo; i < hi; i++ {
			c.vector(tree, vectors[i], i, r)
		}
		// two adversarial strings at once
		for k := 0; k < 6 && k < len(randoms); k++ {
			c.both(tree, vectors[lo+(k*7)%(hi-lo)], randoms[(hist*6+k)%len(randoms)], k)
		}
		if hist == 0 {
			samples = append(samples, M{"history": 0, "cfg": cfgs[0], "vectors": vectors[lo:min(hi, lo+6)], "requests": c.reqs})
		}
		finish(c)
		hist++
	}

	// READLINK on links planted directly in the backend: every target over {a, dot, sl} up to
	// tLen tokens, plus backslash / long / look-alike targets
	var targets [][]string
	sub := &vfpgTable{Core: []string{"a", "dot", "sl"}}
	for _, v := range sub.enumerate(tLen) {
		if len(v) > 0 {
			targets = append(targets, v)
		}
	}
	targets = append(targets, []string{"dot", "dot", "bs", "a"}, []string{"a", "bs", "dot", "dot"}, []string{"uni", "dot", "dot"},
		[]string{"F250", "sl", "dot", "dot"}, []string{"dot", "dot", "sl", "L4096"}, []string{"sl", "dot", "dot"}, []string{"dot", "dot", "dot"},
		[]string{"b", "sl", "dot", "dot", "sl", "dot", "dot", "sl", "b"}, []string{"sp", "dot", "dot"}, []string{"dot", "dot", "sp"})
	rr.Shuffle(len(targets), func(a, b int) { targets[a], targets[b] = targets[b], targets[a] })
	// link names: valid names over {a, b}
	var lnames [][]string
	ab := &vfpgTable{Core: []string{"a", "b"}}
	for _, v := range ab.enumerate(5) {
		if len(v) >= 2 {
			lnames = append(lnames, v)
		}
	}
	planted := 0
	const per = 24
	for lo := 0; lo < len(targets); lo += per {
		hi := min(lo+per, len(targets))
		c := vfpgNewClient(t, tr, tb, cfgs[hist%len(cfgs)], hist, seed)
		root := c.env.Mount(t, vfRoot)
		c.hold(root, []string{})
		d := c.must(c.mkdir("PRE", root, []string{"a"}), "MKDIR")
		c.hold(d, []string{"a"})
		for k := lo; k < hi; k++ {
			c.fs.vfPoke("/a/"+tb.bytes(lnames[k-lo]), "L", nil, tb.bytes(targets[k]), 0777)
			planted++
		}
		c.fs.TakeCalls()
		c.sync("plant")
		c.setBase()
		for k := lo; k < hi; k++ {
			c.note("READLINK", targets[k])
			if rep := c.lookup("READLINK_LOOKUP", d, lnames[k-lo]); rep.OK() && c.lastHas {
				c.hold(c.lastFH, []string{"a", tb.bytes(lnames[k-lo])})
				c.readlink("READLINK", c.lastFH)
			} else {
				t.Fatalf("pathguard harness: LOOKUP of a planted link failed (%s)", rep.StatusName())
			}
		}
		// the same multi-component targets sent through SYMLINK
		fresh := []string{"b", "dot", "b"}
		for k := lo; k < hi; k++ {
			h := []uint64{d, root}[k%2]
			c.note("SYMLINK_TARGET", targets[k])
			if rep := c.symlink("SYMLINK_TARGET", h, fresh, targets[k]); rep.OK() && c.lastHas {
				c.hold(c.lastFH, c.child(h, tb.bytes(fresh)))
				c.readlink("READLINK_CREATED", c.lastFH)
			}
			c.restore()
		}
		finish(c)
		hist++
	}

	vfWriteJSON(t, "pathguard.summary.json", M{"histories": hist, "requests": reqs, "vectors": len(vectors), "exhaustive": nExh, "maxlen": maxLen,
		"random": len(randoms), "long": len(tb.Long), "planted": planted, "restores": restores, "export_mnt": expMnt, "nontrivial": len(seen), "lines": tr.n, "samples": samples})
}

package absnfs

// vf_limits.go: driver for C23 (specs/Limits).
//
//   TestVF_Limits : a real Server (Listen, UseRecordMarking, 127.0.0.1:0) over the vfs backend
//   and a minimal conformant ONC RPC client (record marking, AUTH_SYS, xid matching) written
//   here. For every TransferSize, set at construction (New), at run time through
//   UpdateTuningOptions and through UpdateExportOptions, the client asks FSINFO and then sends
//   WRITE and READ calls whose counts are 1, pref, max-1, max of what was advertised (plus
//   T, T+1 and the neighbours of the record limit), with a small and with the largest legal
//   AUTH_SYS credential. Payloads are one byte value per call; the file that is read holds one
//   byte value per 64 KiB block. One ndjson line per call: count, status ("NOREPLY" when the
//   connection was closed instead of a reply), count in the reply, whether the connection
//   survived (NULL ping on the same connection), first/last byte. The harness decides nothing;
//   LimitsTrace does.
//
//   History 0 is the directed reproducer of finding F15: default TransferSize, WRITE of
//   65537 bytes (INVAL) and of wtmax = 1 MiB bytes (record larger than the record limit).

import (
	"bytes"
	"encoding/binary"
	"fmt"
	"io"
	"log"
	"net"
	"strings"
	"testing"
	"time"
)

const (
	vflBlk      = 65536
	vflMod      = 200
	vflFileSize = 3*1048576 + 4097
	vflCap      = 1<<30 - 1
)

func vflCapU(v uint64) int {
	if v > vflCap {
		return vflCap
	}
	return int(v)
}

// ---------------------------------------------------------------- ONC RPC client over TCP

type vflClient struct {
	addr string
	conn net.Conn
	xid  uint32
}

func (c *vflClient) dial() error {
	if c.conn != nil {
		c.conn.Close()
		c.conn = nil
	}
	conn, err := net.DialTimeout("tcp", c.addr, 5*time.Second)
	if err != nil {
		return err
	}
	c.conn = conn
	return nil
}

// vflCallRecord builds an RFC 1831 call message (without the record mark).
func vflCallRecord(xid, prog, vers, proc uint32, credBody []byte, args []byte) []byte {
	var b bytes.Buffer
	for _, v := range []uint32{xid, RPC_CALL, 2, prog, vers, proc} {
		xdrEncodeUint32(&b, v)
	}
	xdrEncodeUint32(&b, AUTH_SYS)
	vfEncOpaque(&b, credBody)
	xdrEncodeUint32(&b, AUTH_NONE) // verifier: AUTH_NONE, empty body
	xdrEncodeUint32(&b, 0)
	b.Write(args)
	return b.Bytes()
}

// roundTrip sends one record (single last fragment) and reads reply records until the xid
// matches. ok=false: the connection failed or was closed before a matching reply arrived.
func (c *vflClient) roundTrip(rec []byte, xid uint32, timeout time.Duration) (reply []byte, ok bool) {
	if c.conn == nil {
		if err := c.dial(); err != nil {
			return nil, false
		}
	}
	c.conn.SetDeadline(time.Now().Add(timeout))
	var mark [4]byte
	binary.BigEndian.PutUint32(mark[:], uint32(len(rec))|LastFragmentFlag)
	if _, err := c.conn.Write(mark[:]); err != nil {
		return nil, false
	}
	// a server that refuses the record may close while we are still sending: keep going to the read
	c.conn.Write(rec)
	for tries := 0; tries < 4; tries++ {
		var whole []byte
		for {
			var h [4]byte
			if _, err := io.ReadFull(c.conn, h[:]); err != nil {
				return nil, false
			}
			v := binary.BigEndian.Uint32(h[:])
			n := int(v &^ LastFragmentFlag)
			if n > 64<<20 {
				return nil, false
			}
			frag := make([]byte, n)
			if _, err := io.ReadFull(c.conn, frag); err != nil {
				return nil, false
			}
			whole = append(whole, frag...)
			if v&LastFragmentFlag != 0 {
				break
			}
		}
		if len(whole) >= 4 && binary.BigEndian.Uint32(whole[0:4]) == xid {
			return whole, true
		}
	}
	return nil, false
}

// call performs one RPC; returns the parsed reply (nil when there was none) and the number of
// bytes of the call record.
func (c *vflClient) call(prog, vers, proc uint32, cred []byte, args []byte) (*vfRaw, int) {
	c.xid++
	rec := vflCallRecord(c.xid, prog, vers, proc, cred, args)
	wire, ok := c.roundTrip(rec, c.xid, 20*time.Second)
	if !ok {
		if c.conn != nil {
			c.conn.Close()
			c.conn = nil
		}
		return nil, len(rec)
	}
	r := &vfRaw{Xid: c.xid, Wire: wire}
	vfParseRPCReply(r)
	return r, len(rec)
}

// alive: the connection the last call used still answers a NULL call.
func (c *vflClient) alive(cred []byte) bool {
	if c.conn == nil {
		return false
	}
	c.xid++
	rec := vflCallRecord(c.xid, NFS_PROGRAM, NFS_V3, 0, cred, nil)
	_, ok := c.roundTrip(rec, c.xid, 5*time.Second)
	if !ok {
		c.conn.Close()
		c.conn = nil
	}
	return ok
}

func (c *vflClient) nfs(proc uint32, cred, args []byte) (*vfNFSReply, int) {
	raw, n := c.call(NFS_PROGRAM, NFS_V3, proc, cred, args)
	if raw == nil {
		return nil, n
	}
	out := &vfNFSReply{Raw: raw}
	if !raw.Denied && raw.Accept == SUCCESS {
		out.Res = vfSch.Decode("NFS3."+vfNFSProcNames[proc], raw.Body)
	}
	return out, n
}

// ---------------------------------------------------------------- the server under test

type vflEnv struct {
	t    *testing.T
	tr   *vfTrace
	fs   *vfsFS
	n    *AbsfsNFS
	srv  *Server
	cl   *vflClient
	log  *bytes.Buffer
	root uint64
	fhR  uint64 // file that is read (pattern)
	fhW  uint64 // file that is written
	T    int
	// summary
	probes, cfgs int
}

var vflCredSmall = vfAuthSysBody(1, "vf", 0, 0, nil)
var vflCredBig = vfAuthSysBody(1, strings.Repeat("m", 255), 0, 0, []uint32{1, 2, 3, 4, 5, 6, 7, 8, 9, 10, 11, 12, 13, 14, 15, 16})

func vflPattern() []byte {
	d := make([]byte, vflFileSize)
	for i := range d {
		d[i] = byte((i/vflBlk)%vflMod + 1)
	}
	return d
}

func vflNewEnv(t *testing.T, tr *vfTrace, hist int, T0 int) *vflEnv {
	fs := vfNewFS()
	fs.vfPoke("/r", "F", vflPattern(), "", 0644)
	fs.vfPoke("/w", "F", nil, "", 0644)
	n, err := New(fs, ExportOptions{TransferSize: T0, MaxWorkers: 2})
	if err != nil {
		t.Fatalf("New: %v", err)
	}
	lb := &bytes.Buffer{}
	n.logger = log.New(lb, "", 0)
	srv, err := NewServer(ServerOptions{Name: "vf", Hostname: "127.0.0.1", Port: 0, UseRecordMarking: true})
	if err != nil {
		t.Fatalf("NewServer: %v", err)
	}
	srv.logger = log.New(lb, "", 0)
	srv.SetHandler(n)
	if err := srv.Listen(); err != nil {
		t.Fatalf("Listen: %v", err) // cannot bind: the check cannot run (exit 2), never a verdict
	}
	e := &vflEnv{t: t, tr: tr, fs: fs, n: n, srv: srv, log: lb}
	e.cl = &vflClient{addr: fmt.Sprintf("127.0.0.1:%d", srv.GetPort()), xid: uint32(1000 * (hist + 1))}
	tr.Emit(M{"ev": "reset", "hist": hist, "R": DefaultMaxRecordSize, "size": vflFileSize, "blk": vflBlk, "mod": vflMod,
		"credsmall": len(vflCredSmall), "credbig": len(vflCredBig)})
	// MNT and LOOKUP over the same connection
	var a bytes.Buffer
	xdrEncodeString(&a, "/")
	raw, _ := e.cl.call(MOUNT_PROGRAM, MOUNT_V3, 1, vflCredSmall, a.Bytes())
	if raw == nil || raw.Denied || len(raw.Body) < 16 || binary.BigEndian.Uint32(raw.Body[0:4]) != 0 {
		t.Fatalf("MNT over TCP failed: %+v\nserver log: %s", raw, lb.String())
	}
	e.root = binary.BigEndian.Uint64(raw.Body[8:16])
	look := func(name string) uint64 {
		rep, _ := e.cl.nfs(NFSPROC3_LOOKUP, vflCredSmall, vfArgsDirOp(e.root, name))
		if rep == nil || !rep.OK() {
			t.Fatalf("LOOKUP %s over TCP failed", name)
		}
		h, _ := vfFH(rep.Res.Val["object"])
		return h
	}
	e.fhR, e.fhW = look("r"), look("w")
	return e
}

func (e *vflEnv) close() {
	if e.cl.conn != nil {
		e.cl.conn.Close()
	}
	e.srv.Stop()
	e.n.Close()
}

// cfg records the effective TransferSize after it was set in the way `how` names.
func (e *vflEnv) cfg(how string, want int) {
	e.T = e.n.GetExportOptions().TransferSize
	e.cfgs++
	e.tr.Emit(M{"ev": "cfg", "how": how, "want": want, "T": vflCapU(uint64(e.T))})
}

func (e *vflEnv) setTuning(T int) {
	e.n.UpdateTuningOptions(func(t *TuningOptions) { t.TransferSize = T })
	e.cfg("tuning", T)
}

func (e *vflEnv) setExport(T int) {
	o := e.n.GetExportOptions()
	o.TransferSize = T
	if err := e.n.UpdateExportOptions(o); err != nil {
		e.t.Fatalf("UpdateExportOptions: %v", err)
	}
	e.cfg("export", T)
}

type vflAdv struct{ rtmax, rtpref, wtmax, wtpref uint64 }

func (e *vflEnv) fsinfo() (vflAdv, bool) {
	rep, _ := e.cl.nfs(NFSPROC3_FSINFO, vflCredSmall, vfArgsFH(e.root))
	line := M{"ev": "fsinfo", "st": "NOREPLY", "alive": false, "rtmax": 0, "rtpref": 0, "rtmult": 0, "wtmax": 0, "wtpref": 0, "wtmult": 0, "dtpref": 0}
	var a vflAdv
	if rep != nil {
		line["st"] = rep.StatusName()
		line["alive"] = true
		if rep.OK() {
			v := rep.Res.Val
			a = vflAdv{vfU(v["rtmax"]), vfU(v["rtpref"]), vfU(v["wtmax"]), vfU(v["wtpref"])}
			for _, k := range []string{"rtmax", "rtpref", "rtmult", "wtmax", "wtpref", "wtmult", "dtpref"} {
				line[k] = vflCapU(vfU(v[k]))
			}
		}
	}
	e.tr.Emit(line)
	return a, rep != nil && rep.OK()
}

func (e *vflEnv) write(count uint64, off uint64, cred []byte, fill byte) {
	e.probes++
	data := bytes.Repeat([]byte{fill}, int(count))
	rep, rec := e.cl.nfs(NFSPROC3_WRITE, cred, vfArgsWrite(e.fhW, off, 2, data))
	line := M{"ev": "write", "count": int(count), "off": int(off), "cred": len(cred), "rec": rec, "fill": int(fill),
		"st": "NOREPLY", "n": 0, "alive": false, "fb": 0, "lb": 0, "size": 0}
	if rep != nil {
		line["st"] = rep.StatusName()
		if rep.OK() {
			line["n"] = vflCapU(vfU(rep.Res.Val["count"]))
		}
	}
	line["alive"] = e.cl.alive(cred)
	// what the backend holds now
	n := int64(line["n"].(int))
	if vol, _, size, _, ok := e.fs.vfPeek("/w", int64(off)+n+1); ok {
		line["size"] = vflCapU(uint64(size))
		if n >= 1 && int64(len(vol)) >= int64(off)+n {
			line["fb"] = int(vol[off])
			line["lb"] = int(vol[int64(off)+n-1])
		}
	}
	e.tr.Emit(line)
}

func (e *vflEnv) read(count uint64, off uint64, cred []byte) {
	e.probes++
	rep, _ := e.cl.nfs(NFSPROC3_READ, cred, vfArgsRead(e.fhR, off, uint32(count)))
	line := M{"ev": "read", "count": int(count), "off": int(off), "cred": len(cred), "st": "NOREPLY", "n": 0, "eof": false,
		"alive": false, "fb": 0, "lb": 0, "dlen": 0}
	if rep != nil {
		line["st"] = rep.StatusName()
		if rep.OK() {
			line["n"] = vflCapU(vfU(rep.Res.Val["count"]))
			line["eof"] = rep.Res.Val["eof"] == true
			if d, ok := rep.Res.Val["data"].([]byte); ok {
				line["dlen"] = len(d)
				if len(d) > 0 {
					line["fb"], line["lb"] = int(d[0]), int(d[len(d)-1])
				}
			}
		}
	}
	line["alive"] = e.cl.alive(cred)
	e.tr.Emit(line)
}

// probe: FSINFO, then WRITE and READ at the counts the advertisement suggests.
func (e *vflEnv) probe(fillBase int, extra bool) {
	adv, ok := e.fsinfo()
	if !ok {
		return
	}
	const maxSend = 4 << 20 // never send more than this many bytes, whatever is advertised
	uniq := func(vs ...uint64) []uint64 {
		seen := map[uint64]bool{}
		var out []uint64
		for _, v := range vs {
			if v <= maxSend && !seen[v] {
				seen[v] = true
				out = append(out, v)
			}
		}
		return out
	}
	T := uint64(e.T)
	wcounts := vflU64s(1, adv.wtpref, adv.wtmax-1, adv.wtmax)
	if T+1 <= adv.wtmax {
		wcounts = append(wcounts, T, T+1)
	}
	if extra {
		// neighbours of the record limit and of the preferred size
		wcounts = append(wcounts, adv.wtpref+1, DefaultMaxRecordSize-4096, DefaultMaxRecordSize-512, DefaultMaxRecordSize-100, 0)
	}
	fill := fillBase
	for _, c := range uniq(wcounts...) {
		if c > adv.wtmax {
			continue
		}
		creds := [][]byte{vflCredSmall}
		if c+4096 >= adv.wtmax || extra {
			creds = append(creds, vflCredBig)
		}
		for _, cred := range creds {
			fill = fill%250 + 1
			off := uint64(0)
			if fill%2 == 0 {
				off = 1048576 + 7
			}
			e.write(c, off, cred, byte(fill))
		}
	}
	rcounts := vflU64s(1, adv.rtpref, adv.rtmax-1, adv.rtmax)
	if T+1 <= adv.rtmax {
		rcounts = append(rcounts, T, T+1)
	}
	for _, c := range uniq(rcounts...) {
		if c > adv.rtmax || c < 1 {
			continue
		}
		for _, off := range []uint64{0, vflBlk - 1, vflFileSize - 1, vflFileSize / 2, vflFileSize} {
			if !extra && off == vflBlk-1 {
				continue
			}
			e.read(c, off, vflCredSmall)
		}
	}
}

func vflU64s(v ...uint64) []uint64 { return v }

var vflTs = []int{1, 512, 65536, 1 << 20, 1 << 21}

func TestVF_Limits(t *testing.T) {
	seed := vfSeed()
	nh := vfEnvInt("VF_HIST", 6)
	tr := vfNewTrace(t, "limits.ndjson")
	defer tr.Close()
	probes, cfgs := 0, 0
	var samples []M
	for h := 0; h < nh; h++ {
		r := vfRand(seed, fmt.Sprintf("limits-%d", h))
		// three configurations per history: at construction, through UpdateTuningOptions, through
		// UpdateExportOptions. History h starts the rotation of the five sizes at h so that every
		// size is met in every way within five histories; later histories use other sizes too.
		pick := func(k int) int {
			if h < 6 {
				return vflTs[(h+k*2)%len(vflTs)]
			}
			switch r.Intn(4) {
			case 0:
				return vflTs[r.Intn(len(vflTs))]
			case 1:
				return []int{2, 3, 4, 4095, 4096, 4097, 65535, 65537, 100000, 1<<20 - 1, 1<<20 - 1024, 1<<20 + 1, 3 << 20}[r.Intn(13)]
			case 2:
				return 1 + r.Intn(70000)
			}
			return 1 + r.Intn(3<<20)
		}
		T0 := pick(0)
		if h == 0 {
			T0 = 0 // default TransferSize (65536): the F15 reproducer
		}
		e := vflNewEnv(t, tr, h, T0)
		e.cfg("new", T0)
		e.probe(h*7, true)
		T1 := pick(1)
		e.setTuning(T1)
		e.probe(h*7+3, h%2 == 0)
		T2 := pick(2)
		e.setExport(T2)
		e.probe(h*7+5, false)
		probes += e.probes
		cfgs += e.cfgs
		if len(samples) < 3 {
			samples = append(samples, M{"hist": h, "T": []int{T0, T1, T2}, "probes": e.probes})
		}
		e.close()
	}
	vfWriteJSON(t, "limits.summary.json", M{"histories": nh, "probes": probes, "cfgs": cfgs, "nontrivial": cfgs, "samples": samples})
}

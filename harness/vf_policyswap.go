package absnfs

// vf_policyswap.go: drivers for C16 (specs/PolicySwap).
//
//   TestVF_PolicySwapMBT   : TLC-generated environment schedules (call r, release the backend gate of r,
//                            start update u, let r time out, open connection c) applied one step at a time
//                            to the real HandleCall / UpdatePolicyOptions / UpdateExportOptions running in
//                            goroutines over the gating backend, waiting for quiescence between steps;
//                            "tcp" schedules run the real connection loop over loopback with record marking
//   TestVF_PolicySwapFree  : the same actors started together without gates (free-running interleavings)
//   TestVF_PolicySwapLimiter : directed histories for the limiter clause (reproducer of finding F10)
//   TestVF_PolicySwapRaces : connection set-up and requests concurrent with updates, for the race detector
//
// The harness records; it never judges.  Events come from the vhook call sites (under the lock that
// protects the change), from the backend gate (live policy seen by every backend operation) and from
// the drivers themselves (call start / return).  One global mutex orders the log.

import (
	"bufio"
	"bytes"
	"encoding/binary"
	"encoding/json"
	"fmt"
	"io"
	"log"
	"math/rand"
	"net"
	"os"
	"path"
	"runtime"
	"strconv"
	"strings"
	"sync"
	"sync/atomic"
	"testing"
	"time"
)

const (
	vfpsLabelBase = int64(1000000000) // MaxFileSize of policy label k is base + k
	vfpsXidBase   = uint32(7000)      // xid of request r is base + r
	vfpsShortT    = 70 * time.Millisecond
	vfpsStuckT    = 2500 * time.Millisecond
)

type vfpsReq struct {
	R                                             int  `json:"r"`
	Short                                         bool `json:"short"`
	C                                             int  `json:"c"`
	Cls                                           int  // class of the client address the request comes from (1 = 127.0.0.1)
	started, admitted, released, returned, inGate bool
	passed                                        bool
	hold, inAdm, admPassed                        bool // held in the hc.admit hook until the schedule says "adm"
	admRel                                        chan struct{}
	nops                                          int
	rel                                           chan struct{}
	kind                                          string
}

type vfpsUpd struct {
	U                                          int    `json:"u"`
	Secure                                     bool   `json:"secure"`
	LimOn                                      bool   `json:"limon"`
	BadSq                                      bool   `json:"badsq"`
	API                                        string `json:"api"`
	Allow                                      []int  // classes of client addresses the policy admits (empty: all)
	started, begun, drained, returned, waiting bool
	// option values handed to the update that the caller still owns afterwards
	ownedIPs []string
	ownedRL  *RateLimiterConfig
	ownedTLS *TLSConfig
}

// classes of client addresses (what an AllowedIPs list tells apart); class 4 is the address the harness writes
// over option values the caller still owns
var vfpsClassIP = map[int]string{1: "127.0.0.1", 2: "10.1.1.2", 3: "10.1.1.3", 4: "10.66.66.66"}

func vfpsIPs(allow []int) []string {
	var out []string
	for _, k := range allow {
		out = append(out, vfpsClassIP[k])
	}
	return out
}

// vfpsDeny: the classes an AllowedIPs list refuses (empty list: nobody)
func vfpsDeny(allow []int) []int {
	out := []int{}
	if len(allow) == 0 {
		return out
	}
	for k := 1; k <= 4; k++ {
		in := false
		for _, a := range allow {
			if a == k {
				in = true
			}
		}
		if !in {
			out = append(out, k)
		}
	}
	return out
}

func vfpsDenyOfStrings(ips []string) []int {
	var allow []int
	for _, ip := range ips {
		k := 4 // anything unknown counts as the scribbled address
		for c, s := range vfpsClassIP {
			if s == ip {
				k = c
			}
		}
		allow = append(allow, k)
	}
	return vfpsDeny(allow)
}

type vfpsStep struct {
	A string `json:"a"`
	R int    `json:"r"`
	U int    `json:"u"`
	C int    `json:"c"`
}

type vfpsSched struct {
	ID     int        `json:"id"`
	Mode   string     `json:"mode"`
	Budget int        `json:"budget"`
	Short  []int      `json:"short"`
	Secure []int      `json:"secure"`
	LimOn  []int      `json:"limon"`
	BadSq  []int      `json:"badsq"`
	Held   []int      `json:"held"`
	Allow0 []int      // classes of client addresses the policy given to New() admits (empty: all)
	NR     int        `json:"nr"`
	NU     int        `json:"nu"`
	NC     int        `json:"nc"`
	Steps  []vfpsStep `json:"steps"`
}

// vfpsWorld is one history: one AbsfsNFS instance, its requests, updates and connections.
type vfpsWorld struct {
	t      *testing.T
	mu     sync.Mutex
	ev     []M
	n      *AbsfsNFS
	srv    *Server
	h      *NFSProcedureHandler
	fs     *vfsFS
	root   uint64
	rq     map[int]*vfpsReq
	up     map[int]*vfpsUpd
	gating bool
	drain  bool          // the history is being wound down: no gate blocks any more
	pend   map[int64]int // goroutine id -> request whose backend operation is in progress
	curUpd int           // update between up.begin and its return (label for up.limiter)
	tcp    bool
	port   int
	conns  map[int]*vfpcConn // c -> client connection
	ports  map[int]int       // client port -> c
	clSeen map[int]bool      // client ports whose connection loop has started (cl.start)
	wg     sync.WaitGroup
	budget int
	diverg int
	yield  *rand.Rand
	opts0  *ExportOptions // what the caller handed to New() and still owns
}

var vfpsCur atomic.Pointer[vfpsWorld]

func vfpsGoid() int64 {
	var b [64]byte
	n := runtime.Stack(b[:], false)
	s := strings.TrimPrefix(string(b[:n]), "goroutine ")
	if i := strings.IndexByte(s, ' '); i > 0 {
		id, _ := strconv.ParseInt(s[:i], 10, 64)
		return id
	}
	return -1
}

// emit appends one event; caller holds w.mu.
func (w *vfpsWorld) emit(m M) {
	w.ev = append(w.ev, m)
}

func (w *vfpsWorld) liveLabel() int {
	return int(w.n.policy.Load().MaxFileSize - vfpsLabelBase)
}

func vfpsPolLabel(v interface{}) int {
	if p, ok := v.(*PolicyOptions); ok && p != nil {
		return int(p.MaxFileSize - vfpsLabelBase)
	}
	return -1
}

func vfpsConnPort(v interface{}) int {
	if c, ok := v.(net.Conn); ok && c != nil {
		if a, ok := c.RemoteAddr().(*net.TCPAddr); ok {
			return a.Port
		}
	}
	return 0
}

// vfpsHook receives every vhook event of the package.
func vfpsHook(ev string, kv ...any) {
	w := vfpsCur.Load()
	if w == nil {
		return
	}
	arg := func(k string) interface{} {
		for i := 0; i+1 < len(kv); i += 2 {
			if kv[i] == k {
				return kv[i+1]
			}
		}
		return nil
	}
	var block chan struct{}
	w.mu.Lock()
	defer func() {
		w.mu.Unlock()
		if block != nil {
			<-block // the hook doubles as a scheduler gate (request held right after its snapshot)
		}
	}()
	switch ev {
	case "hc.jukebox", "hc.admit", "hc.release":
		xid, _ := arg("xid").(uint32)
		r := int(xid) - int(vfpsXidBase)
		q := w.rq[r]
		if q == nil {
			return // set-up traffic (MNT, hello pings)
		}
		switch ev {
		case "hc.jukebox":
			q.admitted = false // no read lock is held (whatever was logged before)
			w.emit(M{"ev": ev, "r": r})
		case "hc.admit":
			q.admitted = true
			w.emit(M{"ev": ev, "r": r, "lab": vfpsPolLabel(arg("pol"))})
			if q.hold && !q.admPassed && !w.drain {
				q.inAdm = true
				block = q.admRel
			}
		case "hc.release":
			q.released = true
			why, _ := arg("why").(string)
			w.emit(M{"ev": ev, "r": r, "why": why})
		}
	case "up.begin", "up.reject", "up.drained", "up.released":
		u := vfpsPolLabel(arg("new"))
		p := w.up[u]
		if p == nil {
			return
		}
		switch ev {
		case "up.begin":
			p.begun = true
			w.curUpd = u
		case "up.drained":
			p.drained = true
		}
		w.emit(M{"ev": ev, "u": u})
	case "up.swapped":
		u := vfpsPolLabel(arg("pol"))
		if w.up[u] == nil {
			return
		}
		w.emit(M{"ev": ev, "u": u})
	case "up.limiter":
		if w.up[w.curUpd] == nil {
			return
		}
		rl, _ := arg("lim").(*RateLimiter)
		w.emit(M{"ev": ev, "u": w.curUpd, "on": rl != nil})
	case "cl.start":
		if !w.tcp {
			return
		}
		p := vfpsConnPort(arg("conn"))
		w.clSeen[p] = true
		w.emit(M{"ev": ev, "port": p})
	case "cm.accept":
		if !w.tcp {
			return
		}
		w.emit(M{"ev": "cn.accept", "port": vfpsConnPort(arg("conn"))})
	}
}

// vfpsGate is the backend gate: called (without the backend lock) before every backend operation.
func (w *vfpsWorld) gateFn(op, p string) {
	b := path.Base(p)
	if !strings.HasPrefix(b, "f") {
		return
	}
	r, err := strconv.Atoi(b[1:])
	if err != nil {
		return
	}
	w.mu.Lock()
	q := w.rq[r]
	if q == nil || !q.started {
		w.mu.Unlock()
		return
	}
	w.pend[vfpsGoid()] = r
	first := q.nops == 0
	q.nops++
	w.emit(M{"ev": "op.start", "r": r, "live": w.liveLabel(), "op": op})
	block := w.gating && first && !q.passed && !w.drain
	if block {
		q.inGate = true
	}
	y := 0
	if !w.gating && w.yield != nil {
		y = w.yield.Intn(4)
	}
	w.mu.Unlock()
	if block {
		<-q.rel
	}
	for ; y > 0; y-- {
		runtime.Gosched()
	}
}

// tagFn runs inside the backend operation (under the backend lock): the live policy at execution.
func (w *vfpsWorld) tagFn() int64 {
	id := vfpsGoid()
	w.mu.Lock()
	defer w.mu.Unlock()
	live := w.liveLabel()
	if r, ok := w.pend[id]; ok {
		delete(w.pend, id)
		w.emit(M{"ev": "op.end", "r": r, "live": live})
	}
	return int64(live)
}

func vfpsLimiterConfig(budget int) *RateLimiterConfig {
	// a bucket of `budget` requests per client address that never refills: decisions do not depend on time
	return &RateLimiterConfig{GlobalRequestsPerSecond: 1000000, PerIPRequestsPerSecond: 0, PerIPBurstSize: budget,
		PerConnectionRequestsPerSecond: 0, PerConnectionBurstSize: 0, ReadLargeOpsPerSecond: 1000, WriteLargeOpsPerSecond: 1000,
		ReaddirOpsPerSecond: 1000, MountOpsPerMinute: 6000, FileHandlesPerIP: 100000, FileHandlesGlobal: 1000000,
		CleanupInterval: time.Hour}
}

func vfpsNewWorld(t *testing.T, sc *vfpsSched, gating bool, seed int64) *vfpsWorld {
	w := &vfpsWorld{t: t, rq: map[int]*vfpsReq{}, up: map[int]*vfpsUpd{}, gating: gating, pend: map[int64]int{},
		conns: map[int]*vfpcConn{}, ports: map[int]int{}, clSeen: map[int]bool{}, budget: sc.Budget, tcp: sc.Mode == "tcp"}
	if !gating {
		w.yield = rand.New(rand.NewSource(seed))
	}
	has := func(l []int, x int) bool {
		for _, v := range l {
			if v == x {
				return true
			}
		}
		return false
	}
	for r := 1; r <= sc.NR; r++ {
		w.rq[r] = &vfpsReq{R: r, Short: has(sc.Short, r), rel: make(chan struct{}, 4), admRel: make(chan struct{}, 4),
			hold: gating && has(sc.Held, r)}
	}
	for u := 1; u <= sc.NU; u++ {
		api := "policy"
		if (seed+int64(u)+int64(sc.ID))%3 == 0 {
			api = "export"
		}
		w.up[u] = &vfpsUpd{U: u, Secure: has(sc.Secure, u), LimOn: has(sc.LimOn, u), BadSq: has(sc.BadSq, u), API: api}
	}
	w.fs = vfNewFS()
	for r := 1; r <= sc.NR; r++ {
		w.fs.vfPoke(fmt.Sprintf("/f%d", r), "file", []byte("x"), "", 0644)
	}
	// the options given to New stay with the caller (w.opts0): the alias driver overwrites them afterwards
	w.opts0 = &ExportOptions{Squash: "root", MaxFileSize: vfpsLabelBase, RateLimitConfig: vfpsLimiterConfig(sc.Budget),
		MaxWorkers: 8, AllowedIPs: vfpsIPs(sc.Allow0), TLS: &TLSConfig{CipherSuites: []uint16{100}}}
	n, err := New(w.fs, *w.opts0)
	if err != nil {
		t.Fatalf("New: %v", err)
	}
	lb := &bytes.Buffer{}
	n.logger = log.New(lb, "", 0)
	w.n = n
	srv, err := NewServer(ServerOptions{Name: "vf", Hostname: "127.0.0.1", Port: 0, UseRecordMarking: true})
	if err != nil {
		t.Fatalf("NewServer: %v", err)
	}
	srv.logger = log.New(io.Discard, "", 0)
	srv.SetHandler(n)
	w.srv = srv
	w.h = &NFSProcedureHandler{server: srv}
	// root handle before gates and hooks are active
	e := &vfEnv{n: n, srv: srv, h: w.h, fs: w.fs, log: lb, xid: 100}
	if len(sc.Allow0) > 0 {
		w.root = n.fileMap.Allocate(n.root) // MNT from 127.0.0.1 may be refused by the address filter given to New
	} else {
		w.root = e.Mount(t, vfRoot)
	}
	w.fs.Gate = w.gateFn
	w.fs.Tag = w.tagFn
	if w.tcp {
		if err := srv.Listen(); err != nil {
			t.Fatalf("Listen: %v", err)
		}
		w.port = srv.GetPort()
	}
	return w
}

func (w *vfpsWorld) resetLine(sc *vfpsSched, kind string) M {
	reqs, upds := []M{}, []M{}
	for r := 1; r <= sc.NR; r++ {
		reqs = append(reqs, M{"r": r, "short": w.rq[r].Short})
	}
	for u := 1; u <= sc.NU; u++ {
		p := w.up[u]
		upds = append(upds, M{"u": u, "secure": p.Secure, "limon": p.LimOn, "badsq": p.BadSq, "api": p.API, "deny": vfpsDeny(p.Allow)})
	}
	return M{"ev": "reset", "hist": sc.ID, "mode": sc.Mode, "kind": kind, "budget": sc.Budget, "nr": sc.NR, "nu": sc.NU,
		"nc": sc.NC, "reqs": reqs, "upds": upds, "deny0": vfpsDeny(sc.Allow0)}
}

func (w *vfpsWorld) setTimeout(short bool) {
	d := 30 * time.Second
	if short {
		d = vfpsShortT
	}
	w.n.UpdateTuningOptions(func(t *TuningOptions) { t.Timeouts.DefaultTimeout = d })
}

func vfpsReplyKind(rep *RPCReply, err error) string {
	if err != nil || rep == nil {
		return "timeout"
	}
	if rep.Status == MSG_DENIED {
		return "denied"
	}
	// retry-later: NFS3ERR_JUKEBOX, bare or in the failure shape of the procedure (either is accepted)
	if d, ok := rep.Data.([]byte); ok && len(d) >= 4 && binary.BigEndian.Uint32(d[:4]) == NFSERR_JUKEBOX {
		return "jukebox"
	}
	return "ok"
}

// startCall hands request r to the server: directly to HandleCall or over its TCP connection.
func (w *vfpsWorld) startCall(r, c int) {
	q := w.rq[r]
	w.setTimeout(q.Short)
	w.mu.Lock()
	q.started, q.C = true, c
	if q.Cls == 0 {
		q.Cls = 1
	}
	w.emit(M{"ev": "rq.start", "r": r, "c": c, "cls": q.Cls})
	w.mu.Unlock()
	w.wg.Add(1)
	go func() {
		defer w.wg.Done()
		kind := ""
		if c == 0 {
			cred := vfCred{Flavor: AUTH_SYS, UID: 0, GID: 0, IP: vfpsClassIP[q.Cls], Port: 2000}
			ac, rc := cred.authCtx()
			call := &RPCCall{Header: RPCMsgHeader{Xid: vfpsXidBase + uint32(r), MsgType: RPC_CALL, RPCVersion: 2, Program: NFS_PROGRAM,
				Version: NFS_V3, Procedure: NFSPROC3_LOOKUP}, Credential: rc, Verifier: RPCVerifier{Body: []byte{}}}
			ac.Credential = &call.Credential
			rep, err := w.h.HandleCall(call, bytes.NewReader(vfArgsDirOp(w.root, fmt.Sprintf("f%d", r))), ac)
			kind = vfpsReplyKind(rep, err)
		} else {
			w.mu.Lock()
			cc := w.conns[c]
			w.mu.Unlock()
			kind = cc.Call(vfpsXidBase+uint32(r), NFS_PROGRAM, NFS_V3, NFSPROC3_LOOKUP, vfArgsDirOp(w.root, fmt.Sprintf("f%d", r)), 10*time.Second)
		}
		w.mu.Lock()
		if kind == "limited" && q.admitted {
			kind = "denied" // MSG_DENIED after admission is the policy's refusal, not the rate limiter's
		}
		q.returned, q.kind = true, kind
		w.emit(M{"ev": "rq.ret", "r": r, "kind": kind})
		w.mu.Unlock()
	}()
}

func (w *vfpsWorld) policyFor(p *vfpsUpd) PolicyOptions {
	sq := "root"
	if p.BadSq {
		sq = "none"
	}
	// slices and pointers in here stay with the caller (p.owned*)
	p.ownedIPs, p.ownedRL, p.ownedTLS = vfpsIPs(p.Allow), vfpsLimiterConfig(w.budget), &TLSConfig{CipherSuites: []uint16{uint16(100 + p.U)}}
	return PolicyOptions{Secure: p.Secure, Squash: sq, MaxFileSize: vfpsLabelBase + int64(p.U), EnableRateLimiting: p.LimOn,
		RateLimitConfig: p.ownedRL, AllowedIPs: p.ownedIPs, TLS: p.ownedTLS}
}

func (w *vfpsWorld) startUpdate(u int) {
	p := w.up[u]
	w.mu.Lock()
	p.started = true
	w.emit(M{"ev": "up.start", "u": u})
	w.mu.Unlock()
	w.wg.Add(1)
	go func() {
		defer w.wg.Done()
		var err error
		pol := w.policyFor(p)
		if p.API == "export" && !p.BadSq {
			eo := w.n.GetExportOptions()
			eo.Secure, eo.MaxFileSize, eo.EnableRateLimiting, eo.RateLimitConfig = pol.Secure, pol.MaxFileSize, pol.EnableRateLimiting, pol.RateLimitConfig
			eo.AllowedIPs, eo.TLS = pol.AllowedIPs, pol.TLS
			err = w.n.UpdateExportOptions(eo)
		} else {
			err = w.n.UpdatePolicyOptions(pol)
		}
		w.mu.Lock()
		p.returned = true
		w.emit(M{"ev": "up.ret", "u": u, "ok": err == nil})
		w.mu.Unlock()
	}()
}

func (w *vfpsWorld) writerPending() bool {
	if w.n.policyRWMu.TryRLock() {
		w.n.policyRWMu.RUnlock()
		return false
	}
	return true
}

// settled reports whether every started actor is parked at a point only the environment can move.
func (w *vfpsWorld) settled() (bool, string) {
	pending := w.writerPending()
	w.mu.Lock()
	defer w.mu.Unlock()
	inflight, muHeld := false, 0
	for _, q := range w.rq {
		if q.admitted && !q.released {
			inflight = true
		}
	}
	for _, p := range w.up {
		if p.begun && !p.returned {
			muHeld = p.U
		}
	}
	for r := 1; r <= len(w.rq); r++ {
		q := w.rq[r]
		if !q.started {
			continue
		}
		if (q.returned && (!q.admitted || q.released)) || q.inGate || q.inAdm {
			continue
		}
		return false, fmt.Sprintf("rq%d", r)
	}
	for u := 1; u <= len(w.up); u++ {
		p := w.up[u]
		if !p.started || p.returned {
			continue
		}
		if p.begun && !p.drained && inflight && pending {
			if !p.waiting {
				p.waiting = true
				w.emit(M{"ev": "up.waiting", "u": u}) // the drain has been observed from outside (TryRLock fails)
			}
			continue
		}
		if !p.begun && muHeld != 0 && muHeld != u {
			continue
		}
		return false, fmt.Sprintf("up%d", u)
	}
	return true, ""
}

// quiesce waits until the system is settled.  An actor that stays unsettled for vfpsStuckT although
// nothing it may legitimately wait for exists is recorded as stuck (a real-time observation, flagged).
func (w *vfpsWorld) quiesce() {
	deadline := time.Now().Add(vfpsStuckT)
	for {
		ok, who := w.settled()
		if ok {
			return
		}
		if time.Now().After(deadline) {
			w.mu.Lock()
			inflight := false
			for _, q := range w.rq {
				if q.admitted && !q.released {
					inflight = true
				}
			}
			if strings.HasPrefix(who, "rq") {
				r, _ := strconv.Atoi(who[2:])
				q := w.rq[r]
				if !q.admitted && !q.returned {
					// neither admitted nor refused: blocked at the lock
					w.emit(M{"ev": "rq.stuck", "r": r})
					q.inGate = true // treat as parked; it resolves when the update finishes
					w.mu.Unlock()
					deadline = time.Now().Add(vfpsStuckT)
					continue
				}
			} else {
				u, _ := strconv.Atoi(who[2:])
				p := w.up[u]
				if p.begun && !inflight {
					w.emit(M{"ev": "up.stuck", "u": u})
					w.mu.Unlock()
					w.t.Fatalf("update %d does not finish although no request is in flight (recorded as up.stuck)", u)
				}
			}
			w.mu.Unlock()
			w.t.Fatalf("harness could not reach quiescence: %s still moving after %v", who, vfpsStuckT)
		}
		time.Sleep(150 * time.Microsecond)
	}
}

// quiesceQuiet waits (bounded) until the system is settled, recording nothing.
func (w *vfpsWorld) quiesceQuiet() {
	deadline := time.Now().Add(vfpsStuckT)
	for time.Now().Before(deadline) {
		if ok, _ := w.settled(); ok {
			return
		}
		time.Sleep(150 * time.Microsecond)
	}
}

func (w *vfpsWorld) release(r int) bool {
	w.mu.Lock()
	q := w.rq[r]
	ok := q.inGate && q.admitted
	if ok {
		q.inGate, q.passed = false, true
	}
	w.mu.Unlock()
	if ok {
		q.rel <- struct{}{}
	}
	return ok
}

func (w *vfpsWorld) releaseAdm(r int) bool {
	w.mu.Lock()
	q := w.rq[r]
	ok := q.inAdm
	if ok {
		q.inAdm, q.admPassed = false, true
	}
	w.mu.Unlock()
	if ok {
		q.admRel <- struct{}{}
	}
	return ok
}

func (w *vfpsWorld) openConn(c int) {
	w.mu.Lock()
	w.emit(M{"ev": "cn.dial", "c": c})
	w.mu.Unlock()
	cc, err := vfpcDial(w.port)
	if err != nil {
		w.t.Fatalf("dial: %v", err)
	}
	w.mu.Lock()
	w.conns[c] = cc
	w.ports[cc.port] = c
	w.mu.Unlock()
	// wait until the connection loop has started (its limiter capture lies before cl.start)
	deadline := time.Now().Add(5 * time.Second)
	for {
		w.mu.Lock()
		seen := w.clSeen[cc.port]
		w.mu.Unlock()
		if seen {
			break
		}
		if time.Now().After(deadline) {
			w.t.Fatalf("connection %d was not picked up by the server", c)
		}
		time.Sleep(100 * time.Microsecond)
	}
	w.mu.Lock()
	w.emit(M{"ev": "cn.open", "c": c})
	w.mu.Unlock()
}

// finish releases every gate, waits for all actors and shuts the instance down.
func (w *vfpsWorld) finish() {
	w.mu.Lock()
	w.drain = true
	w.mu.Unlock()
	for r := range w.rq {
		w.releaseAdm(r)
	}
	w.quiesceQuiet()
	for r := range w.rq {
		w.release(r)
	}
	// stuck requests were marked inGate artificially; clear the mark so that quiesce waits for them
	w.mu.Lock()
	for _, q := range w.rq {
		if q.inGate && !q.admitted {
			q.inGate = false
		}
	}
	w.mu.Unlock()
	done := make(chan struct{})
	go func() { w.wg.Wait(); close(done) }()
	select {
	case <-done:
	case <-time.After(20 * time.Second):
		w.t.Fatalf("history did not drain: actors still running 20 s after every gate was released")
	}
	// goroutines of timed-out requests are not in wg: wait for their release events
	deadline := time.Now().Add(10 * time.Second)
	for {
		w.mu.Lock()
		pendingRel := false
		for _, q := range w.rq {
			if q.admitted && !q.released {
				pendingRel = true
			}
		}
		w.mu.Unlock()
		if !pendingRel {
			break
		}
		if time.Now().After(deadline) {
			w.t.Fatalf("a request goroutine never released the read lock")
		}
		time.Sleep(200 * time.Microsecond)
	}
	// a request may outlive its read lock (that is what the check is after): wait until no backend operation of
	// a request is in progress any more before the instance is torn down
	deadline = time.Now().Add(3 * time.Second)
	for {
		w.mu.Lock()
		busy := len(w.pend)
		w.mu.Unlock()
		if busy == 0 {
			break
		}
		if time.Now().After(deadline) {
			break // (an operation that records nothing leaves its marker behind; not a reason to stop)
		}
		time.Sleep(200 * time.Microsecond)
	}
	for _, cc := range w.conns {
		cc.Close()
	}
	if w.tcp {
		w.srv.Stop()
	}
	// (the backend's Gate / Tag fields are left alone: goroutines of the code under test may still read them)
	vfpsCur.Store(nil)
	w.n.Close()
}

// flush writes the history; port numbers are translated to connection ids.
func (w *vfpsWorld) flush(tr *vfTrace, reset M) int {
	w.mu.Lock()
	defer w.mu.Unlock()
	tr.Emit(reset)
	n := 1
	for _, e := range w.ev {
		if p, ok := e["port"]; ok {
			c, known := w.ports[p.(int)]
			if !known {
				continue
			}
			delete(e, "port")
			e["c"] = c
		}
		tr.Emit(e)
		n++
	}
	return n
}

func vfpsReadScheds(t *testing.T) []*vfpsSched {
	p := os.Getenv("VF_SCHED")
	if p == "" {
		t.Fatalf("VF_SCHED not set")
	}
	f, err := os.Open(p)
	if err != nil {
		t.Fatalf("schedules: %v", err)
	}
	defer f.Close()
	var out []*vfpsSched
	sc := bufio.NewScanner(f)
	sc.Buffer(make([]byte, 1<<20), 1<<20)
	for sc.Scan() {
		if len(bytes.TrimSpace(sc.Bytes())) == 0 {
			continue
		}
		s := &vfpsSched{}
		if err := json.Unmarshal(sc.Bytes(), s); err != nil {
			t.Fatalf("schedule line: %v", err)
		}
		out = append(out, s)
	}
	return out
}

func vfpsRequireHooks(t *testing.T) {
	// the call sites of proposed/hooks_policyconn.patch must be present in the tree under test
	got := int32(0)
	fn := func(ev string, kv ...any) {
		if ev == "hc.admit" {
			atomic.AddInt32(&got, 1)
		}
	}
	vfHookP.Store(&fn)
	fs := vfNewFS()
	e := vfNewEnv(t, fs, ExportOptions{Squash: "root"})
	e.NFS(0, nil, vfRoot)
	e.Close()
	vfHookP.Store(nil)
	if atomic.LoadInt32(&got) == 0 {
		t.Fatalf("VF-HOOKS-ABSENT: the vhook call sites of proposed/hooks_policyconn.patch are not in the tree under test")
	}
}

// TestVF_PolicyConnHooks only probes for the hook call sites (run first by checks/C16.py and checks/C17.py).
func TestVF_PolicyConnHooks(t *testing.T) { vfpsRequireHooks(t) }

// runSchedule drives one schedule and returns (events written, steps that could not be applied as planned).
func vfpsRunSchedule(t *testing.T, tr *vfTrace, sc *vfpsSched, seed int64) (int, int, map[string]int) {
	w := vfpsNewWorld(t, sc, true, seed)
	reset := w.resetLine(sc, "mbt")
	hook := vfpsHook
	vfpsCur.Store(w)
	vfHookP.Store(&hook)
	for _, st := range sc.Steps {
		switch st.A {
		case "open":
			w.openConn(st.C)
		case "call":
			w.startCall(st.R, st.C)
		case "rel":
			if !w.release(st.R) {
				w.diverg++
			}
		case "adm":
			if !w.releaseAdm(st.R) {
				w.diverg++
			}
		case "upd":
			w.startUpdate(st.U)
		case "timeout":
			q := w.rq[st.R]
			deadline := time.Now().Add(5 * time.Second)
			for {
				w.mu.Lock()
				done := q.returned
				adm := q.admitted
				w.mu.Unlock()
				if done {
					break
				}
				if !adm || time.Now().After(deadline) {
					w.diverg++
					break
				}
				time.Sleep(200 * time.Microsecond)
			}
		}
		w.quiesce()
	}
	w.finish()
	kinds := map[string]int{}
	for _, q := range w.rq {
		if q.started {
			kinds[q.kind]++
		}
	}
	return w.flush(tr, reset), w.diverg, kinds
}

func TestVF_PolicySwapMBT(t *testing.T) {
	vfpsRequireHooks(t)
	scheds := vfpsReadScheds(t)
	only := vfEnvInt("VF_ONLY", -1)
	tr := vfNewTrace(t, "ps_mbt.ndjson")
	defer tr.Close()
	seed := vfSeed()
	events, diverged, nontrivial := 0, 0, 0
	kinds := map[string]int{}
	var samples []M
	for _, sc := range scheds {
		if only >= 0 && sc.ID != only {
			continue
		}
		n, d, k := vfpsRunSchedule(t, tr, sc, seed)
		events += n
		if d > 0 {
			diverged++
		}
		for kk, v := range k {
			kinds[kk] += v
		}
		// non-trivial: an update overlapped a request (retry-later or a time-out seen) or a limiter refused
		if k["jukebox"] > 0 || k["timeout"] > 0 || k["limited"] > 0 {
			nontrivial++
		}
		if len(samples) < 2 {
			samples = append(samples, M{"schedule": sc})
		}
	}
	vfWriteJSON(t, "ps_mbt.summary.json", M{"histories": len(scheds), "events": events, "diverged": diverged,
		"nontrivial": nontrivial, "kinds": kinds, "samples": samples})
}

// ---------------------------------------------------------------- free-running interleavings

func TestVF_PolicySwapFree(t *testing.T) {
	vfpsRequireHooks(t)
	nh := vfEnvInt("VF_HIST", 60)
	seed := vfSeed()
	tr := vfNewTrace(t, "ps_free.ndjson")
	defer tr.Close()
	events, nontrivial := 0, 0
	kinds := map[string]int{}
	for h := 0; h < nh; h++ {
		rnd := vfRand(seed, fmt.Sprintf("psfree%d", h))
		sc := &vfpsSched{ID: h, Mode: "direct", Budget: 1, NR: 3, NU: 2}
		for r := 1; r <= sc.NR; r++ {
			if rnd.Intn(4) == 0 {
				sc.Short = append(sc.Short, r)
			}
		}
		for u := 1; u <= sc.NU; u++ {
			if rnd.Intn(3) == 0 {
				sc.Secure = append(sc.Secure, u)
			}
			if rnd.Intn(2) == 0 {
				sc.LimOn = append(sc.LimOn, u)
			}
			if rnd.Intn(6) == 0 {
				sc.BadSq = append(sc.BadSq, u)
			}
		}
		w := vfpsNewWorld(t, sc, false, seed+int64(h))
		reset := w.resetLine(sc, "free")
		hook := vfpsHook
		vfpsCur.Store(w)
		vfHookP.Store(&hook)
		// a slow backend for one request so that drains overlap with work
		slow := 1 + rnd.Intn(sc.NR)
		slowFor := time.Duration(200+rnd.Intn(1500)) * time.Microsecond
		inner := w.fs.Gate
		w.fs.Gate = func(op, p string) {
			inner(op, p)
			if path.Base(p) == fmt.Sprintf("f%d", slow) {
				time.Sleep(slowFor)
			}
		}
		var order []vfpsStep
		for r := 1; r <= sc.NR; r++ {
			order = append(order, vfpsStep{A: "call", R: r})
		}
		for u := 1; u <= sc.NU; u++ {
			order = append(order, vfpsStep{A: "upd", U: u})
		}
		rnd.Shuffle(len(order), func(i, j int) { order[i], order[j] = order[j], order[i] })
		for _, st := range order {
			if st.A == "call" {
				w.startCall(st.R, 0)
			} else {
				w.startUpdate(st.U)
			}
			if d := rnd.Intn(5); d > 0 {
				time.Sleep(time.Duration(d*60) * time.Microsecond)
			}
		}
		w.finish()
		for _, q := range w.rq {
			kinds[q.kind]++
		}
		jb := false
		for _, q := range w.rq {
			if q.kind == "jukebox" || q.kind == "timeout" {
				jb = true
			}
		}
		if jb {
			nontrivial++
		}
		events += w.flush(tr, reset)
	}
	vfWriteJSON(t, "ps_free.summary.json", M{"histories": nh, "events": events, "nontrivial": nontrivial, "kinds": kinds})
}

// ---------------------------------------------------------------- aliasing with caller-owned option values

// scribble overwrites everything the caller of New / an update still owns
func vfpsScribble(ips []string, rl *RateLimiterConfig, tls *TLSConfig) {
	for i := range ips {
		ips[i] = vfpsClassIP[4]
	}
	if rl != nil {
		*rl = RateLimiterConfig{GlobalRequestsPerSecond: 1, PerIPRequestsPerSecond: 1, PerIPBurstSize: 77, CleanupInterval: time.Hour}
	}
	if tls != nil {
		for i := range tls.CipherSuites {
			tls.CipherSuites[i] = 999
		}
		tls.CertFile, tls.MinVersion = "/scribbled", 1
	}
}

// report logs what GetExportOptions says the policy in force is
func (w *vfpsWorld) report() {
	eo := w.n.GetExportOptions()
	budget, tls := -1, 0
	if eo.RateLimitConfig != nil {
		budget = eo.RateLimitConfig.PerIPBurstSize
	}
	if eo.TLS != nil && len(eo.TLS.CipherSuites) > 0 {
		tls = int(eo.TLS.CipherSuites[0])
	}
	w.mu.Lock()
	w.emit(M{"ev": "opt.report", "lab": int(eo.MaxFileSize - vfpsLabelBase), "deny": vfpsDenyOfStrings(eo.AllowedIPs), "secure": eo.Secure,
		"en": eo.EnableRateLimiting, "budget": budget, "tls": tls})
	w.mu.Unlock()
}

// TestVF_PolicySwapAlias: after New and after every accepted and every rejected update (both APIs) the harness
// overwrites every option value the caller still owns (the AllowedIPs slice, the RateLimitConfig and TLS structs
// behind their pointers); GetExportOptions and the next requests (from an admitted, a refused and the overwritten
// address) show which policy is in force.
func TestVF_PolicySwapAlias(t *testing.T) {
	vfpsRequireHooks(t)
	nh := vfEnvInt("VF_ALIAS_HIST", 12)
	seed := vfSeed()
	tr := vfNewTrace(t, "ps_alias.ndjson")
	defer tr.Close()
	allows := [][]int{{}, {1}, {2}, {1, 2}, {1, 3}, {3}}
	events, nontrivial := 0, 0
	var samples []M
	for h := 0; h < nh; h++ {
		rnd := vfRand(seed, fmt.Sprintf("psalias%d", h))
		sc := &vfpsSched{ID: h, Mode: "direct", Budget: 1 + rnd.Intn(3), NR: 12, NU: 3, Allow0: allows[rnd.Intn(len(allows))]}
		for u := 1; u <= sc.NU; u++ {
			if rnd.Intn(2) == 0 {
				sc.LimOn = append(sc.LimOn, u)
			}
		}
		rejected := 1 + rnd.Intn(sc.NU+1) // one of the updates is rejected (or none, when this is NU+1)
		if rejected <= sc.NU {
			sc.BadSq = []int{rejected}
		}
		w := vfpsNewWorld(t, sc, false, seed+int64(h))
		plan := []M{}
		for u := 1; u <= sc.NU; u++ {
			w.up[u].Allow = allows[rnd.Intn(len(allows))]
			w.up[u].API = []string{"policy", "export"}[rnd.Intn(2)]
			if u == 1 && h%2 == 0 && len(w.up[u].Allow) == 0 {
				w.up[u].Allow = []int{1} // make sure a list is installed through UpdatePolicyOptions
				w.up[u].API = "policy"
			}
			plan = append(plan, M{"u": u, "api": w.up[u].API, "allow": w.up[u].Allow, "rejected": w.up[u].BadSq})
		}
		reset := w.resetLine(sc, "alias")
		hook := vfpsHook
		vfpsCur.Store(w)
		vfHookP.Store(&hook)
		r := 0
		probe := func(allow []int) {
			// one request from an address the policy in force admits, one from an address it refuses (when it has a
			// list), one from the address the harness writes over the caller's values
			classes := []int{1}
			if len(allow) > 0 {
				classes = []int{allow[rnd.Intn(len(allow))], vfpsDeny(allow)[0]}
			}
			classes = append(classes, 4)
			for _, k := range classes {
				if r >= sc.NR {
					return
				}
				r++
				w.rq[r].Cls = k
				w.startCall(r, 0)
				w.quiesce()
			}
		}
		// the options given to New
		vfpsScribble(w.opts0.AllowedIPs, w.opts0.RateLimitConfig, w.opts0.TLS)
		w.report()
		inForce := sc.Allow0
		probe(inForce)
		for u := 1; u <= sc.NU; u++ {
			w.startUpdate(u)
			w.quiesce()
			p := w.up[u]
			vfpsScribble(p.ownedIPs, p.ownedRL, p.ownedTLS)
			if !p.BadSq {
				inForce = p.Allow
			}
			w.report()
			probe(inForce)
		}
		w.finish()
		if len(sc.BadSq) > 0 {
			nontrivial++
		}
		if len(samples) < 1 {
			samples = append(samples, M{"allow0": sc.Allow0, "updates": plan})
		}
		events += w.flush(tr, reset)
	}
	vfWriteJSON(t, "ps_alias.summary.json", M{"histories": nh, "events": events, "nontrivial": nontrivial, "samples": samples})
}

// ---------------------------------------------------------------- limiter clause (finding F10)

// TestVF_PolicySwapLimiter: sequential histories over real TCP: connections opened before an update
// that enables / replaces / disables rate limiting, then requests on old and new connections.
func TestVF_PolicySwapLimiter(t *testing.T) {
	vfpsRequireHooks(t)
	seed := vfSeed()
	tr := vfNewTrace(t, "ps_lim.ndjson")
	defer tr.Close()
	type script struct {
		name   string
		budget int
		limon  []int
		nr, nu int
		steps  []vfpsStep
	}
	call := func(r, c int) vfpsStep { return vfpsStep{A: "call", R: r, C: c} }
	scripts := []script{
		// the directed reproducer: a connection opened earlier is never limited after enabling
		{"enable-old-conn", 1, []int{1}, 8, 1, []vfpsStep{{A: "open", C: 1}, call(1, 1), {A: "upd", U: 1}, call(2, 1), call(3, 1), call(4, 1),
			{A: "open", C: 2}, call(5, 2), call(6, 2), call(7, 2), call(8, 1)}},
		// a limiter replaced by a fresh one: the old connection keeps drawing on the exhausted bucket
		{"replace", 2, []int{1, 2}, 9, 2, []vfpsStep{{A: "upd", U: 1}, {A: "open", C: 1}, call(1, 1), call(2, 1), call(3, 1), {A: "upd", U: 2},
			call(4, 1), {A: "open", C: 2}, call(5, 2), call(6, 2), call(7, 2), call(8, 1), call(9, 2)}},
		// enabled then disabled: nothing is limited afterwards on any connection
		{"disable", 1, []int{1}, 7, 2, []vfpsStep{{A: "upd", U: 1}, {A: "open", C: 1}, call(1, 1), call(2, 1), {A: "upd", U: 2}, call(3, 1),
			{A: "open", C: 2}, call(4, 2), call(5, 1), call(6, 2), call(7, 1)}},
		// connection opened while disabled, limiter enabled twice
		{"enable-twice", 1, []int{1, 2}, 8, 2, []vfpsStep{{A: "open", C: 1}, call(1, 1), {A: "upd", U: 1}, {A: "open", C: 2}, call(2, 2), call(3, 2),
			{A: "upd", U: 2}, call(4, 1), call(5, 2), {A: "open", C: 3}, call(6, 3), call(7, 3), call(8, 1)}},
	}
	reps := 1
	if vfThorough() {
		reps = 3
	}
	events, hist, limited := 0, 0, 0
	var samples []M
	for rep := 0; rep < reps; rep++ {
		for i, s := range scripts {
			sc := &vfpsSched{ID: rep*len(scripts) + i, Mode: "tcp", Budget: s.budget, LimOn: s.limon, NR: s.nr, NU: s.nu, NC: 3, Steps: s.steps}
			w := vfpsNewWorld(t, sc, false, seed)
			for _, p := range w.up {
				p.API = []string{"policy", "export"}[(rep+i+p.U)%2]
			}
			reset := w.resetLine(sc, "limiter:"+s.name)
			hook := vfpsHook
			vfpsCur.Store(w)
			vfHookP.Store(&hook)
			for _, st := range sc.Steps {
				switch st.A {
				case "open":
					w.openConn(st.C)
				case "call":
					w.startCall(st.R, st.C)
				case "upd":
					w.startUpdate(st.U)
				}
				w.quiesce()
			}
			w.finish()
			for _, q := range w.rq {
				if q.kind == "limited" {
					limited++
				}
			}
			if len(samples) < 1 {
				samples = append(samples, M{"script": s.name, "steps": s.steps})
			}
			events += w.flush(tr, reset)
			hist++
		}
	}
	vfWriteJSON(t, "ps_lim.summary.json", M{"histories": hist, "events": events, "limited": limited, "samples": samples})
}

// TestVF_PolicySwapRaces: connection set-up and requests concurrent with updates (run under -race;
// the race reports are collected from GORACE log_path by the check).
func TestVF_PolicySwapRaces(t *testing.T) {
	vfpsRequireHooks(t)
	seed := vfSeed()
	nh := vfEnvInt("VF_RACE_HIST", 6)
	tr := vfNewTrace(t, "ps_race.ndjson")
	defer tr.Close()
	events := 0
	for h := 0; h < nh; h++ {
		rnd := vfRand(seed, fmt.Sprintf("psrace%d", h))
		sc := &vfpsSched{ID: h, Mode: "tcp", Budget: 2, NR: 6, NU: 2, NC: 3, LimOn: []int{1 + rnd.Intn(2)}}
		w := vfpsNewWorld(t, sc, false, seed+int64(h))
		reset := w.resetLine(sc, "race")
		hook := vfpsHook
		vfpsCur.Store(w)
		vfHookP.Store(&hook)
		var wg sync.WaitGroup
		for c := 1; c <= sc.NC; c++ {
			wg.Add(1)
			delay := time.Duration(rnd.Intn(300)) * time.Microsecond
			go func(c int) {
				defer wg.Done()
				time.Sleep(delay)
				w.openConn(c)
				for k := 0; k < 2; k++ {
					r := (c-1)*2 + k + 1
					w.startCall(r, c)
					// one request at a time per connection
					for {
						w.mu.Lock()
						done := w.rq[r].returned
						w.mu.Unlock()
						if done {
							break
						}
						time.Sleep(100 * time.Microsecond)
					}
				}
			}(c)
		}
		for u := 1; u <= sc.NU; u++ {
			time.Sleep(time.Duration(100+rnd.Intn(400)) * time.Microsecond)
			w.startUpdate(u)
		}
		wg.Wait()
		w.finish()
		events += w.flush(tr, reset)
	}
	vfWriteJSON(t, "ps_race.summary.json", M{"histories": nh, "events": events})
}

// ---------------------------------------------------------------- minimal ONC RPC client over TCP (record marking)

type vfpcConn struct {
	c    net.Conn
	port int
	mu   sync.Mutex
}

func vfpcDial(port int) (*vfpcConn, error) {
	c, err := net.DialTimeout("tcp", fmt.Sprintf("127.0.0.1:%d", port), 3*time.Second)
	if err != nil {
		return nil, err
	}
	return &vfpcConn{c: c, port: c.LocalAddr().(*net.TCPAddr).Port}, nil
}

func (cc *vfpcConn) Close() { cc.c.Close() }

func vfpcCallBytes(xid, prog, vers, proc uint32, args []byte) []byte {
	var b bytes.Buffer
	for _, v := range []uint32{xid, RPC_CALL, 2, prog, vers, proc} {
		xdrEncodeUint32(&b, v)
	}
	cred := vfAuthSysBody(1, "vf", 0, 0, nil)
	xdrEncodeUint32(&b, AUTH_SYS)
	xdrEncodeUint32(&b, uint32(len(cred)))
	b.Write(cred)
	xdrEncodeUint32(&b, 0) // verifier AUTH_NONE
	xdrEncodeUint32(&b, 0)
	b.Write(args)
	return b.Bytes()
}

// Call sends one record-marked call and classifies the reply:
// ok | limited (MSG_DENIED) | jukebox | closed (connection ended) | timeout (no reply in time) | bad
func (cc *vfpcConn) Call(xid, prog, vers, proc uint32, args []byte, wait time.Duration) string {
	cc.mu.Lock()
	defer cc.mu.Unlock()
	msg := vfpcCallBytes(xid, prog, vers, proc, args)
	var hdr [4]byte
	binary.BigEndian.PutUint32(hdr[:], 0x80000000|uint32(len(msg)))
	cc.c.SetDeadline(time.Now().Add(wait))
	if _, err := cc.c.Write(append(hdr[:], msg...)); err != nil {
		return "closed"
	}
	var rec []byte
	for {
		if _, err := io.ReadFull(cc.c, hdr[:]); err != nil {
			if ne, ok := err.(net.Error); ok && ne.Timeout() {
				return "timeout"
			}
			return "closed"
		}
		m := binary.BigEndian.Uint32(hdr[:])
		frag := make([]byte, m&0x7fffffff)
		if _, err := io.ReadFull(cc.c, frag); err != nil {
			return "closed"
		}
		rec = append(rec, frag...)
		if m&0x80000000 != 0 {
			break
		}
	}
	if len(rec) < 12 || binary.BigEndian.Uint32(rec[0:4]) != xid {
		return "bad"
	}
	if binary.BigEndian.Uint32(rec[8:12]) == MSG_DENIED {
		return "limited"
	}
	r := &vfRaw{Wire: rec}
	vfParseRPCReply(r)
	if r.Accept == SUCCESS && len(r.Body) >= 4 && binary.BigEndian.Uint32(r.Body[:4]) == NFSERR_JUKEBOX {
		return "jukebox"
	}
	return "ok"
}

package absnfs

// vf_tls.go: driver for C30 (specs/TLSPolicy).
//
//   TestVF_TLS : reads the vectors TLC generated (specs/TLSPolicy/TLSGen.tla, $VF_TLS_VECTORS):
//                every TLS configuration (MinVersion/MaxVersion in {unset, 1.0..1.3}^2 x five
//                ClientAuth modes x CA file present/absent) with every client (version range x
//                certificate kind none / self-signed / signed by the configured CA / signed by
//                another CA).  For each configuration it starts a real server (New + Server.Listen,
//                TLS branch) and performs real crypto/tls handshakes over loopback; a handshake
//                counts as completed when the server answered a record-marked NULL call on the
//                session (with TLS 1.3 the client finishes before the server has judged the
//                client certificate).  Then rotation histories: certificates A, B, C are swapped on
//                disk, ReloadCertificates is called on GetExportOptions().TLS (the documented step)
//                or on the object the caller passed to New, and new handshakes record which
//                certificate the listener presents.
//
// Certificates are generated with crypto/x509 in the scratch directory. The harness records;
// specs/TLSPolicy/TLSTrace.tla decides.

import (
	"bufio"
	"crypto/ecdsa"
	"crypto/elliptic"
	crand "crypto/rand"
	"crypto/tls"
	"crypto/x509"
	"crypto/x509/pkix"
	"encoding/binary"
	"encoding/json"
	"encoding/pem"
	"io"
	"math/big"
	"net"
	"os"
	"path/filepath"
	"strings"
	"testing"
	"time"
)

type vftlsCfg struct {
	Min    int    `json:"min"`
	Max    int    `json:"max"`
	Auth   string `json:"auth"`
	CA     bool   `json:"ca"`
	Skip   bool   `json:"skip"`   // InsecureSkipVerify
	Suites string `json:"suites"` // "default" (empty list) | "listed" (DefaultTLSConfig's list)
}

type vftlsCl struct {
	Lo   int    `json:"lo"`
	Hi   int    `json:"hi"`
	Cert string `json:"cert"`
}

type vftlsVec struct {
	Cfg     vftlsCfg `json:"cfg"`
	Accepts bool     `json:"accepts"`
	Clients []struct {
		Cl     vftlsCl `json:"cl"`
		Expect struct {
			OK  bool `json:"ok"`
			Ver int  `json:"ver"`
		} `json:"expect"`
	} `json:"clients"`
}

func vftlsVer(v int) uint16 {
	switch v {
	case 10:
		return tls.VersionTLS10
	case 11:
		return tls.VersionTLS11
	case 12:
		return tls.VersionTLS12
	case 13:
		return tls.VersionTLS13
	}
	return 0
}

func vftlsVerBack(v uint16) int {
	switch v {
	case tls.VersionTLS10:
		return 10
	case tls.VersionTLS11:
		return 11
	case tls.VersionTLS12:
		return 12
	case tls.VersionTLS13:
		return 13
	}
	return 0
}

func vftlsAuth(s string) tls.ClientAuthType {
	switch s {
	case "request":
		return tls.RequestClientCert
	case "requireAny":
		return tls.RequireAnyClientCert
	case "verifyIfGiven":
		return tls.VerifyClientCertIfGiven
	case "requireAndVerify":
		return tls.RequireAndVerifyClientCert
	}
	return tls.NoClientCert
}

// ---------------------------------------------------------------- certificates

type vftlsPKI struct {
	dir     string
	caPool  *x509.CertPool // verifies the server certificates
	caFile  string
	clients map[string]*tls.Certificate // "self", "ca", "other", "public"
	serials map[string]string           // serial (decimal) -> "A" | "B" | "C"
	planted bool                        // the public CA is in this process's system trust store
}

func vftlsKey(t testing.TB) *ecdsa.PrivateKey {
	k, err := ecdsa.GenerateKey(elliptic.P256(), crand.Reader)
	if err != nil {
		t.Fatalf("key: %v", err)
	}
	return k
}

func vftlsWritePEM(t testing.TB, path, typ string, der []byte) {
	if err := os.WriteFile(path, pem.EncodeToMemory(&pem.Block{Type: typ, Bytes: der}), 0600); err != nil {
		t.Fatalf("write %s: %v", path, err)
	}
}

func vftlsCA(t testing.TB, cn string, serial int64) (*x509.Certificate, *ecdsa.PrivateKey, []byte) {
	k := vftlsKey(t)
	tpl := &x509.Certificate{SerialNumber: big.NewInt(serial), Subject: pkix.Name{CommonName: cn},
		NotBefore: time.Now().Add(-time.Hour), NotAfter: time.Now().Add(24 * time.Hour),
		IsCA: true, BasicConstraintsValid: true, KeyUsage: x509.KeyUsageCertSign | x509.KeyUsageDigitalSignature}
	der, err := x509.CreateCertificate(crand.Reader, tpl, tpl, &k.PublicKey, k)
	if err != nil {
		t.Fatalf("ca: %v", err)
	}
	c, _ := x509.ParseCertificate(der)
	return c, k, der
}

func vftlsLeaf(t testing.TB, cn string, serial int64, server bool, ca *x509.Certificate, cak *ecdsa.PrivateKey) ([]byte, *ecdsa.PrivateKey) {
	k := vftlsKey(t)
	tpl := &x509.Certificate{SerialNumber: big.NewInt(serial), Subject: pkix.Name{CommonName: cn},
		NotBefore: time.Now().Add(-time.Hour), NotAfter: time.Now().Add(24 * time.Hour),
		KeyUsage: x509.KeyUsageDigitalSignature}
	if server {
		tpl.ExtKeyUsage = []x509.ExtKeyUsage{x509.ExtKeyUsageServerAuth}
		tpl.IPAddresses = []net.IP{net.IPv4(127, 0, 0, 1)}
		tpl.DNSNames = []string{"localhost"}
	} else {
		tpl.ExtKeyUsage = []x509.ExtKeyUsage{x509.ExtKeyUsageClientAuth}
	}
	parent, pk := ca, cak
	if ca == nil { // self-signed
		parent, pk = tpl, k
	}
	der, err := x509.CreateCertificate(crand.Reader, tpl, parent, &k.PublicKey, pk)
	if err != nil {
		t.Fatalf("leaf: %v", err)
	}
	return der, k
}

func vftlsNewPKI(t testing.TB) *vftlsPKI {
	dir := filepath.Join(vfOutDir(t), "tlspki")
	os.MkdirAll(dir, 0700)
	p := &vftlsPKI{dir: dir, caPool: x509.NewCertPool(), clients: map[string]*tls.Certificate{}, serials: map[string]string{}}
	ca1, ca1k, ca1der := vftlsCA(t, "vf CA one", 1)
	ca2, ca2k, _ := vftlsCA(t, "vf CA two", 2)
	p.caPool.AddCert(ca1)
	p.caFile = filepath.Join(dir, "ca.pem")
	vftlsWritePEM(t, p.caFile, "CERTIFICATE", ca1der)
	for i, name := range []string{"A", "B", "C"} {
		der, k := vftlsLeaf(t, "vf server "+name, int64(101+i), true, ca1, ca1k)
		kd, _ := x509.MarshalECPrivateKey(k)
		vftlsWritePEM(t, filepath.Join(dir, "srv"+name+".crt"), "CERTIFICATE", der)
		vftlsWritePEM(t, filepath.Join(dir, "srv"+name+".key"), "EC PRIVATE KEY", kd)
		p.serials[big.NewInt(int64(101+i)).String()] = name
	}
	mk := func(kind string, serial int64, ca *x509.Certificate, cak *ecdsa.PrivateKey) {
		der, k := vftlsLeaf(t, "vf client "+kind, serial, false, ca, cak)
		p.clients[kind] = &tls.Certificate{Certificate: [][]byte{der}, PrivateKey: k}
	}
	mk("ca", 201, ca1, ca1k)
	mk("other", 202, ca2, ca2k)
	mk("self", 203, nil, nil)
	// a CA of the host's trust store that is not the configured CA: the process's system store is
	// replaced by this one CA (SSL_CERT_FILE / SSL_CERT_DIR are read when the store is first used,
	// which has not happened yet in this process)
	ca3, ca3k, ca3der := vftlsCA(t, "vf public CA", 3)
	pub := filepath.Join(dir, "public-ca.pem")
	vftlsWritePEM(t, pub, "CERTIFICATE", ca3der)
	empty := filepath.Join(dir, "empty-certs")
	os.MkdirAll(empty, 0700)
	os.Setenv("SSL_CERT_FILE", pub)
	os.Setenv("SSL_CERT_DIR", empty)
	mk("public", 204, ca3, ca3k)
	if sys, err := x509.SystemCertPool(); err == nil && sys != nil {
		leaf, _ := x509.ParseCertificate(p.clients["public"].Certificate[0])
		if _, verr := leaf.Verify(x509.VerifyOptions{Roots: sys, KeyUsages: []x509.ExtKeyUsage{x509.ExtKeyUsageClientAuth}}); verr == nil {
			p.planted = true
		}
	}
	_ = ca3
	return p
}

// install copies server certificate `name` to the live CertFile/KeyFile paths.
func (p *vftlsPKI) install(t testing.TB, name string) (string, string) {
	cf, kf := filepath.Join(p.dir, "live.crt"), filepath.Join(p.dir, "live.key")
	for _, x := range [][2]string{{"srv" + name + ".crt", cf}, {"srv" + name + ".key", kf}} {
		b, err := os.ReadFile(filepath.Join(p.dir, x[0]))
		if err != nil {
			t.Fatalf("install: %v", err)
		}
		if err := os.WriteFile(x[1], b, 0600); err != nil {
			t.Fatalf("install: %v", err)
		}
	}
	return cf, kf
}

// ---------------------------------------------------------------- one handshake + NULL call

type vftlsOutcome struct {
	OK        bool
	Ver       int
	Stage     string // where it stopped: dial | handshake | call
	Presented string // which server certificate was presented
}

func (p *vftlsPKI) hello(addr string, cl vftlsCl) vftlsOutcome {
	out := vftlsOutcome{Stage: "dial", Presented: "none"}
	raw, err := net.DialTimeout("tcp", addr, 10*time.Second)
	if err != nil {
		return out
	}
	defer raw.Close()
	conf := &tls.Config{MinVersion: vftlsVer(cl.Lo), MaxVersion: vftlsVer(cl.Hi), RootCAs: p.caPool, ServerName: "127.0.0.1"}
	if c := p.clients[cl.Cert]; c != nil {
		cert := c
		// offer the certificate whatever issuers the server names (a client that insists on its identity)
		conf.GetClientCertificate = func(*tls.CertificateRequestInfo) (*tls.Certificate, error) { return cert, nil }
	}
	conn := tls.Client(raw, conf)
	conn.SetDeadline(time.Now().Add(20 * time.Second))
	out.Stage = "handshake"
	if err := conn.Handshake(); err != nil {
		return out
	}
	st := conn.ConnectionState()
	out.Ver = vftlsVerBack(st.Version)
	if len(st.PeerCertificates) > 0 {
		if n, ok := p.serials[st.PeerCertificates[0].SerialNumber.String()]; ok {
			out.Presented = n
		} else {
			out.Presented = "other"
		}
	}
	out.Stage = "call"
	// record-marked NFS NULL, AUTH_NONE
	msg := make([]byte, 0, 44)
	for _, w := range []uint32{0x80000000 | 40, 0x7105, 0, 2, NFS_PROGRAM, NFS_V3, 0, 0, 0, 0, 0} {
		msg = binary.BigEndian.AppendUint32(msg, w)
	}
	if _, err := conn.Write(msg); err != nil {
		return out
	}
	var h [4]byte
	if _, err := io.ReadFull(conn, h[:]); err != nil {
		return out
	}
	n := int(binary.BigEndian.Uint32(h[:]) & 0x7fffffff)
	if n < 24 || n > 4096 {
		return out
	}
	body := make([]byte, n)
	if _, err := io.ReadFull(conn, body); err != nil {
		return out
	}
	if binary.BigEndian.Uint32(body[0:4]) != 0x7105 || binary.BigEndian.Uint32(body[4:8]) != 1 {
		return out
	}
	out.OK, out.Stage = true, "done"
	return out
}

// ---------------------------------------------------------------- servers

type vftlsServer struct {
	n      *AbsfsNFS
	srv    *Server
	addr   string
	caller *TLSConfig    // the object handed to New
	pre    ExportOptions // GetExportOptions() taken before Listen and kept
	held   ExportOptions // GetExportOptions() taken right after Listen and kept
}

func (p *vftlsPKI) start(t testing.TB, c vftlsCfg) (*vftlsServer, error) {
	cf, kf := p.install(t, "A")
	tc := &TLSConfig{Enabled: true, CertFile: cf, KeyFile: kf, ClientAuth: vftlsAuth(c.Auth), MinVersion: vftlsVer(c.Min), MaxVersion: vftlsVer(c.Max),
		InsecureSkipVerify: c.Skip}
	if c.Suites == "listed" {
		tc.CipherSuites = DefaultTLSConfig().CipherSuites
	}
	if c.CA {
		tc.CAFile = p.caFile
	}
	n, err := New(vfNewFS(), ExportOptions{TLS: tc})
	if err != nil {
		return nil, err
	}
	n.logger.SetOutput(io.Discard)
	pre := n.GetExportOptions() // an application may read its settings back before it starts listening
	srv, err := NewServer(ServerOptions{Name: "vf", Port: 0, Hostname: "127.0.0.1", UseRecordMarking: true})
	if err != nil {
		n.Close()
		t.Fatalf("NewServer: %v", err)
	}
	srv.logger.SetOutput(io.Discard)
	srv.SetHandler(n)
	if err := srv.Listen(); err != nil {
		n.Close()
		return nil, err
	}
	return &vftlsServer{n: n, srv: srv, addr: srv.listener.Addr().String(), caller: tc, pre: pre, held: n.GetExportOptions()}, nil
}

func (s *vftlsServer) stop() {
	s.srv.Stop()
	s.n.Close()
}

func TestVF_TLS(t *testing.T) {
	vp := os.Getenv("VF_TLS_VECTORS")
	if vp == "" {
		t.Fatalf("VF_TLS_VECTORS not set")
	}
	f, err := os.Open(vp)
	if err != nil {
		t.Fatalf("vectors: %v", err)
	}
	defer f.Close()
	var vecs []vftlsVec
	sc := bufio.NewScanner(f)
	sc.Buffer(make([]byte, 1<<20), 1<<26)
	for sc.Scan() {
		if strings.TrimSpace(sc.Text()) == "" {
			continue
		}
		var v vftlsVec
		if err := json.Unmarshal(sc.Bytes(), &v); err != nil {
			t.Fatalf("vector: %v", err)
		}
		vecs = append(vecs, v)
	}
	every := vfEnvInt("VF_TLS_EVERY", 1)            // client sampling for configurations with InsecureSkipVerify / a cipher-suite list
	everyPlain := vfEnvInt("VF_TLS_EVERY_PLAIN", 1) // client sampling for the others
	seed := int(vfSeed() % 1000)
	pki := vftlsNewPKI(t)
	tr := vfNewTrace(t, "tls.ndjson")
	defer tr.Close()
	nhs, ncompleted, nontrivial := 0, 0, 0
	var samples []M
	for vi, v := range vecs {
		s, err := pki.start(t, v.Cfg)
		es := ""
		if err != nil {
			es = err.Error()
		}
		tr.Emit(M{"ev": "cfg", "cfg": v.Cfg, "listening": err == nil, "err": es})
		if err != nil {
			continue
		}
		okSeen, failSeen := false, false
		for ci, c := range v.Clients {
			if c.Cl.Cert == "public" && !pki.planted {
				continue
			}
			k := everyPlain
			if v.Cfg.Skip || v.Cfg.Suites != "default" {
				k = every
			}
			if k > 1 { // a seeded pseudo-random 1/k of the clients of this configuration
				h := uint32(vi*7919+ci*104729+seed*31337) * 2654435761
				if int((h>>13)%uint32(k)) != 0 {
					continue
				}
			}
			o := pki.hello(s.addr, c.Cl)
			tr.Emit(M{"ev": "hs", "cl": c.Cl, "ok": o.OK, "ver": map[bool]int{true: o.Ver, false: 0}[o.OK], "stage": o.Stage, "presented": o.Presented,
				"hsver": o.Ver})
			nhs++
			if o.OK {
				ncompleted++
				okSeen = true
			} else {
				failSeen = true
			}
			if len(samples) < 3 && o.OK && c.Cl.Cert == "ca" && v.Cfg.Auth == "requireAndVerify" {
				samples = append(samples, M{"cfg": v.Cfg, "client": c.Cl, "completed": o.OK, "version": o.Ver})
			}
		}
		if okSeen && failSeen {
			nontrivial++
		}
		s.stop()
	}
	// ---- rotation histories
	rotHist := [][][2]string{
		// the documented procedure, twice
		{{"hs", ""}, {"rotate", "B"}, {"hs", ""}, {"reload_snapshot", ""}, {"hs", ""}, {"rotate", "C"}, {"reload_snapshot", ""}, {"hs", ""}, {"hs", ""}},
		// reload through the caller's own object, then the documented step
		{{"rotate", "B"}, {"reload_caller", ""}, {"hs", ""}, {"reload_snapshot", ""}, {"hs", ""}},
		// reload with unchanged files is harmless; rotate back to A
		{{"reload_snapshot", ""}, {"hs", ""}, {"rotate", "C"}, {"rotate", "A"}, {"reload_snapshot", ""}, {"hs", ""}, {"rotate", "B"}, {"reload_snapshot", ""}, {"hs", ""}},
		// the TLS settings were read back before Listen and kept: every rotation goes through that object
		{{"hs", ""}, {"rotate", "B"}, {"reload_presnapshot", ""}, {"hs", ""}, {"rotate", "C"}, {"reload_presnapshot", ""}, {"hs", ""}},
		// settings read back once after Listen and kept
		{{"rotate", "C"}, {"reload_held", ""}, {"hs", ""}, {"rotate", "A"}, {"reload_held", ""}, {"hs", ""}},
		// the options read back before Listen are written back (UpdateExportOptions), then the documented step
		{{"update_from_presnapshot", ""}, {"hs", ""}, {"rotate", "B"}, {"reload_snapshot", ""}, {"hs", ""}, {"rotate", "C"}, {"reload_presnapshot", ""}, {"hs", ""}},
	}
	rotCfgs := []vftlsCfg{{Min: 12, Max: 13, Auth: "none", Suites: "default"}, {Min: 0, Max: 0, Auth: "requireAndVerify", CA: true, Suites: "default"},
		{Min: 13, Max: 13, Auth: "request", Suites: "listed"}, {Min: 12, Max: 12, Auth: "verifyIfGiven", CA: true, Skip: true, Suites: "default"}}
	nrot := 0
	for hi, h := range rotHist {
		c := rotCfgs[hi%len(rotCfgs)]
		s, err := pki.start(t, c)
		es := ""
		if err != nil {
			es = err.Error()
		}
		tr.Emit(M{"ev": "cfg", "cfg": c, "listening": err == nil, "err": es})
		if err != nil {
			continue
		}
		var ops []M
		for _, st := range h {
			m := M{"ev": "rot", "act": st[0], "arg": st[1], "ok": true, "presented": "none", "err": ""}
			switch st[0] {
			case "rotate":
				pki.install(t, st[1])
			case "reload_snapshot":
				opts := s.n.GetExportOptions()
				if opts.TLS == nil {
					m["ok"], m["err"] = false, "GetExportOptions().TLS is nil"
				} else if err := opts.TLS.ReloadCertificates(); err != nil {
					m["ok"], m["err"] = false, err.Error()
				}
			case "reload_presnapshot", "reload_held":
				o := s.pre
				if st[0] == "reload_held" {
					o = s.held
				}
				if o.TLS == nil {
					m["ok"], m["err"] = false, "GetExportOptions().TLS is nil"
				} else if err := o.TLS.ReloadCertificates(); err != nil {
					m["ok"], m["err"] = false, err.Error()
				}
			case "update_from_presnapshot":
				if err := s.n.UpdateExportOptions(s.pre); err != nil {
					m["ok"], m["err"] = false, err.Error()
				}
			case "reload_caller":
				if err := s.caller.ReloadCertificates(); err != nil {
					m["ok"], m["err"] = false, err.Error()
				}
			case "hs":
				o := pki.hello(s.addr, vftlsCl{Lo: 12, Hi: 13, Cert: "ca"})
				m["ok"], m["presented"] = o.OK, o.Presented
			}
			tr.Emit(m)
			ops = append(ops, M{"act": st[0], "arg": st[1], "ok": m["ok"], "presented": m["presented"]})
			nrot++
		}
		if hi == 0 {
			samples = append(samples, M{"rotation": ops})
		}
		s.stop()
	}
	vfWriteJSON(t, "tls.summary.json", M{"configs": len(vecs), "handshakes": nhs, "completed": ncompleted, "nontrivial": nontrivial,
		"rotation_steps": nrot, "lines": tr.n, "samples": samples, "public_planted": pki.planted})
}
